# writes /verif/MANIFEST.json from the table below (kept in one place so it stays valid)
import json
import os

VERIF = os.path.dirname(os.path.dirname(os.path.abspath(__file__)))

LEVEL_NOTE = ("Trusted: Coq 8.16.1 kernel; axioms listed per theorem by Print Assumptions (recorded in the evidence file); "
              "extraction with ExtrOcamlBasic only + ocaml/driver.ml; the correspondence harness (harness/wbprobe.cc, lib/*.py "
              "generator and JSON->model elaboration); g++/glibc shared by both sides. The model is hand-written Gallina "
              "(coq/*.v) and is tied to /repo on every run by bit-level differential execution against a rebuild of the "
              "working tree; theorems are about the model.")

CHECKS = {
    "C01": ("Theorems (Properties_C01.v, all closed under the global context): a batched answer has the announced size; block i "
            "at the prefix-sum offset equals the stand-alone answer of request i in the 3-D and the 2-D interface; history and "
            "tape position are irrelevant without random models. Tie: extracted model vs wbprobe bit-for-bit on generated "
            "worlds; failing-input search: batched vs stand-alone vs single-property entry points vs twin world on the implementation.",
            "proof of block/offset theorems over the Gallina evaluator + bit-exact correspondence + impl-vs-impl oracle", "4 C01"),
    "C03": ("Theorems (Properties_C03.v): outside every feature the answer is the concatenation of the background blocks "
            "(closed form is the specification term); forced surface temperature returned for every request shape. Tie and "
            "search as C01, oracle = closed form recomputed independently.",
            "proof over the Gallina evaluator + bit-exact correspondence + closed-form oracle", "4 C03"),
    "C09": ("Theorems (Properties_C09.v): the 2-D -> 3-D map is the section point of the property text; every 2-D block is the "
            "3-D block at that point with velocity projected; refusal without cross section. Tie: bit-exact correspondence; "
            "search: implementation 2-D vs 3-D at the independently mapped point.",
            "proof over the Gallina evaluator + bit-exact correspondence + 2-D-vs-3-D oracle", "4 C09"),
    "C02": ("Theorems (Properties_C02.v, axiom-free): deleting a non-covering feature leaves the answer unchanged; the answer is the "
            "fold over the covering features in file order (any permutation/deletion of the others); the tag is that of the last "
            "covering feature; operation semantics incl. composition replace vs replace-defined-only; a feature without models of "
            "a kind leaves the block untouched. Tie: bit-exact correspondence of the area-feature/plume models; search: "
            "implementation vs implementation on worlds with non-covering features deleted/moved and models stripped.",
            "proof by induction over the feature list + bit-exact correspondence + delete/permute/strip oracle", "4 C02"),
    "C04": ("Theorems (Properties_C04.v, over exact reals): the library's polygon test, as modelled in Kernels.v, accepts a point "
            "iff it lies on an edge or has non-zero winding number (any vertex list, either orientation, size_t wrap included); "
            "spherical alias; area feature = polygon x depth interval; plume table lookup, cyclic angle interpolation (invisible "
            "full turns), unchanged continuation below and half-ellipsoid head. Tie: bit-exact correspondence on >10^4 kernel and "
            "world cases per run; search: exact rational oracle on lattices, definition-based oracle for plumes.",
            "proof over Reals of the winding-number kernel + bit-exact correspondence + exact rational oracle", "4 C04"),
    "C19": ("Theorems (Properties_C19.v, over exact reals): the pruned kd-tree search returns a node at the true minimum distance "
            "for every node array with the nth_element invariant; polygon test = closed-polygon definition; the trench curve "
            "passes through its coordinates and the reported closest point is the curve point at the reported parameter; the "
            "same-depth distance is r*acos of the spherical law of cosines for every pair; spherical round trip (atan2 law as "
            "premise). Not a theorem: optimality of the Newton closest point (dense-scan search). Tie: kernels called directly "
            "through wbprobe vs the extracted model, bit-for-bit, the kd node array taken from the implementation and checked "
            "against kd_inv; the polygon scan and the kd search are also evaluated inside Coq on primitive floats (NumF.v) and "
            "compared with the extracted model (cross-check of extraction).",
            "proof over Reals of kd search / winding number / great circle / Bezier identities + bit-exact kernel correspondence + brute-force oracles", "4 C19"),
    "C11": ("Theorems (Properties_C11.v, over exact reals): the interpolated depth is the barycentric combination of the nodal "
            "values; bounded by the smallest/largest nodal value inside a triangle; nodal at the vertices; affine data are "
            "reproduced by every non-degenerate triangle (whatever triangulation); merging a listed point sets its value and "
            "keeps all others; over the reals no point of a closed (clockwise) triangle is missed by the point-in-triangle test; corner "
            "override is REFUTED for points with a zero coordinate (known finding D8, kept with a kernel-checked witness); for every number "
            "interpretation (binary64 included, axiom-free): whichever route of the triangle search of Surface::local_value answers (nearest centroid, its longitude "
            "alias, the other kd candidates, the loop over all nodes), the answer is what in_triangle computes for ONE triangle at the point or its alias, "
            "and the search fails only if no triangle of the kd array accepts the point (SurfaceLookup.v). Tie: Surface::local_value on the implementation's own triangle list / kd array vs the "
            "model bit-for-bit, merged node set vs the triangulation's vertex set. Known findings D8, D19 are reported as such.",
            "proof over Reals of barycentric interpolation + merge lemmas + bit-exact correspondence with Delaunay/kd data from the implementation", "4 C11"),
    "C14": ("Theorems (Properties_C14.v, axiom-free): a query neither reads nor changes mutable state (no random models), so after "
            "any interleaving of any number of per-thread streams it has the single-threaded answer; ThreadPool::parallel_for "
            "launches a partition of [start,end) with at most P non-empty consecutive slices for every range and thread count "
            "(every node exactly once). Not a theorem: race freedom in the C++ memory model (multi-threaded bit-identity runs and "
            "gwb-grid -j byte comparison are the search). Tie: ThreadPool compiled from gwb-grid/main.cc vs the model on all "
            "(n,P) of the stated box.",
            "proof by induction (schedule) and lia (slice partition) + exhaustive slice correspondence + concurrent-run oracle", "4 C14"),
    "C16": ("Theorems (Properties_C16.v, axiom-free) about the marshalling model: create_world hands file, flag, FULL directory and "
            "seed to the constructor for null and non-null pointers; properties_2d/3d, temperature, composition forward to the "
            "native entry points. The model is thin; the weight is on the tie: C API, wrapper_cpp and native World queried in one "
            "process, bit-identical answers, output directory observed through the files written, seed through random models.",
            "proof about the marshalling model + in-process wrapper-vs-native oracle", "4 C16"),
    "C17": ("Theorems (Properties_C17.v, axiom-free) about the layout model Dat.v: in 3-D every printed cell is the answer slot its "
            "header names (offsets = prefix sums of the request list) for every number of compositions, grain sets and grains, "
            "once the header's 'g' column is dropped; the 'g' column and the 2-D composition/grain offsets are REFUTED with "
            "kernel-checked witnesses (known findings D12a/D12b, encoded in the reference logs of the suite); 2-D tables without "
            "compositions are right; short '#' lines change nothing; rows are accepted iff they have dim+1 entries. Tie: the "
            "gwb-dat binary's stdout vs the model's layout filled with the library's answer from wbprobe; oracle: meaning of "
            "each header name.",
            "proof about the column-layout model + binary-vs-model correspondence + header-meaning oracle", "4 C17"),
    "C18": ("Theorems (Properties_C18.v; index theorems axiom-free, positions over reals): Cartesian grids have (nx+1)(ny+1)(nz+1) "
            "nodes and nx*ny*nz cells; the node stored at the linear index is lattice node (i,j,k); every cell lists the 4/8 "
            "corners of its lattice cell and references existing nodes only; first/last node on the box faces, Depth = top - z; "
            "the tag filter keeps exactly the selected cells with offsets nvert, 2 nvert, ...; 2-D chunks (node order, corners) and the "
            "annulus (corners with the ring wrap, the ring closes, angular positions, Depth = outer radius - radius); 3-D chunks use "
            "the box numbering; the sphere mesh (SphereGrid.v: twelve mapped blocks projected on the sphere, hulls merged by the distance "
            "tolerance, renumbered, stacked in layers), for every number interpretation: n_cell_z*12*n^2 cells of 4+4 vertices (a shell "
            "cell on layer i and on layer i+1), (n_cell_z+1) layers of n_kept nodes, every vertex index is a node, the renumbering after "
            "the merge is the order-preserving bijection of the kept nodes onto 0..n_kept-1, node i*n_kept+k is shell node k on layer i, no node is merged into a merged-away node when closeness of hull nodes is transitive; over the "
            "reals every node of layer i lies on the sphere of radius inner + i*(outer-inner)/n_cell_z (layer 0 = inner, last = outer). Not a theorem: XML writing (vtu11; all five "
            "write modes are decoded and compared with the ASCII file). Tie: connectivity of the binary's VTU vs the extracted model for "
            "boxes, chunks, annulus and sphere; the sphere's node coordinates and Depth as exact binary64 values (RawBinary file) vs the "
            "extracted model bit for bit; node values vs the library through wbprobe at the recomputed positions (all grid types).",
            "proof (lia/nia index theorems) + binary-vs-model connectivity correspondence + node-value oracle", "4 C18"),
    "C15": ("Theorems (Properties_C15.v): [S, axiom-free] every random grains block consumes exactly 3k (+k for random sizes) draws "
            "and every random composition one draw, blocks keep their announced length, equal worlds and equal histories give "
            "equal tape positions and answers; [R] the Arvo matrix (deflection included) satisfies M M^T = I and det M = +1 for "
            "all draws (nsatz), normalised sizes sum to one, a + u(b-a) lies in [a,b]; the engine (Mt19937.v models std::mt19937 and "
            "libstdc++'s generate_canonical<double,53>): every output is a 32-bit number, every step reads three real entries of a "
            "624-entry window, the number handed to a model lies in [0,1) over the reals, the published reference outputs are "
            "checked in-kernel. Tie: the model draws from its own engine and reproduces every answer of long query sequences bit "
            "for bit; the engine streams are compared draw by draw with std::mt19937 for every seed used; oracle: twin/other-seed "
            "worlds, orthonormality, sums, bounds. 'Different seeds give different draws' for all seeds is not a theorem (searched).",
            "proof (draw bookkeeping by induction, Arvo by nsatz over Reals, engine range by bit lemmas) + bit-exact correspondence with the model's own mt19937 + twin-world oracle", "4 C15"),
    "C05": ("Theorems (Properties_C05.v): [S] a model returns the old value outside its own range and apply_operation(op, old, "
            "closed form) inside it, with the sentinel rule 'negative = adiabatic/global value' visible in the dispatch; [R] the "
            "closed forms are the documented expressions (linear between the local top and bottom, Chapman, adiabat, half-space "
            "erfc profile) and the ridge distance uses the nearest point of the ridge segment. Tie: every area-feature and plume "
            "model vs the implementation bit for bit (incl. the 100-term plate series and the ridge/transform-fault logic); "
            "oracle: independent Python transcription of the documentation, relative 1e-9. Slab/fault models: C06/C20.",
            "proof of closed forms over Reals + dispatch theorem + bit-exact correspondence + documented-closed-form oracle", "4 C05"),
    "C20": ("Theorems (Properties_C20.v, over reals, erfc laws as premises): half-space cooling lies between top and bottom "
            "temperature, equals the top temperature at depth 0, is non-decreasing in depth and non-increasing in age; linear "
            "models attain their boundary temperatures and stay between them; the plate-model series vanishes at depth 0 and max "
            "depth (boundary temperatures attained); mass conserving slab (half-space reference): on and below the slab top the "
            "temperature lies between the model's minimum temperature and the background, and equals the minimum temperature on the "
            "slab top; above the slab top (both reference models) the Gaussian heat deficit never heats and never cools below the minimum "
            "temperature - 1e-16 (C20_mass_conserving_top_side; premise: non-positive top heat content, which the code enforces with its min()); "
            "the McKenzie series of the slab plate model vanishes on both slab surfaces; every truncated plate series stays "
            "within (bottom - top) x the amplitude sum of its terms of [top, bottom] (C20_plate_series_overshoot), for the constant-age "
            "model at most n*(2/pi)*exp(-pi^2*kappa*age/max_depth^2) (C20_constant_age_overshoot), for the ridge-age model with the first term's exponent (C20_ridge_age_overshoot); the bound is checked on every plate-model ladder. "
            "Not proved (false for a truncated series near the ridge, known finding D15 for kappa*age/max_depth^2 < 1e-3): the strict "
            "envelope of the series; searched: the heat anomaly above the slab top and the "
            "plate reference of the mass-conserving model (searched). Tie: bit-exact correspondence of the cooling models; "
            "oracle: depth and age ladders on the implementation.",
            "proof of envelopes over Reals (erfc laws as premises) + bit-exact correspondence + ladder oracle", "4 C20"),
    "C06": ("Theorems (Properties_C06.v, over exact reals; atan2 polar law as premise): the executable specification "
            "SlabSpec.planar_distance is the elementary construction - for a straight piece the point at arclength a offset d "
            "along the downward normal gets (d, a), is admissible iff 0 <= a <= L and no point of the line is closer than |d|; an "
            "arc starts at the start point, its tangent at parameter th dips by th with speed R = L/|t2-t1| (dip linear in "
            "arclength), a point offset d from the arc point of dip phi gets (d, R|phi-t1|) and no point of the circle is closer; "
            "the chain reports an admissible piece with the previous lengths added; refinement: the straight-piece computation of "
            "the model of distance_point_from_curved_planes equals the specification (arcs and the 3-D frame: executable "
            "comparison only). Tie: SlabModel.v (the routine itself, Cartesian) vs World::distance_to_plane and SlabFeature.v vs "
            "World::properties bit for bit (culling hook off); the extracted specification vs the implementation within "
            "1 mm + 1e-9 L; the four-clause membership vs the tag on points aimed at the surface.",
            "proof over Reals (specification = elementary construction; model refines it on straight pieces) + bit-exact model correspondence + spec-vs-implementation comparison + membership oracle", "4 C06 / 9.3"),
    "C07": ("Theorems (Properties_C07.v, over exact reals): inside a triangle the interpolated depth lies between the extreme nodal "
            "values, so the global min/max pre-test never rejects what the local test accepts; the pruned kd search returns a true "
            "nearest centroid; for every chain the planar specification can walk - straight pieces and circular arcs - a member lies no "
            "deeper than min depth + total length + |distance| and horizontally within total length + |distance| of the trench "
            "(depth cut-off and box buffer with max(thickness, -top truncation)); the trench curve lies in the box of its coordinates "
            "and control points. Not a theorem: the 3-D frame around curved trenches, spherical boxes (decided by the hook oracle). "
            "Tie/search: every world built twice in one process, culling as computed vs switched off by the "
            "GWB_VERIF hook, bit-identical answers required around and below the feature.",
            "proof over Reals for the surface pre-test and kd search + culling on/off oracle through the GWB_VERIF hook", "4 C07"),
    "C08": ("Theorems (Properties_C08.v, over exact reals): orientation tests, on-segment tests and scalar products of coordinate "
            "differences are invariant under every rotation about the vertical plus translation; so are the Cartesian ridge "
            "distance and the plume cross-section test (azimuth turned with the world); the polygon test is translation "
            "invariant wherever the vertex tolerance test agrees; great-circle distances depend on longitude differences only "
            "and L, L+-360 are one Cartesian point. Not a theorem: rotation invariance of the whole polygon scan, the slab frame, "
            "rounding - decided by the oracle. Tie: model vs implementation bit for bit on the original and the moved world "
            "(area features, plumes); search: implementation on world+query vs moved world+moved query, with a 1 cm "
            "perturbation test to recognise genuine discontinuities. Known finding D21 (trench closest point misses the 2 pi "
            "alias) is identified at its call site and reported as such.",
            "proof over Reals of the invariance of the geometric kernels + bit-exact correspondence on moved worlds + moved-world oracle", "4 C08"),
    "C10": ("Theorems (Properties_C10.v; layout theorems axiom-free): in the layout model SlabLayout.v (segment table assembled "
            "from feature, section entries, segments; later entries win) writing inherited models into every segment, and "
            "repeating the default segments as a section entry for every coordinate, build the same table; an override changes "
            "the row of its own coordinate only, hence anything computed from the two rows next to the foot is unchanged "
            "elsewhere; [R] section_interp is the convex combination (1-f)a+fb, equals a at f=0 and b at f=1 and stays between "
            "them. Tie: SlabFeature.v builds its per-coordinate table through SlabLayout.table and uses section_interp for every "
            "interpolated quantity; it is compared with the implementation bit for bit on the base and the overridden world "
            "(Cartesian). Search: equivalent re-layouts and single-coordinate overrides on the implementation (both coordinate "
            "systems), bit-identical answers required away from the overridden coordinate's two intervals.",
            "proof about the layout/inheritance model + bit-exact correspondence of the slab/fault evaluation built on it + re-layout and override-locality oracle", "4 C10 / 9.3"),
    "C13": ("Theorems (Properties_C13.v, axiom-free, for every number interpretation): World::properties as modelled has "
            "exactly two outcomes, a std::exception or a vector of the announced size, and every entry of the vector is finite as "
            "soon as the background values are finite and every model maps finite blocks to finite blocks (the slot machinery "
            "neither invents a value nor leaves a slot unwritten); the 2-D interface fails only by an exception; termination of "
            "the modelled kernels is by construction (structural recursion on the Newton bound, node count, vertex list). Not a "
            "theorem: finiteness of each arithmetic model at every input and absence of undefined behaviour in the C++ - "
            "partial; decided by the search: degenerate-location queries (vertices, edges, trench coordinates and chords, slab "
            "tip, plume axis, depth 0, poles, +-180 meridian with +-0.0, planet centre, model bottom, far away) on generated "
            "worlds of every feature type, finite-or-exception and no dead/hanging process; thorough tier under ASan+UBSan.",
            "proof of totality and finiteness-preservation of the slot machinery + degenerate-location search (sanitizers in the thorough tier)", "4 C13"),
    "C12": ("Partial. Theorems (Properties_C12.v, axiom-free, every number interpretation): Validate.v models the length checks "
            "of all constructors as one verdict doc_ok over the length signature of a document; accepted lengths imply that the "
            "plume, grains (uniform / random / deflected), fraction and spreading-velocity reads of the evaluator are inside their "
            "tables (the totalised nth of the model never returns its default) and that the segment table of a slab or fault is "
            "rectangular. Tie: the model's verdict vs the constructor's on every unchanged and length-damaged document. Not a "
            "theorem and not expressible in an executable model: crash freedom of rapidjson parsing, schema validation and "
            "object construction on arbitrary bytes. Decided by the search: byte-damaged, structurally damaged, "
            "length-inconsistent and re-formatted documents derived from generated worlds of every feature type; outcomes "
            "success / std::exception with a message only, schema-invalid (python jsonschema on the published schema) and "
            "length-inconsistent documents must be rejected, formatting variants must answer bit-identically; thorough tier "
            "under ASan+UBSan.",
            "proof of in-bounds table reads under the modelled length checks + verdict correspondence + damaged-document search (sanitizers in the thorough tier)", "4 C12"),
}

NOT_YET = {
}


def main():
    props = [json.loads(l) for l in open(os.path.join(VERIF, "properties.jsonl"))]
    checks = []
    na = []
    for p in props:
        pid = p["id"]
        if pid in CHECKS:
            text, tech, ref = CHECKS[pid]
            checks.append({
                "property_id": pid,
                "quick_cmd": "./check %s --tier quick" % pid,
                "thorough_cmd": "./check %s --tier thorough" % pid,
                "evidence_file": "evidence/%s.json" % pid,
                "replay_cmd_template": "./check %s --replay {path}" % pid,
                "engine": "coq-model+correspondence",
                "level_claimed": {"category": "proof", "text": text, "design_ref": "DESIGN.md section " + ref},
                "level_note": LEVEL_NOTE,
                "technique": tech,
            })
        else:
            na.append({"property_id": pid, "reason": NOT_YET.get(pid, "check not built yet in this revision (work in progress; see DESIGN.md section 4 for the plan)")})
    m = {
        "version": 1,
        "setup_cmd": "./check SETUP",
        "hooks": {
            "guard": "GWB_VERIF",
            "enable": "lib/common.py build_repo(): cmake -S /repo -B /verif/_work/build -DCMAKE_CXX_FLAGS='-DGWB_VERIF -Wno-error' (ninja, incremental, from /repo's working tree)",
            "baseline_off_cmd": "cmake --build /repo/_build -j16 && ctest --test-dir /repo/_build -j8 --timeout 900",
            "source_commits": ["1a8b94da"],
            "add_only": True,
        },
        "engines": [{"name": "coq-model+correspondence", "path": "check", "serves_properties": sorted(CHECKS),
                     "kind_free_text": "Coq 8.16 theorems about a hand-written Gallina model (coq/), extracted to OCaml and run against the "
                                       "implementation (harness/wbprobe.cc) on generated cases; property oracles on the implementation as failing-input search"}],
        "checks": checks,
        "not_applicable": na,
        "notes": "Fixed defects and known findings: known_findings.json. Design and trusted base: DESIGN.md.",
    }
    with open(os.path.join(VERIF, "MANIFEST.json"), "w") as f:
        json.dump(m, f, indent=1)


if __name__ == "__main__":
    main()
