# C07 - acceleration shortcuts never change an answer
import random

import common
from cases import CaseSet
from qgen import line_query, inside_query, query3d
from wbgen import Gen
from worlds import line_world, area_world

ALL = [[1, 0, 0], [2, 0, 0], [2, 1, 0], [2, 2, 0], [2, 3, 0], [3, 0, 1], [4, 0, 0], [5, 0, 0]]


def run(chk):
    chk.rule = ("slabs and faults (straight and curved trenches, min depth > 0, 1-3 segments, sections, both coordinate systems incl. "
                "high latitudes and trenches across the +-180 meridian): every world is built twice in one process, with the culling "
                "bounds (surface bounding box + buffer, depth cut-off from length and thickness) as computed and with the GWB_VERIF "
                "hook switching them off; queries within 1.2x (length + thickness) of the trench on both sides and down to min depth "
                "+ length + thickness must give bit-identical answers. Area features with depths given at points: the global min/max "
                "pre-test and the kd-guided triangle search are covered by C11/C19 and by the model correspondence. non-trivial = a "
                "query inside the feature (tag >= 0) with culling off")
    chk.assumptions = ["the hook replaces the culling bounds by +-1e300 (finite, so that the box tolerance arithmetic stays finite)"]
    chk.prove()
    common.build_repo()
    rng = random.Random(chk.seed * 49979693 + 7)
    quick = chk.tier == "quick"
    cs = CaseSet("c07")
    plan = []
    for wi in range(40 if quick else 500):
        rng.seed("%d/c07-1/%d" % (chk.seed, wi))      # every world has its own stream: families do not disturb each other
        sph = wi % 15 in (3, 4, 8, 9, 13, 14)      # 3, 9: date line; 4, 13: polar; 8, 14: any spherical; the Cartesian families use wi % 5 in (0, 1, 2)
        wj, sph, f = line_world(rng, spherical=sph, straight=rng.random() < 0.3, allow_mass_conserving=False, extra_area=0.0)
        if sph and rng.random() < 0.4:
            # high latitude or dateline-crossing trench
            shift_lat = rng.choice([0, 60, 70, 80]) - max(abs(c[1]) for c in f["coordinates"])
            shift_lon = rng.choice([0, 175 - f["coordinates"][0][0], -175 - f["coordinates"][0][0]])
            for c in f["coordinates"]:
                c[0] = round(max(-359.0, min(359.0, c[0] + shift_lon)), 1)
                c[1] = round(max(-85.0, min(85.0, c[1] + (shift_lat if shift_lat < 0 else 0))), 1)
            f["dip point"] = [round(f["dip point"][0] + shift_lon, 1), f["dip point"][1]]
        if rng.random() < 0.5:
            f["min depth"] = float(round(rng.uniform(2e4, 1.5e5)))
            f.pop("max depth", None)
        if rng.random() < 0.3:
            # short, steep and thin: the depth cut-off is tight
            for s in f["segments"]:
                s["length"] = float(round(rng.uniform(3e4, 1e5)))
                s["thickness"] = [float(round(rng.uniform(5e3, 4e4)))]
        wedge = (not sph) and wi % 5 == 1
        if wedge:
            # steep, short, with a bottom thickness far above every top thickness: slab points lie deeper than
            # min depth + total length + the largest *top* thickness (the depth cut-off has to use the largest of both)
            f.pop("sections", None)
            f.pop("max depth", None)
            th0 = float(round(rng.uniform(2e4, 4e4)))
            f["segments"] = [{"length": float(round(rng.uniform(8e4, 1.5e5))), "thickness": [th0, float(round(th0 * rng.uniform(5, 8)))],
                              "angle": [float(round(rng.uniform(40, 75), 1))]}]
            if f["model"] == "fault":
                f["model"] = "subducting plate"
            f["composition models"] = [{"model": "uniform", "compositions": [0]}]
            for k in ("temperature models", "grains models", "velocity models"):
                f.pop(k, None)
        above = (not sph) and wi % 5 == 2
        if above:
            # a short, thin, steep slab with a strongly negative top truncation: the part of the feature above its top
            # surface reaches further from the trench (and, overturned, deeper) than length + thickness
            f.pop("sections", None)
            f.pop("max depth", None)
            if f["model"] == "fault":
                f["model"] = "subducting plate"
            th0 = float(round(rng.uniform(1e4, 3e4)))
            f["segments"] = [{"length": float(round(rng.uniform(4e4, 9e4))), "thickness": [th0],
                              "top truncation": [-float(round(rng.uniform(8e4, 2e5)))], "angle": [float(round(rng.choice([rng.uniform(60, 89), rng.uniform(95, 140)]), 1))]}]
            f["composition models"] = [{"model": "uniform", "compositions": [0], "min distance slab top": -3e5}]
            for k in ("temperature models", "grains models", "velocity models"):
                f.pop(k, None)
        dateline = sph and wi % 3 == 0
        if dateline:
            # a trench just east of the date line written with negative longitudes, dipping west: the feature and its
            # bounding box reach below -180 degrees and its points on the other side of the cut have longitudes near +180
            lat0 = rng.uniform(-40, 40)
            lon0 = -rng.uniform(176.5, 179.5)
            f["coordinates"] = [[round(lon0, 1), round(lat0 - 6, 1)], [round(lon0 + rng.uniform(-0.5, 0.5), 1), round(lat0 + 6, 1)]]
            f["dip point"] = [round(lon0 - 20, 1), round(lat0, 1)]
            if (wi // 3) % 2 == 1:
                # the mirror image: just west of the date line with longitudes near +180, dipping east
                f["coordinates"] = [[-c[0], c[1]] for c in f["coordinates"]]
                f["dip point"] = [-f["dip point"][0], f["dip point"][1]]
            f.pop("sections", None)
            # one straight segment, so that the queries below can be aimed at the inside of the slab on the far side of the cut
            f["segments"] = [{"length": float(round(rng.uniform(3e5, 6e5))), "thickness": [float(round(rng.uniform(6e4, 1.2e5)))],
                              "angle": [float(round(rng.uniform(30, 60), 1))]}]
            f["composition models"] = [{"model": "uniform", "compositions": [0]}]
            for k in ("temperature models", "grains models", "velocity models"):
                f.pop(k, None)
        polar = sph and (not dateline) and wi % 3 == 1
        if polar:
            # a long, shallow slab hanging from a meridional trench at high latitude: near its tip at the high-latitude end
            # a given horizontal reach spans many more degrees of longitude than at the low-latitude end of the trench
            # (the longitude buffer of the bounding box has to allow for that)
            sgn_lat = rng.choice([-1, 1])
            lat0 = rng.uniform(45, 60)
            lat1 = lat0 + rng.uniform(8, 14)
            lon0 = rng.uniform(-140, 140)
            f["coordinates"] = [[round(lon0, 1), round(sgn_lat * lat0, 1)], [round(lon0 + rng.uniform(-0.3, 0.3), 1), round(sgn_lat * lat1, 1)]]
            side = rng.choice([-1, 1])
            f["dip point"] = [round(lon0 + side * 35, 1), round(sgn_lat * (lat0 + lat1) / 2, 1)]
            f.pop("sections", None)
            f.pop("max depth", None)
            f["segments"] = [{"length": float(round(rng.uniform(6e5, 1.0e6))), "thickness": [float(round(rng.uniform(3e4, 6e4)))],
                              "angle": [float(round(rng.uniform(6, 14), 1))]}]
            f["composition models"] = [{"model": "uniform", "compositions": [0]}]
            for k in ("temperature models", "grains models", "velocity models"):
                f.pop(k, None)
        bulge = (not sph) and wi % 5 == 0
        if bulge:
            # a strongly curved trench: the Bezier curve leaves the bounding box of its coordinates; thin, short, shallow slab
            x0, y0 = float(round(rng.uniform(-3e5, 3e5))), float(round(rng.uniform(-3e5, 3e5)))
            f["coordinates"] = [[x0, y0], [x0 + 1e5, y0 + float(round(rng.uniform(2e5, 4e5)))], [x0 + 1e6, y0]]
            f["dip point"] = [x0 + 5e5, y0 + rng.choice([-1, 1]) * 2e6]
            f.pop("sections", None)
            f.pop("min depth", None)
            f["segments"] = [{"length": 4e4, "thickness": [5e3], "angle": [10.0]}]
            f["composition models"] = [{"model": "uniform", "compositions": [0]}]
        a = cs.add_world(wj, model=False)
        cs.raw("culling 0", "let () = out_str \"skip\"", {"kind": "hook"})
        b = cs.add_world(wj, model=False)
        cs.raw("culling 1", "let () = out_str \"skip\"", {"kind": "hook"})
        curve = []
        if bulge:
            from common import fhex
            pl = "3 " + " ".join(fhex(c[0]) + " " + fhex(c[1]) for c in f["coordinates"])
            lines = ["bezev c %s %d %s" % (pl, k // 100, fhex((k % 100) / 100.0)) for k in range(200)]
            allpts = [common.parse_vec(x) for x in common.run_probe(lines)]
            sgn = 1.0 if f["dip point"][1] > f["coordinates"][0][1] else -1.0
            allpts.sort(key=lambda p: -sgn * p[1])
            curve = [allpts[rng.randrange(25)] for _ in range(40)]      # near the apex of the bulge
        for qi in range(40):
            pos, d = line_query(rng, wj, sph, f)
            if dateline and qi % 2 == 0:
                import math
                from qgen import cart_point, TOP
                sg = f["segments"][0]
                th = math.radians(sg["angle"][0])
                radius = wj.get("coordinate system", {}).get("radius", 6371000.0)
                c0, c1 = f["coordinates"]
                tt = rng.uniform(0.1, 0.9)
                lat = c0[1] + tt * (c1[1] - c0[1])
                lon_t = c0[0] + tt * (c1[0] - c0[0])
                al = rng.uniform(0.15, 0.95) * sg["length"]
                off = rng.uniform(0.1, 0.9) * sg["thickness"][0]
                reach = al * math.cos(th) - off * math.sin(th)
                side = 1.0 if f["dip point"][0] > lon_t else -1.0
                lon = lon_t + side * math.degrees(reach / (radius * math.cos(math.radians(lat))))
                d = float(round(f.get("min depth", 0.0) + al * math.sin(th) + off * math.cos(th)))
                pos = cart_point(True, lon, lat, d, radius, TOP)
            if polar and qi % 4 != 0:
                import math
                from qgen import cart_point, TOP
                sg = f["segments"][0]
                th = math.radians(sg["angle"][0])
                radius = wj.get("coordinate system", {}).get("radius", 6371000.0)
                c1 = f["coordinates"][1]
                lat = c1[1] - math.copysign(rng.uniform(0.05, 2.5), c1[1])
                al = rng.uniform(0.6, 1.0) * sg["length"]
                reach = al * math.cos(th)
                side = 1.0 if f["dip point"][0] > c1[0] else -1.0
                lon = c1[0] + side * math.degrees(reach / (radius * math.cos(math.radians(lat))))
                d = float(round(max(0.0, f.get("min depth", 0.0) + al * math.sin(th) + rng.uniform(-0.5, 2.5) * sg["thickness"][0]
                                    + rng.choice([0.0, 1.0]) * reach * reach / (2 * radius))))
                pos = cart_point(True, lon, lat, d, radius, TOP)
            if above and qi % 2 == 0:
                import math
                sg = f["segments"][0]
                th = math.radians(sg["angle"][0])
                c0, c1 = f["coordinates"][0], f["coordinates"][1]
                tt = rng.uniform(0.2, 0.8)
                bx, by = c0[0] + tt * (c1[0] - c0[0]), c0[1] + tt * (c1[1] - c0[1])
                dx, dy = c1[0] - c0[0], c1[1] - c0[1]
                L = math.hypot(dx, dy)
                nx, ny = -dy / L, dx / L
                if (f["dip point"][0] - c0[0]) * nx + (f["dip point"][1] - c0[1]) * ny < 0:
                    nx, ny = -nx, -ny
                al = rng.uniform(0.05, 1.0) * sg["length"]
                off = rng.uniform(0.3, 0.98) * sg["top truncation"][0]          # negative: above the top surface
                u = al * math.cos(th) - off * math.sin(th)
                v = al * math.sin(th) + off * math.cos(th)
                if v >= 0:
                    d = float(round(f.get("min depth", 0.0) + v))
                    pos = (bx + u * nx, by + u * ny, 1000e3 - d)
            if wedge and qi % 2 == 0:
                # deep inside the thick lower end of the wedge
                import math
                sg = f["segments"][0]
                th = math.radians(sg["angle"][0])
                c0, c1 = f["coordinates"][0], f["coordinates"][1]
                tt = rng.uniform(0.2, 0.8)
                bx, by = c0[0] + tt * (c1[0] - c0[0]), c0[1] + tt * (c1[1] - c0[1])
                dx, dy = c1[0] - c0[0], c1[1] - c0[1]
                L = math.hypot(dx, dy)
                nx, ny = -dy / L, dx / L
                if (f["dip point"][0] - c0[0]) * nx + (f["dip point"][1] - c0[1]) * ny < 0:
                    nx, ny = -nx, -ny
                al = rng.uniform(0.75, 1.0) * sg["length"]
                off = rng.uniform(0.3, 0.95) * (sg["thickness"][0] + (al / sg["length"]) * (sg["thickness"][1] - sg["thickness"][0]))
                u = al * math.cos(th) - off * math.sin(th)
                v = al * math.sin(th) + off * math.cos(th)
                d = float(round(f.get("min depth", 0.0) + v))
                pos = (bx + u * nx, by + u * ny, 1000e3 - d)
            if bulge and curve[qi]:
                # a point a few km from the curve, a few km deep: inside a thin shallow slab if on the dip side
                import math
                sgn = 1.0 if f["dip point"][1] > f["coordinates"][0][1] else -1.0
                rr = rng.uniform(2e4, 3.9e4)
                d = float(round(rr * math.tan(math.radians(10.0)) + rng.uniform(500, 4000)))
                pos = (curve[qi][0] + rng.uniform(-5e3, 5e3), curve[qi][1] + sgn * rr, 1000e3 - d)
            ia = cs.p3(a, pos, d, ALL)
            ib = cs.p3(b, pos, d, ALL)
            plan.append((ia, ib, wj))
    # area features with depths given at points: the global min/max pre-test is sound only if its extrema contain every
    # nodal value of the triangulation (the hypothesis of theorem C07_pretest); checked on the implementation's own data
    cs_area = CaseSet("c07area")
    nsurf = 0
    for wi in range(25 if quick else 300):
        rng.seed("%d/c07-2/%d" % (chk.seed, wi))      # every world has its own stream: families do not disturb each other
        wj, sph2 = area_world(rng, nfeat=rng.randint(1, 3), plumes=0.0, cross=False)
        cs_area.add_world(wj)
        nsurf += 1
    # slabs and faults that flatten towards their tip (the dip falls to zero along the last segment, "stagnant slab" / listric
    # fault): the deepest points of the feature lie below min depth + sqrt(length^2 + thickness^2); only the sum length +
    # thickness bounds them (theorem C07_reach_and_cutoff_chain)
    import math as _m
    for wi in range(6 if quick else 60):
        rng.seed("%d/c07-4/%d" % (chk.seed, wi))
        kind = ("subducting plate", "fault")[wi % 2]
        x0, y0 = float(round(rng.uniform(-2e5, 2e5))), float(round(rng.uniform(-2e5, 2e5)))
        L1, L2 = float(round(rng.uniform(3e5, 5e5))), float(round(rng.uniform(6e4, 1.2e5)))
        th = float(round(rng.uniform(8e4, 1.1e5)))
        top_dip = float(rng.choice([70.0, 80.0, 90.0]))
        f = {"model": kind, "name": "flat", "coordinates": [[x0, y0 - 3e5], [x0, y0 + 3e5]], "dip point": [x0 + 1e6, y0],
             "segments": [{"length": L1, "thickness": [th], "angle": [top_dip, 90.0]}, {"length": L2, "thickness": [th], "angle": [90.0, 0.0]}],
             "composition models": [{"model": "uniform", "compositions": [0]}]}
        if wi % 3 == 2:
            f["min depth"] = float(round(rng.uniform(2e4, 1e5)))
        wf = {"version": "1.1", "features": [f]}
        a = cs.add_world(wf, model=False)
        cs.raw("culling 0", "let () = out_str \"skip\"", {"kind": "hook"})
        b = cs.add_world(wf, model=False)
        cs.raw("culling 1", "let () = out_str \"skip\"", {"kind": "hook"})
        # depth of the end of the first segment (arc from top_dip to 90 degrees), then the quarter circle of the second
        t0 = _m.radians(top_dip)
        if top_dip < 90.0:
            # end of the arc whose dip grows linearly with arclength from t0 to 90 degrees (midpoint rule along the arc)
            n_ = 2000
            u1 = sum(_m.cos(t0 + (_m.pi / 2 - t0) * (k + 0.5) / n_) for k in range(n_)) * L1 / n_
            v1 = sum(_m.sin(t0 + (_m.pi / 2 - t0) * (k + 0.5) / n_) for k in range(n_)) * L1 / n_
        else:
            u1, v1 = 0.0, L1
        R2 = L2 / (_m.pi / 2)
        for qi in range(40):
            ph = rng.uniform(0.0, _m.pi / 2)          # position on the flattening quarter circle: dip = 90 deg - ph
            off = rng.uniform(0.05, 0.95) * th * (1.0 if kind == "subducting plate" else rng.choice([-0.45, 0.45]))
            dip = _m.pi / 2 - ph
            su, sv = u1 + R2 * (1.0 - _m.cos(ph)), v1 + R2 * _m.sin(ph)
            u, v = su - off * _m.sin(dip), sv + off * _m.cos(dip)
            d = float(round(f.get("min depth", 0.0) + v))
            pos = (x0 + u, y0 + rng.uniform(-2.5e5, 2.5e5), 1000e3 - d)
            ia = cs.p3(a, pos, d, ALL)
            ib = cs.p3(b, pos, d, ALL)
            plan.append((ia, ib, wf))
    # slabs that run almost flat for a long way and turn steeply down at the tip, with the region above the slab top included
    # (negative top truncation): the outermost points of the feature lie at a horizontal distance of nearly
    # total length + top truncation from the trench, beyond sqrt(length^2 + truncation^2): the buffer of the surface
    # bounding box has to be the sum (theorem C07_reach_and_cutoff_chain)
    for wi in range(6 if quick else 60):
        rng.seed("%d/c07-5/%d" % (chk.seed, wi))
        x0, y0 = float(round(rng.uniform(-2e5, 2e5))), float(round(rng.uniform(-2e5, 2e5)))
        L1, L2 = float(round(rng.uniform(4e5, 6e5))), float(round(rng.uniform(2e4, 4e4)))
        th = float(round(rng.uniform(6e4, 1.0e5)))
        tr = float(round(rng.uniform(0.9e5, 1.2e5)))
        a1, a2 = float(round(rng.uniform(2.0, 5.0), 1)), float(round(rng.uniform(75.0, 88.0), 1))
        sgn = 1.0 if wi % 2 == 0 else -1.0
        f = {"model": "subducting plate", "name": "flatsteep", "coordinates": [[x0, y0 - 3e5], [x0, y0 + 3e5]], "dip point": [x0 + sgn * 1e6, y0],
             "segments": [{"length": L1, "thickness": [th], "top truncation": [-tr], "angle": [a1]},
                          {"length": L2, "thickness": [th], "top truncation": [-tr], "angle": [a2]}],
             "composition models": [{"model": "uniform", "compositions": [0], "min distance slab top": -tr}]}
        wf = {"version": "1.1", "features": [f]}
        a = cs.add_world(wf, model=False)
        cs.raw("culling 0", "let () = out_str \"skip\"", {"kind": "hook"})
        b = cs.add_world(wf, model=False)
        cs.raw("culling 1", "let () = out_str \"skip\"", {"kind": "hook"})
        r1, r2 = _m.radians(a1), _m.radians(a2)
        hyp = _m.hypot(max(th, tr), L1 + L2)
        n_in = 0
        for qi in range(400):
            s_ = rng.uniform(0.1, 0.98) * L2
            off = rng.uniform(0.3, 0.97) * tr
            su, sv = L1 * _m.cos(r1) + s_ * _m.cos(r2), L1 * _m.sin(r1) + s_ * _m.sin(r2)
            u, v = su + off * _m.sin(r2), sv - off * _m.cos(r2)
            if u < hyp + 2e3 or v < 0 or n_in >= 40:
                continue
            n_in += 1
            d = float(round(v))
            pos = (x0 + sgn * u, y0 + rng.uniform(-2.5e5, 2.5e5), 1000e3 - d)
            ia = cs.p3(a, pos, d, ALL)
            ib = cs.p3(b, pos, d, ALL)
            plan.append((ia, ib, wf))
    # the kd-guided triangle search and its fallbacks (longitude copy of the point, scan over all triangles) on irregular
    # triangulations across the +-180 meridian, written on either longitude branch (170..190 and -190..-170): every lookup
    # must give what a scan over all triangles gives (the model, bit for bit; an exception "not in any triangle" is a discarded point)
    from wbgen import cart_point as _cp, Gen as _Gen
    from qgen import TOP as _TOP
    area_plan = []
    for wi in range(8 if quick else 80):
        rng.seed("%d/c07-3/%d" % (chk.seed, wi))
        gq = _Gen(rng)
        lo = (-190.0, 170.0)[wi % 2]
        poly = [[lo, -12.0], [lo + 20.0, -12.0], [lo + 20.0, 12.0], [lo, 12.0]]
        npts = rng.randint(14, 26)
        ent = [[float(round(rng.uniform(1.5e5, 2.5e5)))]]
        for _k in range(npts):
            ent.append([float(round(rng.uniform(8e4, 3e5))), [[round(lo + rng.uniform(0.5, 19.5), 2), round(rng.uniform(-11.5, 11.5), 2)]]])
        f = {"model": ("continental plate", "oceanic plate", "mantle layer")[(wi // 2) % 3], "name": "a", "coordinates": poly, "max depth": ent,
             "composition models": [{"model": "uniform", "compositions": [0]}]}
        if wi % 4 >= 2:
            f["min depth"] = [[0.0]] + [[float(round(rng.uniform(1e3, 6e4))), [[round(lo + rng.uniform(0.5, 19.5), 2), round(rng.uniform(-11.5, 11.5), 2)]]] for _k in range(8)]
        wa = {"version": "1.1", "coordinate system": {"model": "spherical", "depth method": "begin segment"}, "features": [f]}
        sl = cs_area.add_world(wa)
        nsurf += 1
        for _k in range(60):
            dd = float(round(rng.uniform(0.0, 3.2e5)))
            area_plan.append(cs_area.p3(sl, _cp(True, lo + rng.uniform(0.2, 19.8), rng.uniform(-11.8, 11.8), dd, 6371000.0, _TOP), dd, [[4, 0, 0], [2, 0, 0]]))
    impl_a, model_a = cs_area.run()
    bad_a = chk.correspond(impl_a, model_a, cs_area, max_ulp=0)
    area_viol = []
    for i in area_plan:
        if impl_a[i].startswith("throw") and model_a[i].startswith("ok"):
            dsc = cs_area.describe(i)
            dsc["with_shortcuts"], dsc["scan_over_all_triangles"] = impl_a[i], model_a[i]
            area_viol.append(("the triangle search of a depth surface discards a point that lies in a triangle (%s; a scan over all triangles gives %s)"
                              % (impl_a[i][:60], model_a[i][:40]), dsc))
    impl, _ = cs.run(model=False)
    chk.evaluations = len(impl) + nsurf + len(impl_a)
    viol = []
    for (wj, key, mn, mx, lo, hi) in cs_area.surface_bounds[:3]:
        viol.append(("the extrema of the depth pre-test [%g, %g] of %s do not contain the nodal values [%g, %g]: the shortcut rejects depths the local surface accepts" % (mn, mx, key, lo, hi),
                     {"kind": "world", "world": wj, "surface": key, "reported": [mn, mx], "nodal": [lo, hi], "probe_line": "surfaces 0"}))
    cs_area.cleanup()
    seen_worlds = set()
    for ia, ib, wj in plan:
        vb = common.parse_vec(impl[ib])
        if vb is not None and vb[-4] >= 0:
            chk.nontriv(cs.probe[ib])
        if impl[ia] != impl[ib]:
            key = id(wj)
            if key in seen_worlds:
                continue
            seen_worlds.add(key)
            d = cs.describe(ia)
            d["with_shortcuts"] = impl[ia]
            d["without_shortcuts"] = impl[ib]
            viol.append(("a culling shortcut changes the answer (a point of the feature is discarded)", d))
    for ia, ib, wj in plan[:3]:
        chk.sample({"query": cs.probe[ia][:160], "with": impl[ia][:80], "without": impl[ib][:80]})
    viol = area_viol[:2] + viol
    for what, d in viol[:5]:
        chk.violation(what, d)
    if bad_a and not viol:
        for i in bad_a[:2]:
            dsc = cs_area.describe(i)
            dsc["impl"], dsc["model"] = impl_a[i], model_a[i]
            chk.violation("correspondence Kernels.v (surface_local_value) <-> Surface::local_value broken", dsc, found_input=False)
    cs.cleanup()
