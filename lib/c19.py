# C19 - geometric kernels agree with their brute-force definitions
import math
import random

import common
from cases import CaseSet
from common import fhex, ml
from wbgen import PI, mlist, mpt, natlit
import c04


def kd_inv(nodes, l, r, yaxis):
    """what std::nth_element guarantees, recursively (KdSpec.kd_inv)"""
    if l > r:
        return True
    mid = (l + r) // 2
    k = lambda nd: nd[2] if yaxis else nd[1]
    if any(k(nodes[i]) > k(nodes[mid]) for i in range(l, mid)):
        return False
    if any(k(nodes[i]) < k(nodes[mid]) for i in range(mid + 1, r + 1)):
        return False
    return (kd_inv(nodes, l, mid - 1, not yaxis) if l < mid else True) and (kd_inv(nodes, mid + 1, r, not yaxis) if mid < r else True)


def bez_eval(pts, ctrl, i, t):
    P0, P1 = pts[i], pts[i + 1]
    C0, C1 = ctrl[i]
    u = 1 - t
    return tuple(u * u * u * P0[k] + 3 * u * u * t * C0[k] + 3 * u * t * t * C1[k] + t * t * t * P1[k] for k in (0, 1))


def polyline(rng, n, max_bend_deg=60.0, seg=(5e4, 4e5)):
    x, y = rng.uniform(-5e5, 5e5), rng.uniform(-5e5, 5e5)
    ang = rng.uniform(0, 2 * PI)
    pts = [(round(x), round(y))]
    for _ in range(n - 1):
        L = rng.uniform(*seg)
        x, y = x + L * math.cos(ang), y + L * math.sin(ang)
        pts.append((float(round(x)), float(round(y))))
        ang += math.radians(rng.uniform(-max_bend_deg, max_bend_deg)) * 0.95
    return [(float(a), float(b)) for a, b in pts]


def run(chk):
    chk.rule = ("kd-tree: random and small-lattice point sets (ties included), every query: the implementation's own node array "
                "must satisfy the nth_element invariant, the model run on that array must give the same minimum, visiting order "
                "and distances bit-for-bit, and the minimum must equal the brute-force minimum; polygon: exact lattice oracle "
                "(shared with C04); Bezier: polylines with 2-7 points and bends <= 57 deg: angles, control points, evaluation and "
                "closest point vs model bit-for-bit, curve through its points, reported point on the curve at the reported "
                "parameter, dense scan for a closer curve point; conversions: round trips; great circle: all pairs incl. > 90 deg "
                "and antipodal vs r*acos(u.v). non-trivial = ties / pruned subtrees / bends / obtuse pairs")
    chk.assumptions = ["std::nth_element's permutation is taken from the implementation as data; the model's theorem holds for every "
                       "array satisfying kd_inv, which is evaluated on that data",
                       "closest-point optimality on the Bezier curve is not a theorem (Newton iteration): searched by dense sampling"]
    chk.prove()
    common.build_repo()
    rng = random.Random(chk.seed * 67867967 + 19)
    quick = chk.tier == "quick"
    viol = []
    # ---------------- kd-tree: phase 1, let the implementation build the trees ----------------------
    sets = []
    for _ in range(60 if quick else 800):
        rng.seed("%d/c19-1/%d" % (chk.seed, _))      # every world has its own stream: families do not disturb each other
        if rng.random() < 0.4:
            n = rng.randint(1, 7)
            pts = [(float(rng.randrange(4)), float(rng.randrange(4))) for _ in range(n)]
            qs = [(float(x), float(y)) for x in range(-1, 5) for y in range(-1, 5)]
            qs = rng.sample(qs, 12)
        else:
            n = rng.randint(1, 40)
            pts = [(round(rng.uniform(-100, 100), 2), round(rng.uniform(-100, 100), 2)) for _ in range(n)]
            qs = [(round(rng.uniform(-120, 120), 2), round(rng.uniform(-120, 120), 2)) for _ in range(6)] + [rng.choice(pts)]
        sets.append((pts, qs))
    lines = []
    for pts, qs in sets:
        for q in qs:
            lines.append("kd %d %s %s %s" % (len(pts), " ".join(fhex(p[0]) + " " + fhex(p[1]) for p in pts), fhex(q[0]), fhex(q[1])))
    kd_impl = common.run_probe(lines)
    # the single-answer search KDTree::find_closest_point on the same sets at several scales (distances below and above 1)
    l1, m1 = [], []
    for pts, qs in sets:
        sc = rng.choice([1.0, 1e-2, 1e-3, 1e3])
        for q in qs[:4]:
            ps_, q_ = [(p[0] * sc, p[1] * sc) for p in pts], (q[0] * sc, q[1] * sc)
            l1.append("kd1 %d %s %s %s" % (len(ps_), " ".join(fhex(p[0]) + " " + fhex(p[1]) for p in ps_), fhex(q_[0]), fhex(q_[1])))
            m1.append((ps_, q_))
    # the same searches with the query point carrying the spherical tag (what Objects::Surface passes in spherical worlds, with
    # coordinates in radians): the kd-tree works on the stored coordinates whatever the tag says, so the answers are the same
    ls_, ms_ = [], []
    for si, (pts, qs) in enumerate(sets):
        if si % 3 != 0:
            continue
        sc = 0.01
        lat0 = (0.0, 0.9, 1.3)[(si // 3) % 3]
        for q in qs[:5]:
            ps_, q_ = [(p[0] * sc, lat0 + p[1] * sc * 0.1) for p in pts], (q[0] * sc, lat0 + q[1] * sc * 0.1)
            body = "%d %s %s %s" % (len(ps_), " ".join(fhex(p[0]) + " " + fhex(p[1]) for p in ps_), fhex(q_[0]), fhex(q_[1]))
            ls_ += ["kd " + body, "kds " + body, "kd1 " + body, "kd1s " + body]
            ms_.append((ps_, q_))
    as_ = common.run_probe(ls_)
    for k, (ps_, q_) in enumerate(ms_):
        chk.evaluations += 2
        a_c, a_s, b_c, b_s = as_[4 * k:4 * k + 4]
        if a_c != a_s or b_c != b_s:
            viol.append(("the kd-tree search gives another answer when the query point carries the spherical tag (it must use the stored coordinates as they are)",
                         {"line": ls_[4 * k + 1], "cartesian_tag": a_c[-120:], "spherical_tag": a_s[-120:], "single_cartesian": b_c, "single_spherical": b_s}))
    for line, (ps_, q_), a in zip(l1, m1, common.run_probe(l1)):
        chk.evaluations += 1
        v = common.parse_vec(a)
        if v is None:
            viol.append(("kd-tree single-answer query throws/crashes", {"line": line, "impl": a}))
            continue
        best = min(math.sqrt((p[0] - q_[0]) * (p[0] - q_[0]) + (p[1] - q_[1]) * (p[1] - q_[1])) for p in ps_)
        got = math.sqrt((v[2] - q_[0]) * (v[2] - q_[0]) + (v[3] - q_[1]) * (v[3] - q_[1]))
        if got != best or v[1] != best:
            viol.append(("KDTree::find_closest_point does not return the nearest node (returned node at %.6g, reported %.6g, nearest %.6g)" % (got, v[1], best),
                         {"line": line, "impl": a, "brute_force_min": best}))
    # ---------------- polygon test on lattices: every vertex, every lattice point, both orientations ------------
    import c04
    pl_lines, pl_meta = [], []
    for _ in range(40 if quick else 600):
        rng.seed("%d/c19-2/%d" % (chk.seed, _))      # every world has its own stream: families do not disturb each other
        size = rng.choice([4, 5, 6])
        poly = c04.lattice_polygon(rng, rng.randint(3, 6), size)
        for pg in (poly, poly[::-1], poly[1:] + poly[:1]):
            pl = " ".join(fhex(c[0]) + " " + fhex(c[1]) for c in pg)
            for p in [(float(x), float(y)) for x in range(-1, size + 1) for y in range(-1, size + 1)]:
                pl_lines.append("poly c %d %s %s %s" % (len(pg), pl, fhex(p[0]), fhex(p[1])))
                pl_meta.append((pg, p))
    for line, (pg, p), a in zip(pl_lines, pl_meta, common.run_probe(pl_lines)):
        chk.evaluations += 1
        exp = c04.inside_spec(pg, p)
        if list(p) in [list(v) for v in pg]:
            chk.nontriv(("polyvertex", line))
        if a.split() != ["ok", "1" if exp else "0"]:
            viol.append(("polygon test differs from the closed-polygon definition (%s, exact arithmetic says %s)" % (a, exp),
                         {"line": line, "polygon": pg, "point": list(p)}))
    cs = CaseSet("c19")
    plan = []
    fnum_bad = []
    kd_nodes = {}
    li = 0
    for pts, qs in sets:
        for q in qs:
            a = kd_impl[li]
            line = lines[li]
            li += 1
            if not a.startswith("ok"):
                viol.append(("kd-tree query throws/crashes", {"line": line, "impl": a}))
                continue
            head, tail = a[3:].split("|")
            ht = head.split()
            nodes = [(int(ht[3 * i]), common.unhex(ht[3 * i + 1]), common.unhex(ht[3 * i + 2])) for i in range(len(ht) // 3)]
            tt = tail.split()
            mi, md = int(tt[0]), common.unhex(tt[1])
            chk.evaluations += 1
            if not kd_inv(nodes, 0, len(nodes) - 1, False):
                viol.append(("kd node array violates the nth_element invariant", {"line": line, "nodes": nodes}))
                continue
            dists = [math.sqrt((nd[1] - q[0]) * (nd[1] - q[0]) + (nd[2] - q[1]) * (nd[2] - q[1])) for nd in nodes]
            if md != min(dists) or dists[mi] != md:
                viol.append(("nearest-centroid search does not return a node at the minimum distance", {"line": line, "impl": a, "brute_force_min": min(dists)}))
            if len(tt) // 2 - 1 < len(nodes) or dists.count(md) > 1:
                chk.nontriv(("kd", line))
            # the model on the implementation's node array
            mln = mlist(["{kd_index=%s; kd_x=%s; kd_y=%s}" % (natlit(nd[0]), ml(nd[1]), ml(nd[2])) for nd in nodes])
            i = cs.raw("kdq %s" % line[3:],
                       "let () = (let ((mi, md), vs) = find_closest_points n %s %s in "
                       "out_str (String.concat \" \" ([\"ok\"; string_of_int (int_of_nat mi); hx md] @ "
                       "List.concat_map (fun (i, d) -> [string_of_int (int_of_nat i); hx d]) vs)))" % (mln, mpt(q)),
                       {"kind": "kd", "points": pts, "query": q})
            plan.append(("kd", i, "ok " + tail.strip()))
            kd_nodes[i] = (nodes, q)
    # ---------------- Bezier -----------------------------------------------------------------------
    for _ in range(40 if quick else 600):
        rng.seed("%d/c19-3/%d" % (chk.seed, _))      # every world has its own stream: families do not disturb each other
        n = rng.choice([2, 2, 3, 4, 5, 7])
        pts = polyline(rng, n)
        pl = "%d %s" % (n, " ".join(fhex(p[0]) + " " + fhex(p[1]) for p in pts))
        mlp = mlist([mpt(p) for p in pts])
        ib = cs.raw("bez c " + pl,
                    "let () = (let b = bezier_build n %s in out_vec (b.bz_angles @ List.concat_map (fun ((a,b),(c,d)) -> [a;b;c;d]) b.bz_ctrl))" % mlp,
                    {"kind": "bez", "points": pts})
        plan.append(("bez", ib, pts))
        for i in range(n - 1):
            for t in (0.0, 1.0, 0.5, round(rng.random(), 3)):
                ie = cs.raw("bezev c %s %d %s" % (pl, i, fhex(t)),
                            "let () = (let (x, y) = bezier_eval n (bezier_build n %s) %s %s in out_vec [x; y])" % (mlp, natlit(i), ml(t)),
                            {"kind": "bezev", "points": pts, "i": i, "t": t})
                plan.append(("bezev", ie, pts, i, t))
        for _k in range(10):
            i = rng.randrange(n - 1)
            t = rng.uniform(0.02, 0.98)
            bx = pts[i][0] + t * (pts[i + 1][0] - pts[i][0])
            by = pts[i][1] + t * (pts[i + 1][1] - pts[i][1])
            off = rng.uniform(-3e5, 3e5) if rng.random() < 0.8 else 0.0
            dx, dy = pts[i + 1][0] - pts[i][0], pts[i + 1][1] - pts[i][1]
            L = math.hypot(dx, dy)
            q = (bx - dy / L * off, by + dx / L * off)
            ic = cs.raw("bezcp c %s %s %s" % (pl, fhex(q[0]), fhex(q[1])),
                        "let () = (let r = closest_point_cartesian n (bezier_build n %s) %s in "
                        "if r.cl_found then out_vec [r.cl_distance; r.cl_fraction; float_of_int (int_of_nat r.cl_index); fst r.cl_point; snd r.cl_point; fst r.cl_normal; snd r.cl_normal] "
                        "else out_str \"throw\")" % (mlp, mpt(q)),
                        {"kind": "bezcp", "points": pts, "query": q})
            plan.append(("bezcp", ic, pts, q, ib, abs(off)))
    # aimed: a symmetric bend; on its convex side the foot of a point on the axis of symmetry is exactly the middle coordinate
    # (the Newton iterations of the two adjacent segments end at 1 + O(eps) and 0 - O(eps))
    for _ in range(8 if quick else 80):
        rng.seed("%d/c19-4/%d" % (chk.seed, _))      # every world has its own stream: families do not disturb each other
        ox, oy = rng.choice([0.0, 65536.0, -131072.0]), rng.choice([0.0, 262144.0])
        a, b = float(rng.choice([50, 100, 150, 300])) * 1024.0, float(rng.choice([200, 300, 500])) * 1024.0
        sx = rng.choice([-1.0, 1.0])
        pts = [(ox + sx * a, oy - b), (ox, oy), (ox + sx * a, oy + b)]
        if rng.random() < 0.4:
            pts = [(pts[0][0] + sx * a, pts[0][1] - b)] + pts + [(pts[2][0] + sx * a, pts[2][1] + b)]
        n = len(pts)
        pl = "%d %s" % (n, " ".join(fhex(p[0]) + " " + fhex(p[1]) for p in pts))
        mlp = mlist([mpt(p) for p in pts])
        ib = cs.raw("bez c " + pl,
                    "let () = (let b = bezier_build n %s in out_vec (b.bz_angles @ List.concat_map (fun ((a,b),(c,d)) -> [a;b;c;d]) b.bz_ctrl))" % mlp,
                    {"kind": "bez", "points": pts})
        plan.append(("bez", ib, pts))
        for h in (1.0, 1024.0, 10240.0, 51200.0, 102400.0, 204800.0, 350.0 * 1024):
            q = (ox - sx * h, oy)
            ic = cs.raw("bezcp c %s %s %s" % (pl, fhex(q[0]), fhex(q[1])),
                        "let () = (let r = closest_point_cartesian n (bezier_build n %s) %s in "
                        "if r.cl_found then out_vec [r.cl_distance; r.cl_fraction; float_of_int (int_of_nat r.cl_index); fst r.cl_point; snd r.cl_point; fst r.cl_normal; snd r.cl_normal] "
                        "else out_str \"throw\")" % (mlp, mpt(q)),
                        {"kind": "bezcp", "points": pts, "query": q, "aimed": "foot is the middle coordinate"})
            plan.append(("bezcp", ic, pts, q, ib, -h))
    # aimed: arcuate and horseshoe-shaped lines - every bend turns the same way by 35-55 degrees, 5-8 coordinates, so that the line
    # comes back towards points whose first foot (going along the line) is far away: the nearest foot is on a later section, with
    # farther sections in between
    for _ in range(6 if quick else 60):
        rng.seed("%d/c19-4b/%d" % (chk.seed, _))      # every world has its own stream: families do not disturb each other
        n = rng.choice([5, 6, 7, 8])
        turn = rng.choice([-1.0, 1.0])
        ang = rng.uniform(0, 2 * math.pi)
        x, y = rng.choice([0.0, 65536.0]), rng.choice([0.0, -131072.0])
        pts = [(x, y)]
        for k in range(n - 1):
            L = float(round(rng.uniform(1.0e5, 4.0e5)))
            x, y = x + L * math.cos(ang), y + L * math.sin(ang)
            pts.append((float(round(x)), float(round(y))))
            ang += turn * math.radians(rng.uniform(35.0, 55.0))
        pl = "%d %s" % (n, " ".join(fhex(p[0]) + " " + fhex(p[1]) for p in pts))
        mlp = mlist([mpt(p) for p in pts])
        ib = cs.raw("bez c " + pl,
                    "let () = (let b = bezier_build n %s in out_vec (b.bz_angles @ List.concat_map (fun ((a,b),(c,d)) -> [a;b;c;d]) b.bz_ctrl))" % mlp,
                    {"kind": "bez", "points": pts})
        plan.append(("bez", ib, pts))
        xs, ys = [p[0] for p in pts], [p[1] for p in pts]
        for _k in range(30):
            if _k % 2 == 0:
                # next to one of the later sections, on either side
                i = rng.randrange(max(1, n - 3), n - 1)
                t = rng.uniform(0.1, 0.9)
                dx, dy = pts[i + 1][0] - pts[i][0], pts[i + 1][1] - pts[i][1]
                L = math.hypot(dx, dy)
                off = rng.uniform(-6e4, 6e4)
                q = (pts[i][0] + t * dx - dy / L * off, pts[i][1] + t * dy + dx / L * off)
            else:
                q = (rng.uniform(min(xs), max(xs)), rng.uniform(min(ys), max(ys)))
            ic = cs.raw("bezcp c %s %s %s" % (pl, fhex(q[0]), fhex(q[1])),
                        "let () = (let r = closest_point_cartesian n (bezier_build n %s) %s in "
                        "if r.cl_found then out_vec [r.cl_distance; r.cl_fraction; float_of_int (int_of_nat r.cl_index); fst r.cl_point; snd r.cl_point; fst r.cl_normal; snd r.cl_normal] "
                        "else out_str \"throw\")" % (mlp, mpt(q)),
                        {"kind": "bezcp", "points": pts, "query": q, "aimed": "horseshoe"})
            plan.append(("bezcp", ic, pts, q, ib, 1.0))
    # ---------------- Bezier, spherical closest point (haversine Newton with line search) -------------------
    for _ in range(30 if quick else 400):
        rng.seed("%d/c19-5/%d" % (chk.seed, _))      # every world has its own stream: families do not disturb each other
        n = rng.choice([2, 2, 3, 4, 5])
        lon, lat, ang = rng.uniform(-170, 170), rng.uniform(-70, 70), rng.uniform(0, 2 * PI)
        ptsd = [(round(lon, 1), round(lat, 1))]
        for _k in range(n - 1):
            L = rng.uniform(2, 12)
            lon, lat = lon + L * math.cos(ang), max(-85.0, min(85.0, lat + L * math.sin(ang)))
            ang += math.radians(rng.uniform(-50, 50))
            ptsd.append((round(lon, 1), round(lat, 1)))
        pr = [((p[0] * PI) * (1 / 180.0), (p[1] * PI) * (1 / 180.0)) for p in ptsd]
        pl = "%d %s" % (n, " ".join(fhex(p[0]) + " " + fhex(p[1]) for p in pr))
        mlp = mlist([mpt(p) for p in pr])
        for _k in range(10):
            i = rng.randrange(n - 1)
            t = rng.uniform(-0.1, 1.1)
            bx, by = pr[i][0] + t * (pr[i + 1][0] - pr[i][0]), pr[i][1] + t * (pr[i + 1][1] - pr[i][1])
            off = rng.uniform(-0.1, 0.1) if rng.random() < 0.8 else 0.0
            q = (bx + off * rng.uniform(-1, 1), max(-1.5, min(1.5, by + off * rng.uniform(-1, 1))))
            if rng.random() < 0.1:
                q = (q[0] + 2 * PI * rng.choice([-1, 1]), q[1])
            ic = cs.raw("bezcp s %s %s %s" % (pl, fhex(q[0]), fhex(q[1])),
                        "let () = (let r = closest_point_spherical n (bezier_build n %s) %s in "
                        "if r.cl_found then out_vec [r.cl_distance; r.cl_fraction; float_of_int (int_of_nat r.cl_index); fst r.cl_point; snd r.cl_point; fst r.cl_normal; snd r.cl_normal] "
                        "else out_str \"throw\")" % (mlp, mpt(q)),
                        {"kind": "bezcp-spherical", "points": pr, "query": q})
    # ---------------- conversions and great circle ---------------------------------------------------
    for _ in range(150 if quick else 3000):
        rng.seed("%d/c19-6/%d" % (chk.seed, _))      # every world has its own stream: families do not disturb each other
        r = rng.choice([6371000.0, 1.0, rng.uniform(1e3, 7e6)])
        lon, lat = rng.uniform(-PI, PI), rng.uniform(-PI / 2, PI / 2)
        if rng.random() < 0.1:
            lat = rng.choice([PI / 2, -PI / 2, 0.0])
        i = cs.raw("s2c %s %s %s" % (fhex(r), fhex(lon), fhex(lat)),
                   "let () = (let ((a,b),c) = spherical_to_cartesian n ((%s,%s),%s) in out_vec [a;b;c])" % (ml(r), ml(lon), ml(lat)),
                   {"kind": "s2c", "s": [r, lon, lat]})
        plan.append(("s2c", i, (r, lon, lat)))
        x, y, z = rng.uniform(-7e6, 7e6), rng.uniform(-7e6, 7e6), rng.uniform(-7e6, 7e6)
        if rng.random() < 0.1:
            x, y = 0.0, 0.0
        if _ % 10 in (3, 6, 8):
            # points exactly on the coordinate planes (one horizontal coordinate exactly zero, either sign of the other; signed zeros;
            # the polar axis): longitudes of exactly +-90 and 180 degrees, as mesh vertices on those planes have them
            k_ = (_ // 10) % 8
            mag = rng.choice([1.0, 2.0, 6371000.0, rng.uniform(1e3, 7e6)])
            x, y = [(0.0, mag), (0.0, -mag), (-mag, 0.0), (mag, 0.0), (-0.0, mag), (-mag, -0.0), (0.0, 0.0), (-0.0, -mag)][k_]
            if _ % 10 == 8:
                z = rng.choice([0.0, mag, -mag])
        i = cs.raw("c2s %s %s %s" % (fhex(x), fhex(y), fhex(z)),
                   "let () = (let ((a,b),c) = cartesian_to_spherical n ((%s,%s),%s) in out_vec [a;b;c])" % (ml(x), ml(y), ml(z)),
                   {"kind": "c2s", "c": [x, y, z]})
        plan.append(("c2s", i, (x, y, z)))
        lon2 = rng.uniform(-PI, PI)
        lat2 = rng.uniform(-PI / 2, PI / 2)
        if rng.random() < 0.15:
            lon2, lat2 = (lon + PI if lon < 0 else lon - PI), -lat          # antipodal
        if rng.random() < 0.1:
            lon2, lat2 = lon, lat
        i = cs.raw("gc %s %s %s %s %s" % (fhex(r), fhex(lon), fhex(lat), fhex(lon2), fhex(lat2)),
                   "let () = out_vec [great_circle_distance n ((%s,%s),%s) ((%s,%s),%s)]" % (ml(r), ml(lon), ml(lat), ml(r), ml(lon2), ml(lat2)),
                   {"kind": "gc", "r": r, "p1": [lon, lat], "p2": [lon2, lat2]})
        plan.append(("gc", i, r, (lon, lat), (lon2, lat2)))
    impl, model = cs.run()
    chk.evaluations += len(impl)
    bad = chk.correspond(impl, model, cs, max_ulp=0)
    # in-Coq cross-evaluation (coq/NumF.v): the polygon scan and the kd search, evaluated by Coq's VM on primitive floats, give what
    # the extracted OCaml model gives on the same inputs
    import fnum
    nsample = 250 if quick else 3000
    step = max(1, len(pl_meta) // nsample)
    psel = pl_meta[::step][:nsample]
    pbody = "".join("\nlet () = out_str (if polygon_contains_impl n %s %s then \"ok 1\" else \"ok 0\")\n" % (mlist([mpt(c) for c in pg]), mpt(p)) for pg, p in psel)
    pans = common.run_model(pbody, tag="c19fn") if psel else []
    pcases = [(pg, p, a.split()[-1] == "1") for (pg, p), a in zip(psel, pans)]
    kcases = []
    for i, (nodes, q) in list(kd_nodes.items())[:(60 if quick else 600)]:
        t = model[i].split()
        if len(t) >= 3 and t[0] == "ok":
            kcases.append((nodes, q, int(t[1]), common.unhex(t[2]), [(int(t[k]), common.unhex(t[k + 1])) for k in range(3, len(t) - 1, 2)]))
    nfn, fbad = fnum.crosscheck(pcases, kcases, tag="c19")
    chk.counters["kernel cases evaluated inside Coq on primitive floats (polygon scan, kd search)"] = nfn
    chk.counters["of those differing from the extracted model"] = len(fbad)
    chk.corr["cases"] += nfn
    chk.corr["agree"] += nfn - len(fbad)
    chk.corr["bit_exact"] += nfn - len(fbad)
    chk.corr["disagreements"] += len(fbad)
    for k in fbad[:2]:
        what = ({"kind": "polygon", "polygon": pcases[k][0], "point": list(pcases[k][1]), "extracted_model": pcases[k][2]} if k < len(pcases)
                else {"kind": "kd", "nodes": kcases[k - len(pcases)][0], "query": list(kcases[k - len(pcases)][1])})
        fnum_bad.append(what)
    ctrl_of = {}
    for pl in plan:
        kind, i = pl[0], pl[1]
        a = impl[i]
        v = common.parse_vec(a) if kind != "kd" else None
        if kind == "kd":
            if a.split() != pl[2].split():
                d = cs.describe(i)
                d["first"], d["second"] = pl[2], a
                viol.append(("kd-tree search is not deterministic", d))
        elif kind == "bez":
            pts = pl[2]
            n = len(pts)
            ctrl_of[i] = [((v[n + 4 * k], v[n + 4 * k + 1]), (v[n + 4 * k + 2], v[n + 4 * k + 3])) for k in range(n - 1)]
        elif kind == "bezev":
            pts, k, t = pl[2], pl[3], pl[4]
            if t == 0.0 and tuple(v) != pts[k] or t == 1.0 and tuple(v) != pts[k + 1]:
                viol.append(("the trench curve does not pass through its coordinates", cs.describe(i)))
        elif kind == "bezcp":
            pts, q, ib, off = pl[2], pl[3], pl[4], pl[5]
            if v is None:
                viol.append(("closest point search throws for a point next to the trench", cs.describe(i)))
                continue
            dist, frac, idx, px, py = v[0], v[1], int(v[2]), v[3], v[4]
            if math.isinf(dist):
                if off < 0:
                    # the aimed family: the foot is the middle coordinate, at distance -off
                    viol.append(("no closest point is reported for a point on the convex side of a bend whose foot is a trench coordinate %.0f m away" % -off, cs.describe(i)))
                    continue
                chk.count("closest point: none reported")
                continue
            ctrl = ctrl_of[ib]
            bx, by = bez_eval(pts, ctrl, idx, frac)
            scale = 1e6
            if math.hypot(bx - px, by - py) > 1e-6 * scale * 1e-3:
                viol.append(("reported closest point is not the curve point at the reported parameter", cs.describe(i)))
                continue
            if abs(abs(dist) - math.hypot(px - q[0], py - q[1])) > 1e-6 * max(1.0, abs(dist)):
                viol.append(("reported distance is not the distance to the reported point", cs.describe(i)))
                continue
            if len(pts) > 2:
                chk.nontriv(("bez", i))
            # dense scan: is some curve point noticeably closer?  (query within a few hundred km, foot inside the curve)
            best, bk, bs = min((math.hypot(bez_eval(pts, ctrl, k, s / 400.0)[0] - q[0], bez_eval(pts, ctrl, k, s / 400.0)[1] - q[1]), k, s)
                               for k in range(len(pts) - 1) for s in range(401))
            if (bk == 0 and bs == 0) or (bk == len(pts) - 2 and bs == 400):
                # the nearest point of the curve is one of its ends: there is no foot of a perpendicular there, and the search
                # reports feet only (points beyond the ends of a trench do not belong to the slab)
                chk.count("closest point: the nearest curve point is an end of the curve (no foot)")
            elif best < abs(dist) - max(50.0, 2e-3 * abs(dist)):
                viol.append(("another point of the trench curve is noticeably closer (%.1f m vs reported %.1f m)" % (best, abs(dist)), cs.describe(i)))
        elif kind == "s2c":
            r, lon, lat = pl[2]
            exp = (r * math.cos(lat) * math.cos(lon), r * math.cos(lat) * math.sin(lon), r * math.sin(lat))
            if any(abs(x - y) > 1e-9 * r for x, y in zip(v, exp)):
                viol.append(("spherical -> Cartesian conversion is wrong", cs.describe(i)))
        elif kind == "c2s":
            x, y, z = pl[2]
            r, lon, lat = v
            back = (r * math.cos(lat) * math.cos(lon), r * math.cos(lat) * math.sin(lon), r * math.sin(lat))
            n3 = math.sqrt(x * x + y * y + z * z)
            if any(abs(p - b) > 1e-9 * max(n3, 1.0) for p, b in zip((x, y, z), back)):
                viol.append(("Cartesian -> spherical -> Cartesian does not round-trip", cs.describe(i)))
        elif kind == "gc":
            r, p1, p2 = pl[2], pl[3], pl[4]
            u = (math.cos(p1[1]) * math.cos(p1[0]), math.cos(p1[1]) * math.sin(p1[0]), math.sin(p1[1]))
            w = (math.cos(p2[1]) * math.cos(p2[0]), math.cos(p2[1]) * math.sin(p2[0]), math.sin(p2[1]))
            dot = max(-1.0, min(1.0, sum(a * b for a, b in zip(u, w))))
            ang = math.acos(dot)
            if ang > PI / 2:
                chk.nontriv(("gc", i))
            # acos is ill-conditioned near 0 and pi: compare angles with an absolute tolerance
            if abs(v[0] / r - ang) > 1e-7:
                viol.append(("same-depth distance is not the great-circle distance (central angle %.4f rad, reported %.4f rad)" % (ang, v[0] / r), cs.describe(i)))
    for pl in plan[:2] + plan[-2:]:
        chk.sample({"case": cs.probe[pl[1]][:200], "answer": impl[pl[1]][:200]})
    for what, d in viol[:5]:
        chk.violation(what, d)
    if bad and not viol:
        for i in bad[:3]:
            dsc = cs.describe(i)
            dsc["impl"], dsc["model"] = impl[i], model[i]
            chk.violation("correspondence Kernels.v/Bezier.v <-> implementation broken", dsc, found_input=False)
    if fnum_bad and not viol:
        for w_ in fnum_bad:
            chk.violation("the kernel evaluated inside Coq (primitive floats, NumF.v) differs from the extracted model: extraction or "
                          "the OCaml float dictionary no longer agree with the Gallina definition", w_, found_input=False)
    cs.cleanup()
