# C02 - features paint in file order; only covering features matter; operations compose
import copy
import random

import common
from cases import CaseSet
from qgen import query3d, prop_list, offsets
from wbgen import width
from worlds import area_world, any_world
from qgen import line_query, TOP

ALL = [[1, 0, 0], [2, 0, 0], [2, 1, 0], [2, 2, 0], [2, 3, 0], [3, 0, 2], [3, 1, 1], [4, 0, 0], [5, 0, 0]]


def single_feature_world(wj, i):
    w = copy.deepcopy(wj)
    w["features"] = [copy.deepcopy(wj["features"][i])]
    return w


def strip_models(x):
    """remove every temperature / composition / grains model list of a feature (segments and sections included)"""
    if isinstance(x, dict):
        for k in ("temperature models", "composition models", "grains models"):
            x.pop(k, None)
        for v in x.values():
            strip_models(v)
    elif isinstance(x, list):
        for v in x:
            strip_models(v)


def shallow(rng, wj, sph, pos):
    """same surface position, a depth inside the common shallow range"""
    from wbgen import cart_point
    import math
    d = float(round(rng.uniform(1e3, 1e5)))
    if sph:
        r = math.sqrt(pos[0] ** 2 + pos[1] ** 2 + pos[2] ** 2)
        radius = wj.get("coordinate system", {}).get("radius", 6371000.0)
        k = (radius - d) / r
        return (pos[0] * k, pos[1] * k, pos[2] * k), d
    return (pos[0], pos[1], 1000e3 - d), d


def run(chk):
    chk.rule = ("stacks of 1-6 overlapping/disjoint features with random operations; for every query the covering set is "
                "determined with single-feature worlds (tag probe); then (a) the world with all non-covering features deleted, "
                "(b) a world with the non-covering features moved to random positions, must answer identically; (c) the tag must "
                "be that of the last covering feature; (d) a feature stripped of its temperature/composition/grains models must "
                "leave those values as they were; (e) operations are checked against the values painted so far. non-trivial = at "
                "least two features cover the point")
    chk.assumptions = ["coverage of a feature at a point is observed through the tag of the single-feature world"]
    chk.prove()
    common.build_repo()
    rng = random.Random(chk.seed * 32452843 + 2)
    nworlds = 30 if chk.tier == "quick" else 300
    cs = CaseSet("c02")
    plan = []
    for wi in range(nworlds):
        rng.seed("%d/c02-1/%d" % (chk.seed, wi))      # every world has its own stream: families do not disturb each other
        modelled = rng.random() < 0.6
        wj, sph = (area_world if modelled else any_world)(rng, nfeat=rng.randint(1, 6), cross=False)
        wj.pop("force surface temperature", None)
        stacked = rng.random() < 0.6
        if stacked:
            # a real stack: every feature starts at the surface, so that shallow points are covered several times
            for f in wj["features"]:
                f.pop("min depth", None)
                if f["model"] == "plume":
                    f["max depth"] = max(f.get("max depth", 0), f["cross section depths"][-1])
                elif isinstance(f.get("max depth"), (int, float)):
                    f["max depth"] = max(f["max depth"], 1.5e5)
        n = len(wj["features"])
        slot = cs.add_world(wj)
        # slabs and faults: queries around them without grains (the part of these features that SlabFeature.v models),
        # so that their operations / section interpolation are compared with the model bit for bit
        for lf in [f for f in wj["features"] if f["model"] in ("subducting plate", "fault")]:
            for _k in range(10):
                lq, ld = line_query(rng, wj, sph, lf, spread=rng.choice([0.2, 0.5, 1.0]))
                if ld >= 0:
                    cs.p3(slot, lq, ld, [[1, 0, 0], [2, 0, 0], [2, 1, 0], [2, 2, 0], [2, 3, 0], [4, 0, 0], [5, 0, 0]])
        singles = [cs.add_world(single_feature_world(wj, i), model=False) for i in range(n)]
        queries = [query3d(rng, wj, sph) for _ in range(8)]
        if stacked:
            queries = [(pos, d) if i % 2 else shallow(rng, wj, sph, pos) for i, (pos, d) in enumerate(queries)]
        # stage 1 answers needed to build stage 2 worlds: coverage is probed in a first harness run
        plan.append({"wj": wj, "sph": sph, "slot": slot, "singles": singles, "queries": queries,
                     "full": [cs.p3(slot, pos, d, ALL) for pos, d in queries],
                     "cover": [[cs.p3(s, pos, d, [[4, 0, 0]]) for s in singles] for pos, d in queries],
                     "alone": [[cs.p3(s, pos, d, ALL) for s in singles] for pos, d in queries]})
    # (f) operations of slabs and faults over an area feature: Cartesian, uniform / linear temperature and uniform / smooth
    # composition with every operation, one or two sections; compared with SlabFeature.v bit for bit
    from wbgen import Gen
    from worlds import line_world
    for wi in range(12 if chk.tier == "quick" else 150):
        rng.seed("%d/c02-2/%d" % (chk.seed, wi))      # every world has its own stream: families do not disturb each other
        wj, sph, lf = line_world(rng, spherical=False, straight=rng.random() < 0.5, uniform_sections=rng.random() < 0.5,
                                 allow_mass_conserving=False, extra_area=1.0)
        gg = Gen(rng)
        kind = lf["model"]
        def simple_models():
            kmax = "max distance fault center" if kind == "fault" else "max distance slab top"
            tm = {"model": rng.choice(["uniform", "linear"]), "operation": gg.op()}
            if tm["model"] == "uniform":
                tm["temperature"] = float(round(rng.uniform(100, 900), 1))
            else:
                tm[kmax] = float(round(rng.uniform(5e4, 2e5)))
                tm["center temperature" if kind == "fault" else "top temperature"] = float(round(rng.uniform(300, 900), 1))
                tm["side temperature" if kind == "fault" else "bottom temperature"] = rng.choice([-1, float(round(rng.uniform(900, 1600), 1))])
            cm = gg.slab_comp_model(kind)
            cm["operation"] = gg.op(comp=True)
            return {"temperature models": [tm], "composition models": [cm]}
        for k in ("temperature models", "composition models", "grains models", "velocity models"):
            lf.pop(k, None)
        lf.update(simple_models())
        for sg in lf["segments"] + [x for sc in lf.get("sections", []) for x in sc["segments"]]:
            for k in ("temperature models", "composition models", "grains models", "velocity models"):
                sg.pop(k, None)
        for sc in lf.get("sections", []):
            for k in ("temperature models", "composition models", "grains models", "velocity models"):
                sc.pop(k, None)
            if rng.random() < 0.5:
                sc.update(simple_models())
        slot = cs.add_world(wj)
        for _k in range(12):
            lq, ld = line_query(rng, wj, False, lf, spread=rng.choice([0.15, 0.3, 0.6]))
            if ld >= 0:
                cs.p3(slot, lq, ld, [[1, 0, 0], [2, 0, 0], [2, 1, 0], [2, 2, 0], [2, 3, 0], [4, 0, 0]])
    # (f2) a composition listed with the fraction 0: a slab / fault (alternating) whose uniform composition model lists one
    # composition with fraction exactly 0 and one with a non-zero fraction, every operation in turn, over a plate that has painted
    # all four compositions: "replace defined only" must overwrite the listed composition with 0 and leave the unlisted ones alone
    for wi in range(8 if chk.tier == "quick" else 80):
        rng.seed("%d/c02-2z/%d" % (chk.seed, wi))      # every world has its own stream: families do not disturb each other
        kind = "fault" if wi % 2 == 0 else "subducting plate"
        wj, sph, lf = line_world(rng, kind=kind, spherical=False, straight=True, uniform_sections=True, allow_mass_conserving=False, extra_area=1.0)
        under = wj["features"][0]
        for k in ("temperature models", "composition models", "grains models", "velocity models", "min depth"):
            under.pop(k, None)
        under["max depth"] = 9e5
        under["composition models"] = [{"model": "uniform", "compositions": [0, 1, 2, 3], "fractions": [round(rng.uniform(0.1, 1), 3) for _ in range(4)]}]
        for k in ("temperature models", "composition models", "grains models", "velocity models", "sections"):
            lf.pop(k, None)
        for sg in lf["segments"]:
            for k in ("temperature models", "composition models", "grains models", "velocity models"):
                sg.pop(k, None)
        listed = rng.sample(range(4), 2)
        cm = {"model": "uniform", "compositions": listed, "fractions": [0.0, round(rng.uniform(0.1, 1), 3)],
              "operation": ["replace defined only", "replace", "add", "subtract"][(wi // 2) % 4]}
        if wi % 3 == 0:
            lf["segments"][0]["composition models"] = [cm]
            lf["composition models"] = [dict(cm, fractions=[round(rng.uniform(0.1, 1), 3), 0.0])]
        else:
            lf["composition models"] = [cm]
        slot = cs.add_world(wj)
        for _k in range(12):
            lq, ld = line_query(rng, wj, False, lf, spread=rng.choice([0.1, 0.2, 0.4]))
            if ld >= 0:
                cs.p3(slot, lq, ld, [[2, 0, 0], [2, 1, 0], [2, 2, 0], [2, 3, 0], [4, 0, 0]])
    # (f3) the same for the three area feature types and the plume: an upper feature that lists a composition with fraction 0
    for wi in range(8 if chk.tier == "quick" else 80):
        rng.seed("%d/c02-3z/%d" % (chk.seed, wi))      # every world has its own stream: families do not disturb each other
        gg = Gen(rng)
        lower = gg.area_feature("lower", False, kinds=("mantle layer",), centre=(0.0, 0.0), size=9e5, depth_arrays=0)
        for k in ("temperature models", "grains models", "velocity models", "min depth"):
            lower.pop(k, None)
        lower["max depth"] = 6e5
        lower["composition models"] = [{"model": "uniform", "compositions": [0, 1, 2, 3], "fractions": [round(rng.uniform(0.1, 1), 3) for _ in range(4)]}]
        ukind = ("continental plate", "oceanic plate", "mantle layer", "plume")[wi % 4]
        if ukind == "plume":
            upper = gg.plume("upper", False, centre=(0.0, 0.0))
        else:
            upper = gg.area_feature("upper", False, kinds=(ukind,), centre=(0.0, 0.0), size=4e5, depth_arrays=0)
            upper.pop("min depth", None)
            upper["max depth"] = 3e5
        for k in ("temperature models", "grains models", "velocity models"):
            upper.pop(k, None)
        listed = rng.sample(range(4), 2)
        upper["composition models"] = [{"model": "uniform", "compositions": listed, "fractions": [0.0, round(rng.uniform(0.1, 1), 3)],
                                        "operation": ["replace defined only", "replace", "add", "subtract"][(wi // 4) % 4]}]
        wj = {"version": "1.1", "features": [lower, upper]}
        slot = cs.add_world(wj)
        for _k in range(8):
            d = float(round(rng.uniform(0.0, 2.5e5)))
            if ukind == "plume":
                ds = upper["cross section depths"]
                j = rng.randrange(len(ds))
                a = upper["semi-major axis"][j] * 0.4
                d = float(round(rng.uniform(upper.get("min depth", 0.0), min(upper.get("max depth", ds[-1]), ds[-1]))))
                p = (upper["coordinates"][j][0] + rng.uniform(-a, a), upper["coordinates"][j][1] + rng.uniform(-a, a), TOP - d)
            else:
                p = (rng.uniform(-1.5e5, 1.5e5), rng.uniform(-1.5e5, 1.5e5), TOP - d)
            cs.p3(slot, p, d, [[2, 0, 0], [2, 1, 0], [2, 2, 0], [2, 3, 0], [4, 0, 0]])
    # (g) a plume painted over an area feature, every composition / temperature operation, compositions the plume does not list
    for wi in range(10 if chk.tier == "quick" else 120):
        rng.seed("%d/c02-3/%d" % (chk.seed, wi))      # every world has its own stream: families do not disturb each other
        gg = Gen(rng)
        base = gg.area_feature("below", False, kinds=("mantle layer", "continental plate"), centre=(0.0, 0.0), size=9e5, depth_arrays=0)
        base.pop("min depth", None)
        base["max depth"] = 6e5
        base["composition models"] = [{"model": "uniform", "compositions": [0, 1, 2, 3], "fractions": [round(rng.uniform(0.1, 1), 3) for _ in range(4)]}]
        base["temperature models"] = [{"model": "uniform", "temperature": float(round(rng.uniform(500, 1500), 1))}]
        pl = gg.plume("pl", False, centre=(0.0, 0.0))
        listed = rng.sample(range(4), rng.randint(1, 2))
        pl["composition models"] = [{"model": "uniform", "compositions": listed, "fractions": [round(rng.uniform(0, 1), 3) for _ in listed],
                                     "operation": rng.choice(["replace", "replace defined only", "add", "subtract"])}]
        pl["temperature models"] = [{"model": "uniform", "temperature": float(round(rng.uniform(100, 900), 1)), "operation": gg.op()}]
        for k in ("grains models", "velocity models"):
            pl.pop(k, None)
            base.pop(k, None)
        wj = {"version": "1.1", "features": [base, pl]}
        slot = cs.add_world(wj)
        ds = pl["cross section depths"]
        for _k in range(10):
            j = rng.randrange(len(ds))
            a = pl["semi-major axis"][j] * 0.5
            d = float(round(rng.uniform(pl.get("min depth", 0.0), min(pl.get("max depth", ds[-1]), ds[-1] + 5e4))))
            cs.p3(slot, (pl["coordinates"][j][0] + rng.uniform(-a, a), pl["coordinates"][j][1] + rng.uniform(-a, a), TOP - d), d,
                  [[1, 0, 0], [2, 0, 0], [2, 1, 0], [2, 2, 0], [2, 3, 0], [4, 0, 0]])
    impl, model = cs.run()
    chk.evaluations = len(impl)
    bad = chk.correspond(impl, model, cs, max_ulp=0)
    viol = []
    # stage 2: worlds with the non-covering features deleted / moved, stripped features
    cs2 = CaseSet("c02b")
    plan2 = []
    for pl in plan:
        wj, n = pl["wj"], len(pl["wj"]["features"])
        for qi, (pos, d) in enumerate(pl["queries"]):
            full = common.parse_vec(impl[pl["full"][qi]])
            cov = []
            ok = full is not None
            for i in range(n):
                t = common.parse_vec(impl[pl["cover"][qi][i]])
                if t is None:
                    ok = False
                    break
                cov.append(t[0] >= 0)
            if not ok:
                chk.count("throwing queries")
                continue
            covering = [i for i in range(n) if cov[i]]
            if len(covering) >= 2:
                chk.nontriv(cs.probe[pl["full"][qi]])
            # (c) tag of the last covering feature
            offs, _ = offsets(ALL)
            tag = full[offs[7]]
            if covering:
                last = common.parse_vec(impl[pl["alone"][qi][covering[-1]]])
                # tag index in the single-feature world is 0; compare through the feature's tag name
                names = []
                for f in wj["features"]:
                    tname = f.get("tag", "") or f["model"]
                    if tname not in names:
                        names.append(tname)
                fl = wj["features"][covering[-1]]
                exp = names.index(fl.get("tag", "") or fl["model"])
                if tag != float(exp):
                    viol.append(("tag is not that of the last covering feature (expected %d)" % exp, pl["full"][qi], cs))
            elif tag != -1.0:
                viol.append(("tag reported although no feature covers the point", pl["full"][qi], cs))
            if qi >= 4:
                continue
            # (a) delete the non-covering features   (b) move them
            wa = copy.deepcopy(wj)
            wa["features"] = [copy.deepcopy(wj["features"][i]) for i in covering]
            wb = copy.deepcopy(wj)
            order = list(covering)
            for i in range(n):
                if not cov[i]:
                    order.insert(rng.randint(0, len(order)), i)
            wb["features"] = [copy.deepcopy(wj["features"][i]) for i in order]
            sa, sb = cs2.add_world(wa, model=False), cs2.add_world(wb, model=False)
            # tags are indices into the tag table of the file: compare everything but the tag for (a)/(b)
            plan2.append(("same", pl["full"][qi], cs2.p3(sa, pos, d, ALL), "deleting the non-covering features changes the answer"))
            plan2.append(("same", pl["full"][qi], cs2.p3(sb, pos, d, ALL), "moving the non-covering features changes the answer"))
            # (d) strip all models of the last covering feature: values must equal the world without it
            if covering:
                j = covering[-1]
                wc = copy.deepcopy(wj)
                strip_models(wc["features"][j])
                wd = copy.deepcopy(wj)
                del wd["features"][j]
                sc, sd = cs2.add_world(wc, model=False), cs2.add_world(wd, model=False)
                line = wj["features"][j]["model"] in ("subducting plate", "fault")
                plan2.append(("same-tcg-line" if line else "same-tcg", cs2.p3(sc, pos, d, ALL), cs2.p3(sd, pos, d, ALL),
                              "a covering feature without temperature/composition/grains models changes those values"))
    impl2, _ = cs2.run(model=False)
    chk.evaluations += len(impl2)
    offs, _ = offsets(ALL)
    tag_o = offs[7]
    vel_o = offs[8]
    for kind, ia, ib, what in plan2:
        a = common.parse_vec(impl[ia]) if kind == "same" else common.parse_vec(impl2[ia])
        b = common.parse_vec(impl2[ib])
        if a is None or b is None:
            continue
        a, b = list(a), list(b)
        a[tag_o] = b[tag_o] = 0.0          # tag indices depend on the file's tag table
        if kind.startswith("same-tcg"):
            a[vel_o:vel_o + 3] = b[vel_o:vel_o + 3] = [0.0, 0.0, 0.0]
        if kind == "same-tcg-line":
            # known finding D4: a slab/fault without grains models turns zero matrices into the identity
            g0, g1 = offs[5], offs[7]
            if a[g0:g1] != b[g0:g1]:
                if chk.known("D4", "slab/fault without grains models changes the grains"):
                    a[g0:g1] = b[g0:g1]
        if any(x != y and not (x != x and y != y) for x, y in zip(a, b)):
            cs2.meta[ib]["compared_with"] = cs2.describe(ia) if kind != "same" else cs.describe(ia)
            cs2.meta[ib]["values"] = [a, b]
            viol.append((what, ib, cs2))
    # stage 3: a fresh process in which a Cartesian world with every feature type is queried first and spherical worlds follow, whose
    # features lie across the +-180 meridian and are written on either longitude branch: what a feature covers in the second
    # world must not depend on the coordinate system of a world evaluated earlier in the process (model = oracle, bit for bit)
    cs3 = CaseSet("c02c")
    gg = Gen(rng)
    rng.seed("%d/c02-4/0" % chk.seed)
    first = {"version": "1.1", "features": []}
    for k_ in ("continental plate", "oceanic plate", "mantle layer"):
        ff = gg.area_feature(k_[:4], False, kinds=(k_,), centre=(0.0, 0.0), size=4e5, depth_arrays=0, water=0)
        ff.pop("min depth", None)
        ff["max depth"] = 3e5
        first["features"].append(ff)
    first["features"].append(gg.plume("pl", False, centre=(0.0, 0.0)))
    s0 = cs3.add_world(first)
    for _k in range(6):
        d_ = float(round(rng.uniform(0.0, 2.5e5)))
        cs3.p3(s0, (rng.uniform(-1e5, 1e5), rng.uniform(-1e5, 1e5), TOP - d_), d_, ALL)
    from wbgen import cart_point as _cp
    for wi in range(8 if chk.tier == "quick" else 60):
        rng.seed("%d/c02-4/%d" % (chk.seed, wi + 1))
        k_ = ("continental plate", "oceanic plate", "mantle layer", "plume")[wi % 4]
        branch = (180.0, -180.0)[(wi // 4) % 2]
        if k_ == "plume":
            ff = gg.plume("pl", True, centre=(branch + rng.uniform(-3, 3), rng.uniform(-30, 30)))
        else:
            ff = gg.area_feature("a", True, kinds=(k_,), centre=(branch + rng.uniform(-4, 4), rng.uniform(-30, 30)), size=10.0, depth_arrays=0, water=0)
            ff.pop("min depth", None)
            ff["max depth"] = 3e5
        wsp = {"version": "1.1", "coordinate system": {"model": "spherical", "depth method": "begin segment"}, "features": [ff]}
        sl = cs3.add_world(wsp)
        cx_ = ff["coordinates"][0][0] if k_ == "plume" else sum(c[0] for c in ff["coordinates"]) / len(ff["coordinates"])
        cy_ = ff["coordinates"][0][1] if k_ == "plume" else sum(c[1] for c in ff["coordinates"]) / len(ff["coordinates"])
        for _k in range(14):
            d_ = float(round(rng.uniform(0.0, 2.5e5)))
            cs3.p3(sl, _cp(True, cx_ + rng.uniform(-9, 9), cy_ + rng.uniform(-9, 9), d_, 6371000.0, TOP), d_, [[1, 0, 0], [2, 0, 0], [2, 1, 0], [4, 0, 0]])
    impl3, model3 = cs3.run()
    chk.evaluations += len(impl3)
    bad3 = chk.correspond(impl3, model3, cs3, max_ulp=0)
    if bad3 and not viol:
        for i in bad3[:2]:
            dsc = cs3.describe(i)
            dsc["impl"], dsc["model"] = impl3[i], model3[i]
            dsc["process"] = "a Cartesian world with every feature type was queried earlier in the same process"
            viol.append(("what a feature covers depends on a world evaluated earlier in the process (answer %s, the fold over the covering features gives %s)"
                         % (impl3[i][:60], model3[i][:60]), i, cs3))
    cs3.cleanup()
    for pl in plan[:3]:
        chk.sample({"query": cs.probe[pl["full"][0]], "answer": impl[pl["full"][0]][:160]})
    for what, idx, c in viol[:5]:
        dsc = c.describe(idx)
        chk.violation(what, dsc)
    if bad and not viol:
        for i in bad[:3]:
            dsc = cs.describe(i)
            dsc["impl"], dsc["model"] = impl[i], model[i]
            chk.violation("correspondence Features.v <-> area features broken", dsc, found_input=False)
    cs.cleanup()
    cs2.cleanup()
