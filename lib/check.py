import argparse
import importlib
import os
import sys
import traceback

sys.path.insert(0, os.path.dirname(os.path.abspath(__file__)))
import common


def main():
    ap = argparse.ArgumentParser()
    ap.add_argument("pid")
    ap.add_argument("--tier", default=os.environ.get("VERIF_TIER", "quick"))
    ap.add_argument("--replay", default=None)
    a = ap.parse_args()
    seed = int(os.environ.get("VERIF_SEED", "1"))
    pid = a.pid.upper()
    if pid == "SETUP":
        return setup()
    mod = importlib.import_module(pid.lower())
    chk = common.Check(pid, a.tier, seed)
    try:
        if a.replay:
            if hasattr(mod, "replay"):
                return mod.replay(chk, a.replay)
            return generic_replay(pid, a.replay)
        mod.run(chk)
        import cases
        for what, d in cases.SURFACE_TIE[:3]:
            if not any(v[0] == what for v in chk.violations):
                chk.violation(what, d)
        for what, d in cases.PROCESS_TIE[:2]:
            if not any(v[0] == what for v in chk.violations):
                chk.violation(what, d)
        if cases.PROCESS_STATS["worlds"]:
            chk.counters["worlds queried once more alone in a fresh process (queries reversed) / queries compared"] = "%d / %d" % (
                cases.PROCESS_STATS["worlds"], cases.PROCESS_STATS["queries"])
        if cases.PROCESS_STATS.get("reused"):
            chk.counters["queries repeated in a fresh process with one world alive at a time (each destroyed before the next is built)"] = cases.PROCESS_STATS["reused"]
        if cases.MERGE_STATS["surfaces"]:
            chk.counters["depth surfaces whose nodal values were compared with the model's merge (Kernels.merge_values)"] = cases.MERGE_STATS["surfaces"]
    except common.TieError as e:
        # /repo builds, the harness does not: the correspondence no longer checks and nothing could be searched
        chk.violation("the correspondence harness %s no longer compiles against /repo: the tie between the model and the code cannot be checked" % e.harness,
                      {"kind": "tie", "correspondence": e.harness, "log_tail": str(e)[-3000:]}, found_input=False)
    except common.BuildError as e:
        print("BUILD-ERROR %s: %s" % (pid, str(e)[-4000:]))
        return 2
    return chk.finish()


def generic_replay(pid, path):
    """re-run the recorded query on a rebuild of /repo's working tree and print what the implementation answers now"""
    import json
    import shutil
    rec = json.load(open(path))
    rp = rec.get("replay", {})
    print("REPLAY property=%s: %s" % (pid, rec.get("what", rec.get("kind", ""))))
    if rec.get("kind") == "proof-obligation" or "probe_line" not in rp:
        for k, v in rp.items():
            if k != "world":
                print("  %s: %s" % (k, str(v)[:400]))
        if rec.get("kind") == "proof-obligation":
            ok, ths, axioms, closed, log = common.check_property_file(pid)
            print("  Properties_%s.v %s" % (pid, "checks" if ok else "does not check"))
            if not ok:
                print(log[-2000:])
            return 0 if ok else 1
        return 0
    common.build_repo()
    d = os.path.join(common.WORK, "replay_%d" % os.getpid())
    os.makedirs(d, exist_ok=True)
    lines = []
    if "world" in rp:
        wp = os.path.join(d, "w.wb")
        json.dump(rp["world"], open(wp, "w"))
        lines.append("world %s %s %d" % (rp.get("slot", 0), wp, rec.get("seed", 1)))
    pl = rp["probe_line"]
    if pl.split()[:1] == ["wsurf"] and "slot" not in rp:
        pl = " ".join(["wsurf", "0"] + pl.split()[2:])       # the world of the replay sits in slot 0
    lines.append(pl)
    out = common.run_probe(lines, cwd=d)
    for l, o in zip(lines, out):
        print("  %s\n    -> %s" % (l[:200], " ".join(str(common.unhex(t)) if t not in ("ok", "throw") and not t.startswith("error") else t for t in o.split())[:600]))
    for k in ("expected", "got"):
        if k in rp:
            print("  recorded %s: %s" % (k, rp[k]))
    shutil.rmtree(d, ignore_errors=True)
    return 0


def setup():
    ok, log = common.build_coq()
    if not ok:
        print(log[-6000:])
        print("SETUP: Coq development does not build")
        return 1
    common.build_model()
    t = common.build_repo()
    print("SETUP ok (repo build %.1fs)" % t)
    return 0


if __name__ == "__main__":
    sys.exit(main())
