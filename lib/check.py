import argparse
import importlib
import os
import sys
import traceback

sys.path.insert(0, os.path.dirname(os.path.abspath(__file__)))
import common


def main():
    ap = argparse.ArgumentParser()
    ap.add_argument("pid")
    ap.add_argument("--tier", default=os.environ.get("VERIF_TIER", "quick"))
    ap.add_argument("--replay", default=None)
    a = ap.parse_args()
    seed = int(os.environ.get("VERIF_SEED", "1"))
    pid = a.pid.upper()
    if pid == "SETUP":
        return setup()
    mod = importlib.import_module(pid.lower())
    chk = common.Check(pid, a.tier, seed)
    try:
        if a.replay:
            return mod.replay(chk, a.replay)
        mod.run(chk)
    except common.BuildError as e:
        print("BUILD-ERROR %s: %s" % (pid, str(e)[-4000:]))
        return 2
    return chk.finish()


def setup():
    ok, log = common.build_coq()
    if not ok:
        print(log[-6000:])
        print("SETUP: Coq development does not build")
        return 1
    common.build_model()
    t = common.build_repo()
    print("SETUP ok (repo build %.1fs)" % t)
    return 0


if __name__ == "__main__":
    sys.exit(main())
