# C06 - slab and fault geometry equals the elementary construction for straight trenches
import math
import os
import random

import common
from cases import CaseSet
from common import fhex
from wbgen import Gen, PI, DMAX
from qgen import TOP


def nrm(th):
    return (-math.sin(th), math.cos(th))


def planar_distance(segs, u, v):
    """signed distance below the slab surface and distance along it, in the vertical plane perpendicular to the
    trench (u: horizontal offset towards the dip point, v: depth below the start of the surface).
    segs: [(length, dip_top_rad, dip_bottom_rad)].  Returns (distance, along, segment index, fraction) or None."""
    sx, sy = 0.0, 0.0
    done = 0.0
    best = None
    for k, (L, t1, t2) in enumerate(segs):
        if abs(t2 - t1) < 1e-9:
            dx, dy = math.cos(t1), math.sin(t1)
            al = (u - sx) * dx + (v - sy) * dy
            n = nrm(t1)
            dist = (u - sx) * n[0] + (v - sy) * n[1]
            ok = 0.0 <= al <= L
            ex, ey = sx + L * dx, sy + L * dy
        else:
            sgn = 1.0 if t2 > t1 else -1.0
            R = L / abs(t2 - t1)
            n1 = nrm(t1)
            cx, cy = sx + sgn * R * n1[0], sy + sgn * R * n1[1]
            wx, wy = u - cx, v - cy
            rho = math.hypot(wx, wy)
            # point(theta) = c - sgn*R*n(theta)  =>  -sgn*n(theta) = w/rho
            th = math.atan2(sgn * wx, -sgn * wy) if rho > 0 else t1
            # unwrap next to t1
            while th - t1 > PI:
                th -= 2 * PI
            while th - t1 < -PI:
                th += 2 * PI
            frac = (th - t1) / (t2 - t1)
            ok = 0.0 <= frac <= 1.0
            al = frac * L
            dist = sgn * (R - rho)
            n2 = nrm(t2)
            ex, ey = cx - sgn * R * n2[0], cy - sgn * R * n2[1]
        if ok and (best is None or abs(dist) < abs(best[0])):
            best = (dist, done + al, k, al / L)
        sx, sy = ex, ey
        done += L
    return best


def chain_point(segs, s):
    """(u, v, dip) of the surface point at arclength s of the planar chain"""
    sx, sy = 0.0, 0.0
    for (L, t1, t2) in segs:
        if s <= L or (L, t1, t2) == segs[-1]:
            if abs(t2 - t1) < 1e-9:
                return sx + s * math.cos(t1), sy + s * math.sin(t1), t1
            sgn = 1.0 if t2 > t1 else -1.0
            R = L / abs(t2 - t1)
            n1 = nrm(t1)
            cx, cy = sx + sgn * R * n1[0], sy + sgn * R * n1[1]
            th = t1 + (t2 - t1) * s / L
            n = nrm(th)
            return cx - sgn * R * n[0], cy - sgn * R * n[1], th
        # end of this piece
        if abs(t2 - t1) < 1e-9:
            sx, sy = sx + L * math.cos(t1), sy + L * math.sin(t1)
        else:
            sgn = 1.0 if t2 > t1 else -1.0
            R = L / abs(t2 - t1)
            n1, n2 = nrm(t1), nrm(t2)
            cx, cy = sx + sgn * R * n1[0], sy + sgn * R * n1[1]
            sx, sy = cx - sgn * R * n2[0], cy - sgn * R * n2[1]
        s -= L
    return sx, sy, segs[-1][2]


def run(chk):
    chk.rule = ("Cartesian slabs and faults with a straight 2-point trench (any position, azimuth, length, dip side), 1-3 segments "
                "(straight: equal top and bottom dip; arcs: dip varying linearly), dips in (5,170) degrees, thickness pairs, top "
                "truncations, min depth >= 0; query points on both sides of the trench down to min depth + length + thickness. "
                "(a) World::distance_to_plane vs the planar construction (line / circular arc chain in the vertical plane "
                "perpendicular to the trench); (b) membership (tag) vs the four-clause definition; points closer than 50 m to a "
                "membership boundary or to a junction of two pieces are counted as boundary-ambiguous. non-trivial = a point whose "
                "foot lies inside the surface (finite distances)")
    chk.corr["kind"] = ("bit-exact: SlabModel.distance_point_from_curved_planes vs World::distance_to_plane, and SlabFeature (membership, "
                        "composition) vs World::properties with the culling hook off; in addition the extracted specification "
                        "SlabSpec.planar_distance vs the implementation within 1 mm + 1e-9 * total length")
    chk.assumptions = ["accuracy of the Newton closest-point iteration on the trench is not a theorem; the planar construction uses the "
                       "exact orthogonal foot, distances are compared with an absolute tolerance of 1 m + 1e-6 * scale",
                       "curved trenches: covered by the model correspondence of C02/C10 and the oracles of C07/C08/C13, not by this closed form",
                       "spherical straight trenches (meridian, equator, oblique; all depth methods): model vs implementation bit for bit; "
                       "the planar closed form is not evaluated there"]
    chk.prove()
    common.build_repo()
    rng = random.Random(chk.seed * 86028157 + 6)
    g = Gen(rng)
    quick = chk.tier == "quick"
    cs = CaseSet("c06")
    plan = []
    model_dist = []
    impl_nontrivial = []
    same_name = []        # distance_to_plane for the feature of one name in two worlds, asked in turn (user-built, definition, user-built)
    normal_pairs = []     # (query on the world with the shortcuts switched off = the definition, same query on the world as built by a user)
    for wi in range(50 if quick else 600):
        rng.seed("%d/c06-1/%d" % (chk.seed, wi))      # every world has its own stream: families do not disturb each other
        kind = rng.choice(["subducting plate", "fault"])
        f = g.line_feature("line", kind, False, straight=True, uniform_sections=True, allow_mass_conserving=False)
        for k in ("temperature models", "composition models", "grains models", "velocity models", "sections"):
            f.pop(k, None)
        for s in f["segments"]:
            for k in ("temperature models", "composition models", "grains models", "velocity models"):
                s.pop(k, None)
        f["composition models"] = [{"model": "uniform", "compositions": [0]}]
        kink = wi % 5 == 2
        if kink:
            # a flattening (or steepening) kink: above the surface, in the wedge over the kink, a point has feet on both
            # segments and the nearer one must win whatever the sign of the distances
            a1, a2 = rng.choice([(60.0, 20.0), (70.0, 35.0), (25.0, 65.0)])
            th = float(round(rng.uniform(5e4, 1e5)))
            f["segments"] = [{"length": float(round(rng.uniform(1e5, 2e5))), "thickness": [th], "angle": [a1]},
                             {"length": float(round(rng.uniform(1.5e5, 2.5e5))), "thickness": [th], "angle": [a2]}]
            if kind == "subducting plate" and rng.random() < 0.6:
                for sg in f["segments"]:
                    sg["top truncation"] = [-float(round(rng.uniform(3e4, 8e4)))]
        wj = {"version": "1.1", "features": [f]}
        P0, P1 = f["coordinates"]
        tx, ty = P1[0] - P0[0], P1[1] - P0[1]
        TL = math.hypot(tx, ty)
        tx, ty = tx / TL, ty / TL
        # unit horizontal normal on the dip point side
        nx, ny = -ty, tx
        if (f["dip point"][0] - P0[0]) * nx + (f["dip point"][1] - P0[1]) * ny < 0:
            nx, ny = -nx, -ny
        m0 = f.get("min depth", 0.0)
        mx = f.get("max depth", DMAX)
        segs = [(s["length"], math.radians(s["angle"][0]), math.radians(s["angle"][-1])) for s in f["segments"]]
        total = sum(s[0] for s in segs)
        thick = max(max(s["thickness"]) for s in f["segments"])
        if kind == "fault" and wi % 4 == 0:
            # a fault that starts below the surface and ends at a finite max depth inside its own reach
            f["min depth"] = float(round(rng.uniform(2e4, 8e4)))
            f["max depth"] = float(round(f["min depth"] + rng.uniform(0.3, 0.8) * total * math.sin(segs[0][1])))
            m0, mx = f["min depth"], f["max depth"]
        slot = cs.add_world(wj)
        wj_n = wj
        if wi % 6 == 3:
            # the user-built copy lists another feature first: the feature of the same name sits at another position of its list,
            # and distance_to_plane is asked for it in both worlds in turn
            # (a far-away feature of the same type, so that the tag numbering stays the same)
            import copy as _copy
            pad = _copy.deepcopy(f)
            pad["name"] = "pad"
            pad["coordinates"] = [[c[0] + 5e7, c[1] + 5e7] for c in f["coordinates"]]
            pad["dip point"] = [f["dip point"][0] + 5e7, f["dip point"][1] + 5e7]
            wj_n = {"version": "1.1", "features": [pad, f]}
        slot_n = cs.add_world(wj_n, model=False)       # the same world as a user builds it: acceleration shortcuts on
        lf_ml = cs.worlds[slot][2].line_terms.get("line") if cs.model_ok[slot] else None
        for qi in range(30):
            t = rng.uniform(-0.05, 1.05)
            reach = 1.1 * (total + thick)
            if qi % 3 == 0:
                # aimed at the surface: a point at a random arclength, offset along the normal by up to 1.3 thicknesses
                su, sv, dip = chain_point(segs, rng.uniform(-0.02, 1.02) * total)
                w_off = rng.uniform(-0.7, 0.7) * thick if kind == "fault" else rng.uniform(-0.3, 1.3) * thick
                u, v = su + w_off * nrm(dip)[0], sv + w_off * nrm(dip)[1]
                t = rng.uniform(0.02, 0.98)
            elif kink and qi % 3 == 1:
                # above the surface next to the kink, on either side of it
                su, sv, dip = chain_point(segs, segs[0][0] + rng.uniform(-0.25, 0.35) * segs[1][0])
                w_off = -rng.uniform(0.02, 0.6) * thick
                u, v = su + w_off * nrm(dip)[0], sv + w_off * nrm(dip)[1]
                t = rng.uniform(0.05, 0.95)
            else:
                u = rng.uniform(-reach, reach)
                v = rng.uniform(-1e4, reach)
            d = m0 + v
            if d < 0:
                continue
            x = P0[0] + t * TL * tx + u * nx
            y = P0[1] + t * TL * ty + u * ny
            pos = (x, y, TOP - d)
            pcs = "[" + "; ".join("{pc_len = %s; pc_top = %s; pc_bot = %s}" % (common.ml(L_), common.ml(a_), common.ml(b_)) for (L_, a_, b_) in segs) + "]"
            dist_n = lambda: cs.raw("dist %d %s %s %s %s line" % (slot_n, fhex(x), fhex(y), fhex(TOP - d), fhex(d)), "let () = out_str \"skip\"",
                                    {"kind": "dist", "slot": slot_n, "world": wj_n, "pos": [x, y, TOP - d], "depth": d})
            i_b1 = dist_n() if wj_n is not wj else None
            i_d = cs.raw("dist %d %s %s %s %s line" % (slot, fhex(x), fhex(y), fhex(TOP - d), fhex(d)),
                         "let () = out_planar (planar_distance num %s %s %s)" % (pcs, common.ml(u), common.ml(v)),
                         {"kind": "dist", "slot": slot, "world": wj, "pos": [x, y, TOP - d], "depth": d})
            if i_b1 is not None:
                same_name.append((i_b1, i_d, dist_n()))
            i_t = cs.p3(slot, pos, d, [[4, 0, 0], [2, 0, 0]])
            normal_pairs.append((i_t, cs.p3(slot_n, pos, d, [[4, 0, 0], [2, 0, 0]])))
            if lf_ml is not None:
                # the Gallina model of distance_point_from_curved_planes (SlabModel.v), bit for bit
                i_m = cs.raw("dist %d %s %s %s %s line" % (slot, fhex(x), fhex(y), fhex(TOP - d), fhex(d)),
                             "let () = (let lf = %s in let r = distance_point_from_curved_planes n ((%s, %s), %s) lf.lf_dip lf.lf_coords (lf_geom lf) ((%s +. %s) -. lf.lf_min) (bezier_build n lf.lf_coords) in out_vec [r.pd_distance; r.pd_along])"
                             % (lf_ml, common.ml(x), common.ml(y), common.ml(TOP - d), common.ml(TOP - d), common.ml(d)),
                             {"kind": "dist", "slot": slot, "world": wj, "pos": [x, y, TOP - d], "depth": d})
                model_dist.append(i_m)
            plan.append((i_d, i_t, f, segs, t, u, v, d, m0, mx, total, kind))
    # spherical worlds (all three depth methods): SlabModel.distance_point_from_curved_planes_sph and SlabFeature vs the
    # implementation, bit for bit; straight trenches along meridians, parallels and oblique
    from worlds import line_world
    from qgen import line_query
    for wi in range(20 if quick else 250):
        rng.seed("%d/c06-2/%d" % (chk.seed, wi))      # every world has its own stream: families do not disturb each other
        wj, sph, f = line_world(rng, spherical=True, straight=True, uniform_sections=True, allow_mass_conserving=False, extra_area=0.0)
        for k in ("temperature models", "grains models", "velocity models", "sections"):
            f.pop(k, None)
        for sg in f["segments"]:
            for k in ("temperature models", "composition models", "grains models", "velocity models"):
                sg.pop(k, None)
        f["composition models"] = [{"model": "uniform", "compositions": [0]}]
        u_ = rng.random()
        c0 = f["coordinates"][0]
        if u_ < 0.3:      # along a meridian
            f["coordinates"] = [c0, [c0[0], round(max(-80.0, min(80.0, c0[1] + rng.choice([-1, 1]) * rng.uniform(3, 12))), 1)]]
            f["dip point"] = [round(c0[0] + rng.choice([-20.0, 20.0]), 1), c0[1]]
        elif u_ < 0.5:    # along the equator
            f["coordinates"] = [[c0[0], 0.0], [round(c0[0] + rng.choice([-1, 1]) * rng.uniform(3, 12), 1), 0.0]]
            f["dip point"] = [c0[0], rng.choice([-20.0, 20.0])]
        polar = wi % 4 == 1
        if polar:
            # a long, shallow slab or fault hanging from a meridional trench at high latitude, dipping east or west: towards its
            # tip at the high-latitude end its horizontal reach spans many more degrees of longitude than at the other end
            sgn_lat = rng.choice([-1, 1])
            lat0 = rng.uniform(45, 60)
            lat1 = lat0 + rng.uniform(8, 16)
            lon0 = rng.uniform(-140, 140)
            f["coordinates"] = [[round(lon0, 1), round(sgn_lat * lat0, 1)], [round(lon0, 1), round(sgn_lat * lat1, 1)]]
            # three out of four dip towards the side on which the reach in longitude grows fastest relative to the low-latitude
            # end of the trench (west in the north, east in the south), one towards the other side
            side0 = (-sgn_lat if (wi // 4) % 4 != 3 else sgn_lat)
            f["dip point"] = [round(lon0 + side0 * 35, 1), round(sgn_lat * (lat0 + lat1) / 2, 1)]
            f.pop("max depth", None)
            f.pop("min depth", None)
            f["segments"] = [{"length": float(round(rng.uniform(5e5, 1.0e6))), "thickness": [float(round(rng.uniform(5e4, 1.0e5)))],
                              "angle": [float(round(rng.uniform(6, 16), 1))]}]
        wj["features"] = [f]
        slot = cs.add_world(wj)
        slot_n = cs.add_world(wj, model=False)       # the same world as a user builds it: acceleration shortcuts on
        lf_ml = cs.worlds[slot][2].line_terms.get("line") if cs.model_ok[slot] else None
        for qi in range(25):
            q, d = line_query(rng, wj, True, f, spread=rng.choice([0.3, 0.6, 1.2]))
            if polar and qi % 4 != 0:
                # inside the slab / fault next to its tip, near the high-latitude end of the trench
                from qgen import cart_point
                sg = f["segments"][0]
                th = math.radians(sg["angle"][0])
                radius = wj.get("coordinate system", {}).get("radius", 6371000.0)
                c1 = f["coordinates"][1]
                lat = c1[1] - math.copysign(rng.uniform(0.05, 2.0), c1[1])
                al = rng.uniform(0.8, 0.995) * sg["length"]
                off = (rng.uniform(-0.45, 0.3) if f["model"] == "fault" else rng.uniform(0.05, 0.6)) * sg["thickness"][0]
                reach = al * math.cos(th) - off * math.sin(th)
                side = 1.0 if f["dip point"][0] > c1[0] else -1.0
                lon = c1[0] + side * math.degrees(reach / (radius * math.cos(math.radians(lat))))
                d = float(round(max(0.0, al * math.sin(th) + off * math.cos(th) + rng.choice([0.0, 1.0]) * reach * reach / (2 * radius))))
                q = cart_point(True, lon, lat, d, radius, TOP)
            if d < 0:
                continue
            normal_pairs.append((cs.p3(slot, q, d, [[4, 0, 0], [2, 0, 0]]), cs.p3(slot_n, q, d, [[4, 0, 0], [2, 0, 0]])))
            if lf_ml is not None:
                i_m = cs.raw("dist %d %s %s %s %s line" % (slot, fhex(q[0]), fhex(q[1]), fhex(q[2]), fhex(d)),
                             "let () = (let lf = %s in let pos = ((%s, %s), %s) in let ((r, _), _) = cartesian_to_spherical n pos in "
                             "let pd = distance_point_from_curved_planes_sph n lf.lf_dm (closest_point_spherical n) pos lf.lf_dip lf.lf_coords (lf_geom lf) ((r +. %s) -. lf.lf_min) (bezier_build n lf.lf_coords) in "
                             "out_vec [pd.pd_distance; pd.pd_along])" % (lf_ml, common.ml(q[0]), common.ml(q[1]), common.ml(q[2]), common.ml(d)),
                             {"kind": "dist", "slot": slot, "world": wj, "pos": list(q), "depth": d})
                model_dist.append(i_m)
                if impl_nontrivial is not None:
                    impl_nontrivial.append(i_m)
    # worlds built one after the other in one slot, each destroyed before the next is built (a loop over model variants): the same
    # trench shifted sideways, asked along the same vertical profile; every answer must be the one the same world gives in a slot
    # of its own (nothing may survive the destruction of a world, whatever the allocator does with its memory)
    life_plan = []
    for wi in range(3 if quick else 20):
        rng.seed("%d/c06-6/%d" % (chk.seed, wi))
        kind = ["subducting plate", "fault"][wi % 2]
        dip = float(rng.choice([30.0, 45.0, 60.0]))
        px, py = 2.5e5, float(round(rng.uniform(-1e5, 1e5)))
        variants = []
        for k in range(3):
            x0 = 1e5 * (k + 1) + (0.0 if wi % 3 else 5e4)
            f = {"model": kind, "name": "line", "coordinates": [[x0, -5e5], [x0, 5e5]], "dip point": [x0 + 1e6, 0.0],
                 "segments": [{"length": 4e5, "thickness": [1e5], "angle": [dip]}],
                 "composition models": [{"model": "uniform", "compositions": [0]}]}
            wv = {"version": "1.1", "features": [f]}
            variants.append((wv, cs.add_world(wv, model=False)))
        depths = [float(round(5e3 + 1.5e4 * k)) for k in range(14)]
        temp = 900000 + wi
        tmp_idx = []
        for wv, sl in variants:
            cs.raw("world %d %s 1" % (temp, os.path.join(cs.dir, "w%d.wb" % sl)), "let () = out_str \"skip\"", {"kind": "world", "slot": temp, "world": wv})
            for d in depths:
                i1 = cs.raw("dist %d %s %s %s %s line" % (temp, fhex(px), fhex(py), fhex(TOP - d), fhex(d)), "let () = out_str \"skip\"",
                            {"kind": "dist", "slot": temp, "world": wv, "pos": [px, py, TOP - d], "depth": d,
                             "note": "world built in a slot whose previous world was destroyed just before"})
                i2 = cs.raw("p3 %d %s %s %s %s 2 4 0 0 2 0 0" % (temp, fhex(px), fhex(py), fhex(TOP - d), fhex(d)), "let () = out_str \"skip\"",
                            {"kind": "p3", "slot": temp, "world": wv, "pos": [px, py, TOP - d], "depth": d, "props": [[4, 0, 0], [2, 0, 0]]})
                tmp_idx.append((i1, i2))
            cs.raw("free %d" % temp, "let () = out_str \"skip\"", {"kind": "hook"})
        own_idx = []
        for wv, sl in variants:
            for d in depths:
                i1 = cs.raw("dist %d %s %s %s %s line" % (sl, fhex(px), fhex(py), fhex(TOP - d), fhex(d)), "let () = out_str \"skip\"",
                            {"kind": "dist", "slot": sl, "world": wv, "pos": [px, py, TOP - d], "depth": d})
                i2 = cs.raw("p3 %d %s %s %s %s 2 4 0 0 2 0 0" % (sl, fhex(px), fhex(py), fhex(TOP - d), fhex(d)), "let () = out_str \"skip\"",
                            {"kind": "p3", "slot": sl, "world": wv, "pos": [px, py, TOP - d], "depth": d, "props": [[4, 0, 0], [2, 0, 0]]})
                own_idx.append((i1, i2))
        life_plan += list(zip(tmp_idx, own_idx))
    impl, model = cs.run()
    chk.evaluations = len(impl)
    oracle_mismatch = 0
    for i_m in impl_nontrivial:
        if "inf" not in impl[i_m]:
            chk.nontriv(("sph", i_m))
    spec_lines = set(pl[0] for pl in plan)
    bad = chk.correspond(impl, model, cs, max_ulp=0, skip=spec_lines)
    viol = []
    worst = 0.0
    for (i_d, i_t, f, segs, t, u, v, d, m0, mx, total, kind) in plan:
        a = common.parse_vec(impl[i_d])
        tg = common.parse_vec(impl[i_t])
        if a is None or tg is None:
            viol.append(("distance / tag query throws next to a straight slab", cs.describe(i_d)))
            continue
        # the deciding oracle is the extracted Coq specification; the Python transcription double-checks the harness
        sv = common.parse_vec(model[i_d])
        spec_c = None if (sv is None or not math.isfinite(sv[0])) else (sv[0], sv[1], int(sv[2]), sv[3])
        spec_p = planar_distance(segs, u, v)
        if (spec_c is None) != (spec_p is None) or (spec_c is not None and (abs(spec_c[0] - spec_p[0]) > 1e-3 or abs(spec_c[1] - spec_p[1]) > 1e-3)):
            if spec_p is None or spec_c is None or min(spec_p[3], 1 - spec_p[3]) * segs[spec_p[2]][0] > 1.0:
                oracle_mismatch += 1
        spec = spec_c if 0.0 < t < 1.0 else None
        scale = total
        tol = 1e-3 + 1e-9 * scale
        if spec is None:
            if math.isfinite(a[0]) and 0.001 < t < 0.999:
                # the implementation found a foot although the construction has none: only near piece junctions
                chk.count("boundary-ambiguous (junction / end of surface)")
            expect_inside = False
        else:
            dist, along, k, frac = spec
            chk.nontriv((i_d,))
            exp_dist = dist
            if not math.isfinite(a[0]):
                # junction between two pieces: the implementation may see no foot
                if min(frac, 1 - frac) * segs[k][0] < 50.0 or t < 0.001 or t > 0.999:
                    chk.count("boundary-ambiguous (junction / end of surface)")
                    continue
                dsc = cs.describe(i_d)
                dsc.update({"expected": [exp_dist, along], "got": a, "u": u, "v": v, "trench_fraction": t})
                viol.append(("no distance reported for a point whose foot lies inside the slab surface", dsc))
                continue
            worst = max(worst, abs(a[0] - exp_dist), abs(a[1] - along))
            chk.counters["specification comparisons"] = chk.counters.get("specification comparisons", 0) + 1
            if abs(a[0] - exp_dist) > tol or abs(a[1] - along) > tol:
                if min(frac, 1 - frac) * segs[k][0] < 50.0:
                    chk.count("boundary-ambiguous (junction / end of surface)")
                    continue
                if t < 0.001 or t > 0.999:
                    # a two-point trench is the curve A + (B-A) t^3: the Newton foot solver (stopping at |update| < 1e-4) leaves
                    # the foot of a point next to the first end at A itself (up to 2e-4 of the trench length off), and the
                    # distances are then those to A (measured: 0.27 m at 1 km, 2 mm at 400 km)
                    chk.count("boundary-ambiguous (foot within 0.1 % of a trench end)")
                    continue
                dsc = cs.describe(i_d)
                dsc.update({"expected": [exp_dist, along], "got": a, "u": u, "v": v, "trench_fraction": t, "segment": k})
                viol.append(("distance_to_plane reports (%.3f, %.3f), the planar construction gives (%.3f, %.3f)" % (a[0], a[1], exp_dist, along), dsc))
                continue
            s = f["segments"][k]
            th = s["thickness"][0] + frac * (s["thickness"][-1] - s["thickness"][0])
            tr = s.get("top truncation", [0.0])
            tr = tr[0] + frac * (tr[-1] - tr[0])
            if kind == "fault":
                margins = [th * 0.5 - abs(dist), along, total - along, d - m0, mx - d]
            else:
                margins = [dist - tr, th - dist, along, total - along, d - m0, mx - d]
            if min(abs(m) for m in margins) < 50.0:
                chk.count("boundary-ambiguous (membership boundary)")
                continue
            expect_inside = all(m > 0 for m in margins)
        if (tg[0] >= 0) != expect_inside:
            dsc = cs.describe(i_t)
            dsc.update({"u": u, "v": v, "trench_fraction": t, "spec": spec})
            viol.append(("membership differs from the definition (signed distance within truncation/thickness, along-surface "
                         "distance within the total length, foot between the end coordinates, depth within min/max)", dsc))
    # membership as a user gets it (shortcuts on) must be the membership of the definition (shortcuts off = the model, bit for bit)
    seen_n = set()
    ninside = 0
    for (t1, t2), (o1, o2) in life_plan:
        if impl[t1] != impl[o1] or impl[t2] != impl[o2]:
            dsc = dict(cs.meta[t1])
            dsc["slot"] = 0
            dsc["probe_line"] = cs.probe[t1]
            dsc.update({"in_the_reused_slot": [impl[t1], impl[t2]], "in_a_slot_of_its_own": [impl[o1], impl[o2]]})
            viol.append(("a world built after another one was destroyed answers differently from the same world in a slot of its own "
                         "(distance_to_plane %s vs %s)" % (impl[t1][:50], impl[o1][:50]), dsc))
            break
    chk.counters["queries on worlds built in a slot whose previous world was destroyed"] = len(life_plan)
    for i_b1, i_a, i_b2 in same_name:
        if not (impl[i_b1] == impl[i_a] == impl[i_b2]):
            dsc = cs.describe(i_b2)
            dsc.update({"first_asked": impl[i_b1], "other_world_with_the_feature_at_another_position": impl[i_a], "asked_again": impl[i_b2],
                        "probe_lines_in_order": [cs.probe[i_b1], cs.probe[i_a], cs.probe[i_b2]]})
            viol.append(("distance_to_plane for the feature named 'line' depends on which world was asked before (%s, %s, %s)"
                         % (impl[i_b1][:40], impl[i_a][:40], impl[i_b2][:40]), dsc))
            break
    chk.counters["distance_to_plane asked in turn in two worlds that list the feature at different positions"] = len(same_name)
    for i_def, i_usr in normal_pairs:
        a_, b_ = common.parse_vec(impl[i_def]), common.parse_vec(impl[i_usr])
        if a_ is not None and a_[0] >= 0:
            ninside += 1
        if impl[i_def] != impl[i_usr]:
            w_ = id(cs.describe(i_usr).get("world"))
            if w_ in seen_n:
                continue
            seen_n.add(w_)
            dsc = cs.describe(i_usr)
            dsc.update({"as_built_by_a_user": impl[i_usr], "membership_definition (shortcuts off, = model)": impl[i_def]})
            viol.append(("membership differs from the definition in the world as a user builds it: a point that satisfies the four clauses "
                         "is not in the feature (tag/composition %s instead of %s)" % (impl[i_usr][:40], impl[i_def][:40]), dsc))
    chk.counters["membership queries repeated on the world as built by a user"] = len(normal_pairs)
    chk.counters["of those inside the feature"] = ninside
    chk.counters["worst distance discrepancy (m)"] = worst
    chk.counters["extracted specification vs python transcription mismatches"] = oracle_mismatch
    if oracle_mismatch:
        raise common.BuildError("the extracted SlabSpec.planar_distance and its Python transcription disagree on %d inputs" % oracle_mismatch)
    for pl in plan[:3]:
        chk.sample({"query": cs.probe[pl[0]][:140], "answer": impl[pl[0]], "spec": model[pl[0]]})
    for what, d in viol[:5]:
        chk.violation(what, d)
    if bad and not viol:
        for i in bad[:3]:
            dsc = cs.describe(i)
            dsc["impl"], dsc["model"] = impl[i], model[i]
            chk.violation("correspondence SlabModel.v/SlabFeature.v <-> implementation broken", dsc, found_input=False)
    cs.cleanup()
