# C17 - gwb-dat prints exactly the library's values under its column headers
import json
import math
import os
import random
import shutil

import common
from cases import CaseSet, sanitize_numbers
from common import fhex
from qgen import query3d, query2d, offsets
from wbgen import props_tok, width, PI
from worlds import any_world


def cxx_g(v):
    """std::cout << double with the default precision (6 significant digits, %g-like)"""
    if math.isnan(v):
        return "nan" if math.copysign(1, v) > 0 else "-nan"
    if math.isinf(v):
        return "inf" if v > 0 else "-inf"
    return "%g" % v


def tok_ml(t):
    m = {"#": "THash", "dim": "TDim", "compositions": "TCompositions", "grain": "TGrain", "number": "TNumber", "of": "TOf",
         "grains": "TGrains", "convert": "TConvert", "spherical": "TSpherical", "=": "TEq", "true": "TTrue"}
    if t in m:
        return m[t]
    if t.isdigit():
        return "TNum (nat_of_int %s)" % t
    return "TOther"


COLS = "let col_s = function CX -> \"x\" | CY -> \"y\" | CZ -> \"z\" | CD -> \"d\" | CG -> \"g\" | CT -> \"T\" | CVx -> \"vx\" | CVy -> \"vy\" | CVz -> \"vz\" " \
       "| CComp c -> \"c\" ^ string_of_int (int_of_nat c) | CGs (a, b) -> Printf.sprintf \"gs%d-%d\" (int_of_nat a) (int_of_nat b) " \
       "| CGm (a, b, k) -> Printf.sprintf \"gm%d-%d[%d:%d]\" (int_of_nat a) (int_of_nat b) (int_of_nat k / 3) (int_of_nat k mod 3) | CTag -> \"tag\"\n" \
       "let cell_s = function Echo i -> \"E\" ^ string_of_int (int_of_nat i) | Val i -> \"V\" ^ string_of_int (int_of_nat i)\n"


def header_value(name, dim, ps, ans, toks, ngrains):
    """the value a header name denotes, from the request list alone (independent of the tool's offsets)"""
    offs, _ = offsets(ps)

    def off(p):
        for q, o in zip(ps, offs):
            if q == p:
                return o
        return None
    if name == "x":
        return toks[0]
    if name == "y":
        return toks[1]
    if name == "z":
        return toks[1] if dim == 2 else toks[2]
    if name == "d":
        return toks[dim]
    if name == "T":
        return cxx_g(ans[off([1, 0, 0])])
    if name == "vx":
        return cxx_g(ans[off([5, 0, 0])])
    if name == "vy":
        return cxx_g(ans[off([5, 0, 0]) + 1])
    if name == "vz":
        return cxx_g(ans[off([5, 0, 0]) + (1 if dim == 2 else 2)])
    if name == "tag":
        return cxx_g(ans[off([4, 0, 0])])
    if name[0] == "c" and name[1:].isdigit():
        return cxx_g(ans[off([2, int(name[1:]), 0])])
    if name.startswith("gs"):
        gc, g = name[2:].split("-")
        return cxx_g(ans[off([3, int(gc), ngrains]) + int(g)])
    if name.startswith("gm"):
        head, rc = name[2:].split("[")
        gc, g = head.split("-")
        r, c = rc.rstrip("]").split(":")
        return cxx_g(ans[off([3, int(gc), ngrains]) + ngrains + int(g) * 9 + int(r) * 3 + int(c)])
    return None


def run(chk):
    chk.rule = ("random worlds x generated .dat files (dim 2/3, 0-3 compositions, 0-2 grain compositions with 0-2 grains, convert "
                "spherical on/off, space or comma separated, comment lines, option lines, short '#' lines, rows with a wrong "
                "number of entries): the binary's table vs (a) the model's header/row layout filled with the library's answer "
                "obtained through wbprobe, (b) the meaning of every header name computed from the request list. non-trivial = a "
                "row inside a feature (tag >= 0) with compositions or grains requested")
    chk.assumptions = ["values are compared as printed (6 significant digits, the tool's own stream formatting)"]
    chk.prove()
    common.build_repo()
    rng = random.Random(chk.seed * 982451653 + 17)
    quick = chk.tier == "quick"
    viol = []
    exe = os.path.join(common.BUILD, "bin", "gwb-dat")
    base = os.path.join(common.WORK, "cases", "c17_%d" % os.getpid())
    shutil.rmtree(base, ignore_errors=True)
    os.makedirs(base)
    cs = CaseSet("c17")
    files = []
    for fi in range(25 if quick else 300):
        rng.seed("%d/c17-1/%d" % (chk.seed, fi))      # every world has its own stream: families do not disturb each other
        wj, sph = any_world(rng)
        for f in wj["features"]:        # grains need models with matching compositions to be interesting
            pass
        dim = 2 if ("cross section" in wj and rng.random() < 0.5) else 3
        comps = rng.choice([0, 0, 1, 2, 3])
        gcs = rng.choice([0, 0, 1, 2])
        ng = rng.choice([1, 2]) if gcs else rng.choice([0, 0, 2])
        convert = dim == 3 and rng.random() < (0.6 if sph else 0.3)     # the option is about the data file, not about the world
        slot = cs.add_world(wj, model=False)
        sep = rng.choice([" ", ", ", "  "])
        lines = ["# generated data file"]
        if rng.random() < 0.5:
            lines.append("# x y z d")
        lines.append("# dim = %d" % dim)
        if comps or rng.random() < 0.3:
            lines.append("# compositions = %d" % comps)
        if gcs:
            lines.append("# grain compositions = %d" % gcs)
        if ng or gcs:
            lines.append("# number of grains = %d" % ng)
        if convert:
            lines.append("# convert spherical = true")
        if fi % 4 == 2:
            # option lines with trailing remarks after the value ("# compositions = 2  # crust types"): the value still counts
            tails = ["  # remark", " # R long lat", " units", "   #", " % note"]
            lines = [l + tails[(fi // 4 + k) % len(tails)] if (l.startswith("# ") and " = " in l) else l for k, l in enumerate(lines)]
        short = rng.random() < 0.35
        if short:
            lines.insert(rng.randint(0, len(lines)), rng.choice(["#", "# dim", "# compositions =", "# number of grains", "# convert spherical ="]))
        ps = [[1, 0, 0], [5, 0, 0]] + [[2, c, 0] for c in range(comps)] + [[3, g, ng] for g in range(gcs)] + [[4, 0, 0]]
        rows = []
        for _ in range(8):
            if dim == 2:
                pos, d = query2d(rng, wj, sph)
                toks = ["%.10g" % pos[0], "%.10g" % pos[1], "%.10g" % d]
                q = cs.p2(slot, (float(toks[0]), float(toks[1])), float(toks[2]), ps)
            else:
                pos, d = query3d(rng, wj, sph)
                if convert:
                    r = math.sqrt(sum(x * x for x in pos))
                    lon = math.degrees(math.atan2(pos[1], pos[0]))
                    lat = math.degrees(math.asin(max(-1.0, min(1.0, pos[2] / r))))
                    toks = ["%.10g" % r, "%.8g" % lon, "%.8g" % lat, "%.10g" % d]
                    rr, lo, la = float(toks[0]), float(toks[1]) * (PI / 180.), float(toks[2]) * (PI / 180.)
                    cl = rr * math.sin(0.5 * PI - la)
                    p3 = (cl * math.cos(lo), cl * math.sin(lo), rr * math.cos(0.5 * PI - la))
                else:
                    toks = ["%.10g" % pos[0], "%.10g" % pos[1], "%.10g" % pos[2], "%.10g" % d]
                    p3 = (float(toks[0]), float(toks[1]), float(toks[2]))
                q = cs.p3(slot, p3, float(toks[3]), ps)
            rows.append((toks, q))
            lines.append(sep.join(toks))
            if rng.random() < 0.2:
                lines.append("# a comment between rows")
        if rng.random() < 0.35:
            # option lines are honoured wherever they stand: move one behind the first data row / to the end of the file
            opt = [i for i, l in enumerate(lines) if l.startswith("# ") and "=" in l and not l.startswith("# dim")]
            first_row = min(i for i, l in enumerate(lines) if not l.startswith("#"))
            if opt:
                k = rng.choice(opt)
                if k < first_row:
                    l = lines.pop(k)
                    lines.insert(rng.choice([len(lines), rng.randint(first_row, len(lines))]), l)
        d_ = os.path.join(base, "f%d" % fi)
        os.makedirs(d_)
        json.dump(wj, open(os.path.join(d_, "w.wb"), "w"))
        open(os.path.join(d_, "d.dat"), "w").write("\n".join(lines) + "\n")
        files.append({"dir": d_, "world": wj, "dim": dim, "comps": comps, "gcs": gcs, "ng": ng, "convert": convert, "rows": rows,
                      "lines": lines, "ps": ps, "short": short})
        # a malformed variant: one row with a wrong number of entries
        if rng.random() < 0.4:
            bad_lines = list(lines)
            k = max(i for i, l in enumerate(bad_lines) if not l.startswith("#"))
            bad_lines[k] = bad_lines[k] + sep + "1.0" if rng.random() < 0.5 else sep.join(bad_lines[k].replace(",", " ").split()[:-1])
            open(os.path.join(d_, "bad.dat"), "w").write("\n".join(bad_lines) + "\n")
            files[-1]["bad"] = True
        # a malformed variant: one entry of a row is not a number (a prefix of it is)
        if rng.random() < 0.4:
            bad_lines = list(lines)
            k = rng.choice([i for i, l in enumerate(bad_lines) if not l.startswith("#")])
            ts = bad_lines[k].replace(",", " ").split()
            j = rng.randrange(len(ts))
            ts[j] = rng.choice([ts[j] + "km", "1.0d5", ts[j] + "x", "1e5e", "12abc", "0x", ts[j] + "_"])
            bad_lines[k] = sep.join(ts)
            open(os.path.join(d_, "bad2.dat"), "w").write("\n".join(bad_lines) + "\n")
            files[-1]["bad2"] = ts[j]
    impl, _ = cs.run(model=False)
    # model: header and row layout for every file
    body = COLS
    for f in files:
        tl = "[" + "; ".join("[" + "; ".join(tok_ml(t) for t in l.replace(",", " ").split()) + "]" for l in f["lines"] if l.startswith("#")) + "]"
        _, total = offsets(f["ps"])
        body += ("let () = (let o = dat_options_of %s in out_str (String.concat \" \" (\"ok\" :: List.map col_s (dat_header o) @ [\"|\"] @ "
                 "List.map cell_s (dat_row o (nat_of_int %d)))))\n" % (tl, total))
    model = common.run_model(body, tag="c17")
    for fi, f in enumerate(files):
        rc, out, err = common.sh([exe, "w.wb", "d.dat"], cwd=f["dir"], timeout=300)
        chk.evaluations += 1
        rep = {"world": f["world"], "dat": f["lines"]}
        if rc != 0:
            what = "gwb-dat crashes (rc=%d%s) on a data file with a short '#' line" % (rc, ", " + err.strip()[-120:] if err.strip() else "") if f["short"] else \
                   "gwb-dat fails (rc=%d): %s" % (rc, err.strip()[-200:])
            viol.append((what, rep))
            continue
        olines = [l for l in out.splitlines() if l.strip()]
        header = olines[0].split()[1:]
        orows = [l.split() for l in olines[1:]]
        mh, mr = model[fi][3:].split("|")
        mh, mr = mh.split(), mr.split()
        chk.corr["cases"] += 1
        ok = header == mh and len(orows) == len(f["rows"])
        known_a = known_b = False
        for (toks, q), orow in zip(f["rows"], orows):
            ans = common.parse_vec(impl[q])
            if ans is None:
                continue
            # (a) the model's layout, materialised with the library's answer
            mat = [toks[int(c[1:])] if c[0] == "E" else cxx_g(ans[int(c[1:])]) for c in mr]
            if mat != orow:
                ok = False
            # (b) every header name must stand over the value it names
            hdr = list(header)
            if f["dim"] == 3 and "g" in hdr and len(hdr) == len(orow) + 1:
                known_a = True
                hdr.remove("g")
            exp = [header_value(h, f["dim"], f["ps"], ans, toks, f["ng"]) for h in hdr]
            tagged = ans[-1] >= 0
            if tagged and (f["comps"] or f["gcs"]):
                chk.nontriv((fi, tuple(toks)))
            if len(hdr) != len(orow) or exp != orow:
                if f["dim"] == 2 and (f["comps"] or f["gcs"]) and len(hdr) == len(orow):
                    # the known 2-D shift: compositions and grains read one slot too early
                    # (every composition / grain slot is read from one slot earlier; the tag from its own slot)
                    ans2 = list(ans[:4]) + list(ans[3:-2]) + [ans[-1]]
                    shifted = [header_value(h, f["dim"], f["ps"], ans2, toks, f["ng"]) for h in hdr]
                    if shifted == orow:
                        known_b = True
                        continue
                rep2 = dict(rep)
                rep2.update({"row": toks, "printed": orow, "header": header, "expected_under_header": exp})
                viol.append(("a gwb-dat column does not show the value its header names", rep2))
                break
        if known_a:
            chk.known("D12a", "3-D header column g")
        if known_b:
            chk.known("D12b", "2-D composition/grain offsets")
        if (known_a and not chk.known("D12a", "")) or (known_b and not chk.known("D12b", "")):
            viol.append(("gwb-dat header/column mismatch", rep))
        if ok:
            chk.corr["agree"] += 1
            chk.corr["bit_exact"] += 1
        else:
            chk.corr["disagreements"] += 1
            rep3 = dict(rep)
            rep3.update({"model_header": mh, "model_row": mr, "impl_header": header, "impl_rows": orows[:2]})
            viol.append(("correspondence Dat.v <-> gwb-dat layout broken", rep3) if False else ("__corr__", rep3))
        if f.get("bad"):
            rc, out, err = common.sh([exe, "w.wb", "bad.dat"], cwd=f["dir"], timeout=300)
            chk.evaluations += 1
            chk.count("malformed rows")
            if rc == 0 or "entries" not in (out + err):
                viol.append(("a row with a wrong number of entries is not reported (rc=%d)" % rc, rep))
        if f.get("bad2"):
            rc, out, err = common.sh([exe, "w.wb", "bad2.dat"], cwd=f["dir"], timeout=300)
            chk.evaluations += 1
            chk.count("malformed numbers")
            if rc == 0:
                rep2 = dict(rep)
                rep2["malformed_entry"] = f["bad2"]
                viol.append(("a row with an entry that is not a number ('%s') is silently misread (rc=0)" % f["bad2"], rep2))
        if fi < 2:
            chk.sample({"dat": f["lines"][:8], "output_head": olines[:2]})
    real = [(w, d) for w, d in viol if w != "__corr__"]
    corr = [d for w, d in viol if w == "__corr__"]
    for what, d in real[:5]:
        chk.violation(what, d)
    if corr and not real:
        for d in corr[:3]:
            chk.violation("correspondence Dat.v <-> gwb-dat (header / row layout) broken", d, found_input=False)
    shutil.rmtree(base, ignore_errors=True)
    cs.cleanup()
