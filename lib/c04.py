# C04 - area features and plumes occupy exactly their declared footprint and depth range
import math
import random
from fractions import Fraction

import common
from cases import CaseSet
from common import fhex, ml
from wbgen import Gen, PI, cart_point, mlist, mpt
from qgen import TOP


# ---- the specification, in exact rational arithmetic --------------------------------------------
def on_seg(a, b, p):
    ax, ay, bx, by, px, py = map(Fraction, (a[0], a[1], b[0], b[1], p[0], p[1]))
    cross = (bx - ax) * (py - ay) - (px - ax) * (by - ay)
    if cross != 0:
        return False
    dot = (px - ax) * (bx - ax) + (py - ay) * (by - ay)
    return 0 <= dot <= (bx - ax) ** 2 + (by - ay) ** 2


def inside_spec(poly, p):
    """closed polygon: on the boundary, or non-zero winding number"""
    n = len(poly)
    wn = 0
    px, py = Fraction(p[0]), Fraction(p[1])
    for i in range(n):
        a, b = poly[i - 1], poly[i]
        if on_seg(a, b, p):
            return True
        ax, ay, bx, by = map(Fraction, (a[0], a[1], b[0], b[1]))
        il = (bx - ax) * (py - ay) - (px - ax) * (by - ay)
        if ay <= py < by and il > 0:
            wn += 1
        elif by <= py < ay and il < 0:
            wn -= 1
    return wn != 0


def boundary_distance(poly, p):
    best = float("inf")
    for i in range(len(poly)):
        a, b = poly[i - 1], poly[i]
        dx, dy = b[0] - a[0], b[1] - a[1]
        L2 = dx * dx + dy * dy
        t = 0.0 if L2 == 0 else max(0.0, min(1.0, ((p[0] - a[0]) * dx + (p[1] - a[1]) * dy) / L2))
        best = min(best, math.hypot(p[0] - (a[0] + t * dx), p[1] - (a[1] + t * dy)))
    return best


def lattice_polygon(rng, n, size):
    while True:
        pts = [(rng.randrange(size), rng.randrange(size)) for _ in range(n)]
        ok = all(pts[i] != pts[i - 1] for i in range(n))
        if ok:
            return [[float(x), float(y)] for x, y in pts]


# ---- plume specification (independent Python implementation of the property text) -----------------
def plume_spec(f, sph, x, y, depth):
    """returns (inside?, margin) ; coordinates in the feature's natural units (degrees when spherical)"""
    dmin = f.get("min depth", 0.0)
    dmax = f.get("max depth", 1.7976931348623157e308)
    if not (dmin <= depth <= dmax):
        return False, min(abs(depth - dmin), abs(depth - dmax))
    ds = f["cross section depths"]
    conv = PI / 180.0 if sph else 1.0
    cs = [(c[0] * conv, c[1] * conv) for c in f["coordinates"]]
    ax = [a * conv for a in f["semi-major axis"]]
    ec = f["eccentricity"]
    th = [PI / 2 - a * PI / 180.0 for a in f["rotation angles"]]
    px, py = x * conv, y * conv
    if depth < ds[0]:
        c, a, e, t = cs[0], ax[0], ec[0], th[0]
        b = a * math.sqrt(1 - e * e)
        cz = ds[0] - dmin
        xr = (px - c[0]) * math.cos(t) + (py - c[1]) * math.sin(t)
        yr = -(px - c[0]) * math.sin(t) + (py - c[1]) * math.cos(t)
        v = xr * xr / (a * a) + yr * yr / (b * b) + (ds[0] - depth) ** 2 / (cz * cz)
    else:
        if depth >= ds[-1]:
            c, a, e, t = cs[-1], ax[-1], ec[-1], th[-1]
        else:
            i = max(j for j in range(len(ds)) if ds[j] <= depth)
            fr = (depth - ds[i]) / (ds[i + 1] - ds[i])
            c = (cs[i][0] + fr * (cs[i + 1][0] - cs[i][0]), cs[i][1] + fr * (cs[i + 1][1] - cs[i][1]))
            a = ax[i] + fr * (ax[i + 1] - ax[i])
            e = ec[i] + fr * (ec[i + 1] - ec[i])
            d = (th[i + 1] - th[i] + PI) % (2 * PI) - PI      # shorter arc
            if abs(abs(d) - PI) < 1e-9 and e > 0:
                # a jump of exactly half a turn: both arcs are equally short, the direction is not determined
                return None if f.get("_want_v") else (False, 0.0)
            t = th[i] + fr * d
        b = a * math.sqrt(1 - e * e)
        xr = (px - c[0]) * math.cos(t) + (py - c[1]) * math.sin(t)
        yr = -(px - c[0]) * math.sin(t) + (py - c[1]) * math.cos(t)
        v = xr * xr / (a * a) + yr * yr / (b * b)
    if f.get("_want_v"):
        return v
    return v <= 1.0, abs(v - 1.0)


def run(chk):
    chk.rule = ("(1) polygon kernel on integer lattices (exact regime): every lattice point of random 3-7-vertex lattice polygons, "
                "either orientation, self-touching allowed, against the exact rational definition boundary-or-winding-number; "
                "(2) random simple polygons, points on vertices/edges/near edges, Cartesian and spherical with the 2 pi alias and "
                "dateline-straddling footprints: kernel vs model bit-for-bit, kernel vs definition away from the boundary; (3) "
                "single-feature worlds (three area kinds): tag vs polygon-and-depth-interval; (4) plumes with 1-5 cross-sections: "
                "vertical and horizontal probes through head, sections and below, vs model (bit-exact) and vs the property text. "
                "non-trivial = boundary point, concave polygon, alias branch, or plume head/interpolated section")
    chk.assumptions = ["exact regime = lattice coordinates below 2^26: is_left and the dot products are computed without rounding",
                       "Jordan-curve identification of winding number with the topological interior is not formalised"]
    chk.prove()
    common.build_repo()
    rng = random.Random(chk.seed * 49979687 + 4)
    g = Gen(rng)
    quick = chk.tier == "quick"
    cs = CaseSet("c04")
    plan = []
    # (1) lattice polygons, all lattice points
    for _ in range(60 if quick else 1500):
        rng.seed("%d/c04-1/%d" % (chk.seed, _))      # every world has its own stream: families do not disturb each other
        size = rng.choice([4, 5, 6, 8])
        poly = lattice_polygon(rng, rng.randint(3, 7), size)
        if rng.random() < 0.3:
            sc = rng.choice([1000.0, 65536.0, 0.5])
            off = rng.choice([0.0, -3.0, 1e6])
            poly = [[x * sc + off, y * sc + off] for x, y in poly]
            pts = [(x * sc + off, y * sc + off) for x in range(-1, size + 1) for y in range(-1, size + 1)]
        else:
            pts = [(float(x), float(y)) for x in range(-1, size + 1) for y in range(-1, size + 1)]
        pl = " ".join(fhex(c[0]) + " " + fhex(c[1]) for c in poly)
        mlp = mlist([mpt(c) for c in poly])
        for p in pts:
            i = cs.raw("poly c %d %s %s %s" % (len(poly), pl, fhex(p[0]), fhex(p[1])),
                       "let () = out_bool (polygon_contains n false %s %s)" % (mlp, mpt(p)),
                       {"kind": "poly-lattice", "poly": poly, "p": p})
            plan.append(("lattice", i, poly, p))
    # (2) random polygons, cartesian + spherical
    for _ in range(150 if quick else 3000):
        rng.seed("%d/c04-2/%d" % (chk.seed, _))      # every world has its own stream: families do not disturb each other
        sph = rng.random() < 0.5
        if sph:
            cx = rng.choice([rng.uniform(-170, 170), 179.0, -178.0, 175.0])
            poly = g.polygon(cx, rng.uniform(-60, 60), rng.uniform(2, 20))
            polyn = [[(c[0] * PI) * (1 / 180.0), (c[1] * PI) * (1 / 180.0)] for c in poly]
        else:
            poly = g.polygon(rng.uniform(-1e5, 1e5), rng.uniform(-1e5, 1e5), rng.uniform(1e3, 1e5))
            polyn = poly
        pl = " ".join(fhex(c[0]) + " " + fhex(c[1]) for c in polyn)
        mlp = mlist([mpt(c) for c in polyn])
        for k in range(12):
            u = rng.random()
            if u < 0.2:
                p = list(rng.choice(polyn))
            elif u < 0.45:
                a = rng.randrange(len(polyn)); b = (a + 1) % len(polyn)
                t = rng.choice([0.5, 0.25, rng.random()])
                p = [polyn[a][0] + t * (polyn[b][0] - polyn[a][0]), polyn[a][1] + t * (polyn[b][1] - polyn[a][1])]
            else:
                xs = [c[0] for c in polyn]; ys = [c[1] for c in polyn]
                p = [rng.uniform(min(xs) - 0.2 * (max(xs) - min(xs)), max(xs) + 0.2 * (max(xs) - min(xs))),
                     rng.uniform(min(ys) - 0.2 * (max(ys) - min(ys)), max(ys) + 0.2 * (max(ys) - min(ys)))]
            if sph:
                # natural longitudes come out of atan2 in (-pi, pi]: wrap, so that the alias branch is exercised
                while p[0] > PI:
                    p[0] -= 2 * PI
                while p[0] <= -PI:
                    p[0] += 2 * PI
            i = cs.raw("poly %s %d %s %s %s" % ("s" if sph else "c", len(polyn), pl, fhex(p[0]), fhex(p[1])),
                       "let () = out_bool (polygon_contains n %s %s %s)" % ("true" if sph else "false", mlp, mpt(p)),
                       {"kind": "poly-random", "spherical": sph, "poly": polyn, "p": p})
            plan.append(("random", i, polyn, p, sph))
    # (3) single area-feature worlds on lattices: tag vs definition
    for _ in range(12 if quick else 150):
        rng.seed("%d/c04-3/%d" % (chk.seed, _))      # every world has its own stream: families do not disturb each other
        size = 6
        poly = lattice_polygon(rng, rng.randint(3, 6), size)
        poly = [[x * 1000.0, y * 1000.0] for x, y in poly]
        dmin, dmax = rng.choice([0.0, 5000.0]), rng.choice([20000.0, 35000.0])
        f = {"model": rng.choice(["continental plate", "oceanic plate", "mantle layer"]), "name": "a", "coordinates": poly,
             "min depth": dmin, "max depth": dmax}
        wj = {"version": "1.1", "features": [f]}
        slot = cs.add_world(wj)
        for x in range(-1, size + 1):
            for y in range(-1, size + 1):
                for d in (dmin, dmax, (dmin + dmax) / 2, dmax + 1.0, dmin - 1.0):
                    if d < 0 and dmin == 0.0 and False:
                        continue
                    i = cs.p3(slot, (x * 1000.0, y * 1000.0, TOP - d), d, [[4, 0, 0]])
                    plan.append(("area", i, poly, (x * 1000.0, y * 1000.0), d, dmin, dmax))
    # (3b) local depth range: min / max depth given at points (each of the two alone and both); at a listed point the local
    # depth is the listed value, at the corners the value given for them
    for wi in range(9 if quick else 120):
        rng.seed("%d/c04-4/%d" % (chk.seed, wi))      # every world has its own stream: families do not disturb each other
        size = 6
        poly = [[0.0, 0.0], [6000.0, 0.0], [6000.0, 6000.0], [0.0, 6000.0]] if wi % 2 == 0 else [[1000.0 * x, 1000.0 * y] for x, y in lattice_polygon(rng, rng.randint(3, 6), size)]
        inner = [(1000.0 * x + 500.0, 1000.0 * y + 500.0) for x in range(size) for y in range(size)
                 if inside_spec(poly, (1000.0 * x + 500.0, 1000.0 * y + 500.0)) and boundary_distance(poly, (1000.0 * x + 500.0, 1000.0 * y + 500.0)) > 100.0]
        if len(inner) < 2:
            continue
        pts = rng.sample(inner, min(len(inner), rng.randint(1, 3)))
        which = ("max", "min", "both")[wi % 3]
        corner_min, corner_max = rng.choice([0.0, 4000.0]), rng.choice([20000.0, 30000.0])
        f = {"model": ["continental plate", "oceanic plate", "mantle layer"][(wi // 3) % 3], "name": "a", "coordinates": poly}
        node_min = {q: corner_min for q in pts}
        node_max = {q: corner_max for q in pts}
        if which in ("max", "both"):
            ent = [[corner_max]]
            for q in pts:
                node_max[q] = float(rng.choice([12000.0, 26000.0, 41000.0])) if q != pts[0] else 12000.0
                ent.append([node_max[q], [list(q)]])
            if wi % 2 == 1:
                ent = ent[1:] + ent[:1]      # the value for the corners written *after* the listed points: it must not touch them
            f["max depth"] = ent
        else:
            f["max depth"] = corner_max
        if which in ("min", "both"):
            ent = [[corner_min]]
            for q in pts:
                node_min[q] = float(rng.choice([1000.0, 6000.0, 9000.0]))
                ent.append([node_min[q], [list(q)]])
            if wi % 2 == 1:
                ent = ent[1:] + ent[:1]
            f["min depth"] = ent
        elif corner_min > 0 or rng.random() < 0.5:
            f["min depth"] = corner_min
        wj = {"version": "1.1", "features": [f]}
        slot = cs.add_world(wj)
        for q in pts:
            for d, exp in ((node_max[q] - 1.0, True), (node_max[q] + 1.0, False), (node_min[q] + 1.0, True), (node_min[q] - 1.0, False),
                           ((node_min[q] + node_max[q]) / 2, True)):
                if d < 0:
                    continue
                i = cs.p3(slot, (q[0], q[1], TOP - d), d, [[4, 0, 0]])
                plan.append(("node", i, exp, q, d, which))
        for c in poly:
            for d, exp in ((corner_max - 1.0, True), (corner_max + 1.0, False), (corner_min + 1.0, True)) + (((corner_min - 1.0, False),) if corner_min > 0 else ()):
                i = cs.p3(slot, (c[0], c[1], TOP - d), d, [[4, 0, 0]])
                plan.append(("node", i, exp, tuple(c), d, which))
        # anywhere else the model decides (bit for bit)
        for q in rng.sample(inner, min(len(inner), 6)):
            for _k in range(3):
                d = float(round(rng.uniform(0.0, 45000.0)))
                cs.p3(slot, (q[0] + rng.uniform(-400, 400), q[1] + rng.uniform(-400, 400), TOP - d), d, [[4, 0, 0]])
    # (3c) two features of one type on the same footprint, stacked: the upper one reaches down to a plane given at the corners,
    # the lower one from that plane to a second plane; every feature keeps its own local depth range at a position both cover
    for wi in range(6 if quick else 60):
        rng.seed("%d/c04-4c/%d" % (chk.seed, wi))
        kind3 = ["continental plate", "oceanic plate", "mantle layer"][wi % 3]
        x0, y0 = float(rng.choice([1000.0, 3000.0])), float(rng.choice([2000.0, 5000.0]))        # no zero coordinates (known finding D8)
        poly = [[x0, y0], [x0 + 8000.0, y0], [x0 + 8000.0, y0 + 8000.0], [x0, y0 + 8000.0]]
        a0, ax, ay = float(rng.choice([9000.0, 14000.0])), rng.choice([0.25, -0.25, 0.5]), rng.choice([0.5, -0.25, 0.0])
        b0, bx, by = a0 + float(rng.choice([12000.0, 20000.0])), rng.choice([-0.5, 0.25, 0.0]), rng.choice([0.25, 0.5, -0.5])
        pa = lambda c: a0 + ax * (c[0] - x0) + ay * (c[1] - y0)
        pb = lambda c: b0 + bx * (c[0] - x0) + by * (c[1] - y0)
        up = {"model": kind3, "name": "upper", "coordinates": poly, "max depth": [[pa(c), [list(c)]] for c in poly]}
        lw = {"model": kind3, "name": "lower", "coordinates": poly, "min depth": [[pa(c), [list(c)]] for c in poly], "max depth": [[pb(c), [list(c)]] for c in poly]}
        feats = [up, lw] if wi % 2 == 0 else [lw, up]
        wj = {"version": "1.1", "features": feats}
        slot = cs.add_world(wj)
        iu, il = feats.index(up), feats.index(lw)
        for _k in range(24):
            q = (x0 + float(rng.randrange(1, 16)) * 500.0, y0 + float(rng.randrange(1, 16)) * 500.0)
            la, lb = pa(q), pb(q)
            d = rng.choice([la - 700.0, la + 700.0, lb - 700.0, lb + 700.0, float(round(rng.uniform(0.0, lb + 3000.0)))])
            if d < 0 or min(abs(d - la), abs(d - lb)) < 50.0:
                continue
            in_u, in_l = d <= la, la <= d <= lb
            exp_tag = -1
            for j, inside in sorted([(iu, in_u), (il, in_l)]):
                if inside:
                    exp_tag = 0            # both features have the same type, hence the same tag
            i = cs.p3(slot, (q[0], q[1], TOP - d), d, [[4, 0, 0]])
            plan.append(("node", i, exp_tag >= 0, q, d, "stacked " + kind3 + ": min/max"))
    # (4) plumes
    for _ in range(25 if quick else 400):
        rng.seed("%d/c04-5/%d" % (chk.seed, _))      # every world has its own stream: families do not disturb each other
        sph = rng.random() < 0.4
        # a third of the spherical plumes straddle the +-180 meridian (longitudes written on either branch)
        f = g.plume("p", sph, centre=((rng.choice([-1, 1]) * round(rng.uniform(177, 183), 2), round(rng.uniform(-50, 50), 2))
                                      if sph and rng.random() < 0.35 else None))
        aimed = _ % 3 == 0 and len(f["cross section depths"]) >= 2
        if aimed:
            # aimed at the cyclic interpolation of the ellipse azimuth: elongated cross-sections whose azimuth jumps by
            # more than half a turn between neighbours, in both directions
            n = len(f["cross section depths"])
            f["eccentricity"] = [round(rng.uniform(0.6, 0.95), 3) for _k in range(n)]
            seqs = [[10.0, 350.0], [350.0, 10.0], [5.0, 200.0], [200.0, 5.0], [170.0, 355.0], [300.0, 100.0]]
            sq = rng.choice(seqs)
            f["rotation angles"] = [sq[k % 2] for k in range(n)]
        wj = {"version": "1.1", "features": [f]}
        if sph:
            wj["coordinate system"] = {"model": "spherical", "depth method": "begin segment"}
        slot = cs.add_world(wj)
        ds = f["cross section depths"]
        dmin = f.get("min depth", 0.0)
        dmax = f.get("max depth", ds[-1] + 3e5)
        for k in range(40):
            u = rng.random()
            if u < 0.3:
                d = rng.uniform(dmin, ds[0])                        # head
            elif u < 0.5:
                d = rng.choice(ds + [dmin, dmax])                   # exactly on a table depth
            else:
                d = rng.uniform(dmin - 1e3, min(dmax, ds[-1] + 1e5) + 1e3)
            if aimed and k % 2 == 0:
                jj = rng.randrange(len(ds) - 1)
                d = rng.uniform(ds[jj], ds[jj + 1])                 # strictly between two cross-sections
            j = rng.randrange(len(ds))
            amax = max(f["semi-major axis"])
            x = f["coordinates"][j][0] + rng.uniform(-1.3, 1.3) * amax
            y = f["coordinates"][j][1] + rng.uniform(-1.3, 1.3) * amax
            pos = cart_point(sph, x, y, d)
            i = cs.p3(slot, pos, d, [[4, 0, 0]])
            plan.append(("plume", i, f, sph, x, y, d))
    impl, model = cs.run()
    chk.evaluations = len(impl)
    bad = chk.correspond(impl, model, cs, max_ulp=0)
    viol = []
    for pl in plan:
        kind, i = pl[0], pl[1]
        a = impl[i]
        if kind == "lattice":
            exp = inside_spec(pl[2], pl[3])
            if on_boundary_any(pl[2], pl[3]):
                chk.nontriv(("lat", i))
            if a != ("ok 1" if exp else "ok 0"):
                viol.append(("polygon test differs from the closed-polygon definition on an exactly representable lattice", i))
        elif kind == "random":
            poly, p, sph = pl[2], pl[3], pl[4]
            exp = inside_spec(poly, p)
            if sph:
                q = (p[0] + (2 * PI if p[0] < 0 else -2 * PI), p[1])
                exp2 = inside_spec(poly, q)
                if exp2 and not exp:
                    chk.nontriv(("alias", i))
                    chk.count("alias branch decides")
                exp = exp or exp2
                bd = min(boundary_distance(poly, p), boundary_distance(poly, q))
            else:
                bd = boundary_distance(poly, p)
            scale = max(max(abs(c[0]), abs(c[1])) for c in poly)
            if bd > 1e-9 * scale:
                if a != ("ok 1" if exp else "ok 0"):
                    viol.append(("polygon test differs from the closed-polygon definition away from the boundary", i))
            else:
                chk.count("boundary-ambiguous (not exactly representable)")
        elif kind == "node":
            exp, q, d, which = pl[2:]
            t = common.parse_vec(a)
            chk.nontriv(("node", i))
            if t is None or (t[0] >= 0) != exp:
                viol.append(("area feature with a %s depth given at points does not occupy its local depth range at a listed point / corner "
                             "(depth %g should be %s)" % (which, d, "inside" if exp else "outside"), i))
        elif kind == "area":
            poly, p, d, dmin, dmax = pl[2:]
            exp = inside_spec(poly, p) and dmin <= d <= dmax
            t = common.parse_vec(a)
            if t is None or (t[0] >= 0) != exp:
                viol.append(("area feature does not occupy exactly polygon x [min depth, max depth]", i))
            if exp and (d in (dmin, dmax) or on_boundary_any(poly, p)):
                chk.nontriv(("area", i))
        else:
            f, sph, x, y, d = pl[2:]
            exp, margin = plume_spec(f, sph, x, y, d)
            t = common.parse_vec(a)
            if margin > 1e-7:
                if t is None or (t[0] >= 0) != exp:
                    viol.append(("plume extent differs from the interpolated-ellipse / half-ellipsoid definition", i))
                if d < f["cross section depths"][0] or len(f["cross section depths"]) > 1:
                    chk.nontriv(("plume", i))
            else:
                chk.count("boundary-ambiguous (not exactly representable)")
    for pl in plan[:2] + plan[-2:]:
        chk.sample({"case": cs.probe[pl[1]][:200], "answer": impl[pl[1]]})
    for what, idx in viol[:5]:
        dsc = cs.describe(idx)
        dsc["impl"] = impl[idx]
        chk.violation(what, dsc)
    if bad and not viol:
        for i in bad[:3]:
            dsc = cs.describe(i)
            dsc["impl"], dsc["model"] = impl[i], model[i]
            chk.violation("correspondence Kernels.v/Features.v/Plume.v <-> implementation broken", dsc, found_input=False)
    cs.cleanup()


def on_boundary_any(poly, p):
    return any(on_seg(poly[i - 1], poly[i], p) for i in range(len(poly)))
