# query generation shared by the world-level checks
import math
import random

from wbgen import Gen, PI, cart_point, width

TOP = 1000e3


def feature_centres(wj):
    out = []
    for f in wj.get("features", []):
        cs = f.get("coordinates", [])
        if cs:
            out.append((sum(c[0] for c in cs) / len(cs), sum(c[1] for c in cs) / len(cs), f))
    return out


def surface_position(rng, wj, spherical):
    """(x,y) or (lon,lat in degrees): near a feature most of the time, anywhere otherwise"""
    cen = feature_centres(wj)
    if cen and rng.random() < 0.8:
        cx, cy, f = rng.choice(cen)
        cs = f["coordinates"]
        u = rng.random()
        if u < 0.15:
            return tuple(rng.choice(cs))             # a vertex
        if u < 0.3:
            a = rng.randrange(len(cs)); b = (a + 1) % len(cs)
            t = rng.choice([0.5, 0.25, 0.75])
            return (cs[a][0] + t * (cs[b][0] - cs[a][0]), cs[a][1] + t * (cs[b][1] - cs[a][1]))  # on an edge
        ext = max(max(abs(c[0] - cx), abs(c[1] - cy)) for c in cs)
        return (cx + rng.uniform(-1.2, 1.2) * ext, cy + rng.uniform(-1.2, 1.2) * ext)
    if spherical:
        return (rng.uniform(-179, 179), rng.uniform(-80, 80))
    return (rng.uniform(-1e6, 1e6), rng.uniform(-1e6, 1e6))


def depth_choice(rng, wj):
    u = rng.random()
    if u < 0.12:
        return 0.0
    if u < 0.16:
        return rng.choice([1e-17, -1e-17, 3e-16, 5e-16])
    if u < 0.2:
        return -rng.uniform(1, 1e4)
    ds = []
    for f in wj.get("features", []):
        for k in ("min depth", "max depth"):
            if isinstance(f.get(k), (int, float)):
                ds.append(float(f[k]))
        for ms in ("temperature models", "composition models", "grains models", "velocity models"):
            for m in f.get(ms, []):
                for k in ("min depth", "max depth"):
                    if isinstance(m.get(k), (int, float)):
                        ds.append(float(m[k]))
    if ds and u < 0.35:
        return rng.choice(ds)            # exactly on a boundary
    if ds and u < 0.8:
        a = rng.choice(ds)
        return max(0.0, a + rng.uniform(-3e4, 3e4))
    return rng.uniform(0, 5e5)


def query3d(rng, wj, spherical):
    x, y = surface_position(rng, wj, spherical)
    d = depth_choice(rng, wj)
    radius = wj.get("coordinate system", {}).get("radius", 6371000.0)
    return cart_point(spherical, x, y, d, radius, TOP), d


def query2d(rng, wj, spherical):
    """2-D query (x,z) + depth along the cross section"""
    cs = wj["cross section"]
    d = depth_choice(rng, wj)
    if spherical:
        radius = wj.get("coordinate system", {}).get("radius", 6371000.0)
        r = radius - d
        ang = rng.uniform(-0.2, 1.2) * math.hypot(cs[1][0] - cs[0][0], cs[1][1] - cs[0][1]) * PI / 180.0
        return (r * math.cos(ang), r * math.sin(ang)), d
    L = math.hypot(cs[1][0] - cs[0][0], cs[1][1] - cs[0][1])
    cen = feature_centres(wj)
    if cen and rng.random() < 0.7:
        # project a feature centre on the section so that the section point is often inside
        cx, cy, _ = rng.choice(cen)
        ux, uy = (cs[1][0] - cs[0][0]) / L, (cs[1][1] - cs[0][1]) / L
        s = (cx - cs[0][0]) * ux + (cy - cs[0][1]) * uy + rng.uniform(-0.3, 0.3) * L
    else:
        s = rng.uniform(-0.5, 1.5) * L
    return (s, TOP - d), d


def prop_list(rng, maxlen=7, ncomp=4, allow_vel=True):
    n = rng.randint(1, maxlen)
    ps = []
    for _ in range(n):
        k = rng.choice([1, 1, 2, 2, 3, 4, 5] if allow_vel else [1, 1, 2, 2, 3, 4])
        if k == 1:
            ps.append([1, 0, 0])
        elif k == 2:
            ps.append([2, rng.randrange(ncomp), 0])
        elif k == 3:
            ps.append([3, rng.randrange(ncomp), rng.choice([0, 1, 2, 3])])
        elif k == 4:
            ps.append([4, 0, 0])
        else:
            ps.append([5, 0, 0])
    return ps


def offsets(ps):
    o, out = 0, []
    for p in ps:
        out.append(o)
        o += width(p)
    return out, o


def inside_query(rng, wj, spherical, feature=None):
    """a 3-D query aimed at the inside of one (random) area feature / plume"""
    fs = [f for f in wj.get("features", []) if f.get("coordinates")]
    if not fs:
        return query3d(rng, wj, spherical)
    f = feature or rng.choice(fs)
    cs = f["coordinates"]
    cx = sum(c[0] for c in cs) / len(cs)
    cy = sum(c[1] for c in cs) / len(cs)
    v = rng.choice(cs)
    t = rng.uniform(0.0, 0.7)
    x, y = cx + t * (v[0] - cx), cy + t * (v[1] - cy)
    lo = f.get("min depth", 0.0)
    hi = f.get("max depth", 3e5)
    lo = lo if isinstance(lo, (int, float)) else 0.0
    hi = hi if isinstance(hi, (int, float)) else 1e5
    if f["model"] == "plume":
        hi = min(hi, f["cross section depths"][-1] + 1e5)
    d = float(round(rng.uniform(lo, max(lo, min(hi, lo + 2e5)))))
    radius = wj.get("coordinate system", {}).get("radius", 6371000.0)
    return cart_point(spherical, x, y, d, radius, TOP), d


def line_query(rng, wj, spherical, f, spread=1.2):
    """a 3-D query around a slab/fault: near the trench, on either side, down to min depth + length + thickness"""
    cs = f["coordinates"]
    i = rng.randrange(len(cs) - 1)
    t = rng.uniform(-0.1, 1.1)
    bx = cs[i][0] + t * (cs[i + 1][0] - cs[i][0])
    by = cs[i][1] + t * (cs[i + 1][1] - cs[i][1])
    dx, dy = cs[i + 1][0] - cs[i][0], cs[i + 1][1] - cs[i][1]
    L = math.hypot(dx, dy) or 1.0
    segsets = [f["segments"]] + [s["segments"] for s in f.get("sections", [])]
    total = max(sum(s["length"] for s in segs) for segs in segsets)
    thick = max(max(s["thickness"]) for segs in segsets for s in segs)
    reach = spread * (total + thick)
    off = rng.uniform(-reach, reach) if rng.random() < 0.8 else 0.0
    if spherical:
        off = off / 111e3      # metres -> degrees (roughly)
    x, y = bx - dy / L * off, by + dx / L * off
    lo = f.get("min depth", 0.0)
    u = rng.random()
    if u < 0.1:
        d = lo
    elif u < 0.2:
        d = lo + total + thick * rng.uniform(0.0, 1.0)
    else:
        d = rng.uniform(max(0.0, lo - 1e4), lo + spread * (total + thick))
    d = float(round(max(0.0, d)))
    radius = wj.get("coordinate system", {}).get("radius", 6371000.0)
    if spherical:
        y = max(-89.0, min(89.0, y))
    return cart_point(spherical, x, y, d, radius, TOP), d
