# C18 - gwb-grid writes the requested mesh and the library's values at its nodes
import json
import math
import os
import random
import shutil
import xml.etree.ElementTree as ET

import common
from cases import CaseSet, sanitize_numbers
from common import fhex
from wbgen import PI
from worlds import area_world
from c17 import cxx_g


def parse_vtu(path):
    root = ET.parse(path).getroot()
    piece = root.find("UnstructuredGrid/Piece")
    out = {"ncells": int(piece.get("NumberOfCells")), "npoints": int(piece.get("NumberOfPoints")), "data": {}}
    for da in piece.find("PointData").findall("DataArray"):
        out["data"][da.get("Name")] = da.text.split()
    out["points"] = piece.find("Points/DataArray").text.split()
    for da in piece.find("Cells").findall("DataArray"):
        out[da.get("Name")] = [int(x) for x in da.text.split()]
    return out



_DT = {"Float64": "d", "Float32": "f", "Int64": "q", "UInt64": "Q", "Int32": "i", "UInt32": "I", "Int16": "h", "UInt16": "H", "Int8": "b", "UInt8": "B"}


def parse_vtu_binary(path):
    """reader for the four binary write modes of the VTU writer (Base64Inline, Base64Appended, RawBinary, RawBinaryCompressed):
    returns the same structure as parse_vtu with numbers instead of tokens; raises ValueError when an array is not where the
    file announces it"""
    import base64
    import struct
    import zlib
    raw = open(path, "rb").read()
    k = raw.find(b"<AppendedData")
    blob = None
    if k >= 0:
        us = raw.find(b"_", k)
        end = raw.rfind(b"</AppendedData>")
        if us < 0 or end < 0:
            raise ValueError("AppendedData section without payload")
        blob = raw[us + 1:end]
        enc = b'encoding="raw"' in raw[k:us] and "raw" or "base64"
        xml = raw[:k] + b"</VTKFile>"
    else:
        xml = raw
    root = ET.fromstring(xml)
    compressed = root.get("compressor") is not None
    if root.get("header_type", "UInt64") != "UInt64":
        raise ValueError("unexpected header type " + str(root.get("header_type")))
    piece = root.find("UnstructuredGrid/Piece")
    out = {"ncells": int(piece.get("NumberOfCells")), "npoints": int(piece.get("NumberOfPoints")), "data": {}}

    def values(da):
        code = _DT[da.get("type")]
        size = struct.calcsize(code)
        fmt = da.get("format")
        if fmt == "ascii":
            return [float(x) if code in "df" else int(x) for x in da.text.split()]
        if fmt == "binary":
            txt = "".join(da.text.split())
            n = struct.unpack("<Q", base64.b64decode(txt[:12]))[0]
            body = base64.b64decode(txt[12:])
            if len(body) != n:
                raise ValueError("array %s: header announces %d bytes, %d present" % (da.get("Name"), n, len(body)))
        elif fmt == "appended":
            off = int(da.get("offset"))
            if enc == "base64":
                head = base64.b64decode(blob[off:off + 12])
                n = struct.unpack("<Q", head[:8])[0]
                if n > len(blob):
                    raise ValueError("array %s: no array header at the announced offset %d" % (da.get("Name"), off))
                tot = ((n + 8 + 2) // 3) * 4
                body = base64.b64decode(blob[off:off + tot])[8:]
                if len(body) != n:
                    raise ValueError("array %s: offset %d does not point at an array of the announced size" % (da.get("Name"), off))
            elif not compressed:
                n = struct.unpack("<Q", blob[off:off + 8])[0]
                body = blob[off + 8:off + 8 + n]
                if len(body) != n:
                    raise ValueError("array %s: offset %d does not point at an array of the announced size" % (da.get("Name"), off))
            else:
                nb, bs, last = struct.unpack("<QQQ", blob[off:off + 24])
                if nb > 1 << 20:
                    raise ValueError("array %s: no block header at offset %d" % (da.get("Name"), off))
                sizes = struct.unpack("<%dQ" % nb, blob[off + 24:off + 24 + 8 * nb])
                p = off + 24 + 8 * nb
                body = b""
                for sz in sizes:
                    body += zlib.decompress(blob[p:p + sz])
                    p += sz
        else:
            raise ValueError("unknown array format " + str(fmt))
        if len(body) % size:
            raise ValueError("array %s: %d bytes are not a whole number of %s" % (da.get("Name"), len(body), da.get("type")))
        return list(struct.unpack("<%d%s" % (len(body) // size, code), body))

    for da in piece.find("PointData").findall("DataArray"):
        out["data"][da.get("Name")] = values(da)
    out["points"] = values(piece.find("Points/DataArray"))
    for da in piece.find("Cells").findall("DataArray"):
        out[da.get("Name")] = [int(x) for x in values(da)]
    return out


def same_as_ascii(binv, asc):
    """the decoded binary file carries what the ASCII file of the same run prints (numbers as printed with 6 significant digits)"""
    if (binv["ncells"], binv["npoints"]) != (asc["ncells"], asc["npoints"]):
        return "%d cells / %d points instead of %d / %d" % (binv["ncells"], binv["npoints"], asc["ncells"], asc["npoints"])
    for k in ("connectivity", "offsets", "types"):
        if binv[k] != asc[k]:
            return "%s differs" % k
    if [cxx_g(v) for v in binv["points"]] != [cxx_g(float(t)) for t in asc["points"]]:
        return "point coordinates differ"
    if sorted(binv["data"]) != sorted(asc["data"]):
        return "data sets %s instead of %s" % (sorted(binv["data"]), sorted(asc["data"]))
    for name, arr in asc["data"].items():
        if [cxx_g(float(v)) for v in binv["data"][name]] != [cxx_g(float(t)) for t in arr]:
            return "data set %s differs" % name
    return None


def wellformed(v, dim, what):
    errs = []
    nv = 4 if dim == 2 else 8
    if len(v["points"]) != 3 * v["npoints"]:
        errs.append("%s: %d point coordinates for %d points" % (what, len(v["points"]), v["npoints"]))
    if len(v["connectivity"]) != nv * v["ncells"]:
        errs.append("%s: connectivity has %d entries for %d cells" % (what, len(v["connectivity"]), v["ncells"]))
    if any(c < 0 or c >= v["npoints"] for c in v["connectivity"]):
        errs.append("%s: a cell references a node that does not exist" % what)
    if v["offsets"] != [nv * (i + 1) for i in range(v["ncells"])]:
        errs.append("%s: offsets are not the multiples of %d" % (what, nv))
    if any(t != (9 if dim == 2 else 12) for t in v["types"]) or len(v["types"]) != v["ncells"]:
        errs.append("%s: wrong cell types" % what)
    for name, arr in v["data"].items():
        k = 3 if name == "velocity" else 1
        if len(arr) != k * v["npoints"]:
            errs.append("%s: data set %s has %d values for %d points" % (what, name, len(arr), v["npoints"]))
    return errs


def run(chk):
    chk.rule = ("generated grid files (cartesian 2-D/3-D with small prime-ish cell counts, chunk 2-D/3-D, annulus, sphere) x random "
                "worlds x --filtered --by-tag x -j: every VTU is parsed; (a) well-formedness (counts, connectivity in range, offsets, "
                "types, data set lengths); (b) node order/positions/Depth recomputed from the grid file with the tool's "
                "arithmetic and connectivity compared with the model Grid.v - Cartesian boxes, 2-D/3-D chunks and the annulus; (c) "
                "Temperature, velocity, Tag, compositions at every node vs the library through wbprobe at the recomputed position "
                "(every grid type); (d) filtered / by-tag files: "
                "exactly the cells whose highest vertex tag is selected, vertex data unchanged; (e) non-Cartesian grids: Depth = "
                "outer radius - |position|; (f) sphere grids (hollow and full balls, 2-4 cells per block edge): node coordinates and Depth "
                "as exact binary64 values (RawBinary file of the same grid) and connectivity vs the Gallina model SphereGrid.v, node values vs "
                "the library at the model's positions. non-trivial = a grid with at least one node inside a feature")
    chk.assumptions = ["VTU XML writing (vtu11) is third-party: checked by parsing, not modelled",
                       "values are compared as printed (6 significant digits)"]
    chk.prove()
    common.build_repo()
    rng = random.Random(chk.seed * 694847539 + 18)
    quick = chk.tier == "quick"
    viol = []
    exe = os.path.join(common.BUILD, "bin", "gwb-grid")
    base = os.path.join(common.WORK, "cases", "c18_%d" % os.getpid())
    shutil.rmtree(base, ignore_errors=True)
    os.makedirs(base)
    cs = CaseSet("c18")
    runs = []
    kinds = ["cart2", "cart3", "cart3", "chunk2", "chunk3", "annulus", "sphere"]
    n_main = 14 if quick else 90
    for gi in range(n_main + 2):
        rng.seed("%d/c18-1/%d" % (chk.seed, gi))      # every world has its own stream: families do not disturb each other
        kind = kinds[gi % len(kinds)]
        giant = gi >= n_main
        if giant:
            # a sphere of very large outer radius: the tolerance of the hull merge (1e-12 * outer radius, applied on the unit sphere)
            # lies between the square of the node spacing and the node spacing itself - neighbours must stay distinct
            kind = "sphere"
        sph = not kind.startswith("cart")
        dim = 2 if kind in ("cart2", "chunk2", "annulus") else 3
        wj, _ = area_world(rng, spherical=sph, cross=True)
        wj.pop("force surface temperature", None)
        sanitize_numbers(wj)
        comps = rng.choice([0, 2])
        nx, ny, nz = rng.choice([(3, 2, 5), (5, 3, 2), (7, 2, 3), (2, 5, 3)])
        if kind.startswith("cart"):
            c0 = wj["features"][0]["coordinates"][0] if wj["features"] else [0.0, 0.0]
            if dim == 2:
                g = {"x_min": -1e5, "x_max": 6e5, "z_min": 5e5, "z_max": 1000e3}
            else:
                g = {"x_min": round(c0[0] - 4e5), "x_max": round(c0[0] + 4e5), "y_min": round(c0[1] - 4e5), "y_max": round(c0[1] + 4e5),
                     "z_min": 6e5, "z_max": 1000e3}
            gtype = "cartesian"
            if gi % 2 == 0:
                # two plates with different tags side by side inside the grid: the by-tag files of both must hold their own cells only
                x0, x1 = g["x_min"], g["x_max"]
                y0, y1 = (g.get("y_min", -1e5), g.get("y_max", 1e5))
                xm = (x0 + x1) / 2
                if dim == 2 and "cross section" in wj:
                    cs0, cs1 = wj["cross section"]
                    # along the cross section the plates are split at x = xm of the section coordinate: use big boxes around it
                    y0, y1 = -2e6, 2e6
                    x0, x1, xm = -2e6, 2e6, cs0[0] + 0.5 * (cs1[0] - cs0[0])
                wj["features"].append({"model": "continental plate", "name": "left", "coordinates": [[x0 - 1e5, y0 - 1e5], [xm, y0 - 1e5], [xm, y1 + 1e5], [x0 - 1e5, y1 + 1e5]],
                                       "max depth": 2.5e5, "temperature models": [{"model": "uniform", "temperature": 600.0}]})
                wj["features"].append({"model": "oceanic plate", "name": "right", "coordinates": [[xm, y0 - 1e5], [x1 + 1e5, y0 - 1e5], [x1 + 1e5, y1 + 1e5], [xm, y1 + 1e5]],
                                       "max depth": 2.5e5, "temperature models": [{"model": "uniform", "temperature": 700.0}]})
        elif kind.startswith("chunk"):
            c0 = wj["features"][0]["coordinates"][0] if wj["features"] else [10.0, 10.0]
            g = {"x_min": round(c0[0] - 15, 1), "x_max": round(c0[0] + 15, 1), "y_min": max(-80.0, round(c0[1] - 10, 1)), "y_max": min(80.0, round(c0[1] + 10, 1)),
                 "z_min": 5871000.0, "z_max": 6371000.0}
            if dim == 2:
                g = {"x_min": 0.0, "x_max": 40.0, "y_min": 0.0, "y_max": 0.0, "z_min": 5871000.0, "z_max": 6371000.0}
            if (gi // 7) % 2 == 1:
                # a chunk whose top lies below the surface of the planet: Depth (and the depth handed to the library) is the distance
                # below the top of the *grid*
                g["z_min"], g["z_max"] = 5571000.0, 6171000.0
            gtype = "chunk"
        elif kind == "annulus":
            g = {"x_min": 0.0, "x_max": 0.0, "z_min": 4371000.0, "z_max": 6371000.0 if (gi // 7) % 2 == 0 else 6071000.0}
            gtype = "annulus"
            nz = 3
        else:
            # every second sphere is a full ball (inner radius 0: all nodes of the innermost layer sit at the centre)
            g = {"x_min": 0.0, "x_max": 0.0, "y_min": 0.0, "y_max": 0.0, "z_min": 4371000.0 if (gi // 7) % 2 == 0 else 0.0, "z_max": 6371000.0}
            gtype = "sphere"
            nx = ny = 2 + (gi // 7) % 3
            nz = 2
            if giant:
                nx = ny = 4 - (gi - n_main)
                g["z_max"] = [5e10, 8e10][gi - n_main]
                g["z_min"] = g["z_max"] / 2
        lines = ["grid_type = %s" % gtype, "dim = %d" % dim, "compositions = %d" % comps, "vtu_output_format = ASCII"]
        lines += ["%s = %r" % (k, v) for k, v in g.items()]
        lines += ["n_cell_x = %d" % nx, "n_cell_y = %d" % ny, "n_cell_z = %d" % nz]
        d = os.path.join(base, "g%d" % gi)
        os.makedirs(d)
        json.dump(wj, open(os.path.join(d, "w.wb"), "w"))
        open(os.path.join(d, "g.grid"), "w").write("\n".join(lines) + "\n")
        j = rng.choice([1, 2, 5])
        rc, o, e = common.sh([exe, "-j", str(j), "--filtered", "--by-tag", "w.wb", "g.grid"], cwd=d, timeout=900)
        chk.evaluations += 1
        rep = {"world": wj, "grid": lines, "threads": j}
        if rc != 0 or not os.path.exists(os.path.join(d, "w.vtu")):
            viol.append(("gwb-grid fails (rc=%d): %s" % (rc, (o + e)[-300:]), rep))
            continue
        try:
            full = parse_vtu(os.path.join(d, "w.vtu"))
        except Exception as ex:
            viol.append(("the VTU file is not well-formed XML: %s" % ex, rep))
            continue
        errs = wellformed(full, dim, "w.vtu")
        slot = cs.add_world(wj, model=False)
        runs.append({"kind": kind, "dim": dim, "g": g, "n": (nx, ny, nz), "comps": comps, "dir": d, "full": full, "slot": slot, "rep": rep, "errs": errs, "queries": None})
        r = runs[-1]
        ps = [[1, 0, 0], [5, 0, 0], [4, 0, 0]] + [[2, c, 0] for c in range(comps)]
        # recompute node positions with the tool's arithmetic
        pos = []
        if kind == "cart2":
            dx = (g["x_max"] - g["x_min"]) / float(nx); dz = (g["z_max"] - g["z_min"]) / float(nz)
            for jz in range(nz + 1):
                for ix in range(nx + 1):
                    pos.append(((g["x_min"] + float(ix) * dx, g["z_min"] + float(jz) * dz), (g["z_max"] - g["z_min"]) - float(jz) * dz))
        elif kind == "cart3":
            dx = (g["x_max"] - g["x_min"]) / float(nx); dy = (g["y_max"] - g["y_min"]) / float(ny); dz = (g["z_max"] - g["z_min"]) / float(nz)
            for ix in range(nx + 1):
                for jy in range(ny + 1):
                    for kz in range(nz + 1):
                        pos.append(((g["x_min"] + float(ix) * dx, g["y_min"] + float(jy) * dy, g["z_min"] + float(kz) * dz),
                                    (g["z_max"] - g["z_min"]) - float(kz) * dz))
        elif kind == "chunk3":
            x0, x1, y0, y1 = [g[k] * (PI / 180) for k in ("x_min", "x_max", "y_min", "y_max")]
            dlong = (x1 - x0) / float(nx); dlat = (y1 - y0) / float(ny); lr = g["z_max"] - g["z_min"]; dr = lr / float(nz)
            for i in range(1, nx + 2):
                for jy in range(1, ny + 2):
                    for k in range(1, nz + 2):
                        lon = x0 + (float(i) - 1.0) * dlong; lat = y0 + (float(jy) - 1.0) * dlat; rad = g["z_min"] + (float(k) - 1.0) * dr
                        pos.append(((rad * math.cos(lat) * math.cos(lon), rad * math.cos(lat) * math.sin(lon), rad * math.sin(lat)), lr - (float(k) - 1.0) * dr))
        elif kind == "chunk2":
            x0, x1 = [g[k] * (PI / 180) for k in ("x_min", "x_max")]
            dlong = (x1 - x0) / float(nx); lr = g["z_max"] - g["z_min"]; dr = lr / float(nz)
            for i in range(1, nx + 2):
                for jz in range(1, nz + 2):
                    lon = x0 + (float(i) - 1.0) * dlong; rad = g["z_min"] + (float(jz) - 1.0) * dr
                    pos.append(((rad * math.cos(lon), rad * math.sin(lon)), lr - (float(jz) - 1.0) * dr))
        elif kind == "annulus":
            inner, outer = g["z_min"], g["z_max"]
            l_outer = 2.0 * PI * outer; lr = outer - inner; dr = lr / float(nz)
            nt = int((2.0 * PI * outer) / dr)
            sx = l_outer / float(nt)
            for jz in range(0, nz + 1):
                for i in range(1, nt + 1):
                    xi = (float(i) - 1.0) * sx; zi = float(jz) * dr
                    theta = xi / l_outer * 2.0 * PI
                    px = math.cos(theta) * (inner + zi); pz = math.sin(theta) * (inner + zi)
                    dep = outer - math.sqrt(px * px + pz * pz)
                    pos.append(((px, pz), 0.0 if abs(dep) < 1e-8 else dep))
            r["nt"] = nt
        elif kind == "sphere":
            # the Gallina model of the sphere mesh (SphereGrid.v): nodes with their Depth, connectivity, merge diagnostics
            lv, inner, outer = "(nat_of_int %d)" % nx, common.ml(g["z_min"]), common.ml(g["z_max"])
            body = "let () = out_sphere_nodes (sphere_nodes num %s (nat_of_int %d) %s %s)\n" % (lv, nz, inner, outer)
            body += "let () = out_nat_lists (sphere_cells num %s (nat_of_int %d) %s)\n" % (lv, nz, outer)
            body += "let () = out_bool (targets_ok (sphere_dups num %s %s))\n" % (lv, outer)
            mo = common.run_model(body, tag="c18s")
            nodes = common.parse_vec(mo[0])
            pos = [(tuple(nodes[4 * i:4 * i + 3]), nodes[4 * i + 3]) for i in range(len(nodes) // 4)]
            r["model_cells"] = [int(x) for x in mo[1].split()[1:]]
            r["targets_ok"] = mo[2].strip() == "ok 1"
            # the same grid once more in a binary write mode: the exact doubles of every node
            d2 = os.path.join(base, "g%d_raw" % gi)
            os.makedirs(d2)
            json.dump(wj, open(os.path.join(d2, "w.wb"), "w"))
            open(os.path.join(d2, "g.grid"), "w").write("\n".join(lines).replace("vtu_output_format = ASCII", "vtu_output_format = RawBinary") + "\n")
            rc2, o2, e2 = common.sh([exe, "-j", str(j), "w.wb", "g.grid"], cwd=d2, timeout=900)
            try:
                r["exact"] = parse_vtu_binary(os.path.join(d2, "w.vtu")) if rc2 == 0 else None
            except Exception:
                r["exact"] = None
        r["pos"] = pos
        if pos:
            r["queries"] = [(cs.p2 if dim == 2 else cs.p3)(slot, p, dep, ps) for p, dep in pos]
            r["ps"] = ps
    # every write mode of the VTU writer: the same world and grid written as ASCII and in each binary mode must carry the same mesh
    # and the same node values (full, filtered and by-tag files); node and cell counts in every residue class modulo 3 (base64)
    sizes = [(4, 2, 3), (2, 3, 4), (7, 2, 3), (3, 2, 2)]
    for bi in range(4 if quick else 24):
        rng.seed("%d/c18-2/%d" % (chk.seed, bi))
        dim = 2 if bi % 2 == 0 else 3
        wj, _ = area_world(rng, spherical=False, cross=True)
        wj.pop("force surface temperature", None)
        sanitize_numbers(wj)
        nx, ny, nz = sizes[bi % len(sizes)]
        c0 = wj["features"][0]["coordinates"][0] if wj["features"] else [0.0, 0.0]
        if dim == 2:
            g = {"x_min": -1e5, "x_max": 6e5, "z_min": 5e5, "z_max": 1000e3}
        else:
            g = {"x_min": round(c0[0] - 4e5), "x_max": round(c0[0] + 4e5), "y_min": round(c0[1] - 4e5), "y_max": round(c0[1] + 4e5), "z_min": 6e5, "z_max": 1000e3}
        outs = {}
        for fmt in ("ASCII", "Base64Inline", "Base64Appended", "RawBinary", "RawBinaryCompressed"):
            lines = ["grid_type = cartesian", "dim = %d" % dim, "compositions = 2", "vtu_output_format = %s" % fmt]
            lines += ["%s = %r" % (k, v) for k, v in g.items()] + ["n_cell_x = %d" % nx, "n_cell_y = %d" % ny, "n_cell_z = %d" % nz]
            d = os.path.join(base, "b%d_%s" % (bi, fmt))
            os.makedirs(d)
            json.dump(wj, open(os.path.join(d, "w.wb"), "w"))
            open(os.path.join(d, "g.grid"), "w").write("\n".join(lines) + "\n")
            rc, o, e = common.sh([exe, "-j", "2", "--filtered", "--by-tag", "w.wb", "g.grid"], cwd=d, timeout=900)
            chk.evaluations += 1
            rep = {"world": wj, "grid": lines, "threads": 2}
            files = sorted(f for f in os.listdir(d) if f.endswith(".vtu"))
            if rc != 0 or "w.vtu" not in files:
                viol.append(("gwb-grid fails (rc=%d) with vtu_output_format = %s: %s" % (rc, fmt, (o + e)[-300:]), rep))
                continue
            outs[fmt] = (d, files, rep)
        if "ASCII" not in outs:
            continue
        da, fa, _r = outs["ASCII"]
        for fmt, (d, files, rep) in outs.items():
            if fmt == "ASCII":
                continue
            if files != fa:
                viol.append(("vtu_output_format = %s writes the files %s, ASCII writes %s" % (fmt, files, fa), rep))
                continue
            for fn in files:
                av = parse_vtu(os.path.join(da, fn))
                try:
                    why = same_as_ascii(parse_vtu_binary(os.path.join(d, fn)), av)
                except Exception as ex:
                    why = "not readable: %s" % ex
                chk.nontriv((bi, fmt, fn))
                if why:
                    viol.append(("%s written with vtu_output_format = %s is not the mesh / the values of the ASCII file of the same run (%d points, %d cells): %s"
                                 % (fn, fmt, av["npoints"], av["ncells"], why), rep))
                    break
    impl, _ = cs.run(model=False)
    chk.evaluations += len(impl)
    # model connectivity (Grid.v) for the Cartesian boxes, the chunks and the annulus
    body = ""
    cart = [r for r in runs if r["kind"] != "sphere"]
    lst = "let () = out_str (String.concat \" \" (\"ok\" :: List.map (fun i -> string_of_int (int_of_nat i)) (List.concat (%s))))\n"
    for r in cart:
        nx, ny, nz = r["n"]
        if r["kind"] == "cart2":
            body += lst % ("cells2 (nat_of_int %d) (nat_of_int %d)" % (nx, nz))
        elif r["kind"] in ("cart3", "chunk3"):
            body += lst % ("cells3 (nat_of_int %d) (nat_of_int %d) (nat_of_int %d)" % (nx, ny, nz))
        elif r["kind"] == "chunk2":
            body += lst % ("cells_chunk2 (nat_of_int %d) (nat_of_int %d)" % (nx, nz))
        else:
            body += lst % ("cells_annulus (nat_of_int %d) (nat_of_int %d)" % (r["nt"], nz))
    model = common.run_model(body, tag="c18") if cart else []
    for r, m in zip(cart, model):
        chk.corr["cases"] += 1
        if [int(x) for x in m.split()[1:]] == r["full"]["connectivity"]:
            chk.corr["agree"] += 1
            chk.corr["bit_exact"] += 1
        else:
            chk.corr["disagreements"] += 1
            viol.append(("__corr__", dict(r["rep"], model_connectivity=m[:300], impl_connectivity=r["full"]["connectivity"][:40])))
    for r in runs:
        full, rep, dim = r["full"], r["rep"], r["dim"]
        for e in r["errs"]:
            viol.append((e, rep))
        if r["errs"]:
            continue
        npnt = full["npoints"]
        pts = [tuple(float(x) for x in full["points"][3 * i:3 * i + 3]) for i in range(npnt)]
        depth = [float(x) for x in full["data"]["Depth"]]
        tags = [float(x) for x in full["data"]["Tag"]]
        if any(t >= 0 for t in tags):
            chk.nontriv(r["dir"])
        nx, ny, nz = r["n"]
        if r["kind"] in ("cart2", "cart3"):
            exp_np = (nx + 1) * (nz + 1) * ((ny + 1) if dim == 3 else 1)
            exp_nc = nx * nz * (ny if dim == 3 else 1)
            if npnt != exp_np or full["ncells"] != exp_nc:
                viol.append(("Cartesian grid has %d nodes / %d cells, requested %d / %d" % (npnt, full["ncells"], exp_np, exp_nc), rep))
                continue
        if r["pos"]:
            if len(r["pos"]) != npnt:
                viol.append(("grid has %d nodes, the grid file asks for %d" % (npnt, len(r["pos"])), rep))
                continue
            for i, ((p, dep), q) in enumerate(zip(r["pos"], r["queries"])):
                printed = full["points"][3 * i:3 * i + 3]
                exp_pt = [cxx_g(p[0]), cxx_g(p[1]), "0"] if dim == 2 else [cxx_g(c) for c in p]
                if printed != exp_pt or full["data"]["Depth"][i] != cxx_g(dep):
                    viol.append(("node %d is at %s depth %s, the grid file asks for %s depth %s" % (i, printed, full["data"]["Depth"][i], exp_pt, cxx_g(dep)), rep))
                    break
                ans = common.parse_vec(impl[q])
                if ans is None:
                    continue
                got = [full["data"]["Temperature"][i]] + full["data"]["velocity"][3 * i:3 * i + 3] + [full["data"]["Tag"][i]] + \
                      [full["data"]["Composition %d" % c][i] for c in range(r["comps"])]
                if got != [cxx_g(v) for v in ans]:
                    viol.append(("values stored at node %d differ from the library's answer at that node: %s vs %s" % (i, got, [cxx_g(v) for v in ans]), rep))
                    break
        if r["kind"] == "sphere" and "model_cells" in r:
            chk.corr["cases"] += 1
            ex = r.get("exact")
            why = None
            if r["model_cells"] != full["connectivity"]:
                why = "connectivity differs from the model's (first cells: %s vs %s)" % (full["connectivity"][:16], r["model_cells"][:16])
            elif not r["targets_ok"]:
                why = "the model merges a node into a node that is itself merged away (its compact entry is never written)"
            elif ex is None:
                why = "the RawBinary file of the same grid could not be read"
            else:
                flat = [c for p_, _d in r["pos"] for c in p_]
                if len(flat) != len(ex["points"]) or any(a.hex() != float(b).hex() for a, b in zip(flat, ex["points"])):
                    k_ = next((i for i, (a, b) in enumerate(zip(flat, ex["points"])) if a.hex() != float(b).hex()), -1)
                    why = "node coordinates differ from the model's binary64 values (coordinate %d: %r vs %r)" % (k_, ex["points"][k_] if k_ >= 0 else None, flat[k_] if k_ >= 0 else None)
                elif [float(x).hex() for x in ex["data"]["Depth"]] != [d_.hex() for _p, d_ in r["pos"]]:
                    why = "Depth differs from the model's binary64 values"
            if why is None:
                chk.corr["agree"] += 1
                chk.corr["bit_exact"] += 1
            else:
                chk.corr["disagreements"] += 1
                viol.append(("__corr__", dict(rep, sphere_model=why)))
        if r["kind"] == "sphere" or not r["pos"]:
            ro, ri = r["g"]["z_max"], r["g"]["z_min"]
            shells = {}
            for p, dep in zip(pts, depth):
                rad = math.sqrt(sum(c * c for c in p))
                if not (all(math.isfinite(c) for c in p) and math.isfinite(dep)):
                    viol.append(("a node of the %s grid has a position / Depth that is not a finite number (%s, Depth %s)" % (r["kind"], p, dep), rep))
                    break
                if not (abs((ro - rad) - dep) <= 1e-4 * ro):
                    viol.append(("Depth %g is not the distance %g below the top of the grid" % (dep, ro - rad), rep))
                    break
                k_ = (rad - ri) / ((ro - ri) / nz)
                if abs(k_ - round(k_)) > 1e-3 or not (0 <= round(k_) <= nz):
                    viol.append(("a node of the sphere grid at radius %g lies on none of the %d requested layers between %g and %g" % (rad, nz + 1, ri, ro), rep))
                    break
                shells[int(round(k_))] = shells.get(int(round(k_)), 0) + 1
            else:
                if r["kind"] == "sphere" and (sorted(shells) != list(range(nz + 1)) or len(set(shells.values())) != 1):
                    viol.append(("the layers of the sphere grid do not carry the same number of nodes each: %s" % shells, rep))
        # filtered and by-tag files
        wj = rep["world"]
        names = []
        for f in wj["features"]:
            t = f.get("tag", "") or f["model"]
            if t not in names:
                names.append(t)
        nv = 4 if dim == 2 else 8
        cells = [full["connectivity"][nv * c:nv * (c + 1)] for c in range(full["ncells"])]
        high = [max(int(tags[v]) for v in c) for c in cells]

        def check_filtered(fname, selected, what):
            path = os.path.join(r["dir"], fname)
            if not os.path.exists(path):
                viol.append(("%s output %s is missing" % (what, fname), rep))
                return
            fv = parse_vtu(path)
            es = wellformed(fv, dim, fname)
            for e in es:
                viol.append((e, rep))
            if es:
                return
            want = [c for c, h in zip(cells, high) if h >= 0 and h in selected]
            if fv["ncells"] != len(want):
                viol.append(("%s contains %d cells, %d cells have a selected highest tag" % (fname, fv["ncells"], len(want)), rep))
                return
            fpts = [tuple(fv["points"][3 * i:3 * i + 3]) for i in range(fv["npoints"])]
            for ci, c in enumerate(want):
                got = fv["connectivity"][nv * ci:nv * (ci + 1)]
                for sv, dv in zip(c, got):
                    if tuple(full["points"][3 * sv:3 * sv + 3]) != fpts[dv]:
                        viol.append(("%s: cell %d does not reference the nodes of the selected source cell" % (fname, ci), rep))
                        return
                    for name, arr in full["data"].items():
                        k = 3 if name == "velocity" else 1
                        if arr[k * sv:k * sv + k] != fv["data"][name][k * dv:k * dv + k]:
                            viol.append(("%s: node data '%s' changed by the filter" % (fname, name), rep))
                            return
        sel = {i for i, n in enumerate(names) if n != "mantle layer"}
        check_filtered("w.filtered.vtu", sel, "--filtered")
        for i, n in enumerate(names):
            if n != "mantle layer":
                check_filtered("w.%d.vtu" % i, {i}, "--by-tag")
    chk.sample({"grid": runs[0]["rep"]["grid"], "nodes": runs[0]["full"]["npoints"], "cells": runs[0]["full"]["ncells"]} if runs else "none")
    real = [(w, d) for w, d in viol if w != "__corr__"]
    corr = [d for w, d in viol if w == "__corr__"]
    for what, d in real[:5]:
        chk.violation(what, d)
    if corr and not real:
        for d in corr[:3]:
            chk.violation("correspondence Grid.v <-> gwb-grid connectivity broken", d, found_input=False)
    shutil.rmtree(base, ignore_errors=True)
    cs.cleanup()
