# C20 - cooling models stay inside their physical envelope
import math
import random

import common
from cases import CaseSet
from wbgen import Gen, PI
from qgen import TOP
from c05 import ridge_distance_cart, SEC_YEAR

TAU_MIN = 1e-3      # known finding D15: the 100-term plate series is only trusted for kappa*age/max_depth^2 >= TAU_MIN


def young_slab_plate(wj, m, dist):
    """known finding D38: is the oldest effective plate age this point can have (ridge distance of any trench point plus the
    distance along the slab, over the slowest spreading velocity) still young for the truncated series of the plate reference,
    kappa*age/max_distance^2 < TAU_MIN?"""
    f = wj["features"][-1]
    kappa = m.get("thermal diffusivity", -1)
    kappa = wj.get("thermal diffusivity", 0.804e-6) if kappa < 0 else kappa
    md = float(m.get("max distance slab top", 0.0))
    if md <= 0:
        return False
    along = dist[1] if dist is not None and len(dist) > 1 and math.isfinite(dist[1]) else None
    total = sum(float(sg["length"]) for sg in f["segments"])
    if along is None or along > total:
        along = total
    cs_ = f["coordinates"]
    pts = []
    for a, b in zip(cs_, cs_[1:]):
        pts += [(a[0] + (b[0] - a[0]) * t / 20.0, a[1] + (b[1] - a[1]) * t / 20.0) for t in range(21)]
    rd = max(ridge_distance_cart(m["ridge coordinates"], p) for p in pts) * 1.1
    sv = m.get("spreading velocity", 0.05)
    flat = []

    def walk(x):
        if isinstance(x, (int, float)):
            flat.append(float(x))
        else:
            for y in x:
                walk(y)
    walk(sv)
    vel = [x for x in flat if x > 0]
    if not vel:
        return False
    age = (rd + max(along, 0.0)) / (min(vel) / SEC_YEAR)
    return kappa * age / (md * md) < TAU_MIN


def run(chk):
    chk.rule = ("single oceanic plates with physically ordered end members (top <= bottom temperature), random ridge geometries "
                "(1-3 ridges with transform faults), spreading velocities 0.5-15 cm/yr, plate ages 1e3-2e8 yr, max depths 60-250 km: "
                "(a) depth ladders of 60 steps at a fixed surface position: top <= T <= bottom, T non-decreasing with depth; "
                "(b) age ladders at fixed depth walking away from the ridge: T non-increasing with age; (c) T(depth 0) = top "
                "temperature, T(max depth) = bottom temperature for plate and linear models; models: half space, plate model, "
                "constant-age plate, linear. non-trivial = ladder inside the plate with a bottom temperature > top temperature")
    chk.assumptions = ["erfc laws are premises of the half-space and mass-conserving theorems; for the truncated plate series the strict "
                       "envelope is false near the ridge (known findings D15, D38): what is proved is the overshoot bound (amplitude sum of "
                       "the terms), checked on every plate-model depth ladder at every age; the plate reference of the mass conserving slab "
                       "is covered by the search only"]
    chk.prove()
    common.build_repo()
    rng = random.Random(chk.seed * 32452867 + 20)
    g = Gen(rng)
    quick = chk.tier == "quick"
    cs = CaseSet("c20")
    plan = []
    for wi in range(30 if quick else 400):
        rng.seed("%d/c20-1/%d" % (chk.seed, wi))      # every world has its own stream: families do not disturb each other
        kind = rng.choice(["half space model", "plate model", "plate model constant age", "linear"])
        kappa = rng.choice([0.804e-6, g.num(5e-7, 2e-6, 10)])
        w = {"version": "1.1", "thermal diffusivity": kappa}
        md = float(round(rng.uniform(6e4, 2.5e5)))
        Tt = g.num(250, 400, 1)
        Tb = Tt + g.num(0, 1500, 1)
        m = {"model": kind, "max depth": md, "top temperature": Tt, "bottom temperature": Tb}
        x, y = float(round(rng.uniform(-8e5, 8e5))), float(round(rng.uniform(-8e5, 8e5)))
        local_md = md
        if wi % 3 == 0 and kind != "half space model":
            # the model's max depth is a surface: shallower at the ladder position than its largest value
            local_md = float(round(md * rng.uniform(0.4, 0.8)))
            m["max depth"] = [[md], [local_md, [[x, y]]]]
        ridges = None
        if kind in ("half space model", "plate model"):
            ridges = g.ridges((0.0, 0.0), False)
            m["ridge coordinates"] = ridges
            m["spreading velocity"] = g.num(0.005, 0.15, 4)
        if kind == "plate model constant age":
            m["plate age"] = float(round(10 ** rng.uniform(3, 8.3)))
        f = {"model": "oceanic plate", "name": "o", "coordinates": [[-2e6, -2e6], [2e6, -2e6], [2e6, 2e6], [-2e6, 2e6]],
             "max depth": md, "temperature models": [m]}
        w["features"] = [f]
        slot = cs.add_world(w)
        # (a) depth ladder
        ds = [local_md * i / 60.0 for i in range(61)]
        ladder = [cs.single3(slot, "t3", (x, y, TOP - d), d) for d in ds]
        age = None
        if ridges:
            age = ridge_distance_cart(ridges, (x, y)) / (m["spreading velocity"] / SEC_YEAR)
        elif kind == "plate model constant age":
            age = m["plate age"] * SEC_YEAR
        plan.append(("depth", ladder, ds, w, m, age, kappa, md))
        # (b) age ladder: walk away from the first ridge segment along its normal
        if ridges:
            a, b = ridges[0][0], ridges[0][1]
            L = math.hypot(b[0] - a[0], b[1] - a[1])
            nx, ny = -(b[1] - a[1]) / L, (b[0] - a[0]) / L
            mx, my = (a[0] + b[0]) / 2, (a[1] + b[1]) / 2
            d = float(round(rng.uniform(0.05, 0.9) * md))
            steps = [10 ** (2 + 3.6 * i / 40.0) for i in range(41)]
            pts = [(mx + nx * s, my + ny * s) for s in steps]
            al = [cs.single3(slot, "t3", (p[0], p[1], TOP - d), d) for p in pts]
            ages = [ridge_distance_cart(ridges, p) / (m["spreading velocity"] / SEC_YEAR) for p in pts]
            plan.append(("age", al, ages, w, m, d, kappa, md))
    # (b') spherical plates across the +-180 meridian, spreading velocity varying along the ridge: the age ladder walks along
    # a parallel from the ridge across the meridian (the nearest ridge point is found through the longitude alias there)
    from wbgen import cart_point
    for wi in range(6 if quick else 60):
        rng.seed("%d/c20-2/%d" % (chk.seed, wi))      # every world has its own stream: families do not disturb each other
        kind = rng.choice(["half space model", "plate model"])
        kappa = 0.804e-6
        md = float(round(rng.uniform(8e4, 2.0e5)))
        Tt = g.num(250, 400, 1)
        Tb = Tt + g.num(300, 1500, 1)
        lon_r = rng.choice([176.0, 178.5, -178.0, 181.0, -183.5])
        base = 180.0 if lon_r > 0 else -180.0
        ridge = [[lon_r, -20.0], [lon_r, round(rng.uniform(-5, 5), 1)], [lon_r, 20.0]]      # along a meridian: the ladder never crosses it
        if rng.random() < 0.5:
            ridge = ridge[::-1]
        vels = [g.num(0.01, 0.12, 4) for _ in ridge]
        m = {"model": kind, "max depth": md, "top temperature": Tt, "bottom temperature": Tb, "ridge coordinates": [ridge],
             "spreading velocity": [[0.0, [vels]]]}
        f = {"model": "oceanic plate", "name": "o", "coordinates": [[base - 35, -40], [base + 35, -40], [base + 35, 40], [base - 35, 40]],
             "max depth": md, "temperature models": [m]}
        w = {"version": "1.1", "thermal diffusivity": kappa, "coordinate system": {"model": "spherical", "depth method": "begin segment"},
             "features": [f]}
        if wi % 2 == 1:
            # an oblique ridge: the two longitude copies of a point project to different ridge points, with different velocities
            m["ridge coordinates"] = [[[round(lon_r - 3.0, 1), -20.0], [round(lon_r + 3.0, 1), 20.0]]]
            m["spreading velocity"] = [[0.0, [vels[:2]]]]
            slot = cs.add_world(w)
            for _k in range(40):
                dd = float(round(rng.uniform(0.0, md)))
                cs.single3(slot, "t3", cart_point(True, base + rng.uniform(-33, 33), rng.uniform(-38, 38), dd, 6371000.0, TOP), dd)
            continue
        slot = cs.add_world(w)
        lat = round(rng.uniform(-15, 15), 2)
        d = float(round(rng.uniform(0.05, 0.9) * md))
        for sgn in (1.0, -1.0):
            steps = [10 ** (-2 + 3.4 * i / 30.0) for i in range(31)]       # 0.01 .. 25 degrees
            al = [cs.single3(slot, "t3", cart_point(True, lon_r + sgn * st, lat, d, 6371000.0, TOP), d) for st in steps]
            vmid = sum(vels) / len(vels) / SEC_YEAR
            ages = [6371000.0 * math.cos(math.radians(lat)) * math.radians(st) / vmid for st in steps]
            plan.append(("age", al, ages, w, m, d, kappa, md))
    # (d) slab temperature models (mass conserving, slab plate model): between the surface temperature and the background
    # adiabat (computed with the model's own expansivity / specific heat where it sets them); not modelled in Gallina: oracle only
    from worlds import line_world
    from qgen import line_query
    slab_plan = []
    slab_dist = {}       # index of the temperature query -> index of the distance_to_plane query at the same point

    def slab_point(slot_, q_, d_, wj_, m_):
        i_ = cs.p3(slot_, q_, d_, [[1, 0, 0], [4, 0, 0]])
        slab_plan.append((i_, wj_, m_, d_))
        if m_ is not None and m_.get("model") == "mass conserving" and m_.get("reference model name") == "plate model":
            slab_dist[i_] = cs.raw("dist %d %s %s %s %s line" % (slot_, common.fhex(q_[0]), common.fhex(q_[1]), common.fhex(q_[2]), common.fhex(d_)),
                                   "let () = out_str \"skip\"", {"kind": "dist", "slot": slot_, "world": wj_, "pos": list(q_), "depth": d_})
        return i_

    for wi in range(25 if quick else 300):
        rng.seed("%d/c20-3/%d" % (chk.seed, wi))      # every world has its own stream: families do not disturb each other
        wj, sph, f = line_world(rng, kind="subducting plate", spherical=False, straight=rng.random() < 0.7, uniform_sections=True,
                                allow_mass_conserving=True, extra_area=0.0)
        for k in ("temperature models", "composition models", "grains models", "velocity models", "sections"):
            f.pop(k, None)
        for sg in f["segments"]:
            for k in ("temperature models", "composition models", "grains models", "velocity models"):
                sg.pop(k, None)
        m = None
        pair = wi % 5 == 4       # two different mass conserving models evaluated for the same trench points, one after the other
        for _ in range(200):
            m = g.slab_temp_model("subducting plate", True)
            if m["model"] == "mass conserving" or (m["model"] == "plate model" and not pair):
                break
        m.pop("operation", None)
        if m["model"] == "mass conserving":
            a, b = f["coordinates"][0], f["coordinates"][-1]
            dx, dy = b[0] - a[0], b[1] - a[1]
            L = math.hypot(dx, dy)
            dp = f["dip point"]
            nx, ny = -dy / L, dx / L
            if (dp[0] - a[0]) * nx + (dp[1] - a[1]) * ny < 0:
                nx, ny = -nx, -ny
            m["ridge coordinates"] = [[[float(round(a[0] - nx * 8e5 - dx)), float(round(a[1] - ny * 8e5 - dy))],
                                       [float(round(b[0] - nx * 8e5 + dx)), float(round(b[1] - ny * 8e5 + dy))]]]
            if rng.random() < 0.6:
                m["specific heat"] = float(round(rng.uniform(900, 2500)))
            if rng.random() < 0.5:
                m["forearc cooling factor"] = rng.choice([1.0, 5.0, 20.0])
            if rng.random() < 0.5:
                m["thermal expansion coefficient"] = round(rng.uniform(2e-5, 4e-5), 7)
            if rng.random() < 0.6:
                # the region above the slab top belongs to the feature too (the model cools the mantle wedge there)
                for sg in f["segments"]:
                    sg["top truncation"] = [-float(round(rng.uniform(5e4, 1.5e5)))]
        f["temperature models"] = [m]
        f["composition models"] = [{"model": "uniform", "compositions": [0]}]
        slot2, m2, wj2 = None, None, None
        if pair and m["model"] == "mass conserving":
            import copy as _copy
            m2 = _copy.deepcopy(m)
            rc_ = m["ridge coordinates"][0]
            near = rng.choice([2e4, 1.5e5, 3e5])          # a ridge next to the trench: a very young plate
            m2["ridge coordinates"] = [[[float(round(a[0] - nx * near - dx)), float(round(a[1] - ny * near - dy))],
                                        [float(round(b[0] - nx * near + dx)), float(round(b[1] - ny * near + dy))]]]
            m2["reference model name"] = "plate model" if m.get("reference model name", "half space model") == "half space model" else "half space model"
            if (wi // 5) % 2 == 0:
                # the same slab in a second world of the process
                wj2 = _copy.deepcopy(wj)
                wj2["features"][-1]["temperature models"] = [m2]
            else:
                # one slab whose second section has its own model: both are evaluated for every point between the coordinates
                f["sections"] = [{"coordinate": len(f["coordinates"]) - 1, "segments": _copy.deepcopy(f["segments"]), "temperature models": [m2]}]
        slot = cs.add_world(wj)          # modelled: SlabMass.v / SlabFeature.v, compared bit for bit
        if wj2 is not None:
            slot2 = cs.add_world(wj2)
        for qi in range(30):
            q, d = line_query(rng, wj, False, f, spread=rng.choice([0.2, 0.5]))
            if d >= 0:
                slab_point(slot, q, d, wj, m)
                if slot2 is not None:
                    slab_point(slot2, q, d, wj2, m2)
                    slab_point(slot, q, d, wj, m)
        # a vertical profile through the top of the slab in 1.5 km steps (the cold core sits just above / below it)
        a, b = f["coordinates"][0], f["coordinates"][-1]
        dx, dy = b[0] - a[0], b[1] - a[1]
        L = math.hypot(dx, dy)
        nx, ny = -dy / L, dx / L
        if (f["dip point"][0] - a[0]) * nx + (f["dip point"][1] - a[1]) * ny < 0:
            nx, ny = -nx, -ny
        th0 = math.radians(f["segments"][0]["angle"][0])
        if len(f["coordinates"]) == 2 and 0.1 < th0 < 1.4:
            tt = rng.uniform(0.3, 0.7)
            u = rng.uniform(3e4, 0.8 * f["segments"][0]["length"] * math.cos(th0))
            px, py = a[0] + tt * dx + u * nx, a[1] + tt * dy + u * ny
            top = f.get("min depth", 0.0) + u * math.tan(th0)
            for k in range(-40, 28):
                d = float(round(top + 1500.0 * k))
                if d >= 0:
                    slab_point(slot, (px, py, 1000e3 - d), d, wj, m)
    impl, model = cs.run()
    chk.evaluations = len(impl)
    bad = chk.correspond(impl, model, cs, max_ulp=0)
    viol = []
    for i, wj, m, d in slab_plan:
        v = common.parse_vec(impl[i])
        if v is None or v[1] < 0:
            continue
        chk.nontriv(cs.probe[i])
        Ts, Tp = wj.get("surface temperature", 293.15), wj.get("potential mantle temperature", 1600)
        al, cp = wj.get("thermal expansion coefficient", 3.5e-5), wj.get("specific heat", 1250)
        gr = wj.get("gravity model", {}).get("magnitude", 9.81)
        al2, cp2 = m.get("thermal expansion coefficient", -1), m.get("specific heat", -1)
        al2, cp2 = (al if al2 < 0 else al2), (cp if cp2 < 0 else cp2)
        # "the larger of the ambient temperature and the background adiabat": the ambient temperature is the potential temperature
        # (it is what the model uses with adiabatic heating switched off, and it exceeds the adiabat when gravity is negative)
        hot = max(Tp, Tp * math.exp(al * gr * d / cp), Tp * math.exp(al2 * gr * d / cp2))
        if not (Ts - 1e-6 * Ts <= v[0] <= hot + 1e-6 * hot):
            if v[0] > hot and i in slab_dist and young_slab_plate(wj, m, common.parse_vec(impl[slab_dist[i]])) and \
                    chk.known("D38", "mass conserving slab, plate reference, young plate"):
                continue
            dsc = cs.describe(i)
            dsc["temperature"], dsc["surface_temperature"], dsc["adiabat"] = v[0], Ts, hot
            viol.append(("slab %s temperature %.6g K lies outside [surface temperature %.6g K, background adiabat %.6g K]" % (m["model"], v[0], Ts, hot), dsc))
    for pl in plan:
        if pl[0] == "depth":
            _, ladder, ds, w, m, age, kappa, md = pl
            T = [common.parse_vec(impl[i]) for i in ladder]
            if any(t is None for t in T):
                viol.append(("temperature query throws inside the plate", cs.describe(ladder[0])))
                continue
            T = [t[0] for t in T]
            Tt, Tb = m["top temperature"], m["bottom temperature"]
            series = m["model"].startswith("plate model")
            young = series and age is not None and kappa * age / (md * md) < TAU_MIN
            slack = 1e-9 * Tb
            if Tb > Tt:
                chk.nontriv(cs.probe[ladder[0]])
            out = [(d, t) for d, t in zip(ds, T) if not (Tt - slack <= t <= Tb + slack)]
            nonmono = [(ds[i], T[i], T[i + 1]) for i in range(len(T) - 1) if T[i + 1] < T[i] - slack]
            if out or nonmono:
                if young and chk.known("D15", "plate series near the ridge"):
                    pass
                else:
                    dsc = cs.describe(ladder[0])
                    dsc["outside_envelope"] = out[:3]
                    dsc["non_monotone"] = nonmono[:3]
                    dsc["age_s"] = age
                    viol.append(("%s leaves its envelope [%g, %g] or is not monotone in depth" % (m["model"], Tt, Tb), dsc))
            # (a') the proved overshoot bound (C20_plate_series_overshoot / C20_constant_age_overshoot): a truncated series may leave
            # [top, bottom] by at most (bottom - top) * sum_i 2/(i pi) exp(expo_i) - at every age, the young ones of D15 included
            if m["model"] in ("plate model constant age", "plate model") and Tb >= Tt and age is not None and age >= 0:
                tau = kappa * age / (md * md)
                if m["model"] == "plate model":
                    v = m["spreading velocity"] / SEC_YEAR
                    A = v * md / (2 * kappa)
                    B = sum(2.0 / (i * math.pi) * math.exp((A - math.sqrt(A * A + i * i * math.pi * math.pi)) * (v * age / md)) for i in range(1, 101))
                else:
                    B = sum(2.0 / (i * math.pi) * math.exp(-i * i * math.pi * math.pi * tau) for i in range(1, 101))
                lo, hi = Tt - (Tb - Tt) * B * (1 + 1e-9) - slack, Tb + (Tb - Tt) * B * (1 + 1e-9) + slack
                worse = [(d, t) for d, t in zip(ds, T) if not (lo <= t <= hi)]
                chk.counters["overshoot_bound_checked"] = chk.counters.get("overshoot_bound_checked", 0) + len(T)
                if worse:
                    dsc = cs.describe(ladder[0])
                    dsc["outside_proved_bound"], dsc["bound"], dsc["tau"] = worse[:3], [lo, hi], tau
                    viol.append((m["model"] + " leaves [top, bottom] by more than the amplitude sum of its series allows "
                                 "(theorem C20_plate_series_overshoot)", dsc))
            # (c) boundary values
            if abs(T[0] - Tt) > 1e-6 * max(1.0, Tt) and not (m["model"] == "half space model" and age is not None and age <= 0):
                if not (young and chk.known("D15", "")):
                    viol.append(("%s: temperature at the top boundary is %.9g, prescribed %.9g" % (m["model"], T[0], Tt), cs.describe(ladder[0])))
            if m["model"] != "half space model" and (not isinstance(m["max depth"], list) or m["model"] == "linear") and abs(T[-1] - Tb) > 1e-6 * max(1.0, Tb):
                if not (young and chk.known("D15", "")):
                    viol.append(("%s: temperature at the bottom boundary is %.9g, prescribed %.9g" % (m["model"], T[-1], Tb), cs.describe(ladder[-1])))
        else:
            _, al, ages, w, m, d, kappa, md = pl
            T = [common.parse_vec(impl[i]) for i in al]
            if any(t is None for t in T):
                continue
            T = [t[0] for t in T]
            Tb = m["bottom temperature"]
            slack = 1e-9 * Tb
            for i in range(len(T) - 1):
                if ages[i + 1] < ages[i]:
                    continue
                young = m["model"] == "plate model" and kappa * ages[i] / (md * md) < TAU_MIN
                if T[i + 1] > T[i] + slack:
                    if young and chk.known("D15", ""):
                        continue
                    dsc = cs.describe(al[i + 1])
                    dsc["ages_s"] = [ages[i], ages[i + 1]]
                    dsc["T"] = [T[i], T[i + 1]]
                    viol.append(("%s: temperature rises with lithospheric age (%.6g K -> %.6g K)" % (m["model"], T[i], T[i + 1]), dsc))
                    break
    for pl in plan[:2]:
        chk.sample({"model": pl[4], "first_query": cs.probe[pl[1][0]][:120], "answer": impl[pl[1][0]]})
    for what, d in viol[:5]:
        chk.violation(what, d)
    if bad and not viol:
        for i in bad[:3]:
            dsc = cs.describe(i)
            dsc["impl"], dsc["model"] = impl[i], model[i]
            chk.violation("correspondence Features.v (cooling models) <-> implementation broken", dsc, found_input=False)
    cs.cleanup()
