# world families used by several checks
import random

from wbgen import Gen


def area_world(rng, spherical=None, cross=None, nfeat=None, temp_allow=("uniform", "linear", "adiabatic", "chapman"), plumes=0.25, random_models=False):
    g = Gen(rng)
    w, sph = g.base_world(spherical, cross)
    n = rng.choice([0, 1, 2, 2, 3, 4]) if nfeat is None else nfeat
    # overlapping features: put most of them around a common centre
    if sph:
        c0 = (g.num(-120, 120, 1), g.num(-50, 50, 1))
    else:
        c0 = (g.num(-3e5, 3e5, 0), g.num(-3e5, 3e5, 0))
    if "cross section" in w and rng.random() < 0.7:
        cs = w["cross section"]
        c0 = ((cs[0][0] + cs[1][0]) / 2, (cs[0][1] + cs[1][1]) / 2)
    for i in range(n):
        if rng.random() < 0.75:
            if sph:
                c = (round(c0[0] + rng.uniform(-8, 8), 1), round(c0[1] + rng.uniform(-8, 8), 1))
            else:
                c = (round(c0[0] + rng.uniform(-2e5, 2e5)), round(c0[1] + rng.uniform(-2e5, 2e5)))
        else:
            c = None
        if plumes and rng.random() < plumes:
            w["features"].append(g.plume("f%d" % i, sph, centre=c, random_models=random_models))
        else:
            w["features"].append(g.area_feature("f%d" % i, sph, centre=c, temp_allow=temp_allow, random_models=random_models))
    return w, sph


def any_world(rng, spherical=None, cross=None, nfeat=None, lines=0.4, allow_mass_conserving=True,
              temp_allow=("uniform", "linear", "adiabatic", "chapman")):
    """worlds with every feature type: area features, plumes, subducting plates and faults"""
    w, sph = area_world(rng, spherical, cross, nfeat, temp_allow=temp_allow)
    g = Gen(rng)
    n = len(w["features"])
    out = []
    k = 0
    for f in w["features"]:
        if rng.random() < lines:
            out.append(g.line_feature("l%d" % k, spherical=sph, allow_mass_conserving=allow_mass_conserving))
            k += 1
        else:
            out.append(f)
    if not out and rng.random() < lines:
        out.append(g.line_feature("l0", spherical=sph, allow_mass_conserving=allow_mass_conserving))
    w["features"] = out
    return w, sph


def line_world(rng, kind=None, spherical=False, straight=None, uniform_sections=None, allow_mass_conserving=True, extra_area=0.3):
    """one slab or fault (plus sometimes an area feature underneath)"""
    g = Gen(rng)
    w, sph = g.base_world(spherical, cross=False)
    w.pop("force surface temperature", None)
    f = g.line_feature("line", kind, sph, straight, uniform_sections, allow_mass_conserving)
    if rng.random() < extra_area:
        c = f["coordinates"][0]
        w["features"].append(g.area_feature("under", sph, centre=(c[0], c[1]), size=(20 if sph else 8e5)))
    w["features"].append(f)
    return w, sph, f
