# Shared machinery of the /verif checks: builds (Coq, extraction, /repo, harness), running the
# implementation (wbprobe) and the extracted model on the same cases, comparison, evidence.
import fcntl
import hashlib
import json
import math
import os
import re
import shutil
import struct
import subprocess
import sys
import time

VERIF = os.path.dirname(os.path.dirname(os.path.abspath(__file__)))
REPO = os.environ.get("VERIF_REPO", "/repo")
WORK = os.path.join(VERIF, "_work")
COQ = os.path.join(VERIF, "coq")
BUILD = os.path.join(WORK, "build")
OCAML = os.path.join(WORK, "ocaml")
GUARD = "GWB_VERIF"
NPROC = str(os.cpu_count() or 8)


class BuildError(Exception):
    pass


class TieError(BuildError):
    """the harness that ties the model to /repo's source no longer compiles against it: the code still builds, but the
    correspondence can no longer be checked (reported as a violation with no-failing-input-found unless a check finds an input)"""

    def __init__(self, harness, msg):
        BuildError.__init__(self, msg)
        self.harness = harness



def sh(cmd, cwd=None, timeout=3600, inp=None, env=None):
    p = subprocess.run(cmd, cwd=cwd, shell=isinstance(cmd, str), input=inp, capture_output=True,
                       text=True, timeout=timeout, env=env)
    return p.returncode, p.stdout, p.stderr


class Lock:
    def __init__(self, name):
        os.makedirs(WORK, exist_ok=True)
        self.path = os.path.join(WORK, name + ".lock")

    def __enter__(self):
        self.f = open(self.path, "w")
        fcntl.flock(self.f, fcntl.LOCK_EX)
        return self

    def __exit__(self, *a):
        fcntl.flock(self.f, fcntl.LOCK_UN)
        self.f.close()


# ---------------------------------------------------------------------------------------------
# Coq
# ---------------------------------------------------------------------------------------------
FORBIDDEN = re.compile(r"\b(Admitted|admit|Axiom|Axioms|Parameter|Parameters|Conjecture|Admit Obligations|"
                       r"Unset Guard Checking|Unset Positivity Checking|Unset Universe Checking|"
                       r"bypass_check|native_compute)\b")


def coq_forbidden_scan():
    """grep the development for anything that would declare an axiom or switch off a check."""
    hits = []
    for fn in sorted(os.listdir(COQ)):
        if not fn.endswith(".v"):
            continue
        txt = open(os.path.join(COQ, fn)).read()
        # strip comments (non-nested is enough for our files; nested handled by loop)
        prev = None
        while prev != txt:
            prev = txt
            txt = re.sub(r"\(\*[^*(]*(?:\*(?!\))[^*(]*|\((?!\*)[^*(]*)*\*\)", " ", txt)
        for m in FORBIDDEN.finditer(txt):
            hits.append("%s: %s" % (fn, m.group(0)))
    return hits


def build_coq(target=None):
    """full .vo build of the development (or of one target and its dependencies)."""
    with Lock("coq"):
        if not os.path.exists(os.path.join(COQ, "Makefile")) or \
                os.path.getmtime(os.path.join(COQ, "Makefile")) < os.path.getmtime(os.path.join(COQ, "_CoqProject")):
            rc, o, e = sh("coq_makefile -f _CoqProject -o Makefile", cwd=COQ)
            if rc != 0:
                raise BuildError("coq_makefile failed: " + e)
        tgt = target if target else "all"
        rc, o, e = sh("timeout 3000 make -k -j%s %s" % (NPROC, tgt), cwd=COQ, timeout=3100)
        return rc == 0, o + e


def check_property_file(pid):
    """(re)compile Properties_<pid>.v on its own, return (ok, theorems, axioms, log)."""
    fn = "Properties_%s.v" % pid
    src = open(os.path.join(COQ, fn)).read()
    theorems = re.findall(r"^\s*Theorem\s+(\w+)", src, re.M)
    ok, log = build_coq("Properties_%s.vo" % pid)
    with Lock("coq"):
        rc, o, e = sh("timeout 900 coqc -Q . WB %s" % fn, cwd=COQ, timeout=1000)
    ok = ok and rc == 0
    log = log + o + e
    # parse Print Assumptions output
    axioms = set()
    closed = 0
    cur = None
    for line in o.splitlines():
        if line.startswith("Closed under the global context"):
            closed += 1
        m = re.match(r"^([A-Za-z_]\w*(?:\.[\w']+)+)\b", line)
        if m:
            axioms.add(m.group(1))
    return ok, theorems, sorted(axioms), closed, log


# ---------------------------------------------------------------------------------------------
# extraction + OCaml driver
# ---------------------------------------------------------------------------------------------
def newer(a, b):
    return (not os.path.exists(b)) or os.path.getmtime(a) > os.path.getmtime(b)


def build_model():
    with Lock("ocaml"):
        os.makedirs(OCAML, exist_ok=True)
        vos = [os.path.join(COQ, f) for f in os.listdir(COQ) if f.endswith(".v") and not f.startswith("Properties_")]
        ml = os.path.join(OCAML, "model.ml")
        stale = any(newer(v, ml) for v in vos)
        if stale:
            ok, log = build_coq("Extract.vo")
            if not ok:
                raise BuildError("Coq model does not compile:\n" + log[-3000:])
            rc, o, e = sh("timeout 900 coqc -Q %s WB %s" % (COQ, os.path.join(COQ, "Extract.v")), cwd=OCAML)
            if rc != 0:
                raise BuildError("extraction failed:\n" + o + e)
        drv_src = os.path.join(VERIF, "ocaml", "driver.ml")
        drv = os.path.join(OCAML, "driver.ml")
        if stale or newer(drv_src, os.path.join(OCAML, "driver.cmx")):
            shutil.copy(drv_src, drv)
            rc, o, e = sh("ocamlfind ocamlopt -w -a -c model.mli model.ml driver.ml", cwd=OCAML)
            if rc != 0:
                raise BuildError("ocaml compile failed:\n" + o + e)


MODEL_SHARDS = min(16, os.cpu_count() or 4)


def wrap_statements(ml_body, shards=1):
    """every `let () = <expr>` statement of a generated case file becomes a function of its own, called in order at the
    end: ocamlopt's compile time is super-linear in the size of one function, and without this the module initialiser is
    one function holding every query (the thorough tiers did not compile within half an hour).  The definitions of worlds
    and tape references stay top-level values in their original order; the queries run after all of them, in order.

    With shards > 1 the executable takes a shard number and runs only its share of the statements, so that the model side
    runs on all cores.  The only state a statement can change is the random-tape position t<slot> of a world, so all
    statements that mention the same slot (t<slot> / w<slot>) go to the same shard, in their original order; every
    statement numbers its answer lines from 1000 * its index, and the caller merges the shards' output by that number."""
    out, calls = [], []
    k = 0
    load = [0] * shards
    slot_shard = {}
    for line in ml_body.split("\n"):
        if line.startswith("let () = "):
            body = line[len("let () = "):]
            out.append("let __q%d () = %s" % (k, body))
            if shards > 1:
                slots = set(re.findall(r"\b[tw](\d+)\b", body))
                known = sorted(set(slot_shard[x] for x in slots if x in slot_shard))
                if len(known) > 1:
                    # a statement tying two slot groups together: give up sharding (not generated today)
                    return wrap_statements(ml_body, 1)
                sh = known[0] if known else min(range(shards), key=lambda i: load[i])
                for x in slots:
                    slot_shard[x] = sh
                load[sh] += 1
                calls.append("(if __sh = %d then (Driver.counter := %d; __q%d ()))" % (sh, 1000 * k, k))
            else:
                calls.append("__q%d ()" % k)
            k += 1
        else:
            out.append(line)
    if shards > 1:
        out.insert(0, "let __sh = int_of_string Sys.argv.(1)")
    # chunks of calls keep the final initialiser small as well
    for c in range(0, len(calls), 500):
        out.append("let __run%d () = %s" % (c // 500, "; ".join(calls[c:c + 500])))
    out.append("let () = " + "; ".join("__run%d ()" % i for i in range((len(calls) + 499) // 500)) if calls else "let () = ()")
    return "\n".join(out)


def split_sources(ml_body, shards):
    """the same statements distributed over [shards] source files that are compiled (and run) side by side: ocamlopt needs
    more than half an hour for one file with 10^5 statements.  Statements that mention the same world slot (t<slot> / w<slot>)
    stay in one file, in their original order, together with the definitions of that slot; every statement numbers its answer
    lines from 1000 * its index, the caller merges by that number.  None when a statement ties two slot groups together."""
    lines = ml_body.split("\n")
    load = [0] * shards
    slot_shard = {}
    stmt_shard = {}
    k = 0
    for line in lines:
        if line.startswith("let () = "):
            slots = set(re.findall(r"\b[tw](\d+)\b", line))
            known = sorted(set(slot_shard[x] for x in slots if x in slot_shard))
            if len(known) > 1:
                return None
            sh_ = known[0] if known else min(range(shards), key=lambda i: load[i])
            for x in slots:
                slot_shard[x] = sh_
            load[sh_] += 1
            stmt_shard[k] = sh_
            k += 1
    outs = [[] for _ in range(shards)]
    calls = [[] for _ in range(shards)]
    k = 0
    for line in lines:
        if line.startswith("let () = "):
            sh_ = stmt_shard[k]
            outs[sh_].append("let __q%d () = %s" % (k, line[len("let () = "):]))
            calls[sh_].append("(Driver.counter := %d; __q%d ())" % (1000 * k, k))
            k += 1
        else:
            m = re.match(r"let [tw](\d+) =", line)
            if m:
                outs[slot_shard.get(m.group(1), 0)].append(line)
            else:
                for o in outs:
                    o.append(line)
    srcs = []
    for o, cl in zip(outs, calls):
        for c in range(0, len(cl), 500):
            o.append("let __run%d () = %s" % (c // 500, "; ".join(cl[c:c + 500])))
        o.append("let () = " + "; ".join("__run%d ()" % i for i in range((len(cl) + 499) // 500)) if cl else "let () = ()")
        srcs.append("open Model\nopen Driver\nlet n = Driver.num\n" + "\n".join(o) + "\n")
    return srcs


def run_model_split(ml_body, tag, d, nstat, t_start):
    srcs = split_sources(ml_body, MODEL_SHARDS)
    if srcs is None:
        return None
    procs = []
    for i, src in enumerate(srcs):
        open(os.path.join(d, "cases%d.ml" % i), "w").write(src)
        procs.append(subprocess.Popen("ulimit -s unlimited 2>/dev/null || ulimit -s 4000000; ocamlfind ocamlopt -w -a -I %s %s/model.cmx %s/driver.cmx cases%d.ml -o cases%d.exe"
                                      % (OCAML, OCAML, OCAML, i, i), shell=True, cwd=d, stdout=subprocess.PIPE, stderr=subprocess.PIPE, text=True, errors="replace"))
    for i, p in enumerate(procs):
        try:
            o, e = p.communicate(timeout=3000)
        except subprocess.TimeoutExpired:
            for q in procs:
                q.kill()
            raise BuildError("case file %d does not compile within 50 minutes" % i)
        if p.returncode != 0:
            for q in procs:
                q.kill()
            raise BuildError("case file does not compile:\n" + (o + e)[-4000:])
    if os.environ.get("VERIF_TIMING"):
        sys.stderr.write("[timing] %s: %d statements compiled in %d files in %.1fs\n" % (tag, nstat, len(srcs), time.time() - t_start))
    procs = [subprocess.Popen("ulimit -s unlimited 2>/dev/null || ulimit -s 4000000; ./cases%d.exe" % i, shell=True, cwd=d,
                              stdout=subprocess.PIPE, stderr=subprocess.PIPE, text=True, errors="replace") for i in range(len(srcs))]
    numbered = []
    for i, p in enumerate(procs):
        try:
            o, e = p.communicate(timeout=7200)
        except subprocess.TimeoutExpired:
            for q in procs:
                q.kill()
            raise BuildError("model run timed out (file %d)" % i)
        if p.returncode != 0:
            for q in procs:
                q.kill()
            raise BuildError("model run failed: file %d rc=%d\n%s" % (i, p.returncode, (o + e)[-2000:]))
        for line in o.splitlines():
            sp = line.split(" ", 1)
            if len(sp) == 2 and sp[0].isdigit():
                numbered.append((int(sp[0]), sp[1].strip()))
    numbered.sort(key=lambda t: t[0])
    if os.environ.get("VERIF_TIMING"):
        sys.stderr.write("[timing] %s: model run finished at %.1fs\n" % (tag, time.time() - t_start))
    return [a for _, a in numbered]


def run_model(ml_body, tag="cases"):
    """compile a generated case file against model+driver and run it (on all cores); returns answer lines."""
    build_model()
    d = os.path.join(OCAML, "run_%s_%d" % (tag, os.getpid()))
    os.makedirs(d, exist_ok=True)
    t_start = time.time()
    try:
        nstat = ml_body.count("\nlet () = ")
        if nstat > 25000:
            # large case sets: compile and run MODEL_SHARDS files side by side
            r = run_model_split(ml_body, tag, d, nstat, t_start)
            if r is not None:
                return r
        shards = MODEL_SHARDS if nstat > 400 else 1
        src = os.path.join(d, "cases.ml")
        with open(src, "w") as f:
            f.write("open Model\nopen Driver\nlet n = Driver.num\n")
            f.write(wrap_statements(ml_body, shards))
            f.write("\n")
        rc, o, e = sh("ulimit -s unlimited 2>/dev/null || ulimit -s 4000000; ocamlfind ocamlopt -w -a -I %s %s/model.cmx %s/driver.cmx cases.ml -o cases.exe" % (OCAML, OCAML, OCAML),
                      cwd=d, timeout=1800)
        if rc != 0:
            raise BuildError("case file does not compile:\n" + (o + e)[-4000:])
        if os.environ.get("VERIF_TIMING"):
            sys.stderr.write("[timing] %s: %d statements compiled in %.1fs\n" % (tag, nstat, time.time() - t_start))
        if shards == 1:
            rc, o, e = sh("./cases.exe", cwd=d, timeout=3600)
            if rc != 0:
                raise BuildError("model run failed: rc=%d\n%s" % (rc, (o + e)[-2000:]))
            return parse_answers(o)
        procs = [subprocess.Popen("ulimit -s unlimited 2>/dev/null || ulimit -s 4000000; ./cases.exe %d" % i, shell=True, cwd=d,
                                  stdout=subprocess.PIPE, stderr=subprocess.PIPE, text=True, errors="replace") for i in range(shards)]
        numbered = []
        for i, p in enumerate(procs):
            try:
                o, e = p.communicate(timeout=7200)
            except subprocess.TimeoutExpired:
                for q in procs:
                    q.kill()
                raise BuildError("model run timed out (shard %d)" % i)
            if p.returncode != 0:
                for q in procs:
                    q.kill()
                raise BuildError("model run failed: shard %d rc=%d\n%s" % (i, p.returncode, (o + e)[-2000:]))
            for line in o.splitlines():
                sp = line.split(" ", 1)
                if len(sp) == 2 and sp[0].isdigit():
                    numbered.append((int(sp[0]), sp[1].strip()))
        numbered.sort(key=lambda t: t[0])
        if os.environ.get("VERIF_TIMING"):
            sys.stderr.write("[timing] %s: model run finished at %.1fs\n" % (tag, time.time() - t_start))
        return [a for _, a in numbered]
    finally:
        if not os.environ.get("VERIF_KEEP"):
            shutil.rmtree(d, ignore_errors=True)


# ---------------------------------------------------------------------------------------------
# /repo build + harness
# ---------------------------------------------------------------------------------------------
def build_repo():
    with Lock("repo"):
        t0 = time.time()
        if not os.path.exists(os.path.join(BUILD, "build.ninja")):
            os.makedirs(BUILD, exist_ok=True)
            cmd = ("cmake -G Ninja -S %s -B %s -DCMAKE_BUILD_TYPE=RelWithDebInfo "
                   "-DCMAKE_CXX_FLAGS='-D%s -Wno-error' -DCMAKE_CXX_FLAGS_RELWITHDEBINFO='-O2 -DNDEBUG' "
                   "-DWB_ENABLE_TESTS=OFF -DWB_ENABLE_PYTHON=OFF -DWB_MAKE_FORTRAN_WRAPPER=OFF -DWB_UNITY_BUILD=OFF"
                   % (REPO, BUILD, GUARD))
            rc, o, e = sh(cmd, timeout=600)
            if rc != 0:
                raise BuildError("cmake configure failed:\n" + (o + e)[-3000:])
        rc, o, e = sh("ninja -C %s -j%s" % (BUILD, NPROC), timeout=3000)
        if rc != 0:
            raise BuildError("/repo does not build:\n" + (o + e)[-4000:])
        lib = os.path.join(BUILD, "lib", "libWorldBuilder.a")
        probe = os.path.join(WORK, "wbprobe")
        src = os.path.join(VERIF, "harness", "wbprobe.cc")
        if newer(lib, probe) or newer(src, probe):
            cmd = ("g++ -O1 -std=c++14 -D%s -I%s/include -I%s/include -I%s %s -Wl,--whole-archive %s -Wl,--no-whole-archive -lz -lpthread -o %s.tmp && mv %s.tmp %s"
                   % (GUARD, REPO, BUILD, REPO, src, lib, probe, probe, probe))
            rc, o, e = sh(cmd, timeout=900)
            if rc != 0:
                raise TieError("harness/wbprobe.cc", "harness does not compile against /repo:\n" + (o + e)[-4000:])
        return time.time() - t0


def build_gridprobe():
    """harness/gridprobe.cc includes source/gwb-grid/main.cc to reach its ThreadPool; only C14 needs it"""
    build_repo()
    with Lock("repo"):
        lib = os.path.join(BUILD, "lib", "libWorldBuilder.a")
        gp = os.path.join(WORK, "gridprobe")
        gsrc = os.path.join(VERIF, "harness", "gridprobe.cc")
        gmain = os.path.join(REPO, "source", "gwb-grid", "main.cc")
        if newer(lib, gp) or newer(gsrc, gp) or newer(gmain, gp):
            cmd = ("g++ -O1 -std=c++14 -D%s -I%s/include -I%s/include -I%s %s -Wl,--whole-archive %s -Wl,--no-whole-archive -lz -lpthread -o %s.tmp && mv %s.tmp %s"
                   % (GUARD, REPO, BUILD, REPO, gsrc, lib, gp, gp, gp))
            rc, o, e = sh(cmd, timeout=900)
            if rc != 0:
                if os.path.exists(gp):
                    os.remove(gp)
                raise TieError("harness/gridprobe.cc", "gridprobe does not compile against /repo's gwb-grid/main.cc:\n" + (o + e)[-4000:])


def build_repo_san(kind="asan"):
    """a further build of /repo's working tree with sanitizers: kind 'asan' = AddressSanitizer + UBSan (thorough tiers of
    C12/C13, harness wbprobe_san), kind 'tsan' = ThreadSanitizer (thorough tier of C14, harness wbprobe_tsan)"""
    bdir = os.path.join(WORK, "build_san" if kind == "asan" else "build_tsan")
    with Lock("repo_" + kind):
        t0 = time.time()
        flags = ("-fsanitize=address,undefined -fno-sanitize-recover=undefined -fno-omit-frame-pointer" if kind == "asan"
                 else "-fsanitize=thread -fno-omit-frame-pointer")
        if not os.path.exists(os.path.join(bdir, "build.ninja")):
            os.makedirs(bdir, exist_ok=True)
            cmd = ("cmake -G Ninja -S %s -B %s -DCMAKE_BUILD_TYPE=RelWithDebInfo "
                   "-DCMAKE_CXX_FLAGS='-D%s -Wno-error %s' -DCMAKE_CXX_FLAGS_RELWITHDEBINFO='-O1 -g -DNDEBUG' "
                   "-DCMAKE_EXE_LINKER_FLAGS='%s' "
                   "-DWB_ENABLE_TESTS=OFF -DWB_ENABLE_PYTHON=OFF -DWB_MAKE_FORTRAN_WRAPPER=OFF -DWB_UNITY_BUILD=OFF"
                   % (REPO, bdir, GUARD, flags, "-fsanitize=address,undefined" if kind == "asan" else "-fsanitize=thread"))
            rc, o, e = sh(cmd, timeout=600)
            if rc != 0:
                raise BuildError("cmake configure (sanitizers) failed:\n" + (o + e)[-3000:])
        rc, o, e = sh("ninja -C %s -j%s WorldBuilder" % (bdir, NPROC), timeout=3000)
        if rc != 0:
            raise BuildError("/repo does not build with sanitizers:\n" + (o + e)[-4000:])
        lib = os.path.join(bdir, "lib", "libWorldBuilder.a")
        probe = os.path.join(WORK, "wbprobe_san" if kind == "asan" else "wbprobe_tsan")
        src = os.path.join(VERIF, "harness", "wbprobe.cc")
        if newer(lib, probe) or newer(src, probe):
            cmd = ("g++ -O1 -g -std=c++14 %s -D%s -I%s/include -I%s/include -I%s %s -Wl,--whole-archive %s -Wl,--no-whole-archive -lz -lpthread -o %s.tmp && mv %s.tmp %s"
                   % (flags, GUARD, REPO, bdir, REPO, src, lib, probe, probe, probe))
            rc, o, e = sh(cmd, timeout=900)
            if rc != 0:
                raise BuildError("harness does not compile with sanitizers:\n" + (o + e)[-4000:])
        return time.time() - t0


def run_probe_resilient(setup_lines, query_lines, exe="wbprobe", timeout=300, cwd=None):
    """answers for query_lines (after setup_lines); a query that kills or hangs the harness is answered 'crash ...' /
    'hang' and the remaining queries are run in a fresh process.  Returns (setup answers, query answers, stderr tails)."""
    probe = os.path.join(WORK, exe)
    env = dict(os.environ, ASAN_OPTIONS="detect_leaks=0:abort_on_error=0", UBSAN_OPTIONS="print_stacktrace=1")
    out = [None] * len(query_lines)
    errs = {}
    start = 0
    setup_ans = None
    while start < len(query_lines):
        lines = setup_lines + query_lines[start:]
        try:
            p = subprocess.run([probe], input="\n".join(lines) + "\n", capture_output=True, text=True, errors="replace", timeout=timeout, cwd=cwd, env=env)
            ans = parse_answers(p.stdout)
            rc, err = p.returncode, p.stderr
            errs["_stderr"] = errs.get("_stderr", "") + p.stderr
            hung = False
        except subprocess.TimeoutExpired as ex:
            ans = parse_answers(ex.stdout.decode() if isinstance(ex.stdout, bytes) else (ex.stdout or ""))
            rc, err, hung = -9, "", True
        if setup_ans is None:
            setup_ans = ans[:len(setup_lines)] + ["crash"] * max(0, len(setup_lines) - len(ans))
        got = ans[len(setup_lines):]
        if len(ans) < len(setup_lines):
            # the setup itself dies: every remaining query is a crash of the setup
            for k in range(start, len(query_lines)):
                out[k] = "crash-in-setup rc=%d" % rc
            errs[start] = err[-1500:]
            break
        for k, a in enumerate(got):
            out[start + k] = a
        if len(got) == len(query_lines) - start:
            if rc != 0:
                errs[len(query_lines) - 1] = err[-1500:]
            break
        bad = start + len(got)
        out[bad] = "hang" if hung else "crash rc=%d" % rc
        errs[bad] = err[-1500:]
        start = bad + 1
    return setup_ans or [], out, errs


def parse_answers(text):
    out = []
    for line in text.splitlines():
        sp = line.split(" ", 1)
        if len(sp) == 2 and sp[0].isdigit():
            out.append(sp[1].strip())
    return out


def run_probe(lines, timeout=3600, cwd=None, exe="wbprobe"):
    """feed command lines to wbprobe; returns one answer per command (crash -> 'crash')."""
    probe = os.path.join(WORK, exe)
    p = subprocess.run([probe], input="\n".join(lines) + "\n", capture_output=True, text=True, errors="replace", timeout=timeout, cwd=cwd)
    ans = parse_answers(p.stdout)
    if p.returncode != 0 or len(ans) != len(lines):
        # the harness died: everything from the first unanswered command on is a crash
        ans = ans + ["crash rc=%d" % p.returncode] * (len(lines) - len(ans))
    return ans


# ---------------------------------------------------------------------------------------------
# numbers
# ---------------------------------------------------------------------------------------------
def fhex(x):
    """Python float -> token understood by both sides"""
    if isinstance(x, int):
        x = float(x)
    if math.isnan(x):
        return "nan"
    if math.isinf(x):
        return "inf" if x > 0 else "-inf"
    return x.hex()


def ml(x):
    """Python float -> OCaml float literal"""
    if isinstance(x, bool):
        raise TypeError
    x = float(x)
    if math.isnan(x):
        return "nan"
    if math.isinf(x):
        return "infinity" if x > 0 else "neg_infinity"
    h = x.hex()
    return "(%s)" % h if h.startswith("-") else h


def unhex(tok):
    if tok == "nan":
        return float("nan")
    if tok == "inf":
        return float("inf")
    if tok == "-inf":
        return float("-inf")
    if tok.startswith(("0x", "-0x")):
        return float.fromhex(tok)
    return float(tok)


def ulps(a, b):
    if a == b:
        return 0
    if math.isnan(a) or math.isnan(b) or math.isinf(a) or math.isinf(b):
        return 1 << 62
    ia = struct.unpack("<q", struct.pack("<d", a))[0]
    ib = struct.unpack("<q", struct.pack("<d", b))[0]
    if ia < 0:
        ia = -(1 << 63) - ia
    if ib < 0:
        ib = -(1 << 63) - ib
    return abs(ia - ib)


def parse_vec(ans):
    """'ok v1 v2' -> list of floats; otherwise None"""
    t = ans.split()
    if not t or t[0] != "ok":
        return None
    return [unhex(x) for x in t[1:]]


def same_answer(a, b, max_ulp=0, rel=0.0, abs_tol=0.0):
    """compare two answer lines; discrete parts must be equal, floats within tolerance.
       returns (ok, worst_ulp)"""
    ta, tb = a.split(), b.split()
    if not ta or not tb:
        return (a == b), 0
    if ta[0] != tb[0]:
        return False, 0
    if ta[0] != "ok":
        return True, 0   # both throw (message text is not compared)
    if len(ta) != len(tb):
        return False, 0
    worst = 0
    for x, y in zip(ta[1:], tb[1:]):
        if x == y:
            continue
        try:
            fx, fy = unhex(x), unhex(y)
        except ValueError:
            return False, worst
        if math.isnan(fx) and math.isnan(fy):
            continue
        u = ulps(fx, fy)
        worst = max(worst, u)
        if u <= max_ulp:
            continue
        if abs(fx - fy) <= abs_tol or abs(fx - fy) <= rel * max(abs(fx), abs(fy)):
            continue
        return False, worst
    return True, worst


# ---------------------------------------------------------------------------------------------
# findings, replays, evidence
# ---------------------------------------------------------------------------------------------
def known_findings(pid):
    path = os.path.join(VERIF, "known_findings.json")
    if not os.path.exists(path):
        return []
    data = json.load(open(path))
    return [f for f in data.get("findings", []) if f.get("property") == pid and f.get("status") == "known"]


class Check:
    """bookkeeping of one run of one property check"""

    def __init__(self, pid, tier, seed):
        self.pid, self.tier, self.seed = pid, tier, seed
        self.t0 = time.time()
        self.evaluations = 0
        self.nontrivial = set()
        self.samples = []
        self.violations = []       # (text, replay dict)
        self.known_hits = {}
        self.counters = {}
        self.notes = []
        self.obligations = []
        self.discharged = 0
        self.axioms = []
        self.closed = 0
        self.coq_ok = None
        self.coq_log = ""
        self.corr = {"cases": 0, "agree": 0, "bit_exact": 0, "worst_ulp": 0, "disagreements": 0}
        self.assumptions = []
        self.exhaustive = False
        self.rule = ""
        shutil.rmtree(os.path.join(VERIF, "replays", pid), ignore_errors=True)

    def count(self, key, n=1):
        self.counters[key] = self.counters.get(key, 0) + n

    def sample(self, s, cap=6):
        if len(self.samples) < cap:
            self.samples.append(s)

    def nontriv(self, key):
        self.nontrivial.add(key if isinstance(key, (str, int, tuple)) else json.dumps(key, sort_keys=True))

    def violation(self, what, replay, found_input=True):
        self.violations.append((what, replay, found_input))

    def prove(self):
        ok, ths, axioms, closed, log = check_property_file(self.pid)
        self.obligations = ths
        self.coq_ok = ok
        self.discharged = len(ths) if ok else 0
        self.axioms = axioms
        self.closed = closed
        self.coq_log = log
        hits = coq_forbidden_scan()
        if hits:
            self.coq_ok = False
            self.discharged = 0
            self.coq_log += "\nforbidden constructs: " + ", ".join(hits)
        return self.coq_ok

    def finish(self):
        wall = time.time() - self.t0
        lines = []
        rc = 0
        rdir = os.path.join(VERIF, "replays", self.pid)
        if self.coq_ok is False:
            # proof obligations broken and (by construction of the callers) no failing input found
            has_input = any(v[2] for v in self.violations)
            if not has_input:
                os.makedirs(rdir, exist_ok=True)
                path = os.path.join(rdir, "proof_broken.json")
                json.dump({"property": self.pid, "kind": "proof-obligation",
                           "what": "Properties_%s.v no longer checks" % self.pid,
                           "log_tail": self.coq_log[-3000:]}, open(path, "w"), indent=1)
                lines.append("VIOLATION property=%s replay=%s no-failing-input-found" % (self.pid, path))
                rc = 1
        seen = set()
        for what, replay, found in self.violations:
            os.makedirs(rdir, exist_ok=True)
            h = hashlib.sha1(json.dumps(replay, sort_keys=True, default=str).encode()).hexdigest()[:12]
            if h in seen:
                continue
            seen.add(h)
            path = os.path.join(rdir, h + ".json")
            json.dump({"property": self.pid, "what": what, "replay": replay, "seed": self.seed, "tier": self.tier},
                      open(path, "w"), indent=1, default=str)
            lines.append("VIOLATION property=%s replay=%s%s" % (self.pid, path, "" if found else " no-failing-input-found"))
            rc = 1
            if len(seen) >= 5:
                break
        for k, txt in self.known_hits.items():
            lines.append("KNOWN-FINDING: property=%s %s" % (self.pid, txt))
        cov = {
            "obligations": len(self.obligations),
            "discharged": self.discharged,
            "checker_cmd": "make -C /verif/coq Properties_%s.vo && coqc -Q . WB Properties_%s.v (Coq 8.16.1, full .vo build)" % (self.pid, self.pid),
            "trusted_base": ["Coq 8.16.1 kernel (vm_compute where used; no native_compute)"] +
                            (["axioms reported by Print Assumptions: " + ", ".join(self.axioms)] if self.axioms else
                             ["Print Assumptions: every theorem closed under the global context"]) +
                            ["extraction: ExtrOcamlBasic only (no Extract Constant/Inductive of ours); ocaml/driver.ml float dictionary; OCaml 4.13.1",
                             "correspondence harness: harness/wbprobe.cc, lib/*.py generators and JSON->model elaboration; g++ 12 / glibc libm shared by both sides"],
            "theorems": self.obligations,
            "theorems_closed_under_global_context": self.closed,
            "evaluations": self.evaluations,
            "distinct_nontrivial": len(self.nontrivial),
            "rule": self.rule,
            "samples": self.samples if self.samples else ["(no sample recorded)"],
            "correspondence": self.corr,
            "counters": self.counters,
            "exhaustive": self.exhaustive,
            "notes": self.notes,
        }
        ev = {"property_id": self.pid, "tier": self.tier, "seed": self.seed, "level": "proof",
              "coverage": cov, "assumptions": self.assumptions, "wall_s": round(wall, 2),
              "violations": sum(1 for l in lines if l.startswith("VIOLATION"))}
        os.makedirs(os.path.join(VERIF, "evidence"), exist_ok=True)
        with open(os.path.join(VERIF, "evidence", self.pid + ".json"), "w") as f:
            json.dump(ev, f, indent=1, default=str)
        for l in lines:
            print(l)
        print("%s %s tier=%s seed=%d: %d evaluations, %d distinct non-trivial, %d/%d obligations, corr %d/%d agree, %.1fs"
              % ("FAIL" if rc else "PASS", self.pid, self.tier, self.seed, self.evaluations, len(self.nontrivial),
                 self.discharged, len(self.obligations), self.corr["agree"], self.corr["cases"], wall))
        return rc

    # correspondence helper -------------------------------------------------------------------
    def known(self, fid, text):
        """record that a listed known finding was met (reported as KNOWN-FINDING, does not fail the check)"""
        listed = {f["id"]: f for f in known_findings(self.pid)}
        if fid in listed:
            self.known_hits[fid] = listed[fid].get("text", text)
            return True
        return False

    def correspond(self, impl, model, cases, max_ulp=0, rel=0.0, abs_tol=0.0, label="corr", skip=()):
        """compare implementation and model answers case by case; returns list of disagreeing indices"""
        bad = []
        if len(impl) != len(model):
            raise BuildError("answer count mismatch impl=%d model=%d" % (len(impl), len(model)))
        for i, (a, b) in enumerate(zip(impl, model)):
            if b == "skip" or i in skip:
                self.corr["not_modelled"] = self.corr.get("not_modelled", 0) + 1
                continue
            self.corr["cases"] += 1
            ok, w = same_answer(a, b, max_ulp, rel, abs_tol)
            if ok:
                self.corr["agree"] += 1
                if a == b or w == 0:
                    self.corr["bit_exact"] += 1
                self.corr["worst_ulp"] = max(self.corr["worst_ulp"], w)
            else:
                self.corr["disagreements"] += 1
                bad.append(i)
        if bad:
            os.makedirs(os.path.join(WORK, "debug"), exist_ok=True)
            with open(os.path.join(WORK, "debug", "%s_%s_disagreements.json" % (self.pid, label)), "w") as f:
                json.dump([{"case": cases.describe(i) if hasattr(cases, "describe") else i, "impl": impl[i], "model": model[i]}
                           for i in bad[:20]], f, indent=1, default=str)
        return bad
