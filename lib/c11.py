# C11 - depth surfaces given at points are honoured, affine-exact and bounded
import math
import random

import common
from cases import CaseSet, fetch_surfaces, sanitize_numbers
from common import fhex, ml
from wbgen import Gen, PI, mlist, mpt, mvec3, natlit, cart_point, DMAX
import c04
from fractions import Fraction


def conv(sph, p):
    return (p[0] * (PI / 180.0), p[1] * (PI / 180.0)) if sph else (float(p[0]), float(p[1]))


def corners_nat(sph, poly):
    return [((c[0] * PI) * (1 / 180.0), (c[1] * PI) * (1 / 180.0)) for c in poly] if sph else [(float(c[0]), float(c[1])) for c in poly]


def entries_ml(entries):
    out = []
    for e in entries:
        if len(e) == 1:
            out.append("(%s, None)" % ml(e[0]))
        else:
            out.append("(%s, Some %s)" % (ml(e[0]), mlist([mpt(p) for p in e[1]])))
    return mlist(out)


def surf_line(sph, s, p, slot=None, key="features/0/max_depth"):
    if slot is not None:
        # the lookup on the surface the world itself built from its file (constructor, triangulation, kd-tree and all)
        return "wsurf %d %s %s %s %s" % (slot, key, "s" if sph else "c", fhex(p[0]), fhex(p[1]))
    tri = " ".join(fhex(x) for t in s["tris"] for v in t for x in v)
    nodes = " ".join("%d %s %s" % (nd[0], fhex(nd[1]), fhex(nd[2])) for nd in s["nodes"])
    return "surf %s %d %s %d %s %s %s" % ("s" if sph else "c", len(s["tris"]), tri, len(s["nodes"]), nodes, fhex(p[0]), fhex(p[1]))


def surf_ml(sph, s, p):
    tris = mlist(["((%s, %s), %s)" % (mvec3(t[0]), mvec3(t[1]), mvec3(t[2])) for t in s["tris"]])
    nodes = mlist(["{kd_index=%s; kd_x=%s; kd_y=%s}" % (natlit(nd[0]), ml(nd[1]), ml(nd[2])) for nd in s["nodes"]])
    return ("let () = out_opt (surface_local_value n {ds_const=false; ds_min=%s; ds_max=%s; ds_tris=%s; ds_nodes=%s} %s %s)"
            % (ml(s["min"]), ml(s["max"]), tris, nodes, "true" if sph else "false", mpt(p)))


def in_poly(poly, p):
    return c04.inside_spec(poly, p)


def run(chk):
    chk.rule = ("single area features (three kinds, both coordinate systems) whose max/min depth is given as values at points: "
                "random entries (a value for the corners, values at interior points, at polygon corners, at points with a zero "
                "coordinate, a point listed twice, a value without points after listed ones); (a) merge: the model's merged node "
                "set vs the vertex set of the implementation's triangulation; (b) Surface::local_value on the implementation's own "
                "triangle list and kd array vs the model, bit-for-bit; (c) oracles: listed point -> listed value, unlisted corner -> "
                "default, min <= value <= max, affine nodal data -> affine value everywhere (any triangulation), corner override; "
                "(d) world level: a uniform composition switches exactly at the interpolated depth. non-trivial = >= 1 interior "
                "value point (a real triangulation)")
    chk.assumptions = ["the Delaunay triangle list and the kd node order are taken from the implementation as data",
                       "interpolation theorems are over exact reals; the 1e4*eps bands of in_triangle are part of the model"]
    chk.prove()
    common.build_repo()
    rng = random.Random(chk.seed * 86028121 + 11)
    g = Gen(rng)
    quick = chk.tier == "quick"
    viol = []
    cs = CaseSet("c11")
    plan = []
    nworlds = 30 if quick else 400
    for wi in range(nworlds):
        rng.seed("%d/c11-1/%d" % (chk.seed, wi))      # every world has its own stream: families do not disturb each other
        sph = rng.random() < 0.35
        mode = rng.choice(["random", "random", "affine", "zero", "corner"])
        dense = wi % 5 == 3
        patch = wi % 5 == 1
        if patch:
            # a locally refined patch of value points a few hundredths of a degree apart in a spherical world: triangles whose
            # area is tiny in the surface coordinates (rad^2) interpolate like all others
            sph, mode = True, "affine"
        if dense:
            # many value points, half of them nearly collinear (thin triangles), on a footprint across the date line: the search
            # for the triangle of a point goes beyond the triangle of the nearest centroid, for both copies of the longitude
            sph, mode = True, "affine"
        if sph:
            cx, cy = rng.choice([(g.num(-150, 150, 1), g.num(-60, 60, 1)), (0.0, 0.0),
                                 (rng.choice([-1, 1]) * g.num(172, 188, 1), g.num(-50, 50, 1))])    # the last: across the date line
            if dense:
                cx, cy = rng.choice([-1, 1]) * g.num(174, 186, 1), g.num(-40, 40, 1)
            poly = g.polygon(cx, cy, g.num(3, 20, 1))
            if patch:
                cx, cy = g.num(-150, 150, 1), g.num(-60, 60, 1)
                poly = [[cx - 0.6, cy - 0.6], [cx + 0.6, cy - 0.6], [cx + 0.6, cy + 0.6], [cx - 0.6, cy + 0.6]]
            if dense:
                poly = g.polygon(cx, cy, g.num(12, 20, 1), n=rng.randint(5, 8))
        else:
            cx, cy = rng.choice([(g.num(-3e5, 3e5, 0), g.num(-3e5, 3e5, 0)), (0.0, 0.0)])
            poly = g.polygon(cx, cy, g.num(5e4, 4e5, 0))
        if mode in ("zero", "corner") and not sph:
            poly = [[0.0, 0.0], [2e5, 0.0], [2e5, 1.5e5], [0.0, 1.5e5]]
            if rng.random() < 0.5:
                poly = [[-1e5, 0.0], [1e5, -5e4], [1.5e5, 1e5], [0.0, 2e5]]
        elif mode in ("zero", "corner"):
            poly = [[0.0, 0.0], [20.0, 0.0], [20.0, 15.0], [0.0, 15.0]]
        affine = None
        if mode == "affine":
            # nodal values are samples of one affine function: every corner must be listed
            sc = 1.0 if sph else 1e-4
            A, B, C = g.num(-300, 300, 1) * sc * 10, g.num(-300, 300, 1) * sc * 10, g.num(8e4, 2e5, 0)
            affine = (A, B, C)
            fval = lambda p: A * p[0] + B * p[1] + C
            pts = [list(c) for c in poly] + [g.interior_point(poly) for _ in range(rng.randint(1, 5))]
            patch_pts = []
            if patch:
                px0, py0 = round(cx + rng.uniform(-0.3, 0.3), 2), round(cy + rng.uniform(-0.3, 0.3), 2)
                h = rng.choice([0.05, 0.03, 0.04])
                pts = [list(c) for c in poly] + [[round(px0 + h * a_, 3), round(py0 + h * b_, 3)] for a_ in range(3) for b_ in range(3)]
                patch_pts = [(px0 + rng.uniform(0.05, 1.95) * h, py0 + rng.uniform(0.05, 1.95) * h) for _ in range(14)]
            if dense:
                a0, a1 = g.interior_point(poly), g.interior_point(poly)
                for k in range(rng.randint(6, 10)):
                    tt = (k + 0.5) / 10.0
                    pts.append([round(a0[0] + tt * (a1[0] - a0[0]) + rng.uniform(-0.02, 0.02), 3), round(a0[1] + tt * (a1[1] - a0[1]) + rng.uniform(-0.02, 0.02), 3)])
                pts += [g.interior_point(poly) for _ in range(rng.randint(4, 8))]
            entries = [[round(fval(p), 6), [p]] for p in pts]
            rng.shuffle(entries)
        elif mode == "corner":
            # a value listed for a point that coincides with a polygon corner replaces that corner's default
            entries = [[1.0e5]] + [[float(round(rng.uniform(1.2e5, 2.5e5))), [list(c)]] for c in rng.sample(poly, rng.randint(1, len(poly)))]
        elif mode == "zero":
            entries = [[1.0e5], [float(round(rng.uniform(1.2e5, 2.5e5))), [[0.0, poly[2][1] / 2]]],
                       [float(round(rng.uniform(1.2e5, 2.5e5))), [[poly[1][0] / 2, 0.0], g.interior_point(poly)]]]
        else:
            entries = g.depth_values(poly, 8e4, 3e5)
            if isinstance(entries, list) and rng.random() < 0.2 and len(entries) > 1 and len(entries[-1]) == 2:
                entries.append([g.num(8e4, 3e5, 0), [list(entries[-1][1][0])]])     # the same point listed twice
        f = {"model": rng.choice(["continental plate", "oceanic plate", "mantle layer"]), "name": "a", "coordinates": poly,
             "max depth": entries,
             "composition models": [{"model": "uniform", "compositions": [0], "fractions": [1.0]}]}
        if rng.random() < 0.3:
            f["min depth"] = [[0.0], [float(round(rng.uniform(1e3, 5e4))), [g.interior_point(poly)]]]
        elif rng.random() < 0.3:
            # one entry only, with points: the corners keep the documented default (0 for a min depth)
            f["min depth"] = [[float(round(rng.uniform(1e3, 5e4))), [g.interior_point(poly) for _ in range(rng.randint(1, 2))]]]
        if rng.random() < 0.4:
            f["temperature models"] = [{"model": "linear", "max depth": g.depth_values(poly, 8e4, 3e5), "top temperature": 300.0, "bottom temperature": 1500.0}]
        wj = {"version": "1.1", "features": [f]}
        if sph:
            wj["coordinate system"] = {"model": "spherical", "depth method": "begin segment"}
        sanitize_numbers(wj)
        slot = cs.add_world(wj)
        path = "%s/w%d.wb" % (cs.dir, slot)
        surfaces = fetch_surfaces(path)
        if surfaces is None:
            viol.append(("a valid file with depths given at points is rejected", {"world": wj}))
            continue
        ignored = False
        for key, e_json in (("features/0/max_depth", f["max depth"]), ("features/0/min_depth", f.get("min depth"))):
            if isinstance(e_json, list) and any(len(e) == 2 for e in e_json) and key in surfaces and surfaces[key]["const"]:
                viol.append(("the points listed for the %s of a feature are ignored: the surface is constant (%g)" % (key.split("/")[-1], surfaces[key]["min"]),
                             {"kind": "world", "world": wj, "surface": key, "probe_line": "surfaces 0"}))
                ignored = True
        if ignored:
            continue
        s = surfaces["features/0/max_depth"]
        ent = f["max depth"]
        listed = [(p, e[0]) for e in ent if len(e) == 2 for p in e[1]]
        if s["const"]:
            continue
        if any(not any(p == list(c) for c in poly) for p, _ in listed):
            chk.nontriv(("tri", wi))
        cn = corners_nat(sph, poly)
        # (a) merge
        im = cs.raw("approx 0 0",
                    "let () = out_vec (List.concat_map (fun (v, (x, y)) -> [x; y; v]) (merge_values n %s %s %s %s))"
                    % ("true" if sph else "false", ml(DMAX), mlist([mpt(c) for c in cn]), entries_ml(ent)),
                    {"kind": "merge", "world": wj})
        plan.append(("merge", im, s, wj))
        # query points: listed points, corners, random interior points
        qs = [conv(sph, p) for p, _ in listed] + list(cn)
        nq = 40 if dense else 12
        for _ in range(nq):
            ip = g.interior_point(poly)
            qs.append(conv(sph, ip) if sph else (float(ip[0]), float(ip[1])))
        if mode == "affine" and patch_pts:
            qs += [conv(sph, p) for p in patch_pts]
        if sph:
            # the same points written on the other 360-degree branch of the longitude
            qs += [((q[0] - 2 * PI) if q[0] > 0 else (q[0] + 2 * PI), q[1]) for q in qs[-nq:]]
        for q in qs:
            i = cs.raw(surf_line(sph, s, q, slot), surf_ml(sph, s, q), {"kind": "surf", "spherical": sph, "point": q, "world": wj})
            plan.append(("surf", i, s, q, wj, affine, sph))
        # expectations at listed points and corners
        last = {}
        for p, v in listed:
            last[tuple(p)] = v
        default = next((e[0] for e in reversed(ent) if len(e) == 1), None)
        # a value without points overwrites the corners at that moment; later listings of a corner win
        corner_val = {}
        cur = {tuple(c): DMAX for c in map(tuple, poly)}
        extra = {}
        d8 = set()     # points that coincide with an existing node and have a zero coordinate (known finding D8)
        for e in ent:
            if len(e) == 1:
                for c in cur:
                    cur[c] = e[0]
            else:
                for p in e[1]:
                    if (tuple(p) in cur or tuple(p) in extra) and (p[0] == 0 or p[1] == 0):
                        d8.add(tuple(p))
                    if tuple(p) in cur:
                        cur[tuple(p)] = e[0]
                    else:
                        extra[tuple(p)] = e[0]
        for c, v in list(cur.items()) + list(extra.items()):
            q = conv(sph, c) if c in extra or True else None
            qn = conv(sph, c) if c in extra else dict(zip(map(tuple, poly), cn))[c]
            i = cs.raw(surf_line(sph, s, qn, slot), surf_ml(sph, s, qn), {"kind": "surf-node", "point": list(c), "expected": v, "world": wj})
            plan.append(("node", i, v, c, wj, c in d8))
        # (d) world level: composition switches at the interpolated depth
        for _ in range(4):
            ip = g.interior_point(poly)
            plan.append(("switch", None, slot, ip, sph, s, wj))
    # resolve the world-level probes after the kernel answers are known: needs local values -> second run
    impl, model = cs.run()
    chk.evaluations = len(impl)
    bad = chk.correspond(impl, model, cs, max_ulp=0, skip={i for i, m in enumerate(cs.meta) if m.get("kind") == "merge"})
    cs2 = CaseSet("c11b")
    plan2 = []
    for pl in plan:
        kind = pl[0]
        if kind == "merge":
            _, i, s, wj = pl
            mv = common.parse_vec(model[i])
            mset = set()
            for k in range(0, len(mv), 3):
                mset.add((mv[k], mv[k + 1], mv[k + 2]))
            iset = set()
            for t in s["tris"]:
                for v in t:
                    iset.add((v[0], v[1], v[2]))
            chk.corr["cases"] += 1
            ok = iset <= mset
            if ok:
                chk.corr["agree"] += 1
                chk.corr["bit_exact"] += 1
            else:
                chk.corr["disagreements"] += 1
                bad.append(i)
                cs.meta[i]["impl_nodes"] = sorted(iset)
                cs.meta[i]["model_nodes"] = sorted(mset)
        elif kind == "surf":
            _, i, s, q, wj, affine, sph = pl
            v = common.parse_vec(impl[i])
            if v is None:
                viol.append(("depth lookup throws for a point inside the footprint", cs.describe(i)))
                continue
            if s["max"] > 1e300:
                if not (s["min"] - 1e-6 * abs(s["min"]) <= v[0] <= s["max"]):
                    if chk.known("D19", "unlisted corners at the DBL_MAX default"):
                        continue
                else:
                    continue
            if not (s["min"] - 1e-6 * abs(s["min"]) <= v[0] <= s["max"] + 1e-6 * abs(s["max"])):
                viol.append(("interpolated depth %.6g outside [smallest, largest] nodal value [%.6g, %.6g]" % (v[0], s["min"], s["max"]), cs.describe(i)))
            if affine:
                A, B, C = affine
                qd = (q[0] * 180.0 / PI, q[1] * 180.0 / PI) if sph else q
                if sph:
                    # a query written on the other 360-degree branch is the same point: evaluate the affine data on the polygon's branch
                    lon0 = wj["features"][0]["coordinates"][0][0]
                    qd = (qd[0] - 360.0 * round((qd[0] - lon0) / 360.0), qd[1])
                exp = A * qd[0] + B * qd[1] + C
                if abs(v[0] - exp) > 1e-6 * max(1.0, abs(exp)):
                    viol.append(("affine nodal data are not reproduced: %.9g instead of %.9g" % (v[0], exp), cs.describe(i)))
        elif kind == "node":
            _, i, exp, c, wj, is_d8 = pl
            v = common.parse_vec(impl[i])
            if v is None:
                viol.append(("depth lookup throws at a nodal point", cs.describe(i)))
            elif is_d8:
                if abs(v[0] - exp) > 1e-6 * max(1.0, abs(exp)):
                    if not chk.known("D8", "value listed at an existing node with a zero coordinate is not honoured"):
                        viol.append(("depth at listed point / corner %s is %.9g instead of %.9g" % (list(c), v[0], exp), cs.describe(i)))
            elif abs(v[0] - exp) > 1e-6 * max(1.0, abs(exp)) and exp < 1e300 and any(len(e) == 1 for e in wj["features"][0]["max depth"]) is False:
                if not chk.known("D19", "unlisted corners at the DBL_MAX default"):
                    viol.append(("depth at listed point / corner %s is %.9g instead of %.9g" % (list(c), v[0], exp), cs.describe(i)))
            elif abs(v[0] - exp) > 1e-6 * max(1.0, abs(exp)) and exp < 1e300:
                viol.append(("depth at listed point / corner %s is %.9g instead of %.9g" % (list(c), v[0], exp), cs.describe(i)))
        else:
            _, _, slot, ip, sph, s, wj = pl
            # local value from the model-independent kernel call
            qn = conv(sph, ip)
            a = common.run_probe([surf_line(sph, s, qn)])[0]
            v = common.parse_vec(a)
            if v is None or not math.isfinite(v[0]) or v[0] > 9e5:
                continue
            if not in_poly(wj["features"][0]["coordinates"], ip):
                continue
            w2 = cs2.add_world(wj, model=False)
            for d, exp in ((v[0] * (1 - 1e-9) - 1e-3, 1.0), (v[0] * (1 + 1e-9) + 1e-3, 0.0)):
                if d < 0:
                    continue
                mn = wj["features"][0].get("min depth")
                if mn is not None and exp == 1.0:
                    continue
                pos = cart_point(sph, ip[0], ip[1], d)
                plan2.append((cs2.p3(w2, pos, d, [[2, 0, 0]]), exp, v[0]))
    impl2, _ = cs2.run(model=False)
    chk.evaluations += len(impl2)
    for i, exp, lv in plan2:
        v = common.parse_vec(impl2[i])
        if v is None or v[0] != exp:
            dsc = cs2.describe(i)
            dsc["local_max_depth"] = lv
            viol.append(("the feature does not end at the interpolated max depth %.6f" % lv, dsc))
    for pl in plan[:3]:
        if pl[1] is not None:
            chk.sample({"case": cs.probe[pl[1]][:160], "answer": impl[pl[1]][:100]})
    for what, d in viol[:5]:
        chk.violation(what, d)
    if bad and not viol:
        for i in bad[:3]:
            dsc = cs.describe(i)
            dsc["impl"], dsc["model"] = impl[i], model[i]
            chk.violation("correspondence Kernels.v (surface merge / local_value) <-> implementation broken", dsc, found_input=False)
    cs.cleanup()
    cs2.cleanup()
