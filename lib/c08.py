# C08 - answers are invariant under rigid motions of world plus query
import copy
import math
import os
import random

import common
from cases import CaseSet
from qgen import line_query, inside_query, query3d, query2d, offsets
from worlds import any_world
from wbgen import PI, cart_point
from common import fhex
from qgen import TOP

PROPS = [[1, 0, 0], [2, 0, 0], [2, 1, 0], [2, 2, 0], [2, 3, 0], [3, 0, 1], [4, 0, 0]]
TAGPOS = offsets(PROPS)[0][6]


def map_points(wj, fn, dangle=0.0):
    """a copy of the world with every horizontal coordinate mapped by fn([x,y]) -> [x',y'] (plume ellipse azimuths turned by
    dangle degrees)"""
    w = copy.deepcopy(wj)

    def pts(l):
        return [fn(p) for p in l]

    def depth(v):
        if isinstance(v, list):
            return [[e[0], pts(e[1])] if len(e) == 2 else e for e in v]
        return v

    def walk(o):
        if isinstance(o, dict):
            for k in list(o.keys()):
                v = o[k]
                if k == "coordinates":
                    o[k] = pts(v)
                elif k == "dip point":
                    o[k] = fn(v)
                elif k == "ridge coordinates":
                    o[k] = [pts(r) for r in v]
                elif k in ("min depth", "max depth"):
                    o[k] = depth(v)
                elif k == "rotation angles":
                    o[k] = [a - dangle for a in v]
                elif k == "cross section":
                    o[k] = pts(v)
                else:
                    walk(v)
        elif isinstance(o, list):
            for e in o:
                walk(e)
    walk(w)
    return w


def run(chk):
    chk.rule = ("worlds with every feature type (area features with depth surfaces, plumes, slabs and faults with curved trenches, "
                "sections, ridge coordinates), no random models. Cartesian: a translation up to 1e7 m combined with a rotation "
                "about the vertical by any angle, applied to every coordinate of the file (feature coordinates, dip points, ridge "
                "coordinates, depth-surface points, cross section; plume ellipse azimuths turned with the world) and to the 3-D "
                "query point; 2-D queries along the moved cross section. Spherical: a common longitude offset (incl. offsets "
                "that move features across the +-180 meridian, longitudes kept within [-360,360]) and the query point rotated "
                "about the polar axis. Answers (temperature, 4 compositions, grains, tag) must agree: tag exactly, values "
                "within 1e-6 relative + 1e-6 absolute (temperature: + 1e-6 * 2500 K, the size of the operands of a subtraction). A disagreement at a point where the unmoved world's own answer changes "
                "under a 1 cm perturbation of the point is counted as boundary-ambiguous. non-trivial = tag >= 0")
    chk.assumptions = ["moved coordinates are written with 12 significant digits (the JSON reader's exact fast path), i.e. the moved "
                       "world differs from the exact motion by up to 1e-5 m",
                       "velocities are not compared (they rotate with the world)"]
    chk.prove()
    common.build_repo()
    rng = random.Random(chk.seed * 15485863 + 8)
    quick = chk.tier == "quick"
    cs = CaseSet("c08")
    plan = []
    kinds = {}
    for wi in range(60 if quick else 700):
        rng.seed("%d/c08-1/%d" % (chk.seed, wi))      # every world has its own stream: families do not disturb each other
        sph = rng.random() < 0.35
        wj, sph = any_world(rng, spherical=sph, lines=0.5, allow_mass_conserving=True)
        wj.pop("force surface temperature", None)
        if wi % 4 == 0:
            # an oceanic plate whose cooling model has several ridge segments separated by (oblique) transform faults
            from wbgen import Gen
            gg = Gen(rng)
            for _try in range(40):
                of = gg.area_feature("oc%d" % wi, sph, kinds=("oceanic plate",), size=(25 if sph else 9e5))
                tms = [m for m in of.get("temperature models", []) if len(m.get("ridge coordinates", [])) >= 2]
                if tms:
                    of["temperature models"] = [tms[0]]
                    tms[0].pop("operation", None)
                    of.pop("min depth", None)
                    of["max depth"] = 2.5e5
                    wj["features"].append(of)
                    break
        aim_plume = None
        if sph and wi % 3 == 1:
            # a plume whose footprint ends up across the +-180 meridian in the moved world; queried in its head (above the
            # first cross section), in its stem and around it
            from wbgen import Gen
            aim_plume = Gen(rng).plume("aimpl%d" % wi, True)
            aim_plume["min depth"] = 0.0
            wj["features"].append(aim_plume)
        for f in wj["features"]:
            # neighbouring plume cross sections whose azimuths differ by exactly half a turn have no defined direction of
            # interpolation (either way round is as short): after turning the world the tie is broken by rounding
            ra = f.get("rotation angles")
            if f["model"] == "plume" and ra:
                for k in range(1, len(ra)):
                    if abs(((ra[k] - ra[k - 1]) % 360.0) - 180.0) < 1e-6:
                        ra[k] = ra[k] + 7.0
        if sph:
            lons = []

            def collect(p):
                lons.append(p[0])
                return p
            map_points(wj, collect)
            lo, hi = (min(lons), max(lons)) if lons else (0.0, 0.0)
            u = rng.random()
            if u < 0.4:
                # move a feature across the +-180 meridian
                tgt = rng.choice([180.0, -180.0])
                off = tgt - rng.uniform(lo, hi)
            else:
                off = rng.uniform(-360.0 - lo, 360.0 - hi)
            if aim_plume is not None:
                off = rng.choice([180.0, -180.0]) - aim_plume["coordinates"][0][0] + rng.uniform(-1.5, 1.5)
            off = float(round(off, 1))
            if lo + off < -360.0 or hi + off > 360.0:
                off = 0.0
            motion = ("longitude", off)
            fn = lambda p, off=off: [round(p[0] + off, 6), p[1]]
            ca, sa = math.cos(math.radians(off)), math.sin(math.radians(off))
            qfn = lambda q, ca=ca, sa=sa: (q[0] * ca - q[1] * sa, q[0] * sa + q[1] * ca, q[2])
            w2 = map_points(wj, fn)
        else:
            al = rng.choice([0.0, 90.0, rng.uniform(0, 360), rng.uniform(0, 360)])
            tx = rng.choice([0.0, rng.uniform(-1e7, 1e7)])
            ty = rng.choice([0.0, rng.uniform(-1e7, 1e7)])
            ca, sa = math.cos(math.radians(al)), math.sin(math.radians(al))
            motion = ("rigid", al, tx, ty)
            fn = lambda p, ca=ca, sa=sa, tx=tx, ty=ty: [p[0] * ca - p[1] * sa + tx, p[0] * sa + p[1] * ca + ty]
            qfn = lambda q, fn=fn: tuple(fn([q[0], q[1]])) + (q[2],)
            w2 = map_points(wj, fn, dangle=al)
        # the invariance is judged on worlds built as a user builds them (model=False: no hook, all acceleration shortcuts on);
        # the modelled copies (for slabs and faults evaluated with the culling hook off) are compared with the model only
        am = cs.add_world(wj)
        bm = cs.add_world(w2)
        a = cs.add_world(wj, model=False)
        b = cs.add_world(w2, model=False)
        feats = wj["features"]
        # aimed at the transform faults between ridge segments: points around the middle of each transform fault
        extra = []
        for f in feats:
            for m in f.get("temperature models", []):
                rc = m.get("ridge coordinates")
                if f["model"] == "oceanic plate" and rc and len(rc) > 1:
                    for k in range(len(rc) - 1):
                        p0, p1 = rc[k][-1], rc[k + 1][0]
                        for _k in range(6):
                            tt = rng.uniform(0.1, 0.9)
                            sc = 0.4 * math.hypot(p1[0] - p0[0], p1[1] - p0[1])
                            x = p0[0] + tt * (p1[0] - p0[0]) + rng.uniform(-sc, sc)
                            y = p0[1] + tt * (p1[1] - p0[1]) + rng.uniform(-sc, sc)
                            dd = float(round(rng.uniform(0.0, 1.0e5)))
                            extra.append((cart_point(sph, x, y, dd, wj.get("coordinate system", {}).get("radius", 6371000.0), TOP), dd))
        if aim_plume is not None:
            d0 = aim_plume["cross section depths"][0]
            a0 = aim_plume["semi-major axis"][0]
            c0 = aim_plume["coordinates"][0]
            for _k in range(12):
                dd = float(round(rng.uniform(0.0, d0) if _k % 3 else rng.uniform(d0, aim_plume["cross section depths"][-1])))
                x = c0[0] + rng.uniform(-1.1, 1.1) * a0
                y = max(-89.0, min(89.0, c0[1] + rng.uniform(-1.1, 1.1) * a0))
                extra.append((cart_point(True, x, y, dd, wj.get("coordinate system", {}).get("radius", 6371000.0), TOP), dd))
        for qi in range(24 + len(extra)):
            lf = [f for f in feats if f["model"] in ("subducting plate", "fault")]
            u = rng.random()
            if lf and u < 0.5:
                q, d = line_query(rng, wj, sph, rng.choice(lf))
            elif u < 0.85:
                q, d = inside_query(rng, wj, sph)
            else:
                q, d = query3d(rng, wj, sph)
            if qi >= 24:
                q, d = extra[qi - 24]
            if d < 0:
                continue
            cs.p3(am, q, d, PROPS)
            cs.p3(bm, qfn(q), d, PROPS)
            i1 = cs.p3(a, q, d, PROPS)
            i2 = cs.p3(b, qfn(q), d, PROPS)
            # perturbed copies of the unmoved query (boundary detection)
            eps = 0.01
            pert = [cs.p3(a, (q[0] + eps, q[1], q[2]), d, PROPS), cs.p3(a, (q[0] - eps, q[1], q[2]), d, PROPS),
                    cs.p3(a, (q[0], q[1] + eps, q[2]), d, PROPS), cs.p3(a, (q[0], q[1] - eps, q[2]), d, PROPS),
                    cs.p3(a, (q[0], q[1], q[2] - eps), d + eps, PROPS), cs.p3(a, (q[0], q[1], q[2] + eps), max(0.0, d - eps), PROPS)]
            plan.append((i1, i2, pert, motion, "3d"))
        if "cross section" in wj:
            for qi in range(6):
                q, d = query2d(rng, wj, sph)
                if d < 0:
                    continue
                i1 = cs.p2(a, q, d, PROPS)
                i2 = cs.p2(b, q, d, PROPS)
                eps = 0.01
                pert = [cs.p2(a, (q[0] + eps, q[1]), d, PROPS), cs.p2(a, (q[0] - eps, q[1]), d, PROPS)]
                plan.append((i1, i2, pert, motion, "2d"))
    # (2) ridge cooling models whose spreading velocity varies along an oblique ridge, moved across the +-180 meridian: in the
    # moved world the nearest ridge point of the far-side queries is found through the longitude alias, and the velocity has
    # to come from that same projection
    for wi in range(8 if quick else 60):
        rng.seed("%d/c08-2/%d" % (chk.seed, wi))
        kind = ["half space model", "plate model"][wi % 2]
        lon0 = float(round(rng.uniform(-120.0, 120.0), 1))
        md = float(round(rng.uniform(8e4, 2.0e5)))
        Tt = float(round(rng.uniform(250, 400), 1))
        Tb = Tt + float(round(rng.uniform(300, 1500), 1))
        vels = [round(rng.uniform(0.01, 0.12), 4), round(rng.uniform(0.01, 0.12), 4)]
        if abs(vels[0] - vels[1]) < 0.03:
            vels[1] = round(vels[0] + 0.05, 4)
        tilt = rng.choice([-1.0, 1.0]) * rng.uniform(2.0, 6.0)
        ridge = [[round(lon0 - tilt, 1), -18.0], [round(lon0 + tilt, 1), 18.0]]
        m = {"model": kind, "max depth": md, "top temperature": Tt, "bottom temperature": Tb, "ridge coordinates": [ridge],
             "spreading velocity": [[0.0, [vels]]]}
        f = {"model": "oceanic plate", "name": "o", "coordinates": [[lon0 - 12, -25], [lon0 + 12, -25], [lon0 + 12, 25], [lon0 - 12, 25]],
             "max depth": md, "temperature models": [m]}
        wj = {"version": "1.1", "thermal diffusivity": 0.804e-6, "coordinate system": {"model": "spherical", "depth method": "begin segment"},
              "features": [f]}
        tgt = [180.0, -180.0][(wi // 2) % 2]
        off = float(round(tgt - lon0 + rng.uniform(-8.0, 8.0), 1))
        motion = ("longitude", off)
        fn = lambda p, off=off: [round(p[0] + off, 6), p[1]]
        ca, sa = math.cos(math.radians(off)), math.sin(math.radians(off))
        qfn = lambda q, ca=ca, sa=sa: (q[0] * ca - q[1] * sa, q[0] * sa + q[1] * ca, q[2])
        w2 = map_points(wj, fn)
        am, bm = cs.add_world(wj), cs.add_world(w2)
        a, b = cs.add_world(wj, model=False), cs.add_world(w2, model=False)
        for qi in range(30):
            dd = float(round(rng.uniform(0.02, 0.9) * md))
            q = cart_point(True, lon0 + rng.uniform(-11.5, 11.5), rng.uniform(-24.0, 24.0), dd, 6371000.0, TOP)
            cs.p3(am, q, dd, PROPS)
            cs.p3(bm, qfn(q), dd, PROPS)
            i1 = cs.p3(a, q, dd, PROPS)
            i2 = cs.p3(b, qfn(q), dd, PROPS)
            eps = 0.01
            pert = [cs.p3(a, (q[0] + eps, q[1], q[2]), dd, PROPS), cs.p3(a, (q[0] - eps, q[1], q[2]), dd, PROPS),
                    cs.p3(a, (q[0], q[1] + eps, q[2]), dd, PROPS), cs.p3(a, (q[0], q[1] - eps, q[2]), dd, PROPS),
                    cs.p3(a, (q[0], q[1], q[2] - eps), dd + eps, PROPS), cs.p3(a, (q[0], q[1], q[2] + eps), max(0.0, dd - eps), PROPS)]
            plan.append((i1, i2, pert, motion, "3d"))
    impl, model = cs.run()
    chk.evaluations = len(impl)
    bad = chk.correspond(impl, model, cs, max_ulp=0)

    def close(x, y, rel, ab):
        if x is None or y is None:
            return x is None and y is None
        if x[TAGPOS] != y[TAGPOS]:
            return False
        # the temperature (first entry) may be a small difference of painted values of the order of the mantle temperature
        # ("subtract" operations): its absolute tolerance is rel * 2500 K, the size of the operands
        return all((math.isnan(p) and math.isnan(q)) or abs(p - q) <= (ab if j else max(ab, rel * 2500.0)) + rel * max(abs(p), abs(q))
                   for j, (p, q) in enumerate(zip(x, y)))
    viol = []
    worst = 0.0
    for (i1, i2, pert, motion, dim) in plan:
        x, y = common.parse_vec(impl[i1]), common.parse_vec(impl[i2])
        kinds[motion[0] + " " + dim] = kinds.get(motion[0] + " " + dim, 0) + 1
        if x is not None and x[TAGPOS] >= 0:
            chk.nontriv((i1,))
        if close(x, y, 1e-6, 1e-6):
            if x is not None:
                worst = max(worst, max((abs(p - q) / max(1.0, abs(p)) for p, q in zip(x, y) if not math.isnan(p)), default=0.0))
            continue
        # is the unmoved answer itself discontinuous here?
        amb = any(not close(x, common.parse_vec(impl[k]), 1e-4, 1e-3) for k in pert)
        if amb:
            chk.count("boundary-ambiguous (answer changes within 1 cm)")
            continue
        dsc = cs.describe(i1)
        dsc["motion"] = list(motion)
        dsc["moved_world"] = cs.worlds[cs.meta[i2]["slot"]][1]
        dsc["moved_probe_line"] = cs.probe[i2]
        dsc["answer"], dsc["moved_answer"] = x, y
        viol.append(("the answer changes under a rigid motion of world plus query (%s)" % (motion,), dsc))
    # an exception on one side only: is it raised at that exact point alone?  (a point exactly on a polygon corner or edge of a
    # feature with depths given at points: whether the corner belongs to a triangle of the surface is decided by rounding;
    # a centimetre away the moved world answers like the unmoved one)
    import json as _json
    keep = []
    for what, d in viol:
        if (d["answer"] is None) == (d["moved_answer"] is None):
            keep.append((what, d))
            continue
        thrower_is_moved = d["moved_answer"] is None
        wj_t = d["moved_world"] if thrower_is_moved else d["world"]
        pl = (d["moved_probe_line"] if thrower_is_moved else d["probe_line"]).split()
        other = d["answer"] if thrower_is_moved else d["moved_answer"]
        if pl[0] != "p3":
            keep.append((what, d))
            continue
        px, py, pz, pd = (common.unhex(t) for t in pl[2:6])
        wp = os.path.join(cs.dir, "throwcheck.wb")
        _json.dump(wj_t, open(wp, "w"))
        lines = ["world 0 %s 1" % wp]
        for ex, ey in ((0.01, 0.0), (-0.01, 0.0), (0.0, 0.01), (0.0, -0.01), (0.007, 0.007), (-0.007, -0.007)):
            lines.append("p3 0 %s %s %s %s %s" % (fhex(px + ex), fhex(py + ey), fhex(pz), fhex(pd), " ".join(pl[6:])))
        ans = [common.parse_vec(a) for a in common.run_probe(lines)[1:]]
        if any(a is not None and close(a, other, 1e-4, 1e-3) for a in ans):
            chk.count("boundary-ambiguous (an exception at one exact boundary point only)")
            continue
        keep.append((what, d))
    viol = keep
    # known finding D21: the spherical closest-point search on the trench curve does not find the foot of a point whose
    # longitude in (-pi,pi] is a full turn away from the longitudes the trench is written with (bezier_curve.cc, spherical
    # branch: linear start estimate and clamp are not periodic).  Identified at the call site: the moved trench, probed
    # directly with the query's natural coordinates and with its 2 pi alias, reports different feet (none / one, or different
    # parameters).
    cand = [(what, d) for what, d in viol if d["motion"][0] == "longitude"]
    if cand:
        plines, owner = [], []
        for vi, (what, d) in enumerate(cand):
            ml = d["moved_probe_line"].split()
            x, y, z = (common.unhex(t) for t in ml[2:5])
            lon, lat = math.atan2(y, x), math.asin(z / math.sqrt(x * x + y * y + z * z))
            for f in d["moved_world"]["features"]:
                if f["model"] not in ("subducting plate", "fault"):
                    continue
                cr = [((c[0] * PI) * (1 / 180.0), (c[1] * PI) * (1 / 180.0)) for c in f["coordinates"]]
                mid = sum(c[0] for c in cr) / len(cr)
                al = lon
                while al - mid > PI:
                    al -= 2 * PI
                while al - mid < -PI:
                    al += 2 * PI
                if al == lon:
                    continue
                pl = "bezcp s %d %s" % (len(cr), " ".join("%s %s" % (common.fhex(c[0]), common.fhex(c[1])) for c in cr))
                plines.append(pl + " %s %s" % (common.fhex(lon), common.fhex(lat)))
                plines.append(pl + " %s %s" % (common.fhex(al), common.fhex(lat)))
                owner.append(vi)
        res = common.run_probe(plines) if plines else []
        d21 = set()
        for k, vi in enumerate(owner):
            r0, r1 = common.parse_vec(res[2 * k]), common.parse_vec(res[2 * k + 1])
            if r0 is None or r1 is None:
                continue
            # the search must not depend on which copy of the longitude it is given: no foot for one copy and a foot for
            # the other, or feet at different parameters, is the call-site signature of D21
            if math.isnan(r0[1]) != math.isnan(r1[1]) or (not math.isnan(r0[1]) and (abs(r0[1] - r1[1]) > 1e-6 or r0[2] != r1[2])):
                d21.add(vi)
        keep = []
        for vi, (what, d) in enumerate(cand):
            if vi in d21 and chk.known("D21", "spherical trench closest point misses the 2 pi alias of the query longitude"):
                chk.count("known finding D21 (trench written with longitudes a full turn away from the query's)")
            else:
                keep.append((what, d))
        viol = [v for v in viol if v[1]["motion"][0] != "longitude"] + keep
    # known finding D24: for a point whose horizontal distance to its foot on the trench is below about a millimetre (but
    # not exactly zero) the local frame of distance_point_from_curved_planes is built from the normalised difference of two
    # nearly equal points and the reported distances are off by up to kilometres.  Identified at the call site: the trench
    # of a line feature, probed directly, reports a foot from which the query is offset by less than 1 m along the curve normal (in either frame).
    if viol:
        plines, owner = [], []
        for vi, (what, d) in enumerate(viol):
            for wkey, lkey in (("world", "probe_line"), ("moved_world", "moved_probe_line")):
                ml = d[lkey].split()
                if ml[0] != "p3":
                    continue
                x, y, z = (common.unhex(t) for t in ml[2:5])
                sphw = d[wkey].get("coordinate system", {}).get("model") == "spherical"
                for f in d[wkey]["features"]:
                    if f["model"] not in ("subducting plate", "fault"):
                        continue
                    if sphw:
                        rr = math.sqrt(x * x + y * y + z * z)
                        q = (math.atan2(y, x), math.asin(z / rr))
                        cr = [((c[0] * PI) * (1 / 180.0), (c[1] * PI) * (1 / 180.0)) for c in f["coordinates"]]
                        scale = rr
                    else:
                        q = (x, y)
                        cr = [(float(c[0]), float(c[1])) for c in f["coordinates"]]
                        scale = 1.0
                    plines.append("bezcp %s %d %s %s %s" % ("s" if sphw else "c", len(cr), " ".join("%s %s" % (common.fhex(c[0]), common.fhex(c[1])) for c in cr),
                                                          common.fhex(q[0]), common.fhex(q[1])))
                    owner.append((vi, scale, sphw, q))
        res = common.run_probe(plines) if plines else []
        d24 = set()
        for (vi, scale, sphw, qq), o in zip(owner, res):
            qs = (None, qq[0], qq[1])
            r0 = common.parse_vec(o)
            if r0 is None or math.isnan(r0[1]):
                continue
            # signed offset of the query from the trench along the curve normal at the reported foot (the foot itself is
            # only as accurate along the trench as the Newton stopping rule)
            u = ((qs[1] - r0[3]) * r0[5] + (qs[2] - r0[4]) * r0[6]) * scale
            if abs(u) < 1.0:
                d24.add(vi)
        keep = []
        for vi, (what, d) in enumerate(viol):
            if vi in d24 and chk.known("D24", "ill-conditioned slab frame for points (almost) vertically below the trench line"):
                chk.count("known finding D24 (query within 1 m of the vertical plane through the trench)")
            else:
                keep.append((what, d))
        viol = keep
    chk.counters["queries per motion kind"] = kinds
    chk.counters["largest relative difference among agreeing answers"] = worst
    for pl in plan[:3]:
        chk.sample({"query": cs.probe[pl[0]][:120], "moved query": cs.probe[pl[1]][:120], "motion": list(pl[3]), "answer": impl[pl[0]][:80]})
    for what, d in viol[:5]:
        chk.violation(what, d)
    chk.counters["violating queries"] = len(viol)
    if bad and not viol:
        for i in bad[:3]:
            dsc = cs.describe(i)
            dsc["impl"], dsc["model"] = impl[i], model[i]
            chk.violation("correspondence Features.v/Plume.v <-> implementation broken on a moved world", dsc, found_input=False)
    cs.cleanup()
