# C12 - malformed or inconsistent input is rejected by an exception, never by a crash
import copy
import json
import math
import os
import random
import shutil
import subprocess

import common
from cases import sanitize_numbers
from qgen import inside_query, query3d, line_query
from worlds import any_world

TOK = "8 1 0 0 2 0 0 2 1 0 2 2 0 2 3 0 3 0 2 4 0 0 5 0 0"


def paths(o, pre=()):
    """all (container, key) pairs of a JSON value"""
    out = []
    if isinstance(o, dict):
        for k, v in o.items():
            out.append((o, k))
            out += paths(v)
    elif isinstance(o, list):
        for i, v in enumerate(o):
            out.append((o, i))
            out += paths(v)
    return out


def structural_mutation(rng, wj):
    """(description, expect_reject, mutated world) - expect_reject None = either outcome allowed"""
    w = copy.deepcopy(wj)
    ps = paths(w)
    u = rng.random()
    if u < 0.12:
        c, k = rng.choice([p for p in ps if isinstance(p[0], dict)])
        nk = str(k) + rng.choice(["x", " ", "_", "s"])
        c[nk] = c.pop(k)
        return "key '%s' renamed to unknown key '%s'" % (k, nk), None, w
    if u < 0.24:
        c, k = rng.choice([p for p in ps if isinstance(p[0], dict)])
        del c[k]
        return "key '%s' deleted" % k, None, w
    if u < 0.40:
        c, k = rng.choice(ps)
        v = c[k]
        if isinstance(v, bool):
            c[k] = rng.choice([0, "true", [v]])
        elif isinstance(v, (int, float)):
            c[k] = rng.choice([str(v), [v], {"value": v}, None, True])
        elif isinstance(v, str):
            c[k] = rng.choice([1, [v], None, v + "?", v.upper(), ""])
        elif isinstance(v, list):
            c[k] = rng.choice([1.5, "list", {}, None, [v]])
        else:
            c[k] = rng.choice([1, "dict", [], None])
        return "value of '%s' replaced by %s" % (k, json.dumps(c[k])[:40]), None, w
    if u < 0.43 and w.get("coordinate system", {}).get("model") == "spherical":
        # schema-valid but unsupported: the published schema lists 'continuous', the library does not implement it
        w["coordinate system"]["depth method"] = "continuous"
        return "spherical depth method 'continuous' (listed in the schema, not implemented)", True, w
    if u < 0.46:
        w["version"] = rng.choice(["0.9", "1.0", "2.0", "", 1.1, "1.1 ", None])
        return "version %s" % json.dumps(w["version"]), True, w
    if u < 0.62:
        nums = [p for p in ps if isinstance(p[0][p[1]], (int, float)) and not isinstance(p[0][p[1]], bool)]
        if nums:
            c, k = rng.choice(nums)
            c[k] = rng.choice([0, 0.0, -0.0, -1, -1e300, 1e300, 1e-320, -c[k], c[k] * 1e12, 5e-324, 1.7976931348623157e308])
            return "number at '%s' replaced by %r" % (k, c[k]), None, w
    if u < 0.80:
        lists = [p for p in ps if isinstance(p[0][p[1]], list) and p[1] not in ("features",)]
        if lists:
            c, k = rng.choice(lists)
            v = c[k]
            what = rng.choice(["empty", "drop", "dup", "one"])
            if what == "empty":
                c[k] = []
            elif what == "drop" and v:
                c[k] = v[:-1]
            elif what == "dup" and v:
                c[k] = v + [copy.deepcopy(v[-1])]
            else:
                c[k] = v[:1]
            return "list '%s' %s (length %d -> %d)" % (k, what, len(v), len(c[k])), None, w
    secs = [f for f in w["features"] if f["model"] in ("subducting plate", "fault") and f.get("sections")]
    if secs and rng.random() < 0.6:
        f = rng.choice(secs)
        n = len(f["coordinates"])
        f["sections"][0]["coordinate"] = rng.choice([n, n, n + 1, n + 7])
        return "section entry for coordinate %d of a feature with %d coordinates" % (f["sections"][0]["coordinate"], n), True, w
    # an unsupported option value
    strs = [p for p in ps if isinstance(p[0][p[1]], str) and p[1] in ("model", "operation", "interpolation", "depth method", "reference model name")]
    if strs:
        c, k = rng.choice(strs)
        c[k] = rng.choice(["foo", "Uniform", "replace all", "linear ", "none"])
        # rejection is demanded through the schema verdict (the published schema enumerates the option values)
        return "option '%s' set to unsupported value '%s'" % (k, c[k]), None, w
    return "unchanged", False, w



def instantiated_lists(f, kind):
    """the model lists of a slab / fault that the constructor instantiates for this kind: a segment without its own list takes the
    list of its section when the section has one, else the feature's; lists nobody takes are never instantiated (never checked)"""
    out = []
    segs = f.get("segments", [])
    secs = f.get("sections", [])
    use_feature = any(kind not in sg for sg in segs)
    for sc in secs:
        ssegs = sc.get("segments", [])
        if any(kind not in sg for sg in ssegs):
            if kind in sc:
                out.append(sc[kind])
            else:
                use_feature = True
        out += [sg[kind] for sg in ssegs if kind in sg]
    out += [sg[kind] for sg in segs if kind in sg]
    if use_feature and kind in f:
        out.append(f[kind])
    return out

def length_mismatch(rng, wj):
    """schema-valid documents whose parallel lists have different lengths: must be rejected"""
    w = copy.deepcopy(wj)
    cands = []
    for f in w["features"]:
        if f["model"] == "plume":
            for k in ("cross section depths", "semi-major axis", "eccentricity", "rotation angles"):
                if len(f.get(k, [])) >= 1:
                    cands.append((f, k, "plume list '%s' vs coordinates" % k))
            for m in f.get("temperature models", []):
                if m["model"] == "gaussian":
                    for k in ("centerline temperatures", "gaussian sigmas", "depths"):
                        if len(m.get(k, [])) >= 2:
                            cands.append((m, k, "gaussian plume temperature list '%s'" % k))
        line = f["model"] in ("subducting plate", "fault")

        def lists(kind):
            return instantiated_lists(f, kind) if line else [f.get(kind, [])]
        for ms in lists("composition models"):
            for m in ms:
                if m.get("model") == "uniform" and "fractions" in m and len(m["fractions"]) >= 1:
                    cands.append((m, "fractions", "uniform composition 'fractions' vs 'compositions'"))
                if m.get("model") == "smooth" and line:
                    for k in (("center fractions", "side fractions") if f["model"] == "fault" else ("top fractions", "bottom fractions")):
                        if k in m and len(m[k]) >= 1:
                            cands.append((m, k, "smooth composition '%s' vs 'compositions'" % k))
        for ms in lists("grains models"):
            for m in ms:
                for k in ("rotation matrices", "grain sizes"):
                    if k in m and len(m[k]) >= 1 and m.get("model") == "uniform":
                        cands.append((m, k, "uniform grains '%s' vs 'compositions'" % k))
        for ms in lists("temperature models"):
            for m in ms:
                if m.get("model") in ("plate model", "half space model") and "ridge coordinates" in m and isinstance(m.get("spreading velocity"), list):
                    cands.append((m, "spreading velocity", "spreading velocity list vs ridge coordinates"))
                if f["model"] == "subducting plate" and m.get("model") == "mass conserving" and m.get("ridge coordinates"):
                    cands.append((m, "subducting velocity table", "subducting velocity table that does not have the shape of the ridge coordinates"))
        if line and f.get("sections"):
            cands.append((f["sections"][0], "segments", "section with a different number of segments than the feature"))
    if not cands:
        return None
    c, k, what = rng.choice(cands)
    if k == "subducting velocity table":
        ridges = c["ridge coordinates"]
        v0 = c.get("subducting velocity", 0.05)
        v0 = v0 if isinstance(v0, (int, float)) else 0.05
        shape = rng.choice(["one row short", "one row long", "row missing", "row too many"])
        if shape == "one row short" and len(ridges[0]) > 2:
            rows = [[v0] * (len(ridges[0]) - 1)] + [[v0] * len(r) for r in ridges[1:]]
        elif shape == "row missing" and len(ridges) > 1:
            rows = [[v0] * len(r) for r in ridges[:-1]]
        elif shape == "row too many":
            rows = [[v0] * len(r) for r in ridges] + [[v0, v0]]
        else:
            rows = [[v0] * (len(ridges[0]) + 1)] + [[v0] * len(r) for r in ridges[1:]]
        c["subducting velocity"] = rows
        return what + " (%s: rows of %s for ridges of %s)" % (shape, [len(r) for r in rows], [len(r) for r in ridges]), w
    v = c[k]
    if rng.random() < 0.5 and len(v) > 1:
        c[k] = v[:-1]
    else:
        c[k] = v + [copy.deepcopy(v[-1])]
    return what + " (length %d -> %d)" % (len(v), len(c[k])), w



class NotExtractable(Exception):
    pass


def _nat(n):
    return "(nat_of_int %d)" % n


def signatures(wj):
    """the length signature of a document for Validate.doc_ok (coq/Validate.v): one entry per instantiated object that owns
    parallel lists.  Absent lists have the declared minimum number of default entries (1 for 'fractions', 0 otherwise).
    Raises NotExtractable when the document does not have the shape the signature needs (then the model is silent)."""
    sigs = []

    def L(m, k, default_len=0):
        v = m.get(k)
        if v is None:
            return default_len
        if not isinstance(v, list):
            raise NotExtractable(k)
        return len(v)

    def one_of(m, a, b):
        if (a in m) == (b in m):
            raise NotExtractable("%s / %s" % (a, b))     # both or neither: rejected for another reason than a length
        return L(m, a if a in m else b)

    def model_sigs(kind, m, fmodel):
        if not isinstance(m, dict):
            raise NotExtractable(kind)
        name = m.get("model")
        if kind == "composition models" and name == "uniform":
            sigs.append("SigFractions (%s, %s)" % (_nat(L(m, "compositions")), _nat(L(m, "fractions", 1))))
        elif kind == "composition models" and name == "smooth" and fmodel in ("subducting plate", "fault"):
            a_, b_ = ("center fractions", "side fractions") if fmodel == "fault" else ("top fractions", "bottom fractions")
            sigs.append("SigSmooth (%s, %s, %s)" % (_nat(L(m, "compositions")), _nat(L(m, a_, 1)), _nat(L(m, b_, 1))))
        elif kind == "grains models" and name == "uniform":
            sigs.append("SigGrainsUniform (%s, %s, %s)" % (_nat(L(m, "compositions")), _nat(one_of(m, "Euler angles z-x-z", "rotation matrices")),
                                                           _nat(L(m, "grain sizes"))))
        elif kind == "grains models" and name == "random uniform distribution":
            sigs.append("SigGrainsRandom (%s, %s, %s)" % (_nat(L(m, "compositions")), _nat(L(m, "grain sizes")), _nat(L(m, "normalize grain sizes"))))
        elif kind == "grains models" and name == "random uniform distribution deflected":
            sigs.append("SigGrainsDeflected (%s, %s, %s, %s, %s)" % (
                _nat(L(m, "compositions")), _nat(L(m, "grain sizes")), _nat(L(m, "normalize grain sizes")), _nat(L(m, "deflections")),
                _nat(one_of(m, "basis Euler angles z-x-z", "basis rotation matrices"))))
        elif kind == "temperature models" and name == "gaussian" and fmodel == "plume":
            sigs.append("SigGaussian (%s, %s, %s)" % (_nat(L(m, "depths")), _nat(L(m, "centerline temperatures")), _nat(L(m, "gaussian sigmas"))))
        elif kind == "temperature models" and ((name in ("half space model", "plate model") and fmodel == "oceanic plate")
                                               or (name == "mass conserving" and fmodel == "subducting plate")):
            ridges = m.get("ridge coordinates")
            if not isinstance(ridges, list) or not all(isinstance(r, list) for r in ridges):
                raise NotExtractable("ridge coordinates")
            sv = m.get("spreading velocity")
            if sv is None or isinstance(sv, (int, float)):
                nv = 1
            elif isinstance(sv, list):
                nv = 0
                for e in sv:
                    if not (isinstance(e, list) and len(e) == 2 and isinstance(e[1], list) and all(isinstance(r, list) for r in e[1])):
                        raise NotExtractable("spreading velocity")
                    nv += sum(len(r) for r in e[1])
            else:
                raise NotExtractable("spreading velocity")
            sigs.append("SigSpreading ([%s], %s)" % ("; ".join(_nat(len(r)) for r in ridges), _nat(nv)))
            if name == "mass conserving":
                sb = m.get("subducting velocity")
                if sb is None or isinstance(sb, (int, float)):
                    rows = [1]
                elif isinstance(sb, list) and sb and all(isinstance(r, list) for r in sb):
                    rows = [len(r) for r in sb]
                else:
                    raise NotExtractable("subducting velocity")
                sigs.append("SigSubducting ([%s], [%s])" % ("; ".join(_nat(len(r)) for r in ridges), "; ".join(_nat(k) for k in rows)))

    kinds = ("temperature models", "composition models", "grains models", "velocity models")
    ver = wj.get("version")
    if not isinstance(ver, str):
        raise NotExtractable("version")
    prog = ".".join(open(os.path.join(common.REPO, "VERSION")).read().strip().split("-")[0].split(".")[:2])
    sigs.append("SigVersion ([%s], [%s])" % ("; ".join("n_of_int %d" % b for b in ver.encode("utf-8")), "; ".join("n_of_int %d" % b for b in prog.encode("utf-8"))))
    for f in wj.get("features", []):
        if not isinstance(f, dict):
            raise NotExtractable("feature")
        fm = f.get("model")
        if fm == "plume":
            sigs.append("SigPlume (%s, %s, %s, %s, %s)" % (_nat(L(f, "coordinates")), _nat(L(f, "cross section depths")), _nat(L(f, "semi-major axis")),
                                                          _nat(L(f, "eccentricity")), _nat(L(f, "rotation angles"))))
        if fm in ("subducting plate", "fault"):
            segs = f.get("segments", [])
            secs = f.get("sections", [])
            if not isinstance(segs, list) or not isinstance(secs, list) or not all(isinstance(x, dict) for x in segs + secs):
                raise NotExtractable("segments")
            for sc in secs:
                if not isinstance(sc.get("segments", []), list) or not all(isinstance(x, dict) for x in sc.get("segments", [])):
                    raise NotExtractable("section segments")
                if not isinstance(sc.get("coordinate", 0), int):
                    raise NotExtractable("coordinate")
                sigs.append("SigSection (%s, %s, %s, %s)" % (_nat(L(f, "coordinates")), _nat(sc.get("coordinate", 0)), _nat(len(segs)), _nat(len(sc.get("segments", [])))))
            for kind in kinds:
                # a list written at feature or section level is only instantiated when a segment takes it
                for ms in instantiated_lists(f, kind):
                    if not isinstance(ms, list):
                        raise NotExtractable(kind)
                    for m in ms:
                        model_sigs(kind, m, fm)
        else:
            for kind in kinds:
                ms = f.get(kind, [])
                if not isinstance(ms, list):
                    raise NotExtractable(kind)
                for m in ms:
                    model_sigs(kind, m, fm)
    return sigs


def byte_mutation(rng, text):
    b = bytearray(text.encode())
    u = rng.random()
    if u < 0.3:
        n = rng.randrange(len(b))
        return "truncated at byte %d" % n, bytes(b[:n])
    if u < 0.55:
        for _ in range(rng.randint(1, 4)):
            b[rng.randrange(len(b))] = rng.randrange(256)
        return "random bytes overwritten", bytes(b)
    if u < 0.7:
        i = rng.randrange(len(b))
        ins = rng.choice([b"{", b"}", b"[", b"]", b",", b":", b"\"", b"\x00", b"\xff\xfe", b"//", b"/*", b"1e999", b"NaN", b"-Infinity", b"\\u0000", b"\n" * 50])
        return "bytes %r inserted at %d" % (ins, i), bytes(b[:i] + ins + b[i:])
    if u < 0.85:
        i = rng.randrange(len(b))
        j = min(len(b), i + rng.randint(1, 30))
        return "bytes %d..%d deleted" % (i, j), bytes(b[:i] + b[j:])
    if u < 0.92:
        return "empty file", b""
    return "deeply nested", (b"[" * 100000)


def reformat(rng, wj):
    """a formatting variant of the same document: key order, whitespace, comments"""
    def shuffle(o):
        if isinstance(o, dict):
            ks = list(o.keys())
            rng.shuffle(ks)
            return {k: shuffle(o[k]) for k in ks}
        if isinstance(o, list):
            return [shuffle(x) for x in o]
        return o
    w = shuffle(wj)
    style = rng.choice(["indent", "compact", "comments"])
    if style == "indent":
        return json.dumps(w, indent=rng.choice([1, 4]), separators=(" ,", " :  "))
    if style == "compact":
        return json.dumps(w, separators=(",", ":"))
    txt = json.dumps(w, indent=2)
    lines = txt.split("\n")
    out = []
    for ln in lines:
        out.append(ln)
        if rng.random() < 0.15:
            out.append(rng.choice(["// a comment", "/* a block\n comment */", "   ", "\t// \"key\": 1,"]))
    return "\n".join(out)


def schema_verdicts(files):
    """validate documents against the published schema with the tooling python (jsonschema); None = unavailable"""
    helper = ("import json,sys,jsonschema\n"
              "s=json.load(open('%s/doc/world_builder_declarations.schema.json'))\n" % common.REPO +
              "v=jsonschema.Draft7Validator(s)\n"
              "for f in sys.argv[1:]:\n"
              "    try:\n"
              "        d=json.load(open(f))\n"
              "        print('valid' if v.is_valid(d) else 'invalid')\n"
              "    except Exception as e:\n"
              "        print('unparsable')\n")
    try:
        out = []
        for i in range(0, len(files), 200):
            p = subprocess.run(["python3-vt", "-c", helper] + files[i:i + 200], capture_output=True, text=True, timeout=600)
            if p.returncode != 0:
                return None
            out += p.stdout.split()
        return out if len(out) == len(files) else None
    except Exception:
        return None


def run(chk):
    san = chk.tier == "thorough"
    chk.rule = ("valid worlds of every feature type from the generators, then four input streams per world: (1) byte-level damage "
                "(truncation, overwritten/inserted/deleted bytes, NUL, unbalanced brackets, NaN/Infinity/1e999 literals, empty "
                "file, 1e5-deep nesting); (2) structural damage of the JSON document (unknown key, missing key, wrong type, wrong "
                "version, unsupported option value, numbers replaced by 0, negative, huge, denormal; lists emptied, shortened, "
                "lengthened); (3) schema-valid documents whose parallel lists disagree in length (plume tables, gaussian tables, "
                "fractions/compositions, grains tables, sections with another number of segments); (4) formatting variants "
                "(key order, whitespace, // and /* */ comments). Construction must end in success or a std::exception with a "
                "message (never a dead/hanging process, never a non-standard exception); documents the published schema rejects "
                "must be rejected; stream (3) must be rejected; accepted documents answer a few queries without crashing; "
                "stream (4) must answer bit-identically to the original. "
                + ("Run under ASan+UBSan. " if san else "Quick tier: plain build (sanitizers in the thorough tier). ")
                + "non-trivial = a damaged document (streams 1-3)")
    chk.assumptions = ["schema verdicts come from python jsonschema (tooling venv) on doc/world_builder_declarations.schema.json; "
                       "when that is unavailable the 'schema-invalid must be rejected' clause is skipped and reported"]
    chk.prove()
    common.build_repo()
    exe = "wbprobe"
    if san:
        common.build_repo_san()
        exe = "wbprobe_san"
    rng = random.Random(chk.seed * 49979687 + 12)
    quick = chk.tier == "quick"
    wdir = os.path.join(common.WORK, "cases", "c12_%d" % os.getpid())
    shutil.rmtree(wdir, ignore_errors=True)
    os.makedirs(wdir)
    docs = []     # (path, stream, description, expect_reject, base index, queries)
    bases = []
    for wi in range(30 if quick else 300):
        rng.seed("%d/c12-1/%d" % (chk.seed, wi))      # every world has its own stream: families do not disturb each other
        sph = rng.random() < 0.4
        wj, sph = any_world(rng, spherical=sph, lines=0.5, allow_mass_conserving=True)
        sanitize_numbers(wj)
        qs = []
        for _ in range(6):
            lf = [f for f in wj["features"] if f["model"] in ("subducting plate", "fault")]
            if lf and rng.random() < 0.5:
                q, d = line_query(rng, wj, sph, rng.choice(lf))
            else:
                q, d = (inside_query if rng.random() < 0.7 else query3d)(rng, wj, sph)
            qs.append("%s %s %s %s %s" % (common.fhex(q[0]), common.fhex(q[1]), common.fhex(q[2]), common.fhex(max(0.0, d)), TOK))
        text = json.dumps(wj)
        bp = os.path.join(wdir, "b%d.wb" % wi)
        open(bp, "w").write(text)
        bases.append((bp, wj, qs))
        docs.append((bp, "base", "unchanged", False, wi))
        for k in range(8):
            desc, data = byte_mutation(rng, text)
            p = os.path.join(wdir, "b%d_y%d.wb" % (wi, k))
            open(p, "wb").write(data)
            docs.append((p, "bytes", desc, None, wi))
        for k in range(14):
            desc, exp, w2 = structural_mutation(rng, wj)
            p = os.path.join(wdir, "b%d_s%d.wb" % (wi, k))
            open(p, "w").write(json.dumps(w2))
            docs.append((p, "structure", desc, exp, wi))
        for k in range(4):
            r = length_mismatch(rng, wj)
            if r is None:
                break
            p = os.path.join(wdir, "b%d_l%d.wb" % (wi, k))
            open(p, "w").write(json.dumps(r[1]))
            docs.append((p, "lengths", r[0], True, wi))
        for k in range(3):
            p = os.path.join(wdir, "b%d_f%d.wb" % (wi, k))
            open(p, "w").write(reformat(rng, wj))
            docs.append((p, "format", "formatting variant", False, wi))
    # model lists written at feature, section and segment level with different numbers of entries (empty lists included): valid
    # documents; every combination must construct (or be refused with an exception) and answer queries
    from worlds import line_world
    kinds4 = ("temperature models", "composition models", "grains models", "velocity models")
    for li in range(16 if quick else 96):
        rng.seed("%d/c12-2/%d" % (chk.seed, li))
        kind = "fault" if li % 2 == 0 else "subducting plate"
        wj, sph, lf = line_world(rng, kind=kind, spherical=(li % 8 >= 6), straight=True, uniform_sections=False, allow_mass_conserving=False, extra_area=0.0)
        sanitize_numbers(wj)
        which = kinds4[(li // 2) % 4]

        def one(k):
            if k == "temperature models":
                return {"model": "uniform", "temperature": float(round(rng.uniform(300, 1500), 1))}
            if k == "composition models":
                return {"model": "uniform", "compositions": [rng.randrange(3)]}
            if k == "grains models":
                return {"model": "uniform", "compositions": [0], "Euler angles z-x-z": [[10.0, 20.0, 30.0]], "grain sizes": [0.5]}
            return {"model": "uniform raw", "velocity": [round(rng.uniform(-0.1, 0.1), 4) for _ in range(3)]}
        for k in kinds4:
            lf.pop(k, None)
            for sg in lf["segments"]:
                sg.pop(k, None)
        lf[which] = [one(which), one(which)]
        n_at_section = (li // 8) % 3          # 0: empty list, 1: one entry, 2: three entries
        secs = []
        for ci in range(len(lf["coordinates"])):
            if ci % 2 == 1 and ci > 0:
                continue
            sc = {"coordinate": ci, "segments": copy.deepcopy(lf["segments"])}
            sc[which] = [one(which) for _ in range((0, 1, 3)[n_at_section])]
            if (li // 4) % 2 == 1 and len(sc["segments"]) > 1:
                sc["segments"][-1][which] = [one(which)]      # one segment with its own list, the others inherit the section's
            secs.append(sc)
        lf["sections"] = secs
        qs = []
        for _ in range(6):
            q, d = line_query(rng, wj, sph, lf)
            qs.append("%s %s %s %s %s" % (common.fhex(q[0]), common.fhex(q[1]), common.fhex(q[2]), common.fhex(max(0.0, d)), TOK))
        bp = os.path.join(wdir, "lists%d.wb" % li)
        open(bp, "w").write(json.dumps(wj))
        bases.append((bp, wj, qs))
        docs.append((bp, "structure", "model lists at feature (2), section (%d) and segment level: %s of a %s" % ((0, 1, 3)[n_at_section], which, kind), None, len(bases) - 1))
    # corpus of minimised earlier failures, run on every tier
    for ci, big in enumerate([1.7976931348623157e308, 1e200, 1e155, -1e200]):
        for where in ((0, 1), (0, 0), (1, 1)):
            cw = {"version": "1.1", "features": [{"model": "oceanic plate", "name": "f0", "coordinates": [[0, 0], [1e5, 0], [1e5, 1e5], [0, 1e5]],
                                                   "max depth": [[105658.0], [103342.0, [[5e4, 4e4], [2e4, 7e4]]]]}]}
            cw["features"][0]["max depth"][1][1][where[0]][where[1]] = big
            p = os.path.join(wdir, "corpus_%d_%d%d.wb" % (ci, where[0], where[1]))
            open(p, "w").write(json.dumps(cw))
            docs.append((p, "structure", "D29 corpus: depth-surface point coordinate %g" % big, None, 0))
    for ci, ver in enumerate(["1.10", "1.1 ", "1.1-beta", "1.12", "1", "01.1", "1.1.0"]):
        cw = {"version": ver, "features": []}
        p = os.path.join(wdir, "corpus_ver_%d.wb" % ci)
        open(p, "w").write(json.dumps(cw))
        docs.append((p, "structure", "version %s" % json.dumps(ver), True, 0))
    for ci, pt in enumerate([[5e4], [], [5e4, 4e4, 3e4]]):
        cw = {"version": "1.1", "features": [{"model": "continental plate", "name": "a", "coordinates": [[0, 0], [1e5, 0], [1e5, 1e5], [0, 1e5]],
                                               "max depth": [[1e5], [2e5, [pt]]]}]}
        p = os.path.join(wdir, "corpus_pt_%d.wb" % ci)
        open(p, "w").write(json.dumps(cw))
        docs.append((p, "structure", "D32 corpus: depth-surface point with %d coordinates" % len(pt), None, 0))
    for ci, (key, val) in enumerate([("Euler angles z-x-z", [[10.0, 20.0]]), ("Euler angles z-x-z", [[]]), ("Euler angles z-x-z", [[10.0, 20.0, 30.0, 40.0]]),
                                     ("rotation matrices", [[[1.0, 0.0], [0.0, 1.0, 0.0], [0.0, 0.0, 1.0]]]), ("rotation matrices", [[[1.0, 0.0, 0.0], [0.0, 1.0, 0.0]]])]):
        # nested arrays of fixed length (a triple of Euler angles, the rows of a rotation matrix): the schema fixes their length
        gm = {"model": "uniform", "compositions": [0], "grain sizes": [0.5], key: val}
        cw = {"version": "1.1", "features": [{"model": ("continental plate", "oceanic plate", "mantle layer")[ci % 3], "name": "g", "coordinates": [[-1e5, -1e5], [1e5, -1e5], [1e5, 1e5], [-1e5, 1e5]],
                                               "max depth": 1e5, "grains models": [gm]}]}
        p = os.path.join(wdir, "corpus_nested_%d.wb" % ci)
        open(p, "w").write(json.dumps(cw))
        bases.append((p, cw, ["%s %s %s %s 1 3 0 2" % (common.fhex(1e4), common.fhex(1e3), common.fhex(1000e3 - 5e4), common.fhex(5e4))]))
        docs.append((p, "structure", "corpus: %s = %s" % (key, json.dumps(val)), True, len(bases) - 1))
    for ci, ridge in enumerate([[[[0.0, 0.0]]], [[]]]):
        cw = {"version": "1.1", "features": [{"model": "oceanic plate", "name": "o", "coordinates": [[-1e5, -1e5], [1e5, -1e5], [1e5, 1e5], [-1e5, 1e5]], "max depth": 1e5,
                                               "temperature models": [{"model": "plate model", "max depth": 1e5, "spreading velocity": 0.05, "ridge coordinates": ridge}]}]}
        p = os.path.join(wdir, "corpus_ridge_%d.wb" % ci)
        open(p, "w").write(json.dumps(cw))
        bases.append((p, cw, ["%s %s %s %s %s" % (common.fhex(1e4), common.fhex(1e3), common.fhex(1000e3 - 5e4), common.fhex(5e4), TOK)]))
        docs.append((p, "structure", "corpus: ridge coordinates = %s" % json.dumps(ridge), None, len(bases) - 1))
    for ci, (fm, lith) in enumerate([("oceanic plate", "granite"), ("subducting plate", "per[idotite"), ("oceanic plate", "")]):
        # D35 corpus: an option value that is a free string in the schema but one of four names in the code
        cm = {"model": "tian water content", "compositions": [0], "lithology": lith, "initial water content": 2.0, "cutoff pressure": 10.0}
        if fm == "oceanic plate":
            ft = {"model": fm, "name": "o", "coordinates": [[-1e5, -1e5], [1e5, -1e5], [1e5, 1e5], [-1e5, 1e5]], "max depth": 1e5,
                  "temperature models": [{"model": "uniform", "temperature": 900.0}], "composition models": [cm]}
        else:
            ft = {"model": fm, "name": "s", "coordinates": [[0.0, -1e5], [0.0, 1e5]], "dip point": [1e6, 0.0],
                  "segments": [{"length": 3e5, "thickness": [1e5], "angle": [45.0]}],
                  "temperature models": [{"model": "uniform", "temperature": 900.0}], "composition models": [cm]}
        cw = {"version": "1.1", "features": [ft]}
        p = os.path.join(wdir, "corpus_lith_%d.wb" % ci)
        open(p, "w").write(json.dumps(cw))
        bases.append((p, cw, ["%s %s %s %s %s" % (common.fhex(5e4), common.fhex(1e3), common.fhex(1000e3 - 6e4), common.fhex(6e4), TOK)]))
        docs.append((p, "structure", "D35 corpus: lithology %s of a %s" % (json.dumps(lith), fm), True, len(bases) - 1))
    verdicts = schema_verdicts([d[0] for d in docs])
    # one process per document would be slow: batch, the resilient runner restarts after a death
    lines, owner = [], []
    for di, (p, stream, desc, exp, wi) in enumerate(docs):
        lines.append("world 0 %s 1" % p)
        owner.append((di, "build"))
        for q in bases[wi][2]:
            lines.append("p3 0 " + q)
            owner.append((di, "query"))
        lines.append("free 0")
        owner.append((di, "free"))
    _, ans, errs = common.run_probe_resilient([], lines, exe=exe, timeout=1800, cwd=wdir)
    chk.evaluations = len(docs)
    viol = []
    stats = {}
    built = {}
    answers = {}
    for li, ((di, what), a) in enumerate(zip(owner, ans)):
        p, stream, desc, exp, wi = docs[di]
        rep = {"kind": "build", "document": open(p, "rb").read()[:20000].decode("latin-1"), "stream": stream, "damage": desc,
               "probe_line": lines[li], "base_world": bases[wi][1], "stderr": errs.get(li, "")[-1200:]}
        if a is None:
            continue
        if a.startswith("crash") or a.startswith("hang"):
            viol.append(("%s %s the process (%s): %s document, %s" % ("constructing a world from" if what == "build" else "a query on the world built from",
                                                                      "hangs" if a.startswith("hang") else "kills", a, stream, desc), rep))
            continue
        if what == "build":
            ok = a.startswith("ok")
            built[di] = ok
            key = stream + (" accepted" if ok else " rejected")
            stats[key] = stats.get(key, 0) + 1
            if stream != "base" and stream != "format":
                chk.nontriv((di,))
            if a.startswith("throw unknown"):
                viol.append(("construction ends in a non-standard exception: %s document, %s" % (stream, desc), rep))
            if not ok and a.strip() in ("throw", "throw "):
                viol.append(("construction throws an exception without a message: %s document, %s" % (stream, desc), rep))
            if ok and exp is True:
                viol.append(("an inconsistent document is accepted: %s" % desc, rep))
            if not ok and exp is False:
                viol.append(("a valid document is rejected (%s): %s" % (stream, a[:200]), rep))
            if ok and verdicts is not None and verdicts[di] == "invalid":
                viol.append(("a document that violates the published schema is accepted: %s" % desc, rep))
        elif what == "query" and built.get(di):
            answers.setdefault(di, []).append(a)
            v = common.parse_vec(a)
            if v is not None and stream in ("base", "format") and any(not math.isfinite(x) for x in v):
                viol.append(("a query on an accepted document returns a non-finite number (%s)" % stream, rep))
    # the model's verdict on the lengths (Validate.doc_ok) against the constructor's, on the unchanged and the length-damaged documents
    body, who = "", []
    for di, (p, stream, desc, exp, wi) in enumerate(docs):
        if (stream not in ("base", "lengths") and not desc.startswith("version ")) or di not in built:
            continue
        try:
            sg = signatures(json.load(open(p)))
        except (NotExtractable, ValueError):
            continue
        body += "\nlet () = out_str (if doc_ok [%s] then \"ok accept\" else \"ok reject\")\n" % "; ".join(sg)
        who.append(di)
    verd = common.run_model(body, tag="c12") if who else []
    nrej = 0
    for di, mv in zip(who, verd):
        p, stream, desc, exp, wi = docs[di]
        chk.corr["cases"] += 1
        model_accepts = mv.strip().endswith("accept")
        nrej += 0 if model_accepts else 1
        if model_accepts == built[di]:
            chk.corr["agree"] += 1
            chk.corr["bit_exact"] += 1
        else:
            chk.corr["disagreements"] += 1
            rep = {"kind": "lengths-verdict", "document": open(p).read()[:20000], "stream": stream, "damage": desc,
                   "model_verdict": "accept" if model_accepts else "reject", "implementation_accepts": built[di]}
            if not model_accepts and built[di]:
                viol.append(("an inconsistent document is accepted: the length checks of Validate.v reject it (%s)" % desc, rep))
            else:
                viol.append(("__corr__", rep))
    chk.counters["documents judged by the length model (Validate.doc_ok)"] = len(who)
    chk.counters["of those rejected by the model"] = nrej
    # formatting variants: indistinguishable from their base
    base_of = {wi: di for di, d in enumerate(docs) if d[1] == "base" for wi in [d[4]]}
    for di, d in enumerate(docs):
        if d[1] == "format" and built.get(di) and built.get(base_of[d[4]]):
            if answers.get(di) != answers.get(base_of[d[4]]):
                viol.append(("a formatting variant (key order / whitespace / comments) answers differently from the original document",
                             {"kind": "format", "document": open(d[0]).read()[:20000], "base_world": bases[d[4]][1],
                              "answers": answers.get(di), "base_answers": answers.get(base_of[d[4]])}))
    chk.counters["documents per stream and outcome"] = stats
    chk.counters["schema verdicts available"] = verdicts is not None
    if verdicts is not None:
        chk.counters["schema-invalid documents"] = sum(1 for v in verdicts if v == "invalid")
    chk.counters["violating documents"] = len(viol)
    for d in docs[1:4]:
        chk.sample({"stream": d[1], "damage": d[2]})
    corr = [d for w, d in viol if w == "__corr__"]
    viol = [(w, d) for w, d in viol if w != "__corr__"]
    if corr and not viol:
        for d in corr[:3]:
            chk.violation("correspondence Validate.v (length checks) <-> constructor verdict broken", d, found_input=False)
    seen = set()
    for what, d in viol:
        key = what[:70]
        if key in seen:
            continue
        seen.add(key)
        chk.violation(what, d)
        if len(seen) >= 8:
            break
    if not os.environ.get("VERIF_KEEP"):
        shutil.rmtree(wdir, ignore_errors=True)
