# C01 - query answers are a pure function of file and query; batched layout
import random

import common
from cases import CaseSet
from qgen import query3d, query2d, prop_list, offsets
from wbgen import width
from worlds import area_world


def run(chk):
    chk.rule = ("random worlds (0-4 overlapping area features of all three kinds, both coordinate systems, forced surface "
                "temperature on/off) x query points aimed at vertices/edges/interiors and depth boundaries x property lists "
                "with repetition; a case is non-trivial when at least one feature covers the point (tag >= 0) and the request "
                "has >= 2 entries; distinct = distinct (world, query, property list)")
    chk.assumptions = ["theorems are about the Gallina model World.v; tie = bit-exact comparison with wbprobe on generated cases",
                       "features are modelled as block painters (contract paint_len / no_random proved for the area features, "
                       "checked on the implementation by the batched-vs-stand-alone oracle for the others)"]
    chk.prove()
    common.build_repo()
    rng = random.Random(chk.seed * 7919 + 1)
    nworlds = 40 if chk.tier == "quick" else 400
    nq = 12
    cs = CaseSet("c01")
    plan = []   # oracle plan: dicts referencing answer indices
    for wi in range(nworlds):
        rng.seed("%d/c01-1/%d" % (chk.seed, wi))      # every world has its own stream: families do not disturb each other
        if wi % 4 == 3:
            from worlds import any_world
            wj, sph = any_world(rng, lines=0.6)        # slabs and faults too (the models that call back the world temperature among them)
        else:
            wj, sph = area_world(rng)
        slot = cs.add_world(wj)
        twin = cs.add_world(wj)          # the same file loaded twice: another world alive in the process
        history = []
        for qi in range(nq):
            ps = prop_list(rng)
            if qi < 4:
                # request shapes aimed at the offset bookkeeping: grains blocks of every size before a velocity
                k = [0, 2, 3, 1][qi]
                ps = [[3, rng.randrange(4), k], [5, 0, 0], [1, 0, 0], [3, rng.randrange(4), (k + 1) % 4], [5, 0, 0], [4, 0, 0]]
            two_d = "cross section" in wj and rng.random() < 0.5
            if two_d:
                pos, d = query2d(rng, wj, sph)
                add = cs.p2
            else:
                pos, d = query3d(rng, wj, sph)
                add = cs.p3
            ib = add(slot, pos, d, ps)
            isz = cs.size(slot, ps)
            alone = [add(slot, pos, d, [p]) for p in ps]
            it = add(twin, pos, d, ps)
            # single-property entry points
            singles = []
            for j, p in enumerate(ps):
                if p[0] == 1:
                    singles.append((j, (cs.single2 if two_d else cs.single3)(slot, "t2" if two_d else "t3", pos, d)))
                elif p[0] == 2:
                    singles.append((j, (cs.single2 if two_d else cs.single3)(slot, "c2" if two_d else "c3", pos, d, p[1])))
                elif p[0] == 3:
                    singles.append((j, (cs.single2 if two_d else cs.single3)(slot, "g2" if two_d else "g3", pos, d, p[1], p[2])))
            tagq = add(slot, pos, d, [[4, 0, 0]])
            plan.append({"batched": ib, "size": isz, "alone": alone, "twin": it, "singles": singles, "ps": ps, "tag": tagq})
            history.append((add, pos, d, ps, ib))
        # history: repeat the first queries after all the others
        for (add, pos, d, ps, ib) in history[:4]:
            plan.append({"repeat": add(slot, pos, d, ps), "of": ib})
    # aimed at state kept between queries inside a feature: a slab along the y axis whose temperature changes along strike
    # (two sections) and whose water content is computed from the temperature of the whole world; two consecutive queries
    # differ in the along-strike coordinate only (the same depth and the same distances from the slab surface); the second
    # must be answered as a fresh world answers it
    from wbgen import Gen
    from qgen import TOP
    gg = Gen(rng)
    for wi in range(6 if chk.tier == "quick" else 60):
        rng.seed("%d/c01-2/%d" % (chk.seed, wi))      # every world has its own stream: families do not disturb each other
        x0 = float(round(rng.uniform(-3e5, 3e5)))
        side = rng.choice([-1.0, 1.0])
        dip = float(rng.choice([30, 45, 60]))
        tm = gg.tian_model(slab=True)
        tm["compositions"] = [0]
        tm.pop("operation", None)
        tm.pop("max distance slab top", None)
        lf = {"model": "subducting plate", "name": "strike", "coordinates": [[x0, -4e5], [x0, 4e5]], "dip point": [x0 + side * 1e6, 0.0],
              "segments": [{"length": 4e5, "thickness": [1e5], "angle": [dip]}],
              "temperature models": [{"model": "uniform", "temperature": float(round(rng.uniform(500, 800)))}],
              "composition models": [tm],
              "sections": [{"coordinate": 1, "segments": [{"length": 4e5, "thickness": [1e5], "angle": [dip]}],
                            "temperature models": [{"model": "uniform", "temperature": float(round(rng.uniform(1000, 1400)))}]}]}
        wj = {"version": "1.1", "features": [lf]}
        slot = cs.add_world(wj)
        fresh = cs.add_world(wj)
        # a second, different world alive in the same process: the same slab, other temperatures; it is asked at exactly the
        # points the first world was just asked at, and the first world is asked again afterwards
        import copy
        wo = copy.deepcopy(wj)
        wo["features"][0]["temperature models"][0]["temperature"] += 350.0
        wo["features"][0]["sections"][0]["temperature models"][0]["temperature"] -= 300.0
        other = cs.add_world(wo)
        other_fresh = cs.add_world(wo)
        import math
        for qi in range(4):
            al = rng.uniform(0.1, 0.8) * 4e5
            off = rng.uniform(0.1, 0.9) * 1e5
            th = math.radians(dip)
            u = al * math.cos(th) - off * math.sin(th)
            d = float(round(al * math.sin(th) + off * math.cos(th)))
            xa = x0 + side * float(round(u))
            ya, yb = float(round(rng.uniform(-3.5e5, -1e5))), float(round(rng.uniform(1e5, 3.5e5)))
            ps = [[2, 0, 0], [1, 0, 0], [4, 0, 0]]
            cs.p3(slot, (xa, ya, TOP - d), d, ps)
            ib = cs.p3(slot, (xa, yb, TOP - d), d, ps)
            plan.append({"repeat": cs.p3(fresh, (xa, yb, TOP - d), d, ps), "of": ib})
            io = cs.p3(other, (xa, yb, TOP - d), d, ps)
            plan.append({"repeat": cs.p3(slot, (xa, yb, TOP - d), d, ps), "of": ib, "what": "answer depends on another world alive in the process"})
            if qi == 3:
                plan.append({"repeat": cs.p3(other_fresh, (xa, yb, TOP - d), d, ps), "of": io, "what": "answer depends on another world alive in the process"})
    # a feature that asks the world back (tian water content reads the temperature of the whole world) under a forced surface
    # temperature, queried at depth exactly 0 and next to it with batched requests: every block equals its stand-alone query
    for wi in range(4 if chk.tier == "quick" else 40):
        rng.seed("%d/c01-3/%d" % (chk.seed, wi))
        tm = gg.tian_model(slab=False)
        tm["compositions"] = [0]
        tm.pop("operation", None)
        for k_ in ("min depth", "max depth"):
            tm.pop(k_, None)
        fo = {"model": "oceanic plate", "name": "wet", "coordinates": [[-3e5, -3e5], [3e5, -3e5], [3e5, 3e5], [-3e5, 3e5]], "max depth": 1.5e5,
              "temperature models": [{"model": "uniform", "temperature": float(round(rng.uniform(600, 1200)))}],
              "composition models": [tm, {"model": "uniform", "compositions": [1], "fractions": [0.75]}],
              "velocity models": [{"model": "uniform raw", "velocity": [0.03, 0.01, -0.02]}]}
        wf = {"version": "1.1", "force surface temperature": True, "surface temperature": float(round(rng.uniform(250, 320), 1)), "features": [fo]}
        if wi % 2 == 1:
            wf["features"].append({"model": "continental plate", "name": "over", "coordinates": [[-1e5, -1e5], [4e5, -1e5], [4e5, 4e5], [-1e5, 4e5]], "max depth": 8e4,
                                   "composition models": [{"model": "uniform", "compositions": [2], "fractions": [0.5], "operation": "replace defined only"}]})
        sl = cs.add_world(wf)
        for qi in range(6):
            d = [0.0, 0.0, 1e-17, 0.0, 3e3, 0.0][qi]
            pos = (rng.uniform(-2.5e5, 2.5e5), rng.uniform(-2.5e5, 2.5e5), TOP - d)
            ps = [[[2, 0, 0], [2, 1, 0], [4, 0, 0], [5, 0, 0], [1, 0, 0]], [[2, 0, 0], [4, 0, 0], [2, 2, 0], [5, 0, 0]], [[1, 0, 0], [2, 0, 0], [2, 1, 0], [4, 0, 0]],
                  [[5, 0, 0], [2, 0, 0], [1, 0, 0], [2, 1, 0], [4, 0, 0]], [[2, 0, 0], [2, 1, 0], [4, 0, 0]], [[2, 1, 0], [2, 0, 0], [5, 0, 0], [4, 0, 0]]][qi]
            # the single-property entry point at and above the surface (negative depths included) against the batched request
            for dn in (d, -1.0, -9.3e-10, -1e-17, 1e-17):
                pn = (pos[0], pos[1], TOP - dn)
                plan.append({"repeat": cs.single3(sl, "t3", pn, dn), "of": cs.p3(sl, pn, dn, [[1, 0, 0]]),
                             "what": "the single-property entry point World::temperature answers differently from the batched request [temperature] (depth %g, forced surface temperature)" % dn})
            ib = cs.p3(sl, pos, d, ps)
            for j, p1 in enumerate(ps):
                plan.append({"repeat": cs.p3(sl, pos, d, [p1]), "of_block": (ib, ps, j),
                             "what": "block %d of the batched answer differs from the stand-alone query %s (forced surface temperature, a model that asks the world back)" % (j, p1)})
    impl, model = cs.run()
    chk.evaluations = len(impl)
    # --- correspondence: model vs implementation, bit for bit (libm paths: exp only) ---------------
    bad = chk.correspond(impl, model, cs, max_ulp=0)
    bad = [i for i in bad if model[i] != "skip"]
    # --- property oracle on the implementation itself ----------------------------------------
    viol = []
    for pl in plan:
        if "of_block" in pl:
            ib_, ps_, j_ = pl["of_block"]
            full, one = common.parse_vec(impl[ib_]), common.parse_vec(impl[pl["repeat"]])
            offs_, _tot = offsets(ps_)
            if full is None or one is None or full[offs_[j_]:offs_[j_] + len(one)] != one:
                viol.append((pl["what"], ib_))
            continue
        if "repeat" in pl:
            if impl[pl["repeat"]] != impl[pl["of"]]:
                viol.append((pl.get("what", "answer depends on earlier queries"), pl["repeat"]))
            continue
        b = common.parse_vec(impl[pl["batched"]])
        if b is None:
            chk.count("throwing queries")
            continue
        ps = pl["ps"]
        offs, total = offsets(ps)
        sz = impl[pl["size"]].split()
        tag = common.parse_vec(impl[pl["tag"]])
        if tag and tag[0] >= 0 and len(ps) >= 2:
            chk.nontriv(cs.probe[pl["batched"]])
        if len(b) != total or int(sz[1]) != total:
            viol.append(("batched answer has %d values, announced %s, request needs %d" % (len(b), sz[1], total), pl["batched"]))
            continue
        if impl[pl["twin"]] != impl[pl["batched"]]:
            viol.append(("two worlds built from one file disagree", pl["twin"]))
        for j, p in enumerate(ps):
            a = common.parse_vec(impl[pl["alone"][j]])
            blk = b[offs[j]:offs[j] + width(p)]
            if a is None or not same_bits(a, blk):
                viol.append(("block %d of the batched answer differs from the stand-alone query %s" % (j, p), pl["batched"]))
                break
        for (j, si) in pl["singles"]:
            a = common.parse_vec(impl[si])
            blk = b[offs[j]:offs[j] + width(ps[j])]
            if a is None or not same_bits(a, blk):
                viol.append(("single-property entry point differs from block %d" % j, si))
                break
    for i in range(0, min(3, len(plan))):
        if "batched" in plan[i]:
            chk.sample({"query": cs.probe[plan[i]["batched"]], "answer": impl[plan[i]["batched"]][:200]})
    for what, idx in viol[:5]:
        chk.violation(what, cs.describe(idx))
    if bad and not viol:
        for i in bad[:3]:
            d = cs.describe(i)
            d["impl"] = impl[i]
            d["model"] = model[i]
            chk.violation("correspondence World.v <-> World::properties broken (model and implementation disagree)", d, found_input=False)
    chk.count("correspondence disagreements", len(bad))
    cs.cleanup()


def same_bits(a, b):
    if len(a) != len(b):
        return False
    for x, y in zip(a, b):
        if x != y and not (x != x and y != y):
            return False
        if x == 0 and y == 0 and str(x) != str(y):
            return False
    return True
