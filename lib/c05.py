# C05 - models documented by a closed-form expression return that expression
import math
import random

import common
from cases import CaseSet
from common import fhex
from wbgen import Gen, PI, cart_point, DMAX
from qgen import TOP

SEC_YEAR = 31557600.0


def adiabat(w, depth, Tp=None, alpha=None, cp=None):
    Tp = w["Tp"] if Tp is None else Tp
    alpha = w["alpha"] if alpha is None else alpha
    cp = w["cp"] if cp is None else cp
    return Tp * math.exp(alpha * w["g"] * depth / cp)


def seg_dist(p, a, b):
    dx, dy = b[0] - a[0], b[1] - a[1]
    L2 = dx * dx + dy * dy
    t = 0.0 if L2 == 0 else max(0.0, min(1.0, ((p[0] - a[0]) * dx + (p[1] - a[1]) * dy) / L2))
    return math.hypot(p[0] - (a[0] + t * dx), p[1] - (a[1] + t * dy))


def ridge_distance_cart(ridges, p):
    """documented rule: the ridge on the point's side of the transform faults, nearest point of its polyline"""
    r = 0
    if len(ridges) > 1:
        r = len(ridges) - 1
        for i in range(len(ridges) - 1):
            t0, t1, ref = ridges[i + 1][0], ridges[i][-1], ridges[i][0]
            side = lambda q: (t1[0] - t0[0]) * (q[1] - t0[1]) - (t1[1] - t0[1]) * (q[0] - t0[0]) < 0
            if side(ref) == side(p):
                r = i
                break
    return min(seg_dist(p, ridges[r][k], ridges[r][k + 1]) for k in range(len(ridges[r]) - 1))


def spec_temperature(w, f, m, x, y, depth):
    """closed form of the documentation for one temperature model; None = model not applicable here"""
    k = m["model"]
    fmin, fmax = f.get("min depth", 0.0), f.get("max depth", DMAX)
    mmin, mmax = m.get("min depth", 0.0), m.get("max depth", DMAX)
    if not (mmin <= depth <= mmax):
        return None
    top = max(fmin, mmin)
    bot = min(fmax, mmax)
    if k == "uniform":
        return m.get("temperature", 293.15)
    if k == "adiabatic":
        Tp, al, cp = m.get("potential mantle temperature", -1), m.get("thermal expansion coefficient", -1), m.get("specific heat", -1)
        return adiabat(w, depth, None if Tp < 0 else Tp, None if al < 0 else al, None if cp < 0 else cp)
    if k == "linear":
        Tt, Tb = m.get("top temperature", 293.15), m.get("bottom temperature", -1)
        Tt = adiabat(w, top) if Tt < 0 else Tt
        Tb = adiabat(w, bot) if Tb < 0 else Tb
        if bot - top < 1e-14:
            return Tt
        return Tt + (depth - top) * (Tb - Tt) / (bot - top)
    if k == "chapman":
        Tt = m.get("top temperature", 293.15)
        Tt = adiabat(w, top) if Tt < 0 else Tt
        q, kc, A = m.get("top heat flux", 0.055), m.get("thermal conductivity", 2.5), m.get("heat generation per unit volume", 1e-6)
        dz = depth - top
        return Tt + (q / kc) * dz - (A / (2 * kc)) * dz * dz
    Tt, Tb = m.get("top temperature", 293.15), m.get("bottom temperature", -1)
    Tb = adiabat(w, depth) if Tb < 0 else Tb
    if k == "plate model constant age":
        age = m.get("plate age", 80e3) * SEC_YEAR
        md = mmax
        T = Tt + (Tb - Tt) * depth / md
        for i in range(1, 101):
            T += (Tb - Tt) * (2 / (i * PI)) * math.sin(i * PI * depth / md) * math.exp(-i * i * PI * PI * w["kappa"] * age / (md * md))
        return T
    dist = ridge_distance_cart(m["ridge coordinates"], (x, y))
    v = m["spreading velocity"] / SEC_YEAR
    age = dist / v
    if k == "half space model":
        if age <= 0:
            return Tb
        return Tb + (Tt - Tb) * math.erfc(depth / (2 * math.sqrt(w["kappa"] * age)))
    if k == "plate model":
        md = mmax
        T = Tt + (Tb - Tt) * depth / md
        for i in range(1, 101):
            T += (Tb - Tt) * (2 / (i * PI)) * math.sin(i * PI * depth / md) * \
                math.exp((v * md / (2 * w["kappa"]) - math.sqrt(v * v * md * md / (4 * w["kappa"] ** 2) + i * i * PI * PI)) * v * age / md)
        return T
    return None


def run(chk):
    chk.rule = ("single-feature Cartesian worlds, one model per kind with operation 'replace', parameters over the schema domain "
                "(sentinel negatives, model ranges narrower and wider than the feature, feature min depth > 0): every temperature "
                "model of the three area features (uniform, linear, adiabatic, Chapman, half space, plate model, constant-age "
                "plate), uniform composition, uniform raw velocity, uniform grains, plume Gaussian/uniform; interior points and "
                "points outside the model's own range: (a) model vs implementation bit-for-bit, (b) implementation vs the "
                "closed form of the documentation, relative 1e-9. non-trivial = point inside the model's range")
    chk.assumptions = ["closed forms transcribed from doc/world_builder_declarations_open.md and the property text into lib/c05.py",
                       "slab and fault models are checked in C06/C20 (they need the slab geometry)"]
    chk.prove()
    common.build_repo()
    rng = random.Random(chk.seed * 179424673 + 5)
    g = Gen(rng)
    quick = chk.tier == "quick"
    cs = CaseSet("c05")
    plan = []
    over_plan = {}
    kinds = ["continental plate", "oceanic plate", "mantle layer"]
    for wi in range(60 if quick else 900):
        rng.seed("%d/c05-1/%d" % (chk.seed, wi))      # every world has its own stream: families do not disturb each other
        kind = kinds[wi % 3]
        w = {"version": "1.1"}
        g.globals(w)
        w.pop("force surface temperature", None)
        wv = {"Tp": w.get("potential mantle temperature", 1600), "alpha": w.get("thermal expansion coefficient", 3.5e-5),
              "cp": w.get("specific heat", 1250), "kappa": w.get("thermal diffusivity", 0.804e-6),
              "g": w.get("gravity model", {}).get("magnitude", 9.81)}
        poly = g.polygon(0.0, 0.0, 3e5)
        fmin = rng.choice([0.0, 0.0, float(round(rng.uniform(5e3, 3e4)))])
        fmax = float(round(rng.uniform(1.2e5, 2.5e5)))
        f = {"model": kind, "name": "a", "coordinates": poly, "max depth": fmax}
        if fmin > 0:
            f["min depth"] = fmin
        if wi < 9:
            # aimed at the "local top of the model's range" clause: the feature starts below the model's own min depth
            fmin = float(round(rng.uniform(1e4, 4e4)))
            f["min depth"] = fmin
            m = {"model": "linear", "min depth": float(round(fmin * rng.uniform(0.0, 0.8))), "max depth": float(round(fmax * rng.uniform(0.6, 1.2))),
                 "top temperature": rng.choice([300.0, -1]), "bottom temperature": rng.choice([1500.0, -1])}
        elif wi < 27:
            # every model kind of every feature type once, whatever the random choices: the adiabatic model with each of its
            # three sentinels resolved on its own (wi 9..17), the others with random parameters
            if wi < 18:
                m = {"model": "adiabatic"}
                key = ["potential mantle temperature", "thermal expansion coefficient", "specific heat"][(wi - 9) // 3]
                m[key] = {"potential mantle temperature": g.num(1200, 1800, 1), "thermal expansion coefficient": g.num(1e-5, 5e-5, 7),
                          "specific heat": g.num(800, 1500, 1)}[key]
            else:
                allowed = {"continental plate": ["uniform", "linear", "chapman"], "oceanic plate": ["half space model", "plate model", "plate model constant age"],
                           "mantle layer": ["uniform", "linear", "adiabatic"]}[kind]
                want = allowed[((wi - 18) // 3) % 3]
                for _try in range(200):
                    m = g.temp_model(kind, fmin, fmax, centre=(0.0, 0.0), spherical=False, variable_spreading=0)
                    if m["model"] == want:
                        break
        else:
            m = g.temp_model(kind, fmin, fmax, centre=(0.0, 0.0), spherical=False, variable_spreading=0)    # the closed form below takes one velocity
        m.pop("operation", None)
        if m["model"] in ("half space model", "plate model", "plate model constant age"):
            m.pop("min depth", None)
        f["temperature models"] = [m]
        cm = g.comp_model(fmin, fmax)
        cm.pop("operation", None)
        f["composition models"] = [cm]
        vm = g.vel_model(fmin, fmax)
        vm.pop("operation", None)
        f["velocity models"] = [vm]
        gm = g.grains_model(fmin, fmax)
        f["grains models"] = [gm]
        w["features"] = [f]
        slot = cs.add_world(w)
        # the same world painted over: an earlier feature and an earlier temperature model of the same feature have already
        # changed the temperature; a replacing model documented by a closed form returns that closed form whatever it finds
        import copy as _copy
        w2 = _copy.deepcopy(w)
        f2 = w2["features"][0]
        f2["temperature models"] = [{"model": "uniform", "temperature": 555.5}] + f2["temperature models"]
        w2["features"] = [{"model": "mantle layer", "name": "earlier", "coordinates": [[-9e5, -9e5], [9e5, -9e5], [9e5, 9e5], [-9e5, 9e5]], "max depth": 9e5,
                           "temperature models": [{"model": "uniform", "temperature": 777.25}]}, f2]
        slot2 = cs.add_world(w2)
        for qi in range(10):
            ip = g.interior_point(poly)
            u = rng.random()
            if u < 0.25:
                d = rng.choice([fmin, fmax, m.get("min depth", fmin), min(fmax, m.get("max depth", fmax))])
            else:
                d = float(round(rng.uniform(fmin, fmax)))
            if not (fmin <= d <= fmax):
                continue
            pos = (float(ip[0]), float(ip[1]), TOP - d)
            ps = [[1, 0, 0], [2, 0, 0], [2, 1, 0], [2, 2, 0], [2, 3, 0], [5, 0, 0], [3, gm["compositions"][0], 2]]
            i = cs.p3(slot, pos, d, ps)
            over_plan[i] = cs.p3(slot2, pos, d, [[1, 0, 0]])
            plan.append((i, w, wv, f, m, cm, vm, gm, ip, d))
    # the "local top" clause with a feature whose own min depth is given at points: at a listed point the models measure
    # depth from the listed value, not from the smallest value of the surface
    local_plan = []
    for wi in range(9 if quick else 90):
        rng.seed("%d/c05-2/%d" % (chk.seed, wi))      # every world has its own stream: families do not disturb each other
        kind = kinds[wi % 3]
        w = {"version": "1.1"}
        g.globals(w)
        w.pop("force surface temperature", None)
        wv = {"Tp": w.get("potential mantle temperature", 1600), "alpha": w.get("thermal expansion coefficient", 3.5e-5),
              "cp": w.get("specific heat", 1250), "kappa": w.get("thermal diffusivity", 0.804e-6),
              "g": w.get("gravity model", {}).get("magnitude", 9.81)}
        poly = g.polygon(0.0, 0.0, 3e5)
        pt = g.interior_point(poly)
        corner_min = rng.choice([0.0, 1e4])
        node_min = float(round(rng.uniform(2e4, 6e4)))
        fmax = float(round(rng.uniform(1.5e5, 2.5e5)))
        f = {"model": kind, "name": "a", "coordinates": poly, "max depth": fmax, "min depth": [[corner_min], [node_min, [pt]]]}
        if kind == "continental plate" and wi % 2 == 1:
            m = {"model": "chapman", "top temperature": rng.choice([300.0, -1]), "top heat flux": g.num(0.03, 0.09, 4)}
        else:
            m = {"model": "linear", "max depth": float(round(fmax * rng.uniform(0.6, 1.2))), "top temperature": rng.choice([300.0, -1]),
                 "bottom temperature": rng.choice([1500.0, -1])}
        f["temperature models"] = [m]
        w["features"] = [f]
        slot = cs.add_world(w)
        fs = dict(f)
        fs["min depth"] = node_min
        bot = min(fmax, m.get("max depth", fmax))
        for t in (0.02, 0.05, 0.3, 0.6, 0.9):      # not 0: the interpolated top at the listed point carries rounding
            d = float(round(node_min + t * (bot - node_min)))
            i = cs.p3(slot, (float(pt[0]), float(pt[1]), TOP - d), d, [[1, 0, 0]])
            local_plan.append((i, wv, fs, m, pt, d))
    # the "local bottom" clause: the *model's* max depth given at points while its min depth is a plain number or absent (and
    # the mirror image): at a listed point the model ends at the listed value, and a linear profile runs from the local top to it
    bottom_plan = []
    for wi in range(12 if quick else 120):
        rng.seed("%d/c05-2b/%d" % (chk.seed, wi))      # every world has its own stream: families do not disturb each other
        kind = kinds[wi % 3]
        w = {"version": "1.1"}
        g.globals(w)
        w.pop("force surface temperature", None)
        wv = {"Tp": w.get("potential mantle temperature", 1600), "alpha": w.get("thermal expansion coefficient", 3.5e-5),
              "cp": w.get("specific heat", 1250), "kappa": w.get("thermal diffusivity", 0.804e-6),
              "g": w.get("gravity model", {}).get("magnitude", 9.81)}
        poly = g.polygon(0.0, 0.0, 3e5)
        pt = g.interior_point(poly)
        fmax = float(round(rng.uniform(2.5e5, 3.5e5)))
        corner_max = float(round(rng.uniform(1.5e5, 2.2e5)))
        node_max = float(round(rng.uniform(6e4, 1.2e5)))
        mmin = rng.choice([None, 0.0, 1e4])
        f = {"model": kind, "name": "a", "coordinates": poly, "max depth": fmax}
        if (wi // 3) % 2 == 0:
            m = {"model": "linear", "top temperature": rng.choice([300.0, 420.0]), "bottom temperature": rng.choice([1500.0, 1250.0])}
        else:
            m = {"model": "uniform", "temperature": float(round(rng.uniform(400, 1400), 1))}
        m["max depth"] = [[corner_max], [node_max, [pt]]]
        if mmin is not None:
            m["min depth"] = mmin
        f["temperature models"] = [m]
        w["features"] = [f]
        slot = cs.add_world(w)
        ms = dict(m)
        ms["max depth"] = node_max
        top = mmin or 0.0
        for t in (0.1, 0.4, 0.7, 0.95):
            d = float(round(top + t * (node_max - top)))
            i = cs.p3(slot, (float(pt[0]), float(pt[1]), TOP - d), d, [[1, 0, 0]])
            bottom_plan.append((i, wv, f, ms, pt, d, True))
        for extra in (3e3, 2e4):
            d = float(round(node_max + extra))       # below the local bottom of the model: nothing paints here
            i = cs.p3(slot, (float(pt[0]), float(pt[1]), TOP - d), d, [[1, 0, 0]])
            bottom_plan.append((i, wv, f, ms, pt, d, False))
    # ridge models in spherical worlds: plates across the +-180 meridian, oblique ridges, one spreading velocity per ridge
    # coordinate (the nearest ridge point is reached through the longitude alias); decided by the model, bit for bit
    from wbgen import cart_point
    for wi in range(8 if quick else 100):
        rng.seed("%d/c05-3/%d" % (chk.seed, wi))      # every world has its own stream: families do not disturb each other
        w = {"version": "1.1", "coordinate system": {"model": "spherical", "depth method": "begin segment"}}
        g.globals(w)
        w.pop("force surface temperature", None)
        base = rng.choice([180.0, -180.0, 0.0])
        lon_r = base + rng.uniform(-6, 6)
        ridge = [[round(lon_r + rng.uniform(-3, 3), 2), -25.0], [round(lon_r + rng.uniform(-3, 3), 2), 25.0]]
        if rng.random() < 0.5:
            ridge.insert(1, [round(lon_r + rng.uniform(-3, 3), 2), round(rng.uniform(-8, 8), 1)])
        if rng.random() < 0.5:
            ridge = ridge[::-1]
        fmax = float(round(rng.uniform(1.0e5, 2.0e5)))
        m = {"model": rng.choice(["half space model", "plate model"]), "max depth": fmax, "top temperature": g.num(250, 400, 1),
             "bottom temperature": rng.choice([g.num(1400, 1900, 1), -1]), "ridge coordinates": [ridge],
             "spreading velocity": [[0.0, [[g.num(0.01, 0.12, 4) for _p in ridge]]]]}
        f = {"model": "oceanic plate", "name": "o", "coordinates": [[base - 30, -35], [base + 30, -35], [base + 30, 35], [base - 30, 35]],
             "max depth": fmax, "temperature models": [m]}
        w["features"] = [f]
        slot = cs.add_world(w)
        for qi in range(16):
            lon, lat = base + rng.uniform(-28, 28), rng.uniform(-33, 33)
            d = float(round(rng.uniform(0.0, fmax)))
            cs.p3(slot, cart_point(True, lon, lat, d, 6371000.0, TOP), d, [[1, 0, 0], [4, 0, 0]])
    # plume temperature models: uniform and Gaussian (centerline temperature and sigma interpolated between the depth nodes)
    import c04
    plume_plan = []
    for wi in range(20 if quick else 300):
        rng.seed("%d/c05-4/%d" % (chk.seed, wi))      # every world has its own stream: families do not disturb each other
        w = {"version": "1.1"}
        g.globals(w)
        w.pop("force surface temperature", None)
        wv = {"Tp": w.get("potential mantle temperature", 1600), "alpha": w.get("thermal expansion coefficient", 3.5e-5),
              "cp": w.get("specific heat", 1250), "kappa": w.get("thermal diffusivity", 0.804e-6),
              "g": w.get("gravity model", {}).get("magnitude", 9.81)}
        f = g.plume("p", False)
        ds = f["cross section depths"]
        dmin = f.get("min depth", 0.0)
        dmax = f.get("max depth", ds[-1] + 1e5)
        k = rng.randint(2, 4)
        gd = sorted(set(float(round(rng.uniform(dmin, dmax))) for _ in range(k)))
        m = {"model": "gaussian", "depths": gd, "centerline temperatures": [rng.choice([float(round(rng.uniform(300, 2000), 1)), -1]) for _ in gd],
             "gaussian sigmas": [round(rng.uniform(0.1, 0.9), 3) for _ in gd]}
        f["temperature models"] = [m]
        for kk in ("composition models", "velocity models", "grains models"):
            f.pop(kk, None)
        w["features"] = [f]
        slot = cs.add_world(w)
        for qi in range(12):
            d = rng.uniform(max(dmin, ds[0]), min(dmax, ds[-1] + 5e4)) if qi % 3 else rng.choice(gd)
            j = rng.randrange(len(ds))
            a = f["semi-major axis"][j] * math.sqrt(1 - f["eccentricity"][j] ** 2)
            x = f["coordinates"][j][0] + rng.uniform(-0.6, 0.6) * a
            y = f["coordinates"][j][1] + rng.uniform(-0.6, 0.6) * a
            i = cs.p3(slot, (x, y, TOP - d), d, [[1, 0, 0], [4, 0, 0]])
            plume_plan.append((i, wv, f, m, x, y, d))
    impl, model = cs.run()
    chk.evaluations = len(impl)
    bad = chk.correspond(impl, model, cs, max_ulp=0)
    viol = []
    for (i, wv, f, m, x, y, d) in plume_plan:
        v = common.parse_vec(impl[i])
        if v is None or v[1] < 0:
            continue
        ff = dict(f)
        ff["_want_v"] = True
        r2 = c04.plume_spec(ff, False, x, y, d)
        if not isinstance(r2, float):
            continue
        gd, tc, sg = m["depths"], m["centerline temperatures"], m["gaussian sigmas"]
        if d < gd[0]:
            T0, S0 = tc[0], sg[0]
        elif d >= gd[-1]:
            T0, S0 = tc[-1], sg[-1]
        else:
            j = max(k for k in range(len(gd)) if gd[k] <= d)
            fr = (d - gd[j]) / (gd[j + 1] - gd[j])
            T0 = (1 - fr) * tc[j] + fr * tc[j + 1]
            S0 = (1 - fr) * sg[j] + fr * sg[j + 1]
        if T0 < 0:
            T0 = adiabat(wv, d)
        exp = T0 * math.exp(-r2 / (2 * S0 * S0))
        chk.nontriv((i,))
        if abs(v[0] - exp) > 1e-7 * max(1.0, abs(exp)):
            dsc = cs.describe(i)
            dsc["expected"], dsc["got"] = exp, v[0]
            viol.append(("plume Gaussian temperature returns %.10g, the documented closed form (centerline temperature and sigma "
                         "interpolated between the depth nodes) gives %.10g" % (v[0], exp), dsc))
    for (i, wv, fs, m, pt, d) in local_plan:
        v = common.parse_vec(impl[i])
        if v is None:
            viol.append(("query inside the feature throws", cs.describe(i)))
            continue
        exp = spec_temperature(wv, fs, m, pt[0], pt[1], d)
        if exp is None:
            continue
        chk.nontriv((i,))
        if abs(v[0] - exp) > 1e-9 * max(1.0, abs(exp)):
            dsc = cs.describe(i)
            dsc["expected"], dsc["got"] = exp, v[0]
            viol.append(("%s temperature model (%s, feature min depth given at points) returns %.10g at a listed point; measured from the "
                         "local top of the feature the documented closed form gives %.10g" % (m["model"], fs["model"], v[0], exp), dsc))
    for (i, wv, f_, ms, pt, d, inside) in bottom_plan:
        v = common.parse_vec(impl[i])
        if v is None:
            viol.append(("query inside the feature throws", cs.describe(i)))
            continue
        exp = spec_temperature(wv, f_, ms, pt[0], pt[1], d) if inside else adiabat(wv, d)
        if exp is None:
            continue
        chk.nontriv((i,))
        if abs(v[0] - exp) > 1e-9 * max(1.0, abs(exp)):
            dsc = cs.describe(i)
            dsc["expected"], dsc["got"] = exp, v[0]
            viol.append(("%s temperature model (%s, the model's max depth given at points) returns %.10g at a listed point %s its local bottom; "
                         "with the listed value as the bottom of the model the documented closed form gives %.10g"
                         % (ms["model"], f_["model"], v[0], "above" if inside else "below", exp), dsc))
    per_model = {}
    for (i, w, wv, f, m, cm, vm, gm, ip, d) in plan:
        v = common.parse_vec(impl[i])
        if v is None:
            viol.append(("query inside the feature throws", cs.describe(i)))
            continue
        exp = spec_temperature(wv, f, m, ip[0], ip[1], d)
        if exp is None:
            exp = adiabat(wv, d)
        else:
            chk.nontriv((i,))
            v2 = common.parse_vec(impl[over_plan[i]]) if i in over_plan else None
            if v2 is not None and abs(v2[0] - exp) > 1e-9 * max(1.0, abs(exp)):
                dsc = cs.describe(over_plan[i])
                dsc["expected"], dsc["got"], dsc["alone"] = exp, v2[0], v[0]
                viol.append(("%s temperature model (%s) painted over an earlier feature and an earlier model returns %.10g, its documented closed "
                             "form gives %.10g (it replaces the temperature: what was painted before must not matter)" % (m["model"], f["model"], v2[0], exp), dsc))
        per_model[m["model"]] = per_model.get(m["model"], 0) + 1
        if abs(v[0] - exp) > 1e-9 * max(1.0, abs(exp)):
            dsc = cs.describe(i)
            dsc["expected"] = exp
            dsc["got"] = v[0]
            viol.append(("%s temperature model (%s) returns %.10g, its documented closed form gives %.10g" % (m["model"], f["model"], v[0], exp), dsc))
        # composition
        inr = cm.get("min depth", 0.0) <= d <= cm.get("max depth", DMAX)
        for c in range(4):
            e = 0.0
            if inr and c in cm["compositions"]:
                e = cm["fractions"][cm["compositions"].index(c)]
            if v[1 + c] != e:
                viol.append(("uniform composition %d is %.6g, expected %.6g" % (c, v[1 + c], e), cs.describe(i)))
                break
        inr = vm.get("min depth", 0.0) <= d <= vm.get("max depth", DMAX)
        ev = vm["velocity"] if inr else [0.0, 0.0, 0.0]
        if v[5:8] != [float(x) for x in ev]:
            viol.append(("uniform raw velocity is %s, expected %s" % (v[5:8], ev), cs.describe(i)))
        inr = gm.get("min depth", 0.0) <= d <= gm.get("max depth", DMAX)
        if inr:
            sz = gm["grain sizes"][0]
            sz = 0.5 if sz < 0 else sz
            if "rotation matrices" in gm:
                mat = [float(x) for row in gm["rotation matrices"][0] for x in row]
                okm = v[10:19] == mat and v[19:28] == mat
            else:
                # z-x-z Euler angles (degrees): the documented rotation matrix, to 1e-12
                p1, th, p2 = [math.radians(a_) for a_ in gm["Euler angles z-x-z"][0]]
                c1, s1, ct, st, c2, s2 = math.cos(p1), math.sin(p1), math.cos(th), math.sin(th), math.cos(p2), math.sin(p2)
                mat = [c2 * c1 - ct * s1 * s2, -c2 * s1 - ct * c1 * s2, -s2 * st,
                       s2 * c1 + ct * s1 * c2, -s2 * s1 + ct * c1 * c2, c2 * st,
                       -st * s1, -st * c1, ct]
                okm = all(abs(x - y) <= 1e-12 for x, y in zip(v[10:19], mat)) and v[19:28] == v[10:19]
            if v[8:10] != [sz, sz] or not okm:
                viol.append(("uniform grains are not returned as configured", cs.describe(i)))
    chk.counters["queries per temperature model"] = per_model
    for pl in plan[:3]:
        chk.sample({"query": cs.probe[pl[0]][:140], "model": pl[4], "answer": impl[pl[0]][:60]})
    for what, d in viol[:5]:
        chk.violation(what, d)
    if bad and not viol:
        for i in bad[:3]:
            dsc = cs.describe(i)
            dsc["impl"], dsc["model"] = impl[i], model[i]
            chk.violation("correspondence Features.v (models) <-> implementation broken", dsc, found_input=False)
    cs.cleanup()
