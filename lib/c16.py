# C16 - the C and C++ wrappers are transparent
import json
import os
import random
import shutil

import common
from cases import CaseSet
from common import fhex
from qgen import query3d, query2d, prop_list
from wbgen import props_tok
from worlds import any_world

DECL = ["world_builder_declarations.schema.json", "world_builder_declarations.tex",
        "world_builder_declarations_open.md", "world_builder_declarations_closed.md"]


def run(chk):
    chk.rule = ("for random worlds: the C interface (create_world with null / non-null output-directory flag and path, any seed; "
                "properties_output_size, properties_2d/3d, temperature_2d/3d, composition_2d/3d, release_world), the C++ wrapper "
                "class and the native World object are created in one process from the same file and asked the same queries; all "
                "answers must be bit-identical; the output directory is observed through the declaration files the library writes "
                "when the flag is set; the seed through a random-composition / random-grains model. non-trivial = a query inside a "
                "feature, or a create_world call with an output directory")
    chk.assumptions = ["theorems are about the marshalling model Apps.v (thin); the tie is the in-process comparison"]
    chk.prove()
    common.build_repo()
    rng = random.Random(chk.seed * 1299709 + 16)
    quick = chk.tier == "quick"
    viol = []
    cs = CaseSet("c16")
    plan = []
    base = os.path.join(common.WORK, "cases", "c16out_%d" % os.getpid())
    shutil.rmtree(base, ignore_errors=True)
    os.makedirs(base)
    dirs = []
    for wi in range(15 if quick else 150):
        rng.seed("%d/c16-1/%d" % (chk.seed, wi))      # every world has its own stream: families do not disturb each other
        wj, sph = any_world(rng)
        seed = rng.choice([0, 1, 2, 1000, rng.randrange(1 << 31)])      # 0 is a legal seed too
        if wi % 5 == 0:
            # the seed must arrive unchanged, 0 included: a covering plate with a random composition makes it observable everywhere
            seed = 0 if wi % 10 == 0 else 1
            wj["features"].append({"model": "continental plate", "name": "seedwitness", "coordinates": [[-1e7, -1e7], [1e7, -1e7], [1e7, 1e7], [-1e7, 1e7]]
                                   if not sph else [[-170, -80], [170, -80], [170, 80], [-170, 80]], "max depth": 4e5,
                                   "composition models": [{"model": "random", "compositions": [3], "min value": [0.0], "max value": [1.0]}]})
        # a random model so that the seed is observable
        for f in wj["features"]:
            if f["model"] == "continental plate" and rng.random() < 0.7 and f["name"] != "seedwitness":
                f.setdefault("composition models", []).append({"model": "random", "compositions": [0], "min value": [0.0], "max value": [1.0]})
        slot = cs.add_world(wj, model=False)        # native, default arguments (placeholder slot numbering)
        path = os.path.join(cs.dir, "w%d.wb" % slot)
        mode = rng.choice(["null", "flag0", "dir", "dir", "dir-noflag", "dir-prefix", "dir-prefix"])
        od = os.path.join(base, "o%d" % wi) + "/"
        os.makedirs(od)
        if wi % 5 == 4:
            # an output path of more than 256 characters (valid: PATH_MAX is 4096) reaches the world in full
            mode = "dir-long"
            od = os.path.join(base, "o%d" % wi, *["d" * 70 + str(k) for k in range(5)]) + "/"
            os.makedirs(od, exist_ok=True)
        if wi % 5 == 2:
            # character arguments reach the world verbatim, trailing blanks included: the world file is called "<name>.wb " (a
            # neighbour "<name>.wb" holds another world), the output path ends in a blank ("%20" in the line protocol)
            mode = "dir-blank"
            other = json.loads(json.dumps(wj))
            other["potential mantle temperature"] = 1234.5
            other["features"] = []
            json.dump(other, open(os.path.join(cs.dir, "blank%d.wb" % slot), "w"))
            shutil.copy(path, os.path.join(cs.dir, "blank%d.wb " % slot))
            path = os.path.join(cs.dir, "blank%d.wb%%20" % slot)
        if mode == "null":
            hd, dr = "null", "null"
        elif mode == "flag0":
            hd, dr = "0", "null"
        elif mode == "dir":
            hd, dr = "1", od
        elif mode == "dir-prefix":
            # the world concatenates the string and the file name: a path without a trailing slash is a file-name prefix
            hd, dr = "1", od + "pre"
        elif mode == "dir-blank":
            hd, dr = "1", od + "run%20"
        elif mode == "dir-long":
            hd, dr = "1", od
        else:
            hd, dr = "0", od
        i0 = cs.raw("nworld %d %s 0 null %d" % (slot, path, seed), "let () = out_str \"skip\"", {"kind": "create", "world": wj})
        cs.raw("nworld %d %s 0 null %d" % (100000 + slot, path, seed), "let () = out_str \"skip\"", {"kind": "create", "world": wj})
        i1 = cs.raw("cworld %d %s %s %s %d" % (slot, path, hd, dr, seed), "let () = out_str \"skip\"",
                    {"kind": "create_world", "has_output_dir": hd, "output_dir": dr, "seed": seed, "world": wj})
        i2 = cs.raw("wworld %d %s %s %s %d" % (slot, path, "0", "null", seed), "let () = out_str \"skip\"", {"kind": "create", "world": wj})
        dirs.append((od, mode, i1, wj, seed))
        for qi in range(8):
            ps = prop_list(rng, maxlen=5)
            if wi % 5 == 0:
                ps = ps + [[2, 3, 0]]
            pt = props_tok(ps)
            if "cross section" in wj and rng.random() < 0.4:
                pos, d = query2d(rng, wj, sph)
                xyz = "%s %s %s" % (fhex(pos[0]), fhex(pos[1]), fhex(d))
                a = cs.raw("p2 %d %s %s" % (slot, xyz, pt), "let () = out_str \"skip\"", {"kind": "p2", "world": wj, "props": ps, "pos": pos, "depth": d})
                b = cs.raw("cp2 %d %s %s" % (slot, xyz, pt), "let () = out_str \"skip\"", {"kind": "cp2", "world": wj, "props": ps, "pos": pos, "depth": d})
                plan.append(("eq", a, b))
                plan.append(("eq", cs.raw("t2 %d %s" % (slot, xyz), "let () = out_str \"skip\"", {"kind": "t2", "world": wj}),
                             cs.raw("ct2 %d %s" % (slot, xyz), "let () = out_str \"skip\"", {"kind": "ct2", "world": wj, "pos": pos, "depth": d})))
                plan.append(("eq", cs.raw("t2 %d %s" % (100000 + slot, xyz), "let () = out_str \"skip\"", {"kind": "t2", "world": wj}),
                             cs.raw("wt2 %d %s" % (slot, xyz), "let () = out_str \"skip\"", {"kind": "wt2", "world": wj, "pos": pos, "depth": d})))
                c = rng.randrange(4)
                plan.append(("eq", cs.raw("c2 %d %s %d" % (slot, xyz, c), "let () = out_str \"skip\"", {"kind": "c2", "world": wj}),
                             cs.raw("cc2 %d %s %d" % (slot, xyz, c), "let () = out_str \"skip\"", {"kind": "cc2", "world": wj, "pos": pos, "depth": d, "c": c})))
                plan.append(("eq", cs.raw("c2 %d %s %d" % (100000 + slot, xyz, c), "let () = out_str \"skip\"", {"kind": "c2", "world": wj}),
                             cs.raw("wc2 %d %s %d" % (slot, xyz, c), "let () = out_str \"skip\"", {"kind": "wc2", "world": wj, "pos": pos, "depth": d, "c": c})))
            else:
                pos, d = query3d(rng, wj, sph)
                xyz = "%s %s %s %s" % (fhex(pos[0]), fhex(pos[1]), fhex(pos[2]), fhex(d))
                a = cs.raw("p3 %d %s %s" % (slot, xyz, pt), "let () = out_str \"skip\"", {"kind": "p3", "world": wj, "props": ps, "pos": pos, "depth": d})
                b = cs.raw("cp3 %d %s %s" % (slot, xyz, pt), "let () = out_str \"skip\"", {"kind": "cp3", "world": wj, "props": ps, "pos": pos, "depth": d})
                plan.append(("eq", a, b))
                plan.append(("eq", cs.raw("size %d %s" % (slot, pt), "let () = out_str \"skip\"", {"kind": "size"}),
                             cs.raw("csize %d %s" % (slot, pt), "let () = out_str \"skip\"", {"kind": "csize", "props": ps, "world": wj})))
                plan.append(("eq", cs.raw("t3 %d %s" % (slot, xyz), "let () = out_str \"skip\"", {"kind": "t3", "world": wj}),
                             cs.raw("ct3 %d %s" % (slot, xyz), "let () = out_str \"skip\"", {"kind": "ct3", "world": wj, "pos": pos, "depth": d})))
                plan.append(("eq", cs.raw("t3 %d %s" % (100000 + slot, xyz), "let () = out_str \"skip\"", {"kind": "t3", "world": wj}),
                             cs.raw("wt3 %d %s" % (slot, xyz), "let () = out_str \"skip\"", {"kind": "wt3", "world": wj, "pos": pos, "depth": d})))
                c = rng.randrange(4)
                plan.append(("eq", cs.raw("c3 %d %s %d" % (slot, xyz, c), "let () = out_str \"skip\"", {"kind": "c3", "world": wj}),
                             cs.raw("cc3 %d %s %d" % (slot, xyz, c), "let () = out_str \"skip\"", {"kind": "cc3", "world": wj, "pos": pos, "depth": d, "c": c})))
                plan.append(("eq", cs.raw("c3 %d %s %d" % (100000 + slot, xyz, c), "let () = out_str \"skip\"", {"kind": "c3", "world": wj}),
                             cs.raw("wc3 %d %s %d" % (slot, xyz, c), "let () = out_str \"skip\"", {"kind": "wc3", "world": wj, "pos": pos, "depth": d, "c": c})))
        # sibling requests one after the other on the same thread: lists of equal length that differ in exactly one field of one
        # entry (number of grains up and down, composition index, property kind), through size / 3-D / 2-D of the C interface
        pos, d = query3d(rng, wj, sph)
        xyz = "%s %s %s %s" % (fhex(pos[0]), fhex(pos[1]), fhex(pos[2]), fhex(d))
        c0, k0 = rng.randrange(3), rng.randint(1, 3)
        base_ps = [[1, 0, 0], [3, c0, k0], [5, 0, 0]]
        sibs = [base_ps, [[1, 0, 0], [3, c0, k0 + 2], [5, 0, 0]], [[1, 0, 0], [3, c0, k0], [5, 0, 0]], [[1, 0, 0], [3, c0 + 1, k0], [5, 0, 0]],
                [[1, 0, 0], [2, c0 + 1, k0], [5, 0, 0]], [[1, 0, 0], [3, c0 + 1, max(1, k0 - 1)], [5, 0, 0]], [[4, 0, 0], [3, c0 + 1, max(1, k0 - 1)], [5, 0, 0]]]
        for ps in sibs:
            pt = props_tok(ps)
            plan.append(("eq", cs.raw("size %d %s" % (slot, pt), "let () = out_str \"skip\"", {"kind": "size"}),
                         cs.raw("csize %d %s" % (slot, pt), "let () = out_str \"skip\"", {"kind": "csize", "props": ps, "world": wj})))
            plan.append(("eq", cs.raw("p3 %d %s %s" % (slot, xyz, pt), "let () = out_str \"skip\"", {"kind": "p3", "world": wj, "props": ps, "pos": pos, "depth": d}),
                         cs.raw("cp3 %d %s %s" % (slot, xyz, pt), "let () = out_str \"skip\"", {"kind": "cp3", "world": wj, "props": ps, "pos": pos, "depth": d,
                                                                                              "note": "sibling requests in sequence: " + json.dumps(sibs)})))
        cs.raw("cfree %d" % slot, "let () = out_str \"skip\"", {"kind": "free"})
    # two handles on the same file with the same seed, alive at the same time, the second one created with an output directory:
    # each is a world of its own (its own random stream, its own declaration files), exactly like two native World objects
    for wi in range(3 if quick else 20):
        rng.seed("%d/c16-2/%d" % (chk.seed, wi))
        sph = wi % 2 == 1
        big = [[-1e7, -1e7], [1e7, -1e7], [1e7, 1e7], [-1e7, 1e7]] if not sph else [[-170, -80], [170, -80], [170, 80], [-170, 80]]
        wj = {"version": "1.1", "features": [{"model": "continental plate", "name": "twin", "coordinates": big, "max depth": 4e5,
                                               "composition models": [{"model": "random", "compositions": [0], "min value": [0.0], "max value": [1.0]}],
                                               "grains models": [{"model": "random uniform distribution", "compositions": [0], "grain sizes": [-1], "normalize grain sizes": [True]}]}]}
        if sph:
            wj["coordinate system"] = {"model": "spherical", "depth method": "begin segment"}
        slot = cs.add_world(wj, model=False)
        path = os.path.join(cs.dir, "w%d.wb" % slot)
        seed = [7, 0, 12345][wi % 3]
        od = os.path.join(base, "twin%d" % wi) + "/"
        os.makedirs(od)
        s1, s2 = 200000 + 2 * wi, 200001 + 2 * wi
        cs.raw("nworld %d %s 0 null %d" % (s1, path, seed), "let () = out_str \"skip\"", {"kind": "create", "world": wj})
        cs.raw("nworld %d %s 0 null %d" % (s2, path, seed), "let () = out_str \"skip\"", {"kind": "create", "world": wj})
        cs.raw("cworld %d %s 0 null %d" % (s1, path, seed), "let () = out_str \"skip\"", {"kind": "create_world", "world": wj, "seed": seed})
        i1 = cs.raw("cworld %d %s 1 %s %d" % (s2, path, od, seed), "let () = out_str \"skip\"",
                    {"kind": "create_world", "has_output_dir": "1", "output_dir": od, "seed": seed, "world": wj,
                     "note": "second handle on the same file and seed while the first is alive"})
        dirs.append((od, "dir", i1, wj, seed))
        for qi in range(6):
            pos, d = query3d(rng, wj, sph)
            xyz = "%s %s %s %s" % (fhex(pos[0]), fhex(pos[1]), fhex(pos[2]), fhex(d))
            ps = [[2, 0, 0], [3, 0, 2], [1, 0, 0]]
            pt = props_tok(ps)
            for sl in ((s1, s2, s2) if qi % 2 == 0 else (s2, s1)):
                a = cs.raw("p3 %d %s %s" % (sl, xyz, pt), "let () = out_str \"skip\"", {"kind": "p3", "world": wj, "props": ps, "pos": pos, "depth": d})
                b = cs.raw("cp3 %d %s %s" % (sl, xyz, pt), "let () = out_str \"skip\"", {"kind": "cp3", "world": wj, "props": ps, "pos": pos, "depth": d,
                                                                                        "note": "two handles on one file and seed, queried in turn"})
                plan.append(("eq", a, b))
        cs.raw("cfree %d" % s1, "let () = out_str \"skip\"", {"kind": "free"})
        cs.raw("cfree %d" % s2, "let () = out_str \"skip\"", {"kind": "free"})
    # run in a scratch working directory: a wrongly marshalled output directory then writes there, not into /verif
    cwd = os.path.join(base, "cwd")
    os.makedirs(cwd)
    impl = common.run_probe(cs.probe, cwd=cwd)
    chk.evaluations = len(impl)
    # the random models draw from the engine: wrapper and native worlds are separate objects queried in the same order,
    # so their draws coincide query by query.
    for kind, a, b in plan:
        if impl[a].startswith("ok") and len(impl[a].split()) > 1:
            chk.nontriv(cs.probe[b])
        if impl[a].split() != impl[b].split():
            d = cs.describe(b)
            d["native"], d["wrapper"] = impl[a], impl[b]
            viol.append(("wrapper answer differs from the native World answer", d))
    for od, mode, i1, wj, seed in dirs:
        present = sorted(f for f in os.listdir(od))
        stray = sorted(os.listdir(cwd))
        if not impl[i1].startswith("ok"):
            viol.append(("create_world fails: " + impl[i1], cs.describe(i1)))
            continue
        if mode in ("dir", "dir-long"):
            chk.nontriv(("dir", od))
            if present != sorted(DECL):
                d = cs.describe(i1)
                d["files_in_output_dir"] = present
                d["files_in_working_dir"] = stray
                viol.append(("create_world does not hand the full output directory path to the world "
                             "(declaration files expected in the directory, found %s; stray files %s)" % (present, stray[:4]), d))
        elif mode == "dir-blank":
            chk.nontriv(("dir", od))
            if present != sorted("run " + x for x in DECL):
                d = cs.describe(i1)
                d["files_in_output_dir"] = present
                viol.append(("create_world changes the output path on its way to the world (a path ending in a blank: the native World "
                             "writes '<path> world_builder_declarations.*'; found %s)" % (present,), d))
        elif mode == "dir-prefix":
            chk.nontriv(("dir", od))
            if present != sorted("pre" + x for x in DECL):
                d = cs.describe(i1)
                d["files_in_output_dir"] = present
                d["files_in_working_dir"] = stray
                viol.append(("create_world changes the output path on its way to the world (path without a trailing slash: the "
                             "native World writes <path>world_builder_declarations.*; found %s)" % (present,), d))
        elif present:
            viol.append(("declaration files written although the output-directory flag is off", cs.describe(i1)))
    chk.sample({"create_world": cs.probe[dirs[0][2]], "answer": impl[dirs[0][2]]})
    chk.sample({"query": cs.probe[plan[0][2]], "answer": impl[plan[0][2]][:120]})
    for what, d in viol[:5]:
        chk.violation(what, d)
    shutil.rmtree(base, ignore_errors=True)
    cs.cleanup()
