# C03 - outside every feature the background state is returned; forced surface temperature
import math
import random

import common
from cases import CaseSet
from qgen import query3d, query2d, prop_list, offsets, TOP
from wbgen import width, cart_point
from worlds import area_world, any_world


def background(el, depth, ps, forced_ok=True):
    out = []
    for p in ps:
        if p[0] == 1:
            if el.force and abs(depth) < 2.0 * 2.220446049250313e-16:
                out.append(el.Ts)
            else:
                out.append(el.Tp * math.exp(((el.alpha * el.gravity) / el.cp) * depth))
        elif p[0] == 2:
            out.append(0.0)
        elif p[0] == 3:
            out += [0.0] * (10 * p[2])
        elif p[0] == 4:
            out.append(-1.0)
        else:
            out += [0.0, 0.0, 0.0]
    return out


def run(chk):
    chk.rule = ("random worlds (all feature types, empty feature list included, both coordinate systems, independently varied "
                "global thermal constants and gravity) x points probed for tag == -1 x depths {negative, 0, ~eps, small, 1e6} x "
                "request shapes; forced-surface worlds x every request shape at |depth| < 2 eps inside features; non-trivial = "
                "point outside every feature with a non-default constant, or forced temperature inside a covering feature")
    chk.assumptions = ["closed form evaluated in Python with the same IEEE operations and the same libm exp as the C++",
                       "theorem C03_background quantifies over the model's feature record; the covering test of unmodelled "
                       "feature types is observed through the tag"]
    chk.prove()
    common.build_repo()
    rng = random.Random(chk.seed * 104729 + 3)
    nworlds = 50 if chk.tier == "quick" else 500
    cs = CaseSet("c03")
    plan = []
    for wi in range(nworlds):
        rng.seed("%d/c03-1/%d" % (chk.seed, wi))      # every world has its own stream: families do not disturb each other
        modelled = rng.random() < 0.6
        surface_family = wi % 10 in (5, 6)
        if surface_family:
            # forced surface temperature, spherical (5) and Cartesian (6): every query of this world sits on the ladder of tiny depths
            modelled = True
            wj, sph = area_world(rng, spherical=(wi % 10 == 5))
            wj["force surface temperature"] = True
        else:
            wj, sph = area_world(rng) if modelled else any_world(rng)
        if rng.random() < 0.15:
            wj["features"] = []
        if wi % 10 in (3, 7):
            # the magnitude of the uniform gravity model is a plain double: zero and negative values included
            wj["gravity model"] = {"model": "uniform", "magnitude": 0.0 if wi % 10 == 7 else -round(rng.uniform(1, 15), 3)}
        slot = cs.add_world(wj, model=modelled)
        el = cs.worlds[slot][2]
        for qi in range(10):
            ps = prop_list(rng)
            pos, d = query3d(rng, wj, sph)
            if (rng.random() < 0.5 and not surface_family) or (surface_family and qi % 2 == 0):
                # far away from everything, special depths
                d = rng.choice([-1234.5, 0.0, 1e-17, 4e-16, 1.0, 1e6, 3e5, None, None, None]) if not surface_family else None
                if d is None:
                    # the threshold of "at the surface" is |depth| < 2 eps, whatever the coordinate system and the size of the model:
                    # a ladder of tiny depths on both sides of it, and the threshold itself
                    d = rng.choice([4.440892098500626e-16, 4.440892098500625e-16, rng.choice([-1, 1]) * 10.0 ** rng.uniform(-16.5, -1.0)])
                if sph:
                    pos = cart_point(True, rng.uniform(-179, 179), rng.uniform(-85, 85), d, el.radius)
                else:
                    pos = cart_point(False, rng.uniform(2e6, 5e6) * rng.choice([-1, 1]), rng.uniform(2e6, 5e6), d)
            elif qi % 5 == 4 or surface_family:
                # the same ladder over the features (where the forced surface temperature competes with what the features paint)
                d = rng.choice([-1, 1]) * 10.0 ** rng.uniform(-16.5, -1.0)
                if sph:
                    r0 = math.sqrt(sum(c * c for c in pos))
                    pos = tuple(c * ((el.radius - d) / r0) for c in pos) if r0 > 0 else pos
                else:
                    pos = (pos[0], pos[1], TOP - d)
            ib = cs.p3(slot, pos, d, ps)
            it = cs.p3(slot, pos, d, [[4, 0, 0]])
            plan.append((ib, it, slot, d, ps))
    # two worlds alive in one process that differ only in the global thermal constants (same gravity): asked one after the other at
    # exactly the same points and depths outside every feature, each returns its own adiabat
    import copy as _copy
    for wi in range(6 if chk.tier == "quick" else 40):
        rng.seed("%d/c03-2/%d" % (chk.seed, wi))
        wa, sph = area_world(rng, spherical=(wi % 2 == 1))
        wa.pop("force surface temperature", None)
        wa["features"] = wa["features"][:1]
        wb = _copy.deepcopy(wa)
        wa["potential mantle temperature"], wa["thermal expansion coefficient"], wa["specific heat"] = 1600.0, 3.5e-5, 1250.0
        wb["potential mantle temperature"], wb["thermal expansion coefficient"], wb["specific heat"] = (
            float(round(rng.uniform(1300, 1900))), round(rng.uniform(1.5e-5, 5e-5), 7), float(round(rng.uniform(800, 1500))))
        sa, sb = cs.add_world(wa), cs.add_world(wb)
        for qi in range(8):
            d = rng.choice([0.0, 1.0, 5e4, 1e5, 4e5, 1e6, -2e3])
            if sph:
                pos = cart_point(True, rng.uniform(-179, 179), rng.uniform(-85, 85), d, cs.worlds[sa][2].radius)
            else:
                pos = cart_point(False, rng.uniform(2e6, 5e6) * rng.choice([-1, 1]), rng.uniform(2e6, 5e6), d)
            ps = [[1, 0, 0], [4, 0, 0]] if qi % 2 == 0 else prop_list(rng)
            for sl in ((sa, sb, sa) if qi % 2 == 0 else (sb, sa)):
                ib = cs.p3(sl, pos, d, ps)
                plan.append((ib, cs.p3(sl, pos, d, [[4, 0, 0]]), sl, d, ps))
    # one area feature whose bottom (or top) is a depth surface listed at points, the other bound a constant: at a listed point the
    # local bound is the listed value, so depths between it and the extreme value of the surface are outside the feature (decided
    # here, not by the tag the implementation returns): the background state is expected there
    gap_plan = []
    for wi in range(9 if chk.tier == "quick" else 60):
        rng.seed("%d/c03-3/%d" % (chk.seed, wi))
        sph = wi % 2 == 1
        kind = ["mantle layer", "continental plate", "oceanic plate"][wi % 3]
        c0 = (rng.uniform(-60, 60), rng.uniform(-40, 40)) if sph else (rng.uniform(-1e6, 1e6), rng.uniform(-1e6, 1e6))
        sz = 12.0 if sph else 6e5
        coords = [[c0[0] - sz, c0[1] - sz], [c0[0] + sz, c0[1] - sz], [c0[0] + sz, c0[1] + sz], [c0[0] - sz, c0[1] + sz]]
        pts = [[round(c0[0] + rng.uniform(-0.6, 0.6) * sz, 3), round(c0[1] + rng.uniform(-0.6, 0.6) * sz, 3)] for _ in range(2)]
        f = {"model": kind, "name": "gap", "coordinates": coords, "temperature models": [{"model": "uniform", "temperature": 500.0}],
             "composition models": [{"model": "uniform", "compositions": [0]}]}
        bottom = (wi // 3) % 2 == 0
        if bottom:
            deep, shallow = float(round(rng.uniform(2.5e5, 4e5))), float(round(rng.uniform(6e4, 1.5e5)))
            f["max depth"] = [[deep], [shallow, pts]]
            f["min depth"] = 0.0 if wi % 4 else float(round(rng.uniform(1e3, 3e4)))
            lo_, hi_ = shallow, deep
        else:
            deep, shallow = float(round(rng.uniform(1.5e5, 2.5e5))), float(round(rng.uniform(1e4, 5e4)))
            f["min depth"] = [[shallow], [deep, pts]]
            f["max depth"] = float(round(rng.uniform(3e5, 5e5)))
            lo_, hi_ = shallow, deep
        wj = {"version": "1.1", "features": [f]}
        if sph:
            wj["coordinate system"] = {"model": "spherical", "depth method": "begin segment"}
        slot = cs.add_world(wj)
        el = cs.worlds[slot][2]
        for pt in pts:
            for k in range(4):
                d = float(round(lo_ + (hi_ - lo_) * (0.1 + 0.8 * rng.random())))
                pos = cart_point(sph, pt[0], pt[1], d, el.radius) if sph else cart_point(False, pt[0], pt[1], d)
                ps = [[1, 0, 0], [2, 0, 0], [4, 0, 0]]
                gap_plan.append((cs.p3(slot, pos, d, ps), slot, d, ps))
    impl, model = cs.run()
    chk.evaluations = len(impl)
    bad = [i for i in chk.correspond(impl, model, cs, max_ulp=0) if model[i] != "skip"]
    viol = []
    for (ib, it, slot, d, ps) in plan:
        el = cs.worlds[slot][2]
        b = common.parse_vec(impl[ib])
        tg = common.parse_vec(impl[it])
        if b is None or tg is None:
            chk.count("throwing queries")
            continue
        offs, total = offsets(ps)
        forced = el.force and abs(d) < 2.0 * 2.220446049250313e-16
        if tg[0] == -1.0:
            exp = background(el, d, ps)
            chk.count("outside every feature")
            if any(k in cs.worlds[slot][1] for k in ("potential mantle temperature", "thermal expansion coefficient", "specific heat", "gravity model")):
                chk.nontriv(cs.probe[ib])
            if len(b) != len(exp) or any(common.ulps(x, y) > 0 for x, y in zip(b, exp)):
                viol.append(("background state not returned outside every feature", ib, exp))
        elif forced:
            chk.count("forced inside a feature")
            for j, p in enumerate(ps):
                if p[0] == 1:
                    chk.nontriv(cs.probe[ib])
                    if b[offs[j]] != el.Ts:
                        viol.append(("forced surface temperature not returned at depth 0 (block %d)" % j, ib, el.Ts))
                        break
    for (ib, slot, d, ps) in gap_plan:
        el = cs.worlds[slot][2]
        b = common.parse_vec(impl[ib])
        if b is None:
            continue
        chk.count("between the local bound of a depth surface and its extreme value")
        chk.nontriv(cs.probe[ib])
        exp = background(el, d, ps)
        if len(b) != len(exp) or any(common.ulps(x, y) > 0 for x, y in zip(b, exp)):
            viol.append(("background state not returned outside every feature (beyond the local bound of the feature's depth surface)", ib, exp))
    for (ib, it, slot, d, ps) in plan[:3]:
        chk.sample({"query": cs.probe[ib], "answer": impl[ib][:160]})
    for what, idx, exp in viol[:5]:
        dsc = cs.describe(idx)
        dsc["impl"] = impl[idx]
        dsc["expected"] = exp
        chk.violation(what, dsc)
    if bad and not viol:
        for i in bad[:3]:
            dsc = cs.describe(i)
            dsc["impl"], dsc["model"] = impl[i], model[i]
            chk.violation("correspondence World.v <-> World::properties broken", dsc, found_input=False)
    cs.cleanup()
