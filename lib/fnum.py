# in-Coq cross-evaluation: kernels of the model that use no libm function are evaluated by Coq's VM on primitive binary64
# floats (coq/NumF.v) on the same inputs as the extracted OCaml model; both must give the same answers.  A cross-check of
# extraction (ExtrOcamlBasic) and of the OCaml float dictionary in ocaml/driver.ml - not a proof.
import os
import re
import shutil

import common


def flit(x):
    h = float(x).hex()
    return "(%s)" % h if h.startswith("-") else h


def pt(p):
    return "(%s, %s)" % (flit(p[0]), flit(p[1]))


def crosscheck(poly_cases, kd_cases, tag="fnum"):
    """poly_cases: [(polygon, point, model verdict)], kd_cases: [(nodes [(index,x,y)], query, mi, md, [(i,d)])] with the answers
    of the extracted model; returns (number evaluated inside Coq, indices that differ)"""
    d = os.path.join(common.WORK, "fnum_%s_%d" % (tag, os.getpid()))
    shutil.rmtree(d, ignore_errors=True)
    os.makedirs(d)
    items = []
    for poly, p, b in poly_cases:
        items.append("P [%s] %s %s" % ("; ".join(pt(c) for c in poly), pt(p), "true" if b else "false"))
    for nodes, q, mi, md, vs in kd_cases:
        items.append("K [%s] %s %d%%nat %s [%s]" % ("; ".join("(%d%%nat, %s, %s)" % (n[0], flit(n[1]), flit(n[2])) for n in nodes), pt(q), mi, flit(md),
                                              "; ".join("(%d%%nat, %s)" % (i, flit(dd)) for i, dd in vs)))
    src = """From Coq Require Import ZArith Floats List Bool Arith.
From WB Require Import Num Kernels NumF.
Import ListNotations.
Local Open Scope float_scope.
Definition P (poly : list (float * float)) (p : float * float) (b : bool) : bool :=
  Bool.eqb (@polygon_contains_impl float Fnum poly p) b.
Definition K (nodes : list (nat * float * float)) (q : float * float) (mi : nat) (md : float) (vs : list (nat * float)) : bool :=
  let '(mi', md', vs') := @find_closest_points float Fnum (map (fun '(i, x, y) => {| kd_index := i; kd_x := x; kd_y := y |}) nodes) q in
  Nat.eqb mi mi' && PrimFloat.eqb md md' && Nat.eqb (length vs) (length vs') &&
  forallb (fun '((i, d), (i', d')) => Nat.eqb i i' && PrimFloat.eqb d d') (combine vs vs').
Definition results : list bool := [
%s ].
Eval vm_compute in (length results, filter (fun i => negb (nth i results true)) (seq 0 (length results))).
""" % ";\n".join("  " + it for it in items)
    open(os.path.join(d, "FnumCases.v"), "w").write(src)
    rc, o, e = common.sh("timeout 600 coqc -Q %s WB FnumCases.v" % os.path.join(common.VERIF, "coq"), cwd=d, timeout=700)
    m = re.search(r"=\s*\((\d+)(?:%nat)?,\s*\[(.*?)\]\)", (o + e).replace("\n", " "))
    if rc != 0 or not m:
        raise common.BuildError("in-Coq evaluation of the kernels failed:\n" + (o + e)[-2000:])
    bad = [int(x) for x in m.group(2).replace("%nat", "").split(";") if x.strip()]
    if not os.environ.get("VERIF_KEEP"):
        shutil.rmtree(d, ignore_errors=True)
    return int(m.group(1)), bad
