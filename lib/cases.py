# A CaseSet collects worlds and queries and renders them for both sides:
# command lines for wbprobe (implementation) and OCaml statements for the extracted model.
import json
import os
import shutil

import common
from common import fhex, ml
from wbgen import Elab, props_ml, props_tok, nlit


def sanitize_numbers(x):
    """keep every number of a generated file at <= 12 significant digits, so that rapidjson's fast
    path and Python agree on its binary64 value (in place)"""
    if isinstance(x, dict):
        for k in x:
            x[k] = sanitize_numbers(x[k])
        return x
    if isinstance(x, list):
        for i in range(len(x)):
            x[i] = sanitize_numbers(x[i])
        return x
    if isinstance(x, float):
        return float("%.12g" % x)
    return x


def needs_surfaces(x):
    if isinstance(x, dict):
        for k, v in x.items():
            if k in ("min depth", "max depth") and isinstance(v, list):
                return True
            if needs_surfaces(v):
                return True
    elif isinstance(x, list):
        return any(needs_surfaces(v) for v in x)
    return False


def fetch_surfaces(path):
    """triangulation and kd-tree of every depth surface of a world, as built by the implementation"""
    ans = common.run_probe(["world 0 %s 1" % path, "surfaces 0"])
    if not ans[1].startswith("ok"):
        return None
    t = ans[1].split()
    out = {}
    i = 1
    while i < len(t):
        assert t[i] == "S"
        key = t[i + 1]
        const = t[i + 2] == "1"
        mn, mx = common.unhex(t[i + 3]), common.unhex(t[i + 4])
        nt = int(t[i + 5])
        i += 6
        tris = []
        for _ in range(nt):
            v = [common.unhex(x) for x in t[i:i + 9]]
            tris.append([v[0:3], v[3:6], v[6:9]])
            i += 9
        nn = int(t[i])
        i += 1
        nodes = []
        for _ in range(nn):
            nodes.append((int(t[i]), common.unhex(t[i + 1]), common.unhex(t[i + 2])))
            i += 3
        out[key] = {"const": const, "min": mn, "max": mx, "tris": tris, "nodes": nodes}
    return out


def surface_bound_violations(surfaces):
    """the hypothesis of theorem C07_pretest: the extrema used by the global pre-test contain every nodal value of the
    triangulation (otherwise the pre-test rejects depths the local test accepts); returns [(key, min, max, lo, hi)]"""
    bad = []
    for key, s in (surfaces or {}).items():
        vals = [v[2] for t in s["tris"] for v in t]
        if vals and (min(vals) < s["min"] or max(vals) > s["max"]):
            bad.append((key, s["min"], s["max"], min(vals), max(vals)))
    return bad


def json_at(wj, key):
    """the JSON value a surface key such as features/0/temperature_models/1/max_depth refers to"""
    o = wj
    for tok in key.split("/"):
        if isinstance(o, list):
            o = o[int(tok)]
        elif isinstance(o, dict):
            o = o.get(tok.replace("_", " "))
        else:
            return None
        if o is None:
            return None
    return o


# the depth surfaces (triangles, kd nodes, extrema, constness) are data the model takes from the implementation; what the
# model assumes about them is checked here for every world of every check and reported by lib/check.py
SURFACE_TIE = []
PROCESS_TIE = []
PROCESS_STATS = {"worlds": 0, "queries": 0}
MERGE_STATS = {"surfaces": 0, "disagree": 0}


def surface_tie_violations(wj, surfaces):
    out = []
    for (key, mn, mx, lo, hi) in surface_bound_violations(surfaces):
        out.append(("the extrema [%g, %g] used by the depth pre-test of %s do not contain the nodal values [%g, %g] of its "
                    "triangulation: the pre-test rejects depths the local surface accepts" % (mn, mx, key, lo, hi),
                    {"kind": "world", "world": wj, "surface": key, "probe_line": "surfaces 0"}))
    for key, sv in (surfaces or {}).items():
        # the hypothesis of theorem C11_no_point_of_a_triangle_is_missed: the vertices of every triangle come clockwise
        for t in sv["tris"]:
            det = (t[1][0] - t[0][0]) * (t[2][1] - t[0][1]) - (t[2][0] - t[0][0]) * (t[1][1] - t[0][1])
            if det > 0:
                out.append(("a triangle of the depth surface %s is listed counter-clockwise (%s): the point-in-triangle test accepts none of its points" % (key, t),
                            {"kind": "world", "world": wj, "surface": key, "probe_line": "surfaces 0"}))
                break
    for key, sv in (surfaces or {}).items():
        v = json_at(wj, key)
        if isinstance(v, list) and any(isinstance(e, list) and len(e) == 2 for e in v) and sv["const"]:
            out.append(("the points listed for %s are ignored: the implementation treats the surface as the constant %g" % (key, sv["min"]),
                        {"kind": "world", "world": wj, "surface": key, "probe_line": "surfaces 0"}))
    return out


def merge_statement(wj, key):
    """the model's merge (Kernels.merge_values: corners at the default, then the entries in file order) of a depth given as
    values at points, as an OCaml statement printing (x, y, value) of every node; None when the key is not such a list"""
    from wbgen import PI, DMAX, mlist, mpt
    v = json_at(wj, key)
    toks = key.split("/")
    if not (isinstance(v, list) and v and all(isinstance(e, list) and len(e) in (1, 2) for e in v)) or toks[0] != "features":
        return None
    feat = wj["features"][int(toks[1])]
    poly = feat.get("coordinates")
    if feat.get("model") not in ("continental plate", "oceanic plate", "mantle layer") or not poly:
        return None
    sph = wj.get("coordinate system", {}).get("model") == "spherical"
    default = 0.0 if key.endswith("min_depth") else DMAX
    corners = [((c[0] * PI) * (1 / 180.0), (c[1] * PI) * (1 / 180.0)) for c in poly] if sph else [(float(c[0]), float(c[1])) for c in poly]
    ents = []
    for e in v:
        ents.append("(%s, None)" % ml(e[0]) if len(e) == 1 else "(%s, Some %s)" % (ml(e[0]), mlist([mpt(p) for p in e[1]])))
    return ("let () = out_vec (List.concat_map (fun (v, (x, y)) -> [x; y; v]) (merge_values n %s %s %s %s))"
            % ("true" if sph else "false", ml(default), mlist([mpt(c) for c in corners]), mlist(ents)))


class CaseSet:
    def __init__(self, tag):
        self.dir = os.path.join(common.WORK, "cases", "%s_%d" % (tag, os.getpid()))
        shutil.rmtree(self.dir, ignore_errors=True)
        os.makedirs(self.dir, exist_ok=True)
        self.probe = []      # command lines
        self.mlines = []     # OCaml statements, one answer each (aligned with probe answers)
        self.meta = []       # per answer: dict describing the case
        self.worlds = []     # (slot, wj, elab)
        self.model_ok = []   # per world: can the model evaluate it?
        self.seeds_used = set()   # seeds whose mt19937 stream the model generated
        self.merge_checks = []    # (world, surface key, implementation's surface, model statement): nodal values vs Kernels.merge_values
        self.has_lines = []  # per world: slabs/faults in the model (implementation side runs with the culling hook off)
        self.surface_bounds = []   # (world, key, reported min, max, nodal min, max) where the pre-test extrema miss a nodal value

    def cleanup(self):
        if not os.environ.get("VERIF_KEEP"):
            shutil.rmtree(self.dir, ignore_errors=True)

    def add_world(self, wj, seed=1, surfaces=None, model=True):
        sanitize_numbers(wj)
        slot = len(self.worlds)
        path = os.path.join(self.dir, "w%d.wb" % slot)
        with open(path, "w") as f:
            json.dump(wj, f)
        if surfaces is None and model and needs_surfaces(wj):
            surfaces = fetch_surfaces(path)
            if surfaces is None:
                model = False
            else:
                for b in surface_bound_violations(surfaces):
                    self.surface_bounds.append((wj,) + b)
                SURFACE_TIE.extend(surface_tie_violations(wj, surfaces))
                for key, sv in surfaces.items():
                    if not sv["const"] and sv["tris"]:
                        try:
                            st = merge_statement(wj, key)
                        except Exception:
                            st = None
                        if st:
                            self.merge_checks.append((wj, key, sv, st))
        el = Elab(wj, surfaces)
        term = el.world() if model else None
        ok = model and el.unsupported is None
        self.worlds.append((slot, wj, el))
        self.model_ok.append(ok)
        lines = bool(ok and el.has_lines)
        self.has_lines.append(lines)
        if lines:
            # SlabFeature.v does not model the acceleration shortcuts: the implementation side of this world is built
            # with them switched off (GWB_VERIF hook); C07 checks separately that they never change an answer
            self.probe.append("culling 0")
            self.mlines.append("let () = out_str \"skip\"")
            self.meta.append({"kind": "hook"})
        if slot % 2 == 1:
            # every second world is constructed from one and the same path, rewritten just before: what a world is depends on the
            # content of its file at construction, not on the file name or on worlds built from that path earlier in the process
            shared = os.path.join(self.dir, "shared.wb")
            self.probe.append("copy %s %s" % (path, shared))
            self.mlines.append("let () = out_str \"skip\"")
            self.meta.append({"kind": "hook"})
            self.probe.append("world %d %s %d" % (slot, shared, seed))
        else:
            self.probe.append("world %d %s %d" % (slot, path, seed))
        if ok:
            tape = "no_tape"
            if el.uses_random:
                sd = wj.get("random number seed", -1)
                sd = seed if sd is None or sd < 0 else sd
                # the draws come from the model's own engine (coq/Mt19937.v: std::mt19937 + generate_canonical), no longer
                # borrowed from the implementation; lib/c15.py compares the two streams draw by draw
                tape = "(engine_tape (n_of_int %d))" % (sd % 4294967296)
                self.seeds_used.add(sd)
            self.mlines.append("let t%d = ref O\nlet w%d = %s %s\nlet () = out_str \"ok\"" % (slot, slot, term, tape))
        else:
            self.mlines.append("let () = out_str \"skip\"")
        self.meta.append({"kind": "world", "slot": slot, "world": wj})
        if lines:
            self.probe.append("culling 1")
            self.mlines.append("let () = out_str \"skip\"")
            self.meta.append({"kind": "hook"})
        return slot

    def _add(self, pline, mline, meta, slot):
        self.probe.append(pline)
        modelled = self.model_ok[slot]
        self.mlines.append(mline if modelled else "let () = out_str \"skip\"")
        meta["slot"] = slot
        self.meta.append(meta)
        return len(self.probe) - 1

    def p3(self, slot, pos, depth, props, t=0):
        return self._add("p3 %d %s %s %s %s %s" % (slot, fhex(pos[0]), fhex(pos[1]), fhex(pos[2]), fhex(depth), props_tok(props)),
                         "let () = out_res_st t%d (properties3d n w%d ((%s, %s), %s) %s %s !t%d)"
                         % (slot, slot, ml(pos[0]), ml(pos[1]), ml(pos[2]), ml(depth), props_ml(props), slot),
                         {"kind": "p3", "pos": list(pos), "depth": depth, "props": props}, slot)

    def p2(self, slot, pos, depth, props, t=0):
        return self._add("p2 %d %s %s %s %s" % (slot, fhex(pos[0]), fhex(pos[1]), fhex(depth), props_tok(props)),
                         "let () = out_res_st t%d (properties2d n w%d (%s, %s) %s %s !t%d)"
                         % (slot, slot, ml(pos[0]), ml(pos[1]), ml(depth), props_ml(props), slot),
                         {"kind": "p2", "pos": list(pos), "depth": depth, "props": props}, slot)

    def single3(self, slot, which, pos, depth, c=0, k=0):
        if which == "t3":
            pl = "t3 %d %s %s %s %s" % (slot, fhex(pos[0]), fhex(pos[1]), fhex(pos[2]), fhex(depth))
            mlx = "out_res1_st t%d (temperature3d n w%d ((%s, %s), %s) %s !t%d)" % (slot, slot, ml(pos[0]), ml(pos[1]), ml(pos[2]), ml(depth), slot)
        elif which == "c3":
            pl = "c3 %d %s %s %s %s %d" % (slot, fhex(pos[0]), fhex(pos[1]), fhex(pos[2]), fhex(depth), c)
            mlx = "out_res1_st t%d (composition3d n w%d ((%s, %s), %s) %s %s !t%d)" % (slot, slot, ml(pos[0]), ml(pos[1]), ml(pos[2]), ml(depth), nlit(c), slot)
        else:
            pl = "g3 %d %s %s %s %s %d %d" % (slot, fhex(pos[0]), fhex(pos[1]), fhex(pos[2]), fhex(depth), c, k)
            mlx = "out_res_st t%d (grains3d n w%d ((%s, %s), %s) %s %s %s !t%d)" % (slot, slot, ml(pos[0]), ml(pos[1]), ml(pos[2]), ml(depth), nlit(c), nlit(k), slot)
        return self._add(pl, "let () = " + mlx, {"kind": which, "pos": list(pos), "depth": depth, "c": c, "k": k}, slot)

    def single2(self, slot, which, pos, depth, c=0, k=0):
        if which == "t2":
            pl = "t2 %d %s %s %s" % (slot, fhex(pos[0]), fhex(pos[1]), fhex(depth))
            mlx = "out_res1_st t%d (temperature2d n w%d (%s, %s) %s !t%d)" % (slot, slot, ml(pos[0]), ml(pos[1]), ml(depth), slot)
        elif which == "c2":
            pl = "c2 %d %s %s %s %d" % (slot, fhex(pos[0]), fhex(pos[1]), fhex(depth), c)
            mlx = "out_res1_st t%d (composition2d n w%d (%s, %s) %s %s !t%d)" % (slot, slot, ml(pos[0]), ml(pos[1]), ml(depth), nlit(c), slot)
        else:
            pl = "g2 %d %s %s %s %d %d" % (slot, fhex(pos[0]), fhex(pos[1]), fhex(depth), c, k)
            mlx = "out_res_st t%d (grains2d n w%d (%s, %s) %s %s %s !t%d)" % (slot, slot, ml(pos[0]), ml(pos[1]), ml(depth), nlit(c), nlit(k), slot)
        return self._add(pl, "let () = " + mlx, {"kind": which, "pos": list(pos), "depth": depth, "c": c, "k": k}, slot)

    def size(self, slot, props):
        return self._add("size %d %s" % (slot, props_tok(props)),
                         "let () = out_int (int_of_nat (output_size %s))" % props_ml(props),
                         {"kind": "size", "props": props}, slot)

    def raw(self, pline, mline, meta, slot=None):
        """an arbitrary aligned pair (kernel calls)"""
        self.probe.append(pline)
        self.mlines.append(mline)
        self.meta.append(meta)
        return len(self.probe) - 1

    def alone_in_a_fresh_process(self, impl, nworlds=5):
        """a few worlds of the set are built and queried once more, each alone in a fresh process and with its queries in
        reverse order: without random models the answers must be those of the crowded process, query by query (nothing that
        another world or an earlier query left behind may matter).  Disagreements go to PROCESS_TIE (reported by lib/check.py)."""
        picked = 0
        groups = []
        for slot, wj, el in self.worlds:
            if picked >= nworlds:
                break
            if slot % 2 == 0 or "random" in json.dumps(wj) or slot >= len(self.model_ok):
                continue        # worlds that draw random numbers answer according to the sequence of queries
            idx = [i for i, l in enumerate(self.probe) if l.split()[:2] in (["p3", str(slot)], ["p2", str(slot)])]
            wl = [i for i, l in enumerate(self.probe) if l.split()[:2] == ["world", str(slot)]]
            if len(idx) < 2 or len(wl) != 1 or not all(impl[i].startswith("ok") for i in idx) or not impl[wl[0]].startswith("ok"):
                continue
            picked += 1
            wi = wl[0]
            pre = []
            if wi >= 1 and self.probe[wi - 1].startswith("copy "):
                pre.append(self.probe[wi - 1])
                if wi >= 2 and self.probe[wi - 2].startswith("culling 0"):
                    pre.insert(0, "culling 0")
            elif wi >= 1 and self.probe[wi - 1].startswith("culling 0"):
                pre.append("culling 0")
            head = pre + [self.probe[wi]] + (["culling 1"] if "culling 0" in pre else [])
            groups.append((slot, head, idx))
            lines = head + [self.probe[i] for i in reversed(idx)]
            ans = common.run_probe(lines)[-len(idx):]
            PROCESS_STATS["worlds"] += 1
            PROCESS_STATS["queries"] += len(idx)
            for i, a in zip(reversed(idx), ans):
                if a != impl[i]:
                    d = self.describe(i)
                    d["alone_in_a_fresh_process"], d["among_the_other_worlds"] = a, impl[i]
                    PROCESS_TIE.append(("a query answers differently when its world is alone in a fresh process (queries in reverse order) than among the "
                                        "other worlds and queries of this run: %s vs %s" % (a[:60], impl[i][:60]), d))
                    break

        # the same worlds once more in one fresh process, built one after the other, each destroyed before the next is built
        # (a loop over model variants; the allocator hands the memory of the destroyed world to the next one): the answers must
        # again be those of the crowded process - nothing may outlive the destruction of a world
        if len(groups) >= 2:
            lines, where = [], []
            for slot, head, idx in groups:
                lines += head
                for i in idx:
                    where.append((len(lines), i))
                    lines.append(self.probe[i])
                lines.append("free %d" % slot)
            ans = common.run_probe(lines)
            PROCESS_STATS["reused"] = PROCESS_STATS.get("reused", 0) + len(where)
            for k, i in where:
                if ans[k] != impl[i]:
                    d = self.describe(i)
                    d["after_the_destruction_of_the_previous_world"], d["among_the_other_worlds"] = ans[k], impl[i]
                    PROCESS_TIE.append(("a query answers differently when its world is built after the previous one was destroyed (fresh process, one "
                                        "world alive at a time) than among the other worlds of this run: %s vs %s" % (ans[k][:60], impl[i][:60]), d))
                    break

    def run(self, model=True):
        impl = common.run_probe(self.probe)
        if os.environ.get("VERIF_NO_PROCESS_TIE") is None:
            self.alone_in_a_fresh_process(impl)
        mod = common.run_model("\n".join(self.mlines), tag=os.path.basename(self.dir)) if model else None
        if self.merge_checks:
            # every node of the implementation's triangulation carries the value the merge rules give it (model, bit for bit)
            mm = common.run_model("\n".join(st for (_w, _k, _s, st) in self.merge_checks), tag=os.path.basename(self.dir) + "m")
            for (wj, key, sv, _st), ans in zip(self.merge_checks, mm):
                mv = common.parse_vec(ans) or []
                mset = set((mv[k], mv[k + 1], mv[k + 2]) for k in range(0, len(mv) - 2, 3))
                iset = set((v[0], v[1], v[2]) for t in sv["tris"] for v in t)
                MERGE_STATS["surfaces"] += 1
                if not iset <= mset:
                    MERGE_STATS["disagree"] += 1
                    SURFACE_TIE.append(("the nodal values of %s are not those of the merge rules (corners at the default, entries in file order; model "
                                        "Kernels.merge_values): node %s" % (key, sorted(iset - mset)[:2]),
                                        {"kind": "world", "world": wj, "surface": key, "probe_line": "surfaces 0",
                                         "implementation_nodes": sorted(iset)[:12], "model_nodes": sorted(mset)[:12]}))
            self.merge_checks = []
        return impl, mod

    def describe(self, i):
        m = dict(self.meta[i])
        slot = m.get("slot")
        if slot is not None and m.get("kind") != "world":
            m["world"] = self.worlds[slot][1]
        m["probe_line"] = self.probe[i] if m.get("kind") != "world" else "world"
        return m
