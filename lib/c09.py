# C09 - the 2-D cross-section interface equals the 3-D interface along the section
import math
import random

import common
from cases import CaseSet
from qgen import query2d, prop_list, offsets
from wbgen import width, PI
from worlds import area_world, any_world


def map2d(wj, sph, p):
    cs = wj["cross section"]
    if sph:
        c = [(q[0] * (PI / 180.0), q[1] * (PI / 180.0)) for q in cs]
    else:
        c = [(float(q[0]), float(q[1])) for q in cs]
    dx, dy = c[0][0] - c[1][0], c[0][1] - c[1][1]
    s = -1.0 / math.sqrt(dx * dx + dy * dy)
    dx, dy = dx * s, dy * s
    if not sph:
        return (c[0][0] + p[0] * dx, c[0][1] + p[0] * dy, p[1]), (dx, dy)
    r = math.sqrt(p[0] * p[0] + p[1] * p[1])
    a = math.atan2(p[1], p[0])
    lon, lat = c[0][0] + a * dx, c[0][1] + a * dy
    cos_lat = r * math.sin(0.5 * PI - lat)
    return (cos_lat * math.cos(lon), cos_lat * math.sin(lon), r * math.cos(0.5 * PI - lat)), (dx, dy)


def run(chk):
    chk.rule = ("random worlds with oblique / reversed cross sections in both coordinate systems x 2-D points along and beyond "
                "the section x request lists; each 2-D answer is compared block by block with the 3-D answer at the mapped "
                "point (velocity projected); worlds without cross section must refuse every 2-D entry point; non-trivial = a "
                "feature covers the point (tag >= 0)")
    chk.assumptions = ["the mapped point is recomputed in Python with the same IEEE operations / libm as world.cc:324-348"]
    chk.prove()
    common.build_repo()
    rng = random.Random(chk.seed * 15485863 + 9)
    nworlds = 50 if chk.tier == "quick" else 500
    cs = CaseSet("c09")
    plan = []
    for wi in range(nworlds):
        rng.seed("%d/c09-1/%d" % (chk.seed, wi))      # every world has its own stream: families do not disturb each other
        modelled = rng.random() < 0.6
        has_cross = rng.random() < 0.85
        wide = wi % 5 == 3
        if wide:
            # spherical sections whose two points are more than 180 degrees of longitude apart (the direction of the section is
            # the difference of the two points as written, not the short way round)
            modelled, has_cross = True, True
            wj, sph = area_world(rng, spherical=True, cross=True)
            wj["cross section"] = [[[0.0, 0.0], [270.0, 0.0]], [[-150.0, 10.0], [150.0, -20.0]], [[-170.0, 5.0], [175.0, -5.0]], [[10.0, -20.0], [200.0, 30.0]]][(wi // 5) % 4]
            # stripes of 30 degrees of longitude with their own temperature and composition: a point mapped to the wrong place shows
            wj["features"] = [{"model": "continental plate", "name": "s%d" % k, "coordinates": [[-180.0 + 30 * k, -60.0], [-150.0 + 30 * k, -60.0], [-150.0 + 30 * k, 60.0], [-180.0 + 30 * k, 60.0]],
                               "max depth": 7e5, "temperature models": [{"model": "uniform", "temperature": 300.0 + 25.0 * k}],
                               "composition models": [{"model": "uniform", "compositions": [k % 4]}]} for k in range(12)] + wj["features"]
        else:
            wj, sph = area_world(rng, cross=has_cross) if modelled else any_world(rng, cross=has_cross)
        aimed = has_cross and wi % 5 == 1
        if aimed:
            # a section exactly along an axis, in the negative direction for half of them, through a layer that moves:
            # the in-section velocity is the projection on the direction of the section, sign included
            a, b = wj["cross section"]
            if wi % 10 == 1:
                b = [a[0] - abs(b[0] - a[0]) - (1.0 if sph else 1e4), a[1]]
            else:
                b = [a[0], a[1] - abs(b[1] - a[1]) - (1.0 if sph else 1e4)]
            if sph:
                b = [max(-359.0, b[0]), max(-85.0, b[1])]
            wj["cross section"] = [a, b]
            big = [[-170, -85], [170, -85], [170, 85], [-170, 85]] if sph else [[-5e6, -5e6], [5e6, -5e6], [5e6, 5e6], [-5e6, 5e6]]
            wj["features"].insert(0, {"model": "mantle layer", "name": "flow", "coordinates": big,
                                      "velocity models": [{"model": "uniform raw", "velocity": [0.031, -0.052, 0.017]}]})
        slot = cs.add_world(wj, model=modelled)
        if not has_cross:
            for which in ("p2", "t2", "c2", "g2"):
                if which == "p2":
                    i = cs.p2(slot, (1000.0, 2000.0), 10.0, prop_list(rng))
                else:
                    i = cs.single2(slot, which, (1000.0, 2000.0), 10.0, 0, 1)
                plan.append(("refuse", i))
            continue
        for qi in range(10):
            ps = prop_list(rng)
            if aimed and not any(p[0] == 5 for p in ps):
                ps = ps + [[5, 0, 0]]
            p2, d = query2d(rng, wj, sph)
            p3, dirv = map2d(wj, sph, p2)
            i2 = cs.p2(slot, p2, d, ps)
            i3 = cs.p3(slot, p3, d, ps)
            plan.append(("eq", i2, i3, ps, dirv, sph))
    # (2) sibling worlds that differ only in their cross section, asked at bit-identical 2-D points one directly after the
    # other: each must map the point with its own section (nothing about the mapping may be remembered across worlds)
    import copy as _copy
    for wi in range(6 if chk.tier == "quick" else 40):
        rng.seed("%d/c09-2/%d" % (chk.seed, wi))
        wj, sph = area_world(rng, spherical=(wi % 2 == 1), cross=True)
        a, b = wj["cross section"]
        sh = 3.0 if sph else 2e5
        cl = (lambda v: max(-80.0, min(80.0, v))) if sph else (lambda v: v)
        variants = [[a, b],
                    [a, [a[0] + (b[1] - a[1]), cl(a[1] - (b[0] - a[0]))]],
                    [[a[0] + sh, cl(a[1] - sh)], [b[0] + sh, cl(b[1] - sh)]]]
        sibs = []
        for v in variants:
            w = _copy.deepcopy(wj)
            w["cross section"] = v
            sibs.append((w, cs.add_world(w, model=True)))
        for qi in range(10):
            ps = prop_list(rng)
            p2, d = query2d(rng, wj, sph)
            i2s = [cs.p2(slot, p2, d, ps) for (_w, slot) in sibs]
            for (w, slot), i2 in zip(sibs, i2s):
                p3, dirv = map2d(w, sph, p2)
                i3 = cs.p3(slot, p3, d, ps)
                plan.append(("eq", i2, i3, ps, dirv, sph))
    impl, model = cs.run()
    chk.evaluations = len(impl)
    bad = [i for i in chk.correspond(impl, model, cs, max_ulp=0) if model[i] != "skip"]
    viol = []
    for pl in plan:
        if pl[0] == "refuse":
            chk.count("2-D entry points on worlds without cross section")
            if not impl[pl[1]].startswith("throw"):
                viol.append(("2-D query on a world without cross section is not refused", pl[1]))
            continue
        _, i2, i3, ps, (dx, dy), sph = pl
        a2, a3 = common.parse_vec(impl[i2]), common.parse_vec(impl[i3])
        if a2 is None or a3 is None:
            if (a2 is None) != (a3 is None):
                viol.append(("2-D and 3-D interface disagree on throwing", i2))
            continue
        offs, total = offsets(ps)
        if len(a2) != total or len(a3) != total:
            viol.append(("wrong answer length", i2))
            continue
        exp = list(a3)
        tagged = False
        for j, p in enumerate(ps):
            o = offs[j]
            if p[0] == 5:
                exp[o:o + 3] = [dx * a3[o] + dy * a3[o + 1], a3[o + 2], 0.0]
            if p[0] == 4 and a3[o] >= 0:
                tagged = True
        if tagged:
            chk.nontriv(cs.probe[i2])
        if any(x != y and not (x != x and y != y) for x, y in zip(a2, exp)):
            viol.append(("2-D answer differs from the 3-D answer at the section point", i2))
    for pl in plan[:40]:
        if pl[0] == "eq":
            chk.sample({"2d": cs.probe[pl[1]], "3d": cs.probe[pl[2]], "answer2d": impl[pl[1]][:120]}, cap=3)
    for what, idx in viol[:5]:
        dsc = cs.describe(idx)
        dsc["impl"] = impl[idx]
        dsc["preceding_probe_lines"] = cs.probe[max(0, idx - 3):idx]
        chk.violation(what, dsc)
    if bad and not viol:
        for i in bad[:3]:
            dsc = cs.describe(i)
            dsc["impl"], dsc["model"] = impl[i], model[i]
            chk.violation("correspondence World.v <-> World::properties (2-D) broken", dsc, found_input=False)
    cs.cleanup()
