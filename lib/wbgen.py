# World files for the correspondence check: random generation of World Builder input (JSON) and
# the elaboration of the same JSON object into a term of the extracted Coq model (OCaml source).
# The elaboration mirrors parse_entries of the C++ (defaults, degree->radian conversion, tag table,
# parse-time sentinels); triangulations and kd-trees of depth surfaces are taken from the
# implementation as data (wbprobe `surfaces`).
import json
import math
import math
import random

from common import ml, fhex

DMAX = 1.7976931348623157e308
PI = math.pi

OPS = {"replace": "OReplace", "add": "OAdd", "subtract": "OSubtract", "replace defined only": "OReplaceDefinedOnly"}


def nlit(i):
    return "(n_of_int %d)" % i


def natlit(i):
    return "(nat_of_int %d)" % i


def mlist(xs):
    return "[" + "; ".join(xs) + "]"


def mpt(p):
    return "(%s, %s)" % (ml(p[0]), ml(p[1]))


def mvec3(p):
    return "((%s, %s), %s)" % (ml(p[0]), ml(p[1]), ml(p[2]))


def rnd(rng, a, b, digits=3):
    return round(rng.uniform(a, b), digits)


LITHOLOGY = {"peridotite": "Peridotite", "gabbro": "Gabbro", "MORB": "MORB", "sediment": "Sediment"}


def orientation_terms(m, key_m, key_e):
    """OCaml terms (lists of 9 numbers, row-major) for the orientations of a grains model given as rotation matrices or as
    z-x-z Euler angles in degrees (converted by the model's euler_matrix, as the implementation converts them while parsing)"""
    if key_m in m:
        return [mlist([ml(x) for row in mat for x in row]) for mat in m[key_m]]
    if key_e in m:
        return ["(euler_matrix n %s %s %s)" % (ml(a[0]), ml(a[1]), ml(a[2])) for a in m[key_e]]
    return None


def spreading_values(sv, ridges):
    """the spreading velocity at every ridge coordinate the way parse_entries assigns it: a number (or a list with one number in
    all) for every point, otherwise the numbers of the list in document order, one per ridge coordinate; None when the list
    does not have exactly one number per coordinate (the implementation rejects it)"""
    if isinstance(sv, (int, float)):
        return [[float(sv) for _ in ridge] for ridge in ridges]
    flat = []
    for e in sv:
        if isinstance(e, list) and len(e) == 2 and isinstance(e[1], list):
            for row in e[1]:
                flat.extend(float(x) for x in row)
    n = sum(len(r) for r in ridges)
    if len(flat) == 1:
        return [[flat[0] for _ in ridge] for ridge in ridges]
    if len(flat) != n:
        return None
    out, k = [], 0
    for ridge in ridges:
        out.append(flat[k:k + len(ridge)])
        k += len(ridge)
    return out


def spreading_term(sv, ridges):
    """the same table as an OCaml term that lets the *model* (Validate.group_velocities, the constructor's loop) hand every
    ridge coordinate its velocity from the flat list of listed values; None when the implementation rejects the list"""
    if spreading_values(sv, ridges) is None:
        return None
    if isinstance(sv, (int, float)):
        flat = [float(sv)]
    else:
        flat = [float(x) for e in sv if isinstance(e, list) and len(e) == 2 and isinstance(e[1], list) for row in e[1] for x in row]
    return "(group_velocities %s %s %s (nat_of_int 0) 0.0)" % (
        mlist(["(nat_of_int %d)" % len(r) for r in ridges]), "true" if len(flat) == 1 else "false", mlist([ml(v) for v in flat]))


class Elab:
    """JSON world -> OCaml term `float world` (and bookkeeping the checks need)"""

    def __init__(self, wj, surfaces=None):
        self.wj = wj
        self.spherical = wj.get("coordinate system", {}).get("model", "cartesian") == "spherical"
        self.radius = wj.get("coordinate system", {}).get("radius", 6371000.0)
        self.tags = []
        self.surfaces = surfaces or {}
        self.Tp = float(wj.get("potential mantle temperature", 1600))
        self.Ts = float(wj.get("surface temperature", 293.15))
        self.alpha = float(wj.get("thermal expansion coefficient", 3.5e-5))
        self.cp = float(wj.get("specific heat", 1250))
        self.kappa = float(wj.get("thermal diffusivity", 0.804e-6))
        self.force = bool(wj.get("force surface temperature", False))
        self.gravity = float(wj.get("gravity model", {}).get("magnitude", 9.81))
        self.unsupported = None
        self.uses_random = False
        self.has_lines = False
        self.line_terms = {}

    # -- helpers -------------------------------------------------------------------------
    def tag_index(self, tag):
        if tag in self.tags:
            return self.tags.index(tag)
        self.tags.append(tag)
        return len(self.tags) - 1

    def coords(self, cs):
        if self.spherical:
            # Point::operator/ multiplies by 1/scalar:  p * PI / 180.0  ==  (p * PI) * (1/180.0)
            return [((c[0] * PI) * (1 / 180.0), (c[1] * PI) * (1 / 180.0)) for c in cs]
        return [(float(c[0]), float(c[1])) for c in cs]

    def dsurf(self, v, default, key=None):
        """a 'min depth'/'max depth' entry: a number, absent, or values at points (data from the impl)"""
        if v is None:
            v = default
        if isinstance(v, (int, float)):
            return "{ds_const=true; ds_min=%s; ds_max=%s; ds_tris=[]; ds_nodes=[]}" % (ml(v), ml(v))
        s = self.surfaces.get(key.replace(" ", "_"))
        if s is None:
            self.unsupported = "surface data missing for " + str(key)
            return "{ds_const=true; ds_min=0.0; ds_max=0.0; ds_tris=[]; ds_nodes=[]}"
        tris = mlist(["((%s, %s), %s)" % (mvec3(t[0]), mvec3(t[1]), mvec3(t[2])) for t in s["tris"]])
        nodes = mlist(["{kd_index=%s; kd_x=%s; kd_y=%s}" % (natlit(nd[0]), ml(nd[1]), ml(nd[2])) for nd in s["nodes"]])
        return "{ds_const=%s; ds_min=%s; ds_max=%s; ds_tris=%s; ds_nodes=%s}" % (
            "true" if s["const"] else "false", ml(s["min"]), ml(s["max"]), tris, nodes)

    def op(self, m):
        return OPS[m.get("operation", "replace")]

    def globals_ml(self):
        return "{g_Tp=%s; g_alpha=%s; g_cp=%s; g_kappa=%s; g_Ts=%s}" % (
            ml(self.Tp), ml(self.alpha), ml(self.cp), ml(self.kappa), ml(self.Ts))

    # -- models of area features ------------------------------------------------------------
    def temp_model(self, m, key):
        mn = self.dsurf(m.get("min depth"), 0.0, key + "/min depth")
        mx = self.dsurf(m.get("max depth"), DMAX, key + "/max depth")
        o = self.op(m)
        k = m["model"]
        if k == "uniform":
            return "TUniform (%s, %s, %s, %s)" % (mn, mx, o, ml(m.get("temperature", 293.15)))
        if k == "linear":
            return "TLinear (%s, %s, %s, %s, %s)" % (mn, mx, o, ml(m.get("top temperature", 293.15)), ml(m.get("bottom temperature", -1)))
        if k == "adiabatic":
            tp = m.get("potential mantle temperature", -1)
            al = m.get("thermal expansion coefficient", -1)
            cp = m.get("specific heat", -1)
            tp = self.Tp if tp < 0 else tp
            al = self.alpha if al < 0 else al
            cp = self.cp if cp < 0 else cp
            return "TAdiabatic (%s, %s, %s, %s, %s, %s)" % (mn, mx, o, ml(tp), ml(al), ml(cp))
        if k == "chapman":
            return "TChapman (%s, %s, %s, %s, %s, %s, %s)" % (
                mn, mx, o, ml(m.get("thermal conductivity", 2.5)), ml(m.get("heat generation per unit volume", 1.e-6)),
                ml(m.get("top heat flux", 0.055)), ml(m.get("top temperature", 293.15)))
        if k in ("half space model", "plate model") and spreading_values(m.get("spreading velocity", 0.05), m["ridge coordinates"]) is not None:
            dtr = PI / 180.0 if self.spherical else 1.0
            ridges = [[(p[0] * dtr, p[1] * dtr) for p in ridge] for ridge in m["ridge coordinates"]]
            svs = spreading_values(m.get("spreading velocity", 0.05), m["ridge coordinates"])
            return "%s (%s, %s, %s, %s, %s, %s, %s)" % (
                "THalfSpace" if k == "half space model" else "TPlateModel", mn, mx, o,
                ml(m.get("top temperature", 293.15)), ml(m.get("bottom temperature", -1)),
                mlist([mlist([mpt(p) for p in ridge]) for ridge in ridges]),
                spreading_term(m.get("spreading velocity", 0.05), m["ridge coordinates"]))
        if k == "plate model constant age":
            return "TPlateConstAge (%s, %s, %s, %s, %s, %s)" % (
                mn, mx, o, ml(m.get("top temperature", 293.15)), ml(m.get("bottom temperature", -1)), ml(m.get("plate age", 80e3) * 31557600))
        self.unsupported = "temperature model " + k
        return "TUniform (%s, %s, OReplace, 0.0)" % (mn, mx)

    def comp_model(self, m, key):
        mn = self.dsurf(m.get("min depth"), 0.0, key + "/min depth")
        mx = self.dsurf(m.get("max depth"), DMAX, key + "/max depth")
        if m["model"] == "uniform":
            comps = m["compositions"]
            fr = m.get("fractions", [1.0] * len(comps))
            return "CUniform (%s, %s, %s, %s, %s)" % (mn, mx, self.op(m), mlist([nlit(c) for c in comps]), mlist([ml(f) for f in fr]))
        if m["model"] == "random":
            self.uses_random = True
            return "CRandom (%s, %s, %s, %s, %s, %s)" % (mn, mx, self.op(m), mlist([nlit(c) for c in m["compositions"]]),
                                                       mlist([ml(x) for x in m.get("min value", [0.0])]), mlist([ml(x) for x in m.get("max value", [1.0])]))
        if m["model"] == "tian water content":
            return "CTian (%s, %s, %s, %s, %s, %s, %s, %s)" % (mn, mx, self.op(m), mlist([nlit(c) for c in m["compositions"]]), LITHOLOGY[m.get("lithology", "peridotite")],
                                                            ml(m.get("density", 3000.0)), ml(m.get("initial water content", 5)), ml(m.get("cutoff pressure", 10)))
        self.unsupported = "composition model " + m["model"]
        return "CUniform (%s, %s, OReplace, [], [])" % (mn, mx)

    def vel_model(self, m, key):
        mn = self.dsurf(m.get("min depth"), 0.0, key + "/min depth")
        mx = self.dsurf(m.get("max depth"), DMAX, key + "/max depth")
        if m["model"] == "uniform raw":
            v = m["velocity"]
            return "VUniformRaw (%s, %s, %s, %s)" % (mn, mx, self.op(m), mvec3(v))
        self.unsupported = "velocity model " + m["model"]
        return "VUniformRaw (%s, %s, OReplace, ((0.0,0.0),0.0))" % (mn, mx)

    def grains_model(self, m, key):
        mn = self.dsurf(m.get("min depth"), 0.0, key + "/min depth")
        mx = self.dsurf(m.get("max depth"), DMAX, key + "/max depth")
        if m["model"] == "uniform" and orientation_terms(m, "rotation matrices", "Euler angles z-x-z") is not None:
            return "GUniform (%s, %s, %s, %s, %s)" % (
                mn, mx, mlist([nlit(c) for c in m["compositions"]]),
                mlist(orientation_terms(m, "rotation matrices", "Euler angles z-x-z")),
                mlist([ml(s) for s in m["grain sizes"]]))
        if m["model"] in ("random uniform distribution", "random uniform distribution deflected") and \
                (orientation_terms(m, "basis rotation matrices", "basis Euler angles z-x-z") is not None or m["model"] == "random uniform distribution"):
            self.uses_random = True
            comps = m["compositions"]
            defl = "None"
            if m["model"].endswith("deflected"):
                defl = "Some (%s, %s)" % (mlist([ml(x) for x in m["deflections"]]), mlist(orientation_terms(m, "basis rotation matrices", "basis Euler angles z-x-z")))
            return "GRandom (%s, %s, %s, %s, %s, %s)" % (
                mn, mx, mlist([nlit(c) for c in comps]), mlist([ml(x) for x in m["grain sizes"]]),
                mlist(["true" if b else "false" for b in m["normalize grain sizes"]]), defl)
        self.unsupported = "grains model " + m["model"]
        return "GUniform (%s, %s, [], [], [])" % (mn, mx)

    # -- features ---------------------------------------------------------------------------
    def area_feature(self, f, idx):
        kind = {"continental plate": "Continental", "oceanic plate": "Oceanic", "mantle layer": "MantleLayer"}[f["model"]]
        tag = f.get("tag", "") or f["model"]
        ti = self.tag_index(tag)
        key = "features/%d" % idx
        fields = [
            "af_kind=" + kind,
            "af_coords=" + mlist([mpt(c) for c in self.coords(f["coordinates"])]),
            "af_min=" + self.dsurf(f.get("min depth"), 0.0, key + "/min depth"),
            "af_max=" + self.dsurf(f.get("max depth"), DMAX, key + "/max depth"),
            "af_temp=" + mlist([self.temp_model(m, key + "/temperature models/%d" % i) for i, m in enumerate(f.get("temperature models", []))]),
            "af_comp=" + mlist([self.comp_model(m, key + "/composition models/%d" % i) for i, m in enumerate(f.get("composition models", []))]),
            "af_grains=" + mlist([self.grains_model(m, key + "/grains models/%d" % i) for i, m in enumerate(f.get("grains models", []))]),
            "af_vel=" + mlist([self.vel_model(m, key + "/velocity models/%d" % i) for i, m in enumerate(f.get("velocity models", []))]),
            "af_tag=" + ml(float(ti)),
        ]
        return "area_to_feature n g tape %s {%s}" % ("true" if self.spherical else "false", "; ".join(fields))

    def const_surf(self, v):
        return "{ds_const=true; ds_min=%s; ds_max=%s; ds_tris=[]; ds_nodes=[]}" % (ml(v), ml(v))

    def plume_feature(self, f, idx):
        tag = f.get("tag", "") or "plume"
        ti = self.tag_index(tag)
        key = "features/%d" % idx
        n = len(f["coordinates"])
        rot = [PI / 2. - a * PI / 180. for a in f.get("rotation angles", [])]
        axes = [float(a) for a in f.get("semi-major axis", [])]
        if self.spherical:
            axes = [a * (PI / 180.) for a in axes]
        temps = []
        for m in f.get("temperature models", []):
            o = self.op(m)
            if m["model"] == "uniform":
                temps.append("PTUniform (%s, %s, %s, %s)" % (ml(m.get("min depth", 0.0)), ml(m.get("max depth", DMAX)), o, ml(m.get("temperature", 293.15))))
            elif m["model"] == "gaussian":
                temps.append("PTGaussian (%s, %s, %s, %s)" % (o, mlist([ml(x) for x in m.get("depths", [])]),
                                                            mlist([ml(x) for x in m["centerline temperatures"]]),
                                                            mlist([ml(x) for x in m.get("gaussian sigmas", [])])))
            else:
                self.unsupported = "plume temperature model " + m["model"]
        fields = [
            "pl_coords=" + mlist([mpt(c) for c in self.coords(f["coordinates"])]),
            "pl_min=" + ml(f.get("min depth", 0.0)), "pl_max=" + ml(f.get("max depth", DMAX)),
            "pl_depths=" + mlist([ml(x) for x in f.get("cross section depths", [])]),
            "pl_axes=" + mlist([ml(x) for x in axes]),
            "pl_ecc=" + mlist([ml(x) for x in f.get("eccentricity", [])]),
            "pl_rot=" + mlist([ml(x) for x in rot]),
            "pl_temp=" + mlist(temps),
            "pl_comp=" + mlist([self.comp_model(m, key + "/composition models/%d" % i) for i, m in enumerate(f.get("composition models", []))]),
            "pl_grains=" + mlist([self.grains_model(m, key + "/grains models/%d" % i) for i, m in enumerate(f.get("grains models", []))]),
            "pl_vel=" + mlist([self.vel_model(m, key + "/velocity models/%d" % i) for i, m in enumerate(f.get("velocity models", []))]),
            "pl_tag=" + ml(float(ti)),
        ]
        return "plume_to_feature n g tape %s {%s}" % ("true" if self.spherical else "false", "; ".join(fields))

    # -- slabs and faults (Cartesian worlds; SlabFeature.v) -------------------------------------
    def line_models(self, d, fault):
        """the four optional model lists of a feature / section entry / segment as `mkind -> mlist_ option`"""
        kmin, kmax = ("min distance fault center", "max distance fault center") if fault else ("min distance slab top", "max distance slab top")
        arms = []
        if "temperature models" in d:
            ts = []
            for m in d["temperature models"]:
                mn, mx, o = ml(m.get(kmin, 0.0)), ml(m.get(kmax, DMAX)), self.op(m)
                k = m["model"]
                if k == "uniform":
                    ts.append("STUniform (%s, %s, %s, %s)" % (mn, mx, o, ml(m.get("temperature", 293.15))))
                elif k == "linear":
                    a, b = ("center temperature", "side temperature") if fault else ("top temperature", "bottom temperature")
                    ts.append("STLinear (%s, %s, %s, %s, %s)" % (mn, mx, o, ml(m.get(a, 293.15)), ml(m.get(b, -1))))
                elif k == "adiabatic":
                    Tp, al, cp = m.get("potential mantle temperature", -1), m.get("thermal expansion coefficient", -1), m.get("specific heat", -1)
                    ts.append("STAdiabatic (%s, %s, %s, %s, %s, %s)" % (mn, mx, o, ml(self.Tp if Tp < 0 else Tp), ml(self.alpha if al < 0 else al), ml(self.cp if cp < 0 else cp)))
                elif k == "mass conserving" and not fault and spreading_values(m.get("spreading velocity", 0.05), m["ridge coordinates"]) is not None \
                        and isinstance(m.get("subducting velocity", 0.05), (int, float)):
                    dtr = PI / 180.0 if self.spherical else 1.0
                    ridges = [[(p[0] * dtr, p[1] * dtr) for p in ridge] for ridge in m["ridge coordinates"]]
                    svs = spreading_values(m.get("spreading velocity", 0.05), m["ridge coordinates"])
                    al, cp, kp = m.get("thermal expansion coefficient", -1), m.get("specific heat", -1), m.get("thermal diffusivity", -1)
                    Tp = self.Tp if self.Tp >= 0 else m.get("potential mantle temperature", -1)
                    ts.append("STMass {mc_min=%s; mc_max=%s; mc_op=%s; mc_density=%s; mc_conductivity=%s; mc_coupling=%s; mc_forearc=%s; mc_taper=%s; "
                              "mc_alpha=%s; mc_cp=%s; mc_kappa=%s; mc_adiabatic=%s; mc_Tp=%s; mc_Ts=%s; mc_ridges=%s; mc_vels=%s; mc_sub=%s; mc_plate_reference=%s; mc_spline=%s}" % (
                                  mn, mx, o, ml(m.get("density", 3300)), ml(m.get("thermal conductivity", 3.3)), ml(m.get("coupling depth", 100e3)),
                                  ml(m.get("forearc cooling factor", 1.0)), ml(m.get("taper distance", 100e3)),
                                  ml(self.alpha if al < 0 else al), ml(self.cp if cp < 0 else cp), ml(self.kappa if kp < 0 else kp),
                                  "true" if m.get("adiabatic heating", True) else "false", ml(Tp), ml(self.Ts),
                                  mlist([mlist([mpt(p) for p in ridge]) for ridge in ridges]), spreading_term(m.get("spreading velocity", 0.05), m["ridge coordinates"]),
                                  ml(m.get("subducting velocity", 0.05)), "true" if m.get("reference model name", "half space model") == "plate model" else "false",
                                  ("Some (%s)" % natlit(int(m.get("number of points in spline", 5)))) if m.get("apply spline", False) else "None"))
                elif k == "plate model" and not fault:
                    al, cp = m.get("thermal expansion coefficient", -1), m.get("specific heat", -1)
                    Tp = self.Tp if self.Tp >= 0 else m.get("potential mantle temperature", -1)
                    ts.append("STPlate (%s, %s, %s, %s, %s, %s, %s, %s, %s, %s)" % (
                        mn, mx, o, ml(m.get("density", 3300)), ml(m["plate velocity"]), ml(m.get("thermal conductivity", 2.0)),
                        ml(self.alpha if al < 0 else al), ml(self.cp if cp < 0 else cp), "true" if m.get("adiabatic heating", True) else "false", ml(Tp)))
                else:
                    self.unsupported = "slab/fault temperature model " + k
            arms.append("KTemp -> Some (MTemp %s)" % mlist(ts))
        if "composition models" in d:
            cs = []
            for m in d["composition models"]:
                o = self.op(m)
                comps = mlist([nlit(c) for c in m["compositions"]])
                if m["model"] == "uniform":
                    fr = m.get("fractions", [1.0])
                    cs.append("SCUniform (%s, %s, %s, %s, %s)" % (ml(m.get(kmin, 0.0)), ml(m.get(kmax, DMAX)), o, comps, mlist([ml(x) for x in fr])))
                elif m["model"] == "smooth":
                    if fault:
                        side = m.get("side distance fault center", DMAX)
                        cs.append("SCSmooth (%s, %s, %s, %s, %s, %s, %s)" % (ml(m.get(kmin, 0.0)), ml(0.0), ml(side), o, comps,
                                                                           mlist([ml(x) for x in m.get("center fractions", [1.0])]), mlist([ml(x) for x in m.get("side fractions", [0.0])])))
                    else:
                        mn, mx = float(m.get(kmin, 0.0)), float(m.get(kmax, 0.0))
                        cs.append("SCSmooth (%s, %s, %s, %s, %s, %s, %s)" % (ml(mn), ml(mx), ml(abs(mx - mn)), o, comps,
                                                                           mlist([ml(x) for x in m.get("top fractions", [1.0])]), mlist([ml(x) for x in m.get("bottom fractions", [0.0])])))
                elif m["model"] == "tian water content" and not fault:
                    cs.append("SCTian (%s, %s, %s, %s, %s, %s, %s, %s)" % (ml(m.get(kmin, 0.0)), ml(m.get(kmax, DMAX)), o, comps, LITHOLOGY[m.get("lithology", "peridotite")],
                                                                         ml(m.get("density", 3000.0)), ml(m.get("initial water content", 5)), ml(m.get("cutoff pressure", 10))))
                else:
                    self.unsupported = "slab/fault composition model " + m["model"]
            arms.append("KComp -> Some (MComp %s)" % mlist(cs))
        if "grains models" in d:
            gs = []
            for m in d["grains models"]:
                mn, mx = ml(m.get(kmin, 0.0)), ml(m.get(kmax, DMAX))
                comps = mlist([nlit(c) for c in m["compositions"]])
                if m["model"] == "uniform" and orientation_terms(m, "rotation matrices", "Euler angles z-x-z") is not None:
                    gs.append("SGUniform (%s, %s, %s, %s, %s)" % (mn, mx, comps, mlist(orientation_terms(m, "rotation matrices", "Euler angles z-x-z")),
                                                                mlist([ml(x) for x in m["grain sizes"]])))
                elif m["model"] in ("random uniform distribution", "random uniform distribution deflected") and \
                        (orientation_terms(m, "basis rotation matrices", "basis Euler angles z-x-z") is not None or m["model"] == "random uniform distribution"):
                    self.uses_random = True
                    defl = "None"
                    if m["model"].endswith("deflected"):
                        defl = "Some (%s, %s)" % (mlist([ml(x) for x in m["deflections"]]), mlist(orientation_terms(m, "basis rotation matrices", "basis Euler angles z-x-z")))
                    gs.append("SGRandom (%s, %s, %s, %s, %s, %s)" % (mn, mx, comps, mlist([ml(x) for x in m["grain sizes"]]),
                                                                   mlist(["true" if b else "false" for b in m["normalize grain sizes"]]), defl))
                else:
                    self.unsupported = "slab/fault grains model " + m["model"]
            arms.append("KGrains -> Some (MGrains %s)" % mlist(gs))
        if "velocity models" in d:
            vs = []
            for m in d["velocity models"]:
                if m["model"] != "uniform raw":
                    self.unsupported = "slab/fault velocity model " + m["model"]
                    continue
                v = m.get("velocity", [0.0, 0.0, 0.0])
                vs.append("SVUniformRaw (%s, %s, %s, ((%s, %s), %s))" % (ml(m.get(kmin, 0.0)), ml(m.get(kmax, DMAX)), self.op(m), ml(v[0]), ml(v[1]), ml(v[2])))
            arms.append("KVel -> Some (MVel %s)" % mlist(vs))
        return "(fun k -> match k with %s | _ -> None)" % " | ".join(arms) if arms else "(fun _ -> None)"

    def line_segment(self, sg, fault):
        a = sg["angle"]
        th = sg["thickness"]
        tr = sg.get("top truncation", [0.0])
        geo = "{sg_top=%s; sg_bot=%s; sg_len=%s; sg_th0=%s; sg_th1=%s; sg_tr0=%s; sg_tr1=%s}" % (
            ml(a[0] * (PI / 180)), ml(a[-1] * (PI / 180)), ml(sg["length"]), ml(th[0]), ml(th[-1]), ml(tr[0]), ml(tr[-1]))
        return "{sg_geom=%s; sg_models=%s}" % (geo, self.line_models(sg, fault))

    def line_feature(self, f, idx):
        fault = f["model"] == "fault"
        tag = f.get("tag", "") or f["model"]
        ti = self.tag_index(tag)
        self.has_lines = True
        secs = mlist(["{se_coord=%s; se_segments=%s; se_models=%s}" % (natlit(sc["coordinate"]), mlist([self.line_segment(sg, fault) for sg in sc["segments"]]),
                                                                       self.line_models(sc, fault)) for sc in f.get("sections", [])])
        layout = "{ly_n=%s; ly_models=%s; ly_default=%s; ly_sections=%s}" % (
            natlit(len(f["coordinates"])), self.line_models(f, fault), mlist([self.line_segment(sg, fault) for sg in f["segments"]]), secs)
        if self.spherical:
            dmn = {"starting point": "DMStartingPoint", "begin segment": "DMBeginSegment", "begin at end segment": "DMBeginAtEndSegment"}.get(
                self.wj.get("coordinate system", {}).get("depth method"))
            if dmn is None:
                self.unsupported = "spherical depth method"
                dmn = "DMNone"
            # the dip point is converted with  p *= (PI/180.)  (the coordinates with  p * PI / 180.0)
            dip = (float(f["dip point"][0]) * (PI / 180.), float(f["dip point"][1]) * (PI / 180.))
            lt = "(line_of_layout_gen %s true %s %s %s %s %s %s %s)" % (
                "true" if fault else "false", dmn, mlist([mpt(c) for c in self.coords(f["coordinates"])]), mpt(dip),
                ml(f.get("min depth", 0.0)), ml(f.get("max depth", DMAX)), layout, ml(float(ti)))
        else:
            lt = "(line_of_layout %s %s %s %s %s %s %s)" % (
                "true" if fault else "false", mlist([mpt(c) for c in self.coords(f["coordinates"])]), mpt((float(f["dip point"][0]), float(f["dip point"][1]))),
                ml(f.get("min depth", 0.0)), ml(f.get("max depth", DMAX)), layout, ml(float(ti)))
        self.line_terms[f.get("name", str(idx))] = lt
        return "line_to_feature n g tape " + lt

    def feature(self, f, idx):
        if f["model"] in ("continental plate", "oceanic plate", "mantle layer"):
            return self.area_feature(f, idx)
        if f["model"] == "plume":
            return self.plume_feature(f, idx)
        if f["model"] in ("subducting plate", "fault"):
            return self.line_feature(f, idx)
        # keep the tag table aligned even for features the model does not cover
        self.tag_index(f.get("tag", "") or f["model"])
        self.unsupported = "feature " + f["model"]
        return None

    def world(self):
        """OCaml expression of type float world (uses `n` = Driver.num)"""
        feats = []
        for i, f in enumerate(self.wj.get("features", [])):
            t = self.feature(f, i)
            if t is not None:
                feats.append(t)
        cs = self.wj.get("cross section")
        if cs is None:
            cross = "None"
        else:
            c = [((p[0] * (PI / 180.0)), (p[1] * (PI / 180.0))) for p in cs] if self.spherical else [(float(p[0]), float(p[1])) for p in cs]
            cross = "Some (%s, %s)" % (mpt(c[0]), mpt(c[1]))
        return ("(fun tape -> let g = %s in {w_cs=%s; w_Tp=%s; w_Ts=%s; w_alpha=%s; w_cp=%s; w_force=%s; w_gravity=%s; w_cross=%s; w_features=%s})"
                % (self.globals_ml(), "Spherical" if self.spherical else "Cartesian", ml(self.Tp), ml(self.Ts), ml(self.alpha),
                   ml(self.cp), "true" if self.force else "false", ml(self.gravity), cross, mlist(feats)))


def props_ml(ps):
    out = []
    for p in ps:
        if p[0] == 1:
            out.append("PTemp")
        elif p[0] == 2:
            out.append("PComp %s" % nlit(p[1]))
        elif p[0] == 3:
            out.append("PGrains (%s, %s)" % (nlit(p[1]), nlit(p[2])))
        elif p[0] == 4:
            out.append("PTag")
        elif p[0] == 5:
            out.append("PVel")
        else:
            raise ValueError(p)
    return mlist(out)


def props_tok(ps):
    return "%d " % len(ps) + " ".join("%d %d %d" % tuple(p) for p in ps)


def width(p):
    return {1: 1, 2: 1, 4: 1, 5: 3}.get(p[0], 10 * p[2])


# ---------------------------------------------------------------------------------------------
# generators
# ---------------------------------------------------------------------------------------------
class Gen:
    def __init__(self, rng):
        self.r = rng

    def num(self, a, b, digits=2):
        return rnd(self.r, a, b, digits)

    def polygon(self, cx, cy, rad, n=None, lattice=None):
        """a simple (star-shaped) polygon around (cx,cy); either orientation"""
        r = self.r
        n = n or r.randint(3, 8)
        angs = sorted(r.uniform(0, 2 * PI) for _ in range(n))
        # enforce distinct, spread angles
        angs = [2 * PI * (i + r.uniform(0.1, 0.9)) / n for i in range(n)]
        pts = []
        for a in angs:
            rr = rad * r.uniform(0.4, 1.0)
            x, y = cx + rr * math.cos(a), cy + rr * math.sin(a)
            if lattice:
                x, y = round(x / lattice) * lattice, round(y / lattice) * lattice
            else:
                x, y = round(x, 3), round(y, 3)
            pts.append([x, y])
        # drop consecutive duplicates (possible on a lattice)
        q = []
        for p in pts:
            if not q or q[-1] != p:
                q.append(p)
        if len(q) > 1 and q[0] == q[-1]:
            q.pop()
        if len(q) < 3:
            return self.polygon(cx, cy, rad, n, None)
        if r.random() < 0.5:
            q.reverse()
        return q

    def rect(self, x0, y0, x1, y1):
        return [[x0, y0], [x1, y0], [x1, y1], [x0, y1]]

    def interior_point(self, poly):
        r = self.r
        cx = sum(c[0] for c in poly) / len(poly)
        cy = sum(c[1] for c in poly) / len(poly)
        v = r.choice(poly)
        t = r.uniform(0.05, 0.8)
        return [round(cx + t * (v[0] - cx), 3), round(cy + t * (v[1] - cy), 3)]

    def depth_values(self, poly, lo, hi, p_array=1.0):
        """a depth given as values at points: [[v]] / [[v],[w,[pts]],...] / [[w,[pts]],...]"""
        r = self.r
        if r.random() > p_array:
            return self.num(lo, hi, 0)
        u = r.random()
        if u < 0.1:
            return [[self.num(lo, hi, 0)]]
        entries = []
        if u < 0.7:
            entries.append([self.num(lo, hi, 0)])
        for _ in range(r.randint(1, 3)):
            pts = []
            for _k in range(r.randint(1, 3)):
                w = r.random()
                if w < 0.3:
                    pts.append(list(r.choice(poly)))             # a polygon corner
                else:
                    pts.append(self.interior_point(poly))
            entries.append([self.num(lo, hi, 0), pts])
        if r.random() < 0.3:
            entries.append([self.num(lo, hi, 0)])                # a value without points after listed points
        return entries

    def op(self, comp=False):
        return self.r.choice(["replace", "add", "subtract"] + (["replace defined only"] if comp else []))

    def ridges(self, centre, spherical):
        """1-3 mid-oceanic ridges (each a polyline) near the feature, separated by transform faults"""
        r = self.r
        cx, cy = centre
        scale = 10.0 if spherical else 3e5
        n = r.choice([1, 1, 2, 3])
        out = []
        x = cx + r.uniform(-1.5, 1.5) * scale
        y = cy - 2.0 * scale
        for i in range(n):
            npts = r.choice([2, 2, 3])
            pts = []
            for _ in range(npts):
                pts.append([round(x + r.uniform(-0.1, 0.1) * scale, 3), round(y, 3)])
                y += r.uniform(0.8, 2.0) * scale
            out.append(pts)
            x += r.choice([-1, 1]) * r.uniform(0.3, 1.0) * scale      # offset along a transform fault
        return out

    def temp_model(self, kind, dmin, dmax, allow=("uniform", "linear", "adiabatic", "chapman"), centre=None, spherical=False, variable_spreading=0.3):
        r = self.r
        opts = [k for k in allow if k != "chapman" or kind == "continental plate"]
        if kind == "oceanic plate" and centre is not None and "linear" in allow:
            opts = opts + ["half space model", "plate model", "plate model constant age"]
        k = r.choice(opts)
        m = {"model": k}
        if r.random() < 0.5:
            m["operation"] = self.op()
        if r.random() < 0.5:
            m["min depth"] = self.num(dmin - 2e4, dmin + 4e4, 0)
        if r.random() < 0.5 or k == "linear":
            m["max depth"] = self.num(dmax - 4e4, dmax + 2e4, 0)
        if k == "uniform":
            m["temperature"] = self.num(200, 2000, 1)
        elif k == "linear":
            m["top temperature"] = r.choice([self.num(200, 800, 1), -1])
            if r.random() < 0.7:
                m["bottom temperature"] = r.choice([self.num(800, 2000, 1), -1])
        elif k == "adiabatic":
            if r.random() < 0.4:
                m["potential mantle temperature"] = self.num(1200, 1800, 1)
            if r.random() < 0.3:
                m["thermal expansion coefficient"] = self.num(1e-5, 5e-5, 7)
            if r.random() < 0.3:
                m["specific heat"] = self.num(800, 1500, 1)
        elif k in ("half space model", "plate model", "plate model constant age"):
            m["max depth"] = self.num(max(dmin + 2e4, 6e4), max(dmax, 1.2e5), 0)
            m["top temperature"] = self.num(250, 400, 1)
            if r.random() < 0.7:
                m["bottom temperature"] = r.choice([self.num(1400, 1900, 1), -1])
            if k == "plate model constant age":
                m["plate age"] = r.choice([self.num(1e3, 2e8, 0), 80e3])
            else:
                m["spreading velocity"] = self.num(0.005, 0.15, 4)
                m["ridge coordinates"] = self.ridges(centre, spherical)
                if variable_spreading and r.random() < variable_spreading:
                    # one value per ridge coordinate: [[time, [[v, v, ...]]], ...], one entry per ridge
                    m["spreading velocity"] = [[float(i), [[self.num(0.005, 0.15, 4) for _p in ridge]]] for i, ridge in enumerate(m["ridge coordinates"])]
        elif k == "chapman":
            if r.random() < 0.6:
                m["top temperature"] = r.choice([self.num(250, 400, 1), -1])
            if r.random() < 0.5:
                m["top heat flux"] = self.num(0.03, 0.09, 4)
            if r.random() < 0.5:
                m["thermal conductivity"] = self.num(1.5, 4.0, 2)
            if r.random() < 0.5:
                m["heat generation per unit volume"] = self.num(1e-7, 3e-6, 9)
        return m

    def comp_model(self, dmin, dmax, ncomp=4):
        r = self.r
        k = r.randint(1, 2)
        comps = r.sample(range(ncomp), k)
        m = {"model": "uniform", "compositions": comps, "fractions": [self.num(0, 1, 3) for _ in comps]}
        if r.random() < 0.6:
            m["operation"] = self.op(comp=True)
        if r.random() < 0.4:
            m["min depth"] = self.num(dmin - 2e4, dmin + 4e4, 0)
        if r.random() < 0.4:
            m["max depth"] = self.num(dmax - 4e4, dmax + 2e4, 0)
        return m

    def tian_model(self, ncomp=4, slab=False):
        """bound water content after Tian et al. 2019 (oceanic plates and subducting plates)"""
        r = self.r
        lith = r.choice(["peridotite", "gabbro", "MORB", "sediment"])
        m = {"model": "tian water content", "compositions": r.sample(range(ncomp), r.randint(1, 2)), "lithology": lith}
        if r.random() < 0.7:
            m["initial water content"] = r.choice([0.5, 2.0, 5.0, 11.0])
        if r.random() < 0.7:
            m["cutoff pressure"] = {"peridotite": 10.0, "gabbro": 26.0, "MORB": 16.0, "sediment": 1.0}[lith] if r.random() < 0.6 else self.num(0.6, 30, 1)
        if r.random() < 0.5:
            m["density"] = self.num(2700, 3400, 0)
        if r.random() < 0.4:
            m["operation"] = self.op(comp=True)
        if slab and r.random() < 0.4:
            m["max distance slab top"] = self.num(1e4, 8e4, 0)
        return m

    def vel_model(self, dmin, dmax):
        r = self.r
        m = {"model": "uniform raw", "velocity": [self.num(-0.1, 0.1, 4) for _ in range(3)]}
        if r.random() < 0.5:
            m["operation"] = self.op()
        if r.random() < 0.3:
            m["max depth"] = self.num(dmax - 4e4, dmax + 2e4, 0)
        return m

    def grains_model(self, dmin, dmax, ncomp=4):
        r = self.r
        k = r.randint(1, 2)
        comps = r.sample(range(ncomp), k)
        mats = [[[self.num(-1, 1, 3) for _ in range(3)] for _ in range(3)] for _ in comps]
        m = {"model": "uniform", "compositions": comps, "rotation matrices": mats,
             "grain sizes": [r.choice([-1, self.num(0.01, 2, 3)]) for _ in comps]}
        if r.random() < 0.3:
            # the other way of giving the orientations: z-x-z Euler angles in degrees
            del m["rotation matrices"]
            m["Euler angles z-x-z"] = [[self.num(-360, 360, 1), self.num(0, 180, 1), self.num(-360, 360, 1)] for _ in comps]
        if r.random() < 0.3:
            m["max depth"] = self.num(dmax - 4e4, dmax + 2e4, 0)
        return m

    def random_grains_model(self, dmin, dmax, ncomp=4, kinds=("random uniform distribution", "random uniform distribution deflected")):
        r = self.r
        k = r.randint(1, 2)
        comps = r.sample(range(ncomp), k)
        kind = r.choice(kinds)
        m = {"model": kind, "compositions": comps,
             "grain sizes": [r.choice([-1, self.num(0.01, 2, 3)]) for _ in comps],
             "normalize grain sizes": [r.random() < 0.5 for _ in comps]}
        if kind.endswith("deflected"):
            m["deflections"] = [r.choice([1.0, 0.0, 0.001, 0.01, self.num(0, 1, 3)]) for _ in comps]
            mats = []
            for _ in comps:
                a, b, c = [r.uniform(0, 2 * PI) for _ in range(3)]
                ca, sa, cb, sb, cc, sc = math.cos(a), math.sin(a), math.cos(b), math.sin(b), math.cos(c), math.sin(c)
                R = [[ca * cc - cb * sa * sc, -ca * sc - cb * cc * sa, sa * sb],
                     [cc * sa + ca * cb * sc, ca * cb * cc - sa * sc, -ca * sb],
                     [sb * sc, cc * sb, cb]]
                mats.append([[round(x, 9) for x in row] for row in R])
            m["basis rotation matrices"] = mats
            if r.random() < 0.25:
                del m["basis rotation matrices"]
                m["basis Euler angles z-x-z"] = [[self.num(-360, 360, 1), self.num(0, 180, 1), self.num(-360, 360, 1)] for _ in comps]
        if r.random() < 0.3:
            m["max depth"] = self.num(dmax - 4e4, dmax + 2e4, 0)
        return m

    def random_comp_model(self, dmin, dmax, ncomp=4):
        r = self.r
        k = r.randint(1, 3)
        comps = r.sample(range(ncomp), k)
        m = {"model": "random", "compositions": comps}
        u = r.random()
        if u < 0.35:
            # one (disjoint) interval per composition, so that the interval actually used is visible in the value
            lo = [round(10.0 * j + self.num(0, 3, 2), 2) for j in range(len(comps))]
            m["min value"] = lo
            m["max value"] = [round(x + self.num(0.1, 3, 2), 2) for x in lo]
        elif u < 0.7:
            lo = self.num(0, 5, 2)
            m["min value"] = [lo]
            m["max value"] = [lo + self.num(0.1, 5, 2)]
        if r.random() < 0.5:
            m["operation"] = self.op(comp=True)
        return m

    def area_feature(self, name, spherical=False, kinds=("continental plate", "oceanic plate", "mantle layer"),
                     centre=None, size=None, temp_allow=("uniform", "linear", "adiabatic", "chapman"), random_models=False, depth_arrays=0.25, water=0.3):
        r = self.r
        kind = r.choice(kinds)
        if spherical:
            cx, cy = centre or (self.num(-150, 150, 1), self.num(-60, 60, 1))
            rad = size or self.num(2, 25, 1)
        else:
            cx, cy = centre or (self.num(-5e5, 5e5, 0), self.num(-5e5, 5e5, 0))
            rad = size or self.num(5e4, 6e5, 0)
        f = {"model": kind, "name": name, "coordinates": self.polygon(cx, cy, rad)}
        if r.random() < 0.1:
            f["interpolation"] = r.choice(["global", "continuous monotone spline"])
        if r.random() < 0.3:
            f["tag"] = r.choice(["alpha", "beta", "continental plate", "gamma"])
        dmin = 0.0
        dmax = self.num(5e4, 4e5, 0)
        if r.random() < 0.5:
            dmin = self.num(0, 1e5, 0)
            f["min depth"] = dmin
            dmax = dmin + self.num(2e4, 3e5, 0)
        if r.random() < 0.8:
            f["max depth"] = dmax
        else:
            dmax = 4e5
        if depth_arrays and r.random() < depth_arrays:
            # depths given as values at points (a value for the corners first, so that no corner is left at the DBL_MAX default)
            poly = f["coordinates"]
            if r.random() < 0.7:
                ents = [[dmax]]
                for _ in range(r.randint(1, 3)):
                    ents.append([self.num(dmax * 0.6, dmax * 1.6, 0), [self.interior_point(poly) if r.random() < 0.75 else list(r.choice(poly)) for _k in range(r.randint(1, 2))]])
                f["max depth"] = ents
            if r.random() < 0.4:
                ents = [[dmin]] if r.random() < 0.7 else []
                for _ in range(r.randint(1, 2)):
                    ents.append([self.num(0.0, dmax * 0.5, 0), [self.interior_point(poly) for _k in range(r.randint(1, 2))]])
                f["min depth"] = ents
        f["temperature models"] = [self.temp_model(kind, dmin, dmax, temp_allow, centre=(cx, cy), spherical=spherical) for _ in range(r.choice([0, 1, 1, 2, 3]))]
        f["composition models"] = [self.comp_model(dmin, dmax) for _ in range(r.choice([0, 1, 1, 2, 3]))]
        if kind == "oceanic plate" and water and r.random() < water:
            f["composition models"].insert(r.randint(0, len(f["composition models"])), self.tian_model())
        if r.random() < 0.6:
            f["velocity models"] = [self.vel_model(dmin, dmax) for _ in range(r.choice([1, 1, 2]))]
        if r.random() < 0.6:
            f["grains models"] = [self.grains_model(dmin, dmax) for _ in range(r.choice([1, 1, 2]))]
        if random_models:
            if r.random() < 0.7:
                f.setdefault("grains models", []).append(self.random_grains_model(dmin, dmax))
            if kind == "continental plate" and r.random() < 0.7:
                f["composition models"].append(self.random_comp_model(dmin, dmax))
        return f

    def plume(self, name, spherical=False, centre=None, random_models=False):
        r = self.r
        n = r.randint(1, 5)
        if spherical:
            cx, cy = centre or (self.num(-150, 150, 1), self.num(-60, 60, 1))
            step, amin, amax = 0.5, 0.3, 4.0
        else:
            cx, cy = centre or (self.num(-5e5, 5e5, 0), self.num(-5e5, 5e5, 0))
            step, amin, amax = 3e4, 2e4, 2e5
        dmin = r.choice([0.0, self.num(0, 5e4, 0)])
        d0 = dmin + self.num(1e4, 8e4, 0)
        depths = [d0]
        for _ in range(n - 1):
            depths.append(depths[-1] + self.num(2e4, 1.5e5, 0))
        coords = []
        x, y = cx, cy
        for _ in range(n):
            coords.append([round(x, 3), round(y, 3)])
            x += r.uniform(-step, step)
            y += r.uniform(-step, step)
        f = {"model": "plume", "name": name, "coordinates": coords, "cross section depths": depths,
             "semi-major axis": [self.num(amin, amax, 3) for _ in range(n)],
             "eccentricity": [r.choice([0.0, self.num(0, 0.9, 3)]) for _ in range(n)],
             "rotation angles": [r.choice([0, 350, 10, 180, self.num(0, 360, 1)]) for _ in range(n)]}
        if dmin > 0 or r.random() < 0.5:
            f["min depth"] = dmin
        dmax = depths[-1] + r.choice([0.0, self.num(1e4, 2e5, 0)])
        if r.random() < 0.8:
            f["max depth"] = dmax
        if r.random() < 0.2:
            f["tag"] = r.choice(["alpha", "hot", "plume"])
        temps = []
        for _ in range(r.choice([0, 1, 1, 2])):
            if r.random() < 0.6:
                k = r.randint(1, 4)
                ds = sorted(set(self.num(dmin, dmax, 0) for _ in range(k)))
                m = {"model": "gaussian", "depths": ds,
                     "centerline temperatures": [r.choice([self.num(100, 2000, 1), -1]) for _ in ds],
                     "gaussian sigmas": [self.num(0.1, 0.8, 3) for _ in ds]}
            else:
                m = {"model": "uniform", "temperature": self.num(200, 2000, 1)}
                if r.random() < 0.5:
                    m["min depth"] = self.num(dmin, dmin + 5e4, 0)
                if r.random() < 0.5:
                    m["max depth"] = self.num(dmax - 5e4, dmax + 2e4, 0)
            if r.random() < 0.6:
                m["operation"] = self.op()
            temps.append(m)
        f["temperature models"] = temps
        f["composition models"] = [self.comp_model(dmin, dmax) for _ in range(r.choice([0, 1, 1, 2]))]
        if r.random() < 0.5:
            f["velocity models"] = [self.vel_model(dmin, dmax) for _ in range(r.choice([1, 2]))]
        if r.random() < 0.5:
            f["grains models"] = [self.grains_model(dmin, dmax) for _ in range(r.choice([1, 2]))]
        if random_models and r.random() < 0.8:
            # plumes have the deflected random model only
            f.setdefault("grains models", []).append(self.random_grains_model(dmin, dmax, kinds=("random uniform distribution deflected",)))
        return f

    # ---- line features: subducting plates and faults --------------------------------------------------
    def slab_temp_model(self, kind, allow_mass_conserving=True):
        r = self.r
        fault = kind == "fault"
        key_min, key_max = ("min distance fault center", "max distance fault center") if fault else ("min distance slab top", "max distance slab top")
        opts = ["uniform", "linear", "adiabatic"] + ([] if fault else ["plate model"] + (["mass conserving"] if allow_mass_conserving else []))
        k = r.choice(opts)
        m = {"model": k}
        if r.random() < 0.4:
            m["operation"] = self.op()
        if k == "uniform":
            m["temperature"] = self.num(300, 1800, 1)
            if r.random() < 0.4:
                m[key_max] = self.num(2e4, 1.2e5, 0)
        elif k == "linear":
            m[key_max] = self.num(3e4, 1.5e5, 0)
            if fault:
                m["center temperature"] = r.choice([self.num(300, 900, 1), -1])
                m["side temperature"] = r.choice([self.num(900, 1800, 1), -1])
            else:
                m["top temperature"] = r.choice([self.num(300, 900, 1), -1])
                m["bottom temperature"] = r.choice([self.num(900, 1800, 1), -1])
        elif k == "adiabatic":
            if r.random() < 0.4:
                m["potential mantle temperature"] = self.num(1200, 1800, 1)
        elif k == "plate model":
            m["plate velocity"] = self.num(0.01, 0.1, 3)
            m["density"] = self.num(3000, 3400, 0)
            if r.random() < 0.4:
                m["min distance slab top"] = self.num(5e3, 4e4, 0)
                m["max distance slab top"] = self.num(6e4, 1.5e5, 0)
            if r.random() < 0.5:
                m["thermal conductivity"] = self.num(2, 4, 2)
        elif k == "mass conserving":
            m["spreading velocity"] = self.num(0.02, 0.1, 3)
            m["subducting velocity"] = self.num(0.02, 0.1, 3)
            m["ridge coordinates"] = None      # filled in by the caller (needs the trench position)
            m["coupling depth"] = self.num(6e4, 1.2e5, 0)
            m["taper distance"] = self.num(5e4, 2e5, 0)
            m["min distance slab top"] = -self.num(1e5, 3e5, 0)
            m["max distance slab top"] = self.num(1e5, 2e5, 0)
            if r.random() < 0.5:
                m["reference model name"] = r.choice(["half space model", "plate model"])
            if r.random() < 0.3:
                m["adiabatic heating"] = r.choice([True, False])
            if r.random() < 0.3:
                m["apply spline"] = True
                if r.random() < 0.6:
                    m["number of points in spline"] = r.choice([1, 2, 3, 5, 8])
        return m

    def slab_comp_model(self, kind, ncomp=4):
        r = self.r
        fault = kind == "fault"
        if not fault and r.random() < 0.2:
            return self.tian_model(ncomp, slab=True)
        k = r.choice(["uniform", "uniform", "smooth"])
        n = r.randint(1, 2)
        comps = r.sample(range(ncomp), n)
        m = {"model": k, "compositions": comps}
        if k == "uniform":
            m["fractions"] = [self.num(0, 1, 3) for _ in comps]
            if r.random() < 0.4:
                m["max distance fault center" if fault else "max distance slab top"] = self.num(1e4, 8e4, 0)
        else:
            if fault:
                m["side distance fault center"] = self.num(2e4, 8e4, 0)
                m["center fractions"] = [self.num(0, 1, 3) for _ in comps]
                m["side fractions"] = [self.num(0, 1, 3) for _ in comps]
            else:
                m["max distance slab top"] = self.num(2e4, 8e4, 0)
                m["top fractions"] = [self.num(0, 1, 3) for _ in comps]
                m["bottom fractions"] = [self.num(0, 1, 3) for _ in comps]
        if r.random() < 0.5:
            m["operation"] = self.op(comp=True)
        return m

    def slab_models(self, kind, p=0.7, allow_mass_conserving=True):
        """a dict with some of the four model lists"""
        r = self.r
        out = {}
        if r.random() < p:
            out["temperature models"] = [self.slab_temp_model(kind, allow_mass_conserving) for _ in range(r.choice([1, 1, 2]))]
        if r.random() < p:
            out["composition models"] = [self.slab_comp_model(kind) for _ in range(r.choice([1, 1, 2]))]
        if r.random() < 0.3:
            gm = self.grains_model(0, 1e5) if (r.random() < 0.6 or not getattr(self, "slab_random_grains", False)) else self.random_grains_model(0, 1e5)
            gm.pop("max depth", None)
            out["grains models"] = [gm]
        if r.random() < 0.3:
            vm = {"model": "uniform raw", "velocity": [self.num(-0.1, 0.1, 4) for _ in range(3)]}
            out["velocity models"] = [vm]
        return out

    def segments(self, kind, n=None):
        r = self.r
        n = n or r.choice([1, 1, 2, 3])
        segs = []
        ang = r.choice([self.num(15, 75, 1), 45.0, 90.0, self.num(100, 150, 1)])
        for _ in range(n):
            L = self.num(5e4, 3e5, 0)
            th = self.num(3e4, 1.2e5, 0)
            s = {"length": L, "thickness": [th] if r.random() < 0.6 else [th, self.num(3e4, 1.2e5, 0)]}
            if r.random() < 0.5:
                s["angle"] = [ang]
            elif r.random() < 0.15:
                # a dip pair that is almost, but not exactly, constant (the implementation switches between its line and
                # its arc construction at a difference of 1e-8 rad)
                a2 = round(ang + r.choice([-1, 1]) * r.choice([0.01, 0.05, 0.3]), 2)
                s["angle"] = [ang, a2]
                ang = a2
            else:
                a2 = min(170.0, max(5.0, ang + r.choice([-1, 1]) * self.num(5, 40, 1)))
                s["angle"] = [ang, a2]
                ang = a2
            if kind != "fault" and r.random() < 0.3:
                s["top truncation"] = [self.num(-2e4, 2e4, 0)] if r.random() < 0.5 else [self.num(-2e4, 2e4, 0), self.num(0, 6e4, 0)]
            segs.append(s)
        return segs

    def trench(self, spherical, straight, npts=None):
        r = self.r
        n = 2 if straight else (npts or r.choice([3, 3, 4, 5]))
        if spherical:
            x, y = self.num(-150, 150, 1), self.num(-50, 50, 1)
            step = (3.0, 12.0)
        else:
            x, y = self.num(-5e5, 5e5, 0), self.num(-5e5, 5e5, 0)
            step = (1.5e5, 6e5)
        ang = r.uniform(0, 2 * PI)
        pts = [[x, y]]
        for _ in range(n - 1):
            L = r.uniform(*step)
            x, y = x + L * math.cos(ang), y + L * math.sin(ang)
            pts.append([round(x, 1) if spherical else float(round(x)), round(y, 1) if spherical else float(round(y))])
            ang += math.radians(r.uniform(-50, 50))
        return pts

    def line_feature(self, name, kind=None, spherical=False, straight=None, uniform_sections=None, allow_mass_conserving=True):
        r = self.r
        kind = kind or r.choice(["subducting plate", "fault"])
        straight = (r.random() < 0.5) if straight is None else straight
        coords = self.trench(spherical, straight)
        # dip point: to one side of the trench
        a, b = coords[0], coords[-1]
        mx, my = (a[0] + b[0]) / 2, (a[1] + b[1]) / 2
        dx, dy = b[0] - a[0], b[1] - a[1]
        side = r.choice([-1, 1])
        dip = [round(mx - side * dy, 1), round(my + side * dx, 1)]
        f = {"model": kind, "name": name, "coordinates": coords, "dip point": dip}
        if r.random() < 0.4:
            f["min depth"] = self.num(0, 8e4, 0)
        if r.random() < 0.3:
            f["max depth"] = self.num(3e5, 8e5, 0)
        if r.random() < 0.2:
            f["tag"] = r.choice(["alpha", "slabs", kind])
        nseg = r.choice([1, 1, 2, 3])
        segs = self.segments(kind, nseg)
        # models at feature / segment level
        f.update(self.slab_models(kind, 0.7, allow_mass_conserving))
        for s in segs:
            if r.random() < 0.3:
                s.update(self.slab_models(kind, 0.6, allow_mass_conserving))
        f["segments"] = segs
        uniform_sections = (r.random() < 0.5) if uniform_sections is None else uniform_sections
        if not uniform_sections:
            secs = []
            for ci in r.sample(range(len(coords)), r.randint(1, len(coords))):
                sec = {"coordinate": ci, "segments": self.segments(kind, nseg)}
                if r.random() < 0.4:
                    sec.update(self.slab_models(kind, 0.6, allow_mass_conserving))
                for s in sec["segments"]:
                    if r.random() < 0.2:
                        s.update(self.slab_models(kind, 0.6, allow_mass_conserving))
                secs.append(sec)
            f["sections"] = secs
        # mass conserving needs ridge coordinates: a ridge parallel to the trench on the far side of the dip point
        def fill(ms):
            for m in ms or []:
                if m.get("model") == "mass conserving" and m.get("ridge coordinates") is None:
                    off = 8.0 if spherical else 8e5
                    L = math.hypot(dx, dy) or 1.0
                    nx, ny = -dy / L * side, dx / L * side
                    m["ridge coordinates"] = [[[round(a[0] - nx * off - dx, 1), round(a[1] - ny * off - dy, 1)],
                                               [round(b[0] - nx * off + dx, 1), round(b[1] - ny * off + dy, 1)]]]
                if m.get("model") == "mass conserving" and isinstance(m.get("spreading velocity"), (int, float)) and r.random() < 0.3:
                    # one spreading velocity per ridge coordinate
                    m["spreading velocity"] = [[0.0, [[self.num(0.02, 0.1, 3) for _p in ridge]]] for ridge in m["ridge coordinates"]]
        fill(f.get("temperature models"))
        for s in f["segments"]:
            fill(s.get("temperature models"))
        for sec in f.get("sections", []):
            fill(sec.get("temperature models"))
            for s in sec["segments"]:
                fill(s.get("temperature models"))
        return f

    def globals(self, w):
        r = self.r
        if r.random() < 0.5:
            w["potential mantle temperature"] = self.num(1200, 1900, 1)
        if r.random() < 0.5:
            w["surface temperature"] = self.num(250, 320, 2)
        if r.random() < 0.5:
            w["thermal expansion coefficient"] = self.num(1e-5, 6e-5, 8)
        if r.random() < 0.5:
            w["specific heat"] = self.num(700, 1600, 1)
        if r.random() < 0.3:
            w["thermal diffusivity"] = self.num(5e-7, 2e-6, 10)
        if r.random() < 0.5:
            # the magnitude is a plain double in the schema: zero and negative values are legal documents too
            w["gravity model"] = {"model": "uniform", "magnitude": self.num(1, 15, 3) if r.random() < 0.85 else r.choice([0.0, -self.num(1, 15, 3)])}
        if r.random() < 0.4:
            w["force surface temperature"] = True

    def base_world(self, spherical=None, cross=None):
        r = self.r
        if spherical is None:
            spherical = r.random() < 0.4
        w = {"version": "1.1"}
        if spherical:
            w["coordinate system"] = {"model": "spherical", "depth method": r.choice(["begin segment", "begin segment", "starting point", "begin at end segment"])}
        elif r.random() < 0.3:
            w["coordinate system"] = {"model": "cartesian"}
        if cross is None:
            cross = r.random() < 0.6
        if cross:
            if spherical:
                a = [self.num(-120, 120, 1), self.num(-50, 50, 1)]
                b = [a[0] + r.choice([-1, 1]) * self.num(5, 40, 1), a[1] + self.num(-30, 30, 1)]
            else:
                a = [self.num(-3e5, 3e5, 0), self.num(-3e5, 3e5, 0)]
                b = [a[0] + r.choice([-1, 1]) * self.num(1e4, 5e5, 0), a[1] + self.num(-5e5, 5e5, 0)]
            u = r.random()
            if u < 0.15:
                b = [b[0], a[1]]            # exactly along the first axis, in either direction
            elif u < 0.3:
                b = [a[0], a[1] + r.choice([-1, 1]) * (self.num(5, 30, 1) if spherical else self.num(1e4, 5e5, 0))]      # exactly along the second axis
            elif u < 0.45 and spherical:
                # across the prime meridian: one negative and one positive longitude
                a = [-self.num(1, 30, 1), a[1]]
                b = [self.num(1, 30, 1), b[1]]
                if r.random() < 0.5:
                    a, b = b, a
            w["cross section"] = [a, b]
        if r.random() < 0.2:
            # the only interpolation the library still accepts (the others are rejected while the world is built)
            w["interpolation"] = "continuous monotone spline"
        if r.random() < 0.1:
            w["maximum distance between coordinates"] = self.num(0, 1e5, 0)
        self.globals(w)
        w["features"] = []
        return w, spherical


def write_world(wj, path):
    with open(path, "w") as f:
        json.dump(wj, f, indent=1)


def world_version(repo="/repo"):
    v = open(repo + "/VERSION").read().strip()
    return v


# query point helpers ---------------------------------------------------------------------------
def cart_point(spherical, lonx, laty, depth, radius=6371000.0, top=1000e3):
    """Cartesian query point for natural surface position + depth (see memory: z = height above bottom)"""
    if spherical:
        r = radius - depth
        lon, lat = lonx * PI / 180.0, laty * PI / 180.0
        return (r * math.cos(lat) * math.cos(lon), r * math.cos(lat) * math.sin(lon), r * math.sin(lat))
    return (lonx, laty, top - depth)
