# C10 - segment models are inherited and sections interpolate only between neighbours
import copy
import math
import random

import common
from cases import CaseSet
from qgen import line_query
from wbgen import Gen, PI
from worlds import line_world

ALL = [[1, 0, 0], [2, 0, 0], [2, 1, 0], [2, 2, 0], [2, 3, 0], [3, 0, 1], [4, 0, 0], [5, 0, 0]]
NOGRAINS = [[1, 0, 0], [2, 0, 0], [2, 1, 0], [2, 2, 0], [2, 3, 0], [4, 0, 0], [5, 0, 0]]
KINDS = ("temperature models", "composition models", "grains models", "velocity models")


def explicit_models(wj):
    """every segment that declares no models of a kind gets the models of its section, or else of the feature, written out"""
    w = copy.deepcopy(wj)
    for f in w["features"]:
        if f["model"] not in ("subducting plate", "fault"):
            continue
        for s in f["segments"]:
            for k in KINDS:
                if k not in s and k in f:
                    s[k] = copy.deepcopy(f[k])
        for sec in f.get("sections", []):
            for s in sec["segments"]:
                for k in KINDS:
                    if k not in s:
                        if k in sec:
                            s[k] = copy.deepcopy(sec[k])
                        elif k in f:
                            s[k] = copy.deepcopy(f[k])
    return w


def explicit_sections(wj):
    """every coordinate without a section entry gets one that repeats the default segment list"""
    w = copy.deepcopy(wj)
    for f in w["features"]:
        if f["model"] not in ("subducting plate", "fault"):
            continue
        have = {sec["coordinate"] for sec in f.get("sections", [])}
        secs = f.setdefault("sections", [])
        for i in range(len(f["coordinates"])):
            if i not in have:
                secs.append({"coordinate": i, "segments": copy.deepcopy(f["segments"])})
    return w


def run(chk):
    chk.rule = ("slabs and faults with 2-5 trench coordinates (both coordinate systems), models placed at feature, section and "
                "segment level in every combination, sections overriding any subset of the coordinates. Re-layouts of one world "
                "must give bit-identical answers: (a) inherited models written explicitly into every segment, (b) the default "
                "segment list repeated as a section entry for every coordinate that has none, (c) both. Locality: the section of "
                "one coordinate i is replaced by different segments (lengths, dips, thicknesses, models); every query whose foot "
                "on the trench lies outside the two intervals next to coordinate i must keep its answer bit for bit. "
                "non-trivial = query inside the feature")
    chk.assumptions = ["the interval of the foot is taken from BezierCurve::closest_point_on_curve_segment through the harness"]
    chk.prove()
    common.build_repo()
    rng = random.Random(chk.seed * 32452843 + 10)
    g = Gen(rng)
    quick = chk.tier == "quick"
    cs = CaseSet("c10")
    plan = []      # (kind, i_base, i_other, extra)
    foots = []
    for wi in range(40 if quick else 500):
        rng.seed("%d/c10-1/%d" % (chk.seed, wi))      # every world has its own stream: families do not disturb each other
        sph = rng.random() < 0.3
        wj, sph, f = line_world(rng, spherical=sph, straight=rng.random() < 0.2, uniform_sections=rng.random() < 0.3,
                                allow_mass_conserving=False, extra_area=0.2)
        if wi % 2 == 0:
            # aimed at the inheritance search: models of one kind on the feature, of another kind on a section entry,
            # segments that declare nothing; and at the interpolation of two-valued top truncations between sections
            fault = f["model"] == "fault"
            for sg in f["segments"] + [x for sc in f.get("sections", []) for x in sc["segments"]]:
                for k in KINDS:
                    if rng.random() < 0.8:
                        sg.pop(k, None)
                if not fault and rng.random() < 0.6:
                    sg["top truncation"] = [float(round(rng.uniform(-2e4, 1e4))), float(round(rng.uniform(0.4, 0.9) * min(sg["thickness"])))]
            f.update(g.slab_models(f["model"], 1.0, False))
            if f.get("sections") and rng.random() < 0.4:
                # the feature pinches out laterally: zero thickness at one coordinate
                for sg in rng.choice(f["sections"])["segments"]:
                    sg["thickness"] = [0.0]
                    sg.pop("top truncation", None)
            for sc in f.get("sections", []):
                for k in KINDS:
                    sc.pop(k, None)
                sc.update(g.slab_models(f["model"], 0.5, False))
        wa, wb = explicit_models(wj), explicit_sections(wj)
        wc = explicit_sections(wa)
        # locality: override one coordinate
        n = len(f["coordinates"])
        ci = rng.randrange(n)
        wd = copy.deepcopy(wj)
        fd = [x for x in wd["features"] if x["name"] == f["name"]][0]
        nseg = len(f["segments"])
        newsec = {"coordinate": ci, "segments": g.segments(f["model"], nseg)}
        if rng.random() < 0.5:
            newsec.update(g.slab_models(f["model"], 0.6, False))
        fd["sections"] = [s for s in fd.get("sections", []) if s["coordinate"] != ci] + [newsec]
        slots = [cs.add_world(w, model=(k_ in (0, 4))) for k_, w in enumerate((wj, wa, wb, wc, wd))]
        cr = [((c[0] * PI) * (1 / 180.0), (c[1] * PI) * (1 / 180.0)) if sph else (float(c[0]), float(c[1])) for c in f["coordinates"]]
        for qi in range(20 if wi % 2 else 45):
            q, d = line_query(rng, wj, sph, f, spread=rng.choice([0.3, 0.6, 1.2]) if wi % 2 else rng.choice([0.15, 0.3, 0.5]))
            if d < 0:
                continue
            ids = [cs.p3(s, q, d, ALL) for s in slots]
            for s_ in (slots[0], slots[4]):
                cs.p3(s_, q, d, NOGRAINS)
            # the interval of the foot
            if sph:
                rr = math.sqrt(q[0] ** 2 + q[1] ** 2 + q[2] ** 2)
                nq = (math.atan2(q[1], q[0]), math.asin(q[2] / rr))
            else:
                nq = (q[0], q[1])
            ib = cs.raw("bezcp %s %d %s %s %s" % ("s" if sph else "c", len(cr), " ".join("%s %s" % (common.fhex(c[0]), common.fhex(c[1])) for c in cr),
                                                  common.fhex(nq[0]), common.fhex(nq[1])), "let () = out_str \"skip\"", {"kind": "foot"})
            plan.append((ids, ib, ci, f["name"]))
    impl, model = cs.run()
    chk.evaluations = len(impl)
    # the base and the overridden world against SlabFeature.v (whose table is built by SlabLayout.table), bit for bit
    bad = chk.correspond(impl, model, cs, max_ulp=0)
    viol = []
    labels = ["", "inherited models written into every segment", "default segments repeated as a section for every coordinate",
              "both re-layouts"]
    loc_checked = 0
    for ids, ib, ci, name in plan:
        base = impl[ids[0]]
        bv = common.parse_vec(base)
        if bv is not None and bv[-4] >= 0:
            chk.nontriv((ids[0],))
        for k in (1, 2, 3):
            if impl[ids[k]] != base:
                dsc = cs.describe(ids[0])
                dsc["relayout"] = labels[k]
                dsc["relayout_world"] = cs.worlds[cs.meta[ids[k]]["slot"]][1]
                dsc["answer"], dsc["relayout_answer"] = base, impl[ids[k]]
                viol.append(("an equivalent re-layout (%s) changes the answer" % labels[k], dsc))
                break
        fv = common.parse_vec(impl[ib])
        if fv is None or math.isnan(fv[1]):
            interval = None
        else:
            interval = int(fv[2])
        if interval is not None and interval not in (ci - 1, ci) and not (abs(fv[1]) < 1e-6 and interval - 1 in (ci - 1, ci)) \
                and not (abs(fv[1] - 1) < 1e-6 and interval + 1 in (ci - 1, ci)):
            loc_checked += 1
            if impl[ids[4]] != base:
                dsc = cs.describe(ids[0])
                dsc["overridden_coordinate"] = ci
                dsc["foot_interval"] = interval
                dsc["override_world"] = cs.worlds[cs.meta[ids[4]]["slot"]][1]
                dsc["answer"], dsc["override_answer"] = base, impl[ids[4]]
                viol.append(("overriding the section of coordinate %d changes the answer of a point whose foot lies in trench interval %d" % (ci, interval), dsc))
        elif interval is None and impl[ids[4]] != base:
            # no foot on the trench at all: outside the feature in both worlds
            dsc = cs.describe(ids[0])
            dsc["override_world"] = cs.worlds[cs.meta[ids[4]]["slot"]][1]
            viol.append(("a point without a foot on the trench changes its answer when a section is overridden", dsc))
    chk.counters["locality comparisons"] = loc_checked
    for pl in plan[:3]:
        chk.sample({"query": cs.probe[pl[0][0]][:120], "answer": impl[pl[0][0]][:80], "foot": impl[pl[1]][:60]})
    for what, d in viol[:5]:
        chk.violation(what, d)
    chk.counters["violating queries"] = len(viol)
    if bad and not viol:
        for i in bad[:3]:
            dsc = cs.describe(i)
            dsc["impl"], dsc["model"] = impl[i], model[i]
            chk.violation("correspondence SlabLayout.v/SlabFeature.v <-> implementation broken", dsc, found_input=False)
    cs.cleanup()
