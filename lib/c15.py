# C15 - seeded randomness is reproducible and random grains are valid
import math
import random

import common
from cases import CaseSet
from qgen import query3d, inside_query, prop_list, offsets
from wbgen import width
from worlds import area_world


def run(chk):
    chk.rule = ("worlds with random models (random uniform grain distributions, deflected variant with basis matrices, random "
                "composition with one or several bound pairs) in every area feature kind x long query sequences: (a) twin worlds "
                "(same file, same seed; constructor seed or 'random number seed' entry) agree bit for bit, a third world with "
                "another seed differs; (b) the model, fed the draws of the same mt19937 stream, reproduces every answer bit for "
                "bit (draw bookkeeping); (c) every grain matrix is orthonormal with determinant +1, normalised sizes sum to 1, "
                "fixed sizes are returned as given, random compositions lie within the bounds of their composition. "
                "non-trivial = a query that consumed draws")
    chk.assumptions = ["std::mt19937 and std::uniform_real_distribution are modelled (coq/Mt19937.v): the model draws from its own engine, and "
                       "its stream is compared draw by draw with the implementation's for every seed used",
                       "'different seeds give different draws' is a property of mt19937: searched, not proved"]
    chk.prove()
    common.build_repo()
    rng = random.Random(chk.seed * 15485867 + 15)
    quick = chk.tier == "quick"
    viol = []
    cs = CaseSet("c15")
    plan = []
    for wi in range(14 if quick else 150):
        rng.seed("%d/c15-1/%d" % (chk.seed, wi))      # every world has its own stream: families do not disturb each other
        wj, sph = area_world(rng, nfeat=rng.randint(1, 3), plumes=0.25, random_models=True, cross=False)
        wj.pop("force surface temperature", None)
        if wi % 3 == 0:
            # a single continental plate with one random composition model: every painted value is attributable
            from wbgen import Gen
            g = Gen(rng)
            f = g.area_feature("solo", sph, kinds=("continental plate",), random_models=False)
            f["composition models"] = [g.random_comp_model(0, 1e5)]
            f["composition models"][0]["operation"] = "replace"
            f.pop("min depth", None)
            f["max depth"] = 3e5
            wj["features"] = [f]
        if wi % 3 == 1:
            # a single plume with the deflected random grains model: fixed and random sizes, normalised and not
            from wbgen import Gen
            g = Gen(rng)
            f = g.plume("solo", sph)
            gm = g.random_grains_model(0, 1e5, kinds=("random uniform distribution deflected",))
            gm["compositions"] = [0, 1]
            gm["grain sizes"] = [round(rng.uniform(0.05, 1.5), 3), -1]
            gm["normalize grain sizes"] = [True, rng.random() < 0.5]
            gm["deflections"] = [rng.choice([1.0, 0.3, 0.01]), rng.choice([1.0, 0.3])]
            bk = "basis rotation matrices" if "basis rotation matrices" in gm else "basis Euler angles z-x-z"
            gm[bk] = [gm[bk][0], gm[bk][0]]
            gm.pop("max depth", None)
            f["grains models"] = [gm]
            f["min depth"] = 0.0
            wj["features"] = [f]
        seed = rng.choice([1, 7, 1000, rng.randrange(1, 1 << 30)])
        if rng.random() < 0.4:
            wj["random number seed"] = rng.choice([0, 3, 424242])
        a = cs.add_world(wj, seed=seed)
        b = cs.add_world(wj, seed=seed, model=False)
        c = cs.add_world(wj, seed=seed + 1 if "random number seed" not in wj else seed, model=False)
        if "random number seed" in wj:
            wj2 = dict(wj)
            wj2["random number seed"] = wj["random number seed"] + 1
            c = cs.add_world(wj2, seed=seed, model=False)
        qs = []
        for qi in range(25):
            pos, d = inside_query(rng, wj, sph) if rng.random() < 0.8 else query3d(rng, wj, sph)
            ps = prop_list(rng, maxlen=4, allow_vel=False)
            if wi % 3 == 1:
                ps.append([3, qi % 2, rng.choice([2, 3])])
            if rng.random() < 0.6:
                ps.append([3, rng.randrange(4), rng.choice([1, 2, 3])])
            if rng.random() < 0.5:
                ps.append([2, rng.randrange(4), 0])
            ia, ib, ic = cs.p3(a, pos, d, ps), cs.p3(b, pos, d, ps), cs.p3(c, pos, d, ps)
            qs.append((ia, ib, ic, ps))
        plan.append((wj, qs))
    # slabs and faults with a random grains model (not modelled in Gallina: oracle only): compositions listed in any order,
    # fixed and random sizes, normalisation flags per composition
    from worlds import line_world
    from qgen import line_query
    line_plan = []
    for wi in range(10 if quick else 120):
        rng.seed("%d/c15-2/%d" % (chk.seed, wi))      # every world has its own stream: families do not disturb each other
        wj, sph, lf = line_world(rng, spherical=False, straight=rng.random() < 0.5, uniform_sections=True, allow_mass_conserving=False, extra_area=0.0)
        for k in ("temperature models", "composition models", "grains models", "velocity models", "sections"):
            lf.pop(k, None)
        for sg in lf["segments"]:
            for k in ("temperature models", "composition models", "grains models", "velocity models"):
                sg.pop(k, None)
        comps = rng.sample(range(4), rng.randint(2, 3))
        if sorted(comps) == comps:
            comps = comps[::-1]
        gm = {"model": "random uniform distribution", "compositions": comps,
              "grain sizes": [rng.choice([-1, round(rng.uniform(0.05, 1.5), 3)]) for _ in comps],
              "normalize grain sizes": [rng.random() < 0.5 for _ in comps]}
        gm["grain sizes"][0], gm["normalize grain sizes"][0] = -1, True
        gm["grain sizes"][1], gm["normalize grain sizes"][1] = round(rng.uniform(0.05, 1.5), 3), False
        if wi % 2 == 1:
            # orientations drawn close to a basis orientation: the draws of neighbouring trench coordinates are nearly equal,
            # which is where the interpolation between them (quaternion slerp) switches to its near-parallel branch
            from wbgen import Gen
            dm = Gen(rng).random_grains_model(0, 1e5, kinds=("random uniform distribution deflected",))
            gm["model"] = "random uniform distribution deflected"
            gm["deflections"] = [rng.choice([0.001, 0.003, 0.01, 0.03, 0.1]) for _ in comps]
            bk = "basis rotation matrices" if "basis rotation matrices" in dm else "basis Euler angles z-x-z"
            gm[bk] = [dm[bk][0] for _ in comps]
        lf["grains models"] = [gm]
        lf["composition models"] = [{"model": "uniform", "compositions": [0]}]
        seed = rng.randrange(1, 1 << 30)
        a = cs.add_world(wj, seed=seed)          # modelled: SlabFeature.v with the mt19937 tape of this seed
        b = cs.add_world(wj, seed=seed, model=False)
        for qi in range(20):
            q, d = line_query(rng, wj, False, lf, spread=rng.choice([0.15, 0.3]))
            if d < 0:
                continue
            ci = rng.randrange(len(comps))
            k = rng.choice([2, 3, 4])
            ps = [[3, comps[ci], k], [4, 0, 0]]
            line_plan.append((cs.p3(a, q, d, ps), cs.p3(b, q, d, ps), gm, ci, k))
    impl, model = cs.run()
    chk.evaluations = len(impl)
    bad = chk.correspond(impl, model, cs, max_ulp=0)
    # the engine itself: the model's mt19937 + generate_canonical stream (coq/Mt19937.v) against std::mt19937 +
    # std::uniform_real_distribution<>(0,1), draw by draw, for every seed used above and a few edge seeds
    seeds = sorted(cs.seeds_used | {0, 1, 5489, 4294967295, 4294967296 + 17})
    ndraw = 3000 if quick else 30000
    body = "".join("\nlet () = out_str (String.concat \" \" (\"ok\" :: List.map (fun x -> Printf.sprintf \"%%h\" x) (mt_tape_list n (n_of_int %d) (nat_of_int %d))))\n"
                   % (sd % 4294967296, ndraw) for sd in seeds)
    mstreams = common.run_model(body, tag="c15mt")
    istreams = common.run_probe(["draws %d %d" % (sd, ndraw) for sd in seeds])
    ndiff = 0
    for sd, ms, is_ in zip(seeds, mstreams, istreams):
        a = [float.fromhex(x) for x in ms.split()[1:]]
        b = common.parse_vec(is_) or []
        chk.corr["cases"] += 1
        chk.evaluations += 1
        if len(a) == ndraw and a == list(b):
            chk.corr["agree"] += 1
            chk.corr["bit_exact"] += 1
        else:
            chk.corr["disagreements"] += 1
            ndiff += 1
            k = next((i for i, (x, y) in enumerate(zip(a, b)) if x != y), min(len(a), len(b)))
            bad.append({"kind": "engine", "seed": sd, "first differing draw": k, "model": a[k:k + 3], "implementation": list(b[k:k + 3])})
    chk.counters["mt19937 streams compared (seeds x draws)"] = "%d x %d" % (len(seeds), ndraw)
    for ia, ib, gm, ci, k in line_plan:
        v = common.parse_vec(impl[ia])
        if impl[ia] != impl[ib]:
            viol.append(("two worlds built alike (same file, same seed) and queried alike disagree (slab/fault random grains)", cs.describe(ib)))
            continue
        if v is None or v[-1] < 0:
            continue
        sizes = v[:k]
        mats = [v[k + 9 * gi:k + 9 * gi + 9] for gi in range(k)]
        if not any(abs(x) > 0 for m in mats for x in m) or not any(abs(x) > 0 for x in sizes):
            # the grains model did not apply here (outside its distance range: sizes stay 0; the identity matrices are D4)
            continue
        chk.nontriv(cs.probe[ia])
        fixed, norm = gm["grain sizes"][ci], gm["normalize grain sizes"][ci]
        if fixed < 0 and norm and abs(sum(sizes) - 1.0) > 1e-9:
            dsc = cs.describe(ia)
            dsc["sizes"] = sizes
            viol.append(("slab/fault random grains: sizes requested as normalised sum to %.12g" % sum(sizes), dsc))
        if fixed >= 0 and not norm and any(abs(x - fixed) > 1e-12 for x in sizes):
            dsc = cs.describe(ia)
            dsc["sizes"] = sizes
            viol.append(("slab/fault random grains: fixed grain size %g is returned as %s" % (fixed, sizes), dsc))
        for m in mats:
            ok, why = proper_rotation(m)
            if not ok:
                viol.append(("slab/fault random grain orientation is not a proper rotation matrix (%s)" % why, cs.describe(ia)))
                break
    for wj, qs in plan:
        differs = False
        drew = False
        for ia, ib, ic, ps in qs:
            if impl[ia] != impl[ib]:
                viol.append(("two worlds built alike (same file, same seed) and queried alike disagree", cs.describe(ib)))
                break
            if impl[ia] != impl[ic]:
                differs = True
            v = common.parse_vec(impl[ia])
            if v is None:
                continue
            offs, _ = offsets(ps)
            for p, o in zip(ps, offs):
                if p[0] == 3 and p[2] > 0:
                    k = p[2]
                    blk = v[o:o + 10 * k]
                    model_of = random_grain_model(wj, cs, ia, p[1], v)
                    sizes, mats = blk[:k], [blk[k + 9 * g:k + 9 * g + 9] for g in range(k)]
                    if any(abs(x) > 0 for m in mats for x in m):
                        for m in mats:
                            ok, why = proper_rotation(m)
                            if model_of is not None and model_of["model"].startswith("random") and not ok:
                                viol.append(("a random grain orientation is not a proper rotation matrix (%s)" % why, cs.describe(ia)))
                                break
                    if model_of is not None and model_of["model"].startswith("random") and any(abs(x) > 0 for m in mats for x in m):
                        ii = model_of["compositions"].index(p[1])
                        # the draws are visible in the answer unless the orientation is not deflected at all and the sizes are fixed
                        if model_of["grain sizes"][ii] < 0 or not model_of["model"].endswith("deflected") or model_of.get("deflections", [1.0] * (ii + 1))[ii] > 0:
                            drew = True
                        chk.nontriv(cs.probe[ia])
                        i = model_of["compositions"].index(p[1])
                        if model_of["normalize grain sizes"][i] and abs(sum(sizes) - 1.0) > 1e-12:
                            viol.append(("normalised grain sizes sum to %.15g" % sum(sizes), cs.describe(ia)))
                        if not model_of["normalize grain sizes"][i] and model_of["grain sizes"][i] >= 0 and any(s != model_of["grain sizes"][i] for s in sizes):
                            viol.append(("fixed grain sizes are not returned as given", cs.describe(ia)))
                if p[0] == 2:
                    rm = random_comp_model(wj, cs, ia, p[1], v)
                    if rm is not None and v[o] != 0.0:
                        m, lo, hi = rm
                        drew = True
                        chk.nontriv(cs.probe[ia])
                        if m.get("operation", "replace") in ("replace", "replace defined only") and not (lo <= v[o] <= hi):
                            viol.append(("random composition %d = %.6g lies outside its configured bounds [%g, %g]" % (p[1], v[o], lo, hi), cs.describe(ia)))
        if drew and not differs:
            viol.append(("a world with a different seed gives the same draws", {"world": wj}))
    for wj, qs in plan[:2]:
        chk.sample({"query": cs.probe[qs[0][0]], "answer": impl[qs[0][0]][:160]})
    for what, d in viol[:5]:
        chk.violation(what, d)
    if bad and not viol:
        for i in bad[:3]:
            if isinstance(i, dict):
                chk.violation("correspondence Mt19937.v <-> std::mt19937 / uniform_real_distribution broken (seed %d, draw %d)"
                              % (i["seed"], i["first differing draw"]), i, found_input=False)
                continue
            dsc = cs.describe(i)
            dsc["impl"], dsc["model"] = impl[i], model[i]
            chk.violation("correspondence Features.v (random models, draw bookkeeping) <-> implementation broken", dsc, found_input=False)
    cs.cleanup()


def proper_rotation(m):
    rows = [m[0:3], m[3:6], m[6:9]]
    for i in range(3):
        for j in range(3):
            d = sum(rows[i][k] * rows[j][k] for k in range(3))
            if abs(d - (1.0 if i == j else 0.0)) > 1e-7:
                return False, "row %d . row %d = %.12g" % (i, j, d)
    det = (rows[0][0] * (rows[1][1] * rows[2][2] - rows[1][2] * rows[2][1]) - rows[0][1] * (rows[1][0] * rows[2][2] - rows[1][2] * rows[2][0])
           + rows[0][2] * (rows[1][0] * rows[2][1] - rows[1][1] * rows[2][0]))
    if abs(det - 1.0) > 1e-7:
        return False, "det = %.12g" % det
    return True, ""


def covering_last(wj, cs, idx, key, comp):
    """the last model of kind `key` listing composition comp, in the last feature that covers the query (tag), or None.
    Conservative: only single-feature attribution when exactly one feature of the world has such models."""
    feats = [f for f in wj["features"] if any(comp in m.get("compositions", []) for m in f.get(key, []))]
    if len(feats) != 1:
        return None
    ms = [m for m in feats[0].get(key, []) if comp in m.get("compositions", [])]
    return ms[-1] if ms else None


def random_grain_model(wj, cs, idx, comp, v):
    m = covering_last(wj, cs, idx, "grains models", comp)
    if m is None or "min depth" in m or "max depth" in m:
        return None
    return m


def random_comp_model(wj, cs, idx, comp, v):
    m = covering_last(wj, cs, idx, "composition models", comp)
    if m is None or m["model"] != "random" or "min depth" in m or "max depth" in m:
        return None
    i = m["compositions"].index(comp)
    lo, hi = m.get("min value", [0.0]), m.get("max value", [1.0])
    j = i if (i < len(lo) and i < len(hi)) else 0
    # the value may have been painted by another feature / not at all: only judge values that are not 0 (background)
    if v is None:
        return None
    return m, lo[j], hi[j]
