# C14 - concurrent queries are race-free and gwb-grid output does not depend on -j
import filecmp
import json
import os
import random
import shutil

import common
from cases import CaseSet, sanitize_numbers
from common import fhex
from qgen import query3d, prop_list, line_query
from wbgen import props_tok
from worlds import area_world, any_world, line_world


def run(chk):
    chk.rule = ("(1) ThreadPool::parallel_for compiled from gwb-grid/main.cc itself: launched slices for every (start, n, P) in the "
                "stated box, compared with the model and checked to be a partition (every index exactly once, <= P threads); "
                "(2) 2..32 threads issue rotated query streams against one world (no random models): every answer must be "
                "bit-identical to the sequential one; (3) gwb-grid on small grids with prime node counts for -j 1..N: byte-"
                "identical VTU files. non-trivial = n not divisible by P, P > n, or a multi-threaded run")
    chk.assumptions = ["thorough tier: the concurrent part is repeated under ThreadSanitizer (a separate -fsanitize=thread build of the working tree)",
                       "absence of data races in the C++ memory model is not a theorem: the multi-threaded runs are a search "
                       "(TSan build in the thorough tier)"]
    chk.prove()
    common.build_repo()
    rng = random.Random(chk.seed * 2750159 + 14)
    quick = chk.tier == "quick"
    viol = []
    tie_broken = None
    try:
        common.build_gridprobe()
    except common.TieError as e:
        # gwb-grid/main.cc changed so that the harness around its ThreadPool no longer compiles: part (1) cannot be tied;
        # parts (2) and (3) still search for a failing input
        tie_broken = e
    # ---- (1) slices -------------------------------------------------------------------------------
    cases = []
    nmax, pmax = (48, 16) if quick else (300, 40)
    for n in range(0, nmax + 1):
        for P in range(1, pmax + 1):
            cases.append((0, n, P))
    for _ in range(300 if quick else 0):
        rng.seed("%d/c14-1/%d" % (chk.seed, _))      # every world has its own stream: families do not disturb each other
        s = rng.randint(0, 50)
        cases.append((s, s + rng.randint(0, 300), rng.randint(1, 40)))
    if tie_broken is not None:
        cases = []
    lines = ["pfor %d %d %d" % c for c in cases]
    impl = common.run_probe(lines, exe="gridprobe") if cases else []
    body = "\n".join("let () = out_str (String.concat \" \" (\"ok\" :: List.concat_map (fun (a, b) -> [string_of_int (int_of_nat a); string_of_int (int_of_nat b)]) (parallel_for (nat_of_int %d) (nat_of_int %d) (nat_of_int %d))))" % c
                     for c in cases)
    model = common.run_model(body, tag="c14") if cases else []
    chk.evaluations += len(cases)

    class _C:
        def describe(self, i):
            return {"start": cases[i][0], "end": cases[i][1], "threads": cases[i][2]}
    bad = chk.correspond(impl, model, _C())
    for i, (s, e, P) in enumerate(cases):
        a = impl[i].split()
        if a[0] != "ok":
            viol.append(("parallel_for does not visit every index exactly once: %s" % impl[i], {"start": s, "end": e, "threads": P}))
            continue
        sl = [(int(a[k]), int(a[k + 1])) for k in range(1, len(a), 2)]
        pos = s
        ok = len(sl) <= P
        for x, y in sl:
            ok = ok and x == pos and x < y
            pos = y
        ok = ok and pos == e
        if not ok:
            viol.append(("launched slices %s are not a partition of [%d,%d) with at most %d threads" % (sl, s, e, P), {"start": s, "end": e, "threads": P}))
        if (e - s) % P != 0 or P > e - s:
            chk.nontriv(("pfor", s, e, P))
    if quick is False:
        chk.exhaustive = True
    if cases:
        chk.sample({"parallel_for": "start 0 end 10 P 3", "slices": impl[cases.index((0, 10, 3))]})
    # ---- (2) concurrent queries ------------------------------------------------------------------------
    cs = CaseSet("c14")
    lines = []
    meta = []
    for wi in range(8 if quick else 60):
        rng.seed("%d/c14-2/%d" % (chk.seed, wi))      # every world has its own stream: families do not disturb each other
        wj, sph = any_world(rng, cross=False)
        qs = [query3d(rng, wj, sph) for _ in range(40)]
        T = rng.choice([2, 3, 4, 8, 16, 32])
        if wi % 2 == 1:
            # a slab or fault with many queries inside its bounding box: any per-feature mutable state (caches, scratch
            # members) written during a query is then hit by several threads at once
            wj, sph, lf = line_world(rng, kind=rng.choice(["fault", "subducting plate"]), spherical=rng.random() < 0.3, extra_area=0.3)
            qs = [line_query(rng, wj, sph, lf, spread=rng.choice([0.2, 0.5, 1.0])) for _ in range(150)]
            qs = [(p, d) for p, d in qs if d >= 0]
            T = rng.choice([8, 16, 32])
        if wi % 4 == 2:
            # spherical, an oceanic plate with ridge-distance models: the great-circle distance code runs in every thread
            from wbgen import Gen, cart_point
            from qgen import TOP
            gg = Gen(rng)
            wj = {"version": "1.1", "coordinate system": {"model": "spherical", "depth method": "begin segment"}, "features": []}
            for kk, mk in enumerate(["half space model", "plate model"]):
                wj["features"].append({"model": "oceanic plate", "name": "oc%d" % kk, "coordinates": [[-40 + 45 * kk, -30], [5 + 45 * kk, -30], [5 + 45 * kk, 30], [-40 + 45 * kk, 30]],
                                       "max depth": 1.5e5, "temperature models": [{"model": mk, "max depth": 1.5e5, "top temperature": 300.0, "bottom temperature": 1600.0,
                                                                                  "spreading velocity": round(rng.uniform(0.01, 0.1), 3),
                                                                                  "ridge coordinates": [[[-20 + 45 * kk + rng.uniform(-3, 3), -28.0], [-20 + 45 * kk + rng.uniform(-3, 3), 28.0]]]}]})
            sph = True
            qs = [(cart_point(True, rng.uniform(-40, 50), rng.uniform(-30, 30), dd, 6371000.0, TOP), dd) for dd in [float(round(rng.uniform(0, 1.5e5))) for _k in range(160)]]
            T = rng.choice([8, 16, 32])
        hydrated = wi % 8 == 4
        if hydrated:
            # water content models ask the world back for its temperature at the query point, once per composition: four
            # compositions per point, a temperature that varies from point to point, many threads inside the wet layers
            from qgen import TOP
            liths = ["sediment", "MORB", "gabbro", "peridotite"]
            fo = {"model": "oceanic plate", "name": "wet", "coordinates": [[-4e5, -4e5], [4e5, -4e5], [4e5, 4e5], [-4e5, 4e5]], "max depth": 1.2e5,
                  "temperature models": [{"model": "linear", "max depth": 1.2e5, "top temperature": 280.0, "bottom temperature": 1500.0}],
                  "composition models": [{"model": "tian water content", "compositions": [c], "lithology": liths[c], "initial water content": [3.0, 5.0, 4.0, 8.0][c],
                                          "cutoff pressure": [1.0, 16.0, 26.0, 10.0][c]} for c in range(4)]}
            wj, sph = {"version": "1.1", "features": [fo]}, False
            qs = []
            for _k in range(400):
                dd = float(round(rng.uniform(1e3, 1.1e5)))
                qs.append(((rng.uniform(-3.5e5, 3.5e5), rng.uniform(-3.5e5, 3.5e5), TOP - dd), dd))
            T = 16
        slot = cs.add_world(wj, model=False)
        ps = prop_list(rng, maxlen=5)
        if wi % 4 == 2:
            ps = [[1, 0, 0]] + ps
        if hydrated:
            ps = [[2, 0, 0], [2, 1, 0], [2, 2, 0], [2, 3, 0], [1, 0, 0]]
        cs.raw("mt %d %d %d %s %s" % (slot, T, len(qs), " ".join("%s %s %s %s" % (fhex(p[0]), fhex(p[1]), fhex(p[2]), fhex(d)) for p, d in qs), props_tok(ps)),
               "let () = out_str \"skip\"", {"kind": "mt", "threads": T, "world": wj, "props": ps})
    impl2, _ = cs.run(model=False)
    chk.evaluations += len(impl2)
    if not quick:
        # the same concurrent queries under ThreadSanitizer: a reported data race is a violation even when the answers agree
        common.build_repo_san("tsan")
        _, _, errs = common.run_probe_resilient([], cs.probe, exe="wbprobe_tsan", timeout=3600)
        chk.evaluations += len(cs.probe)
        rep = errs.get("_stderr", "")
        chk.counters["ThreadSanitizer reports"] = rep.count("WARNING: ThreadSanitizer")
        if "WARNING: ThreadSanitizer: data race" in rep:
            k = rep.index("WARNING: ThreadSanitizer: data race")
            viol.append(("ThreadSanitizer reports a data race during concurrent queries", {"report": rep[k:k + 3000], "probe_lines": len(cs.probe)}))
    for i, a in enumerate(impl2):
        if cs.meta[i].get("kind") == "mt":
            chk.nontriv(("mt", i))
            if a != "ok same":
                viol.append(("concurrent queries give a different answer than sequential ones: " + a, cs.describe(i)))
    # ---- (3) gwb-grid -j ---------------------------------------------------------------------------------
    gdir = os.path.join(common.WORK, "cases", "c14grid_%d" % os.getpid())
    shutil.rmtree(gdir, ignore_errors=True)
    os.makedirs(gdir)
    exe = os.path.join(common.BUILD, "bin", "gwb-grid")
    for gi in range(7 if quick else 21):
        rng.seed("%d/c14-3/%d" % (chk.seed, gi))      # every world has its own stream: families do not disturb each other
        gkind = ("cartesian", "cartesian", "cartesian", "cartesian", "sphere", "chunk", "annulus")[gi % 7]
        if gkind != "cartesian":
            # the grid types whose node positions are built in several stages (shells, blocks): built and evaluated with 1..N threads
            wj, sph = area_world(rng, spherical=True, cross=True)
            wj["features"].insert(0, {"model": "mantle layer", "name": "flow", "coordinates": [[-170, -80], [170, -80], [170, 80], [-170, 80]],
                                      "velocity models": [{"model": "uniform raw", "velocity": [0.01, -0.02, 0.03]}]})
            sanitize_numbers(wj)
            dim = 2 if gkind == "annulus" else 3
            if gkind == "sphere":
                grid = ["grid_type = sphere", "dim = 3", "compositions = 2", "vtu_output_format = ASCII", "x_min = 0", "x_max = 0", "y_min = 0", "y_max = 0",
                        "z_min = 3371000", "z_max = 6371000", "n_cell_x = 16", "n_cell_y = 16", "n_cell_z = 10"]
            elif gkind == "chunk":
                grid = ["grid_type = chunk", "dim = 3", "compositions = 2", "vtu_output_format = ASCII", "x_min = -20", "x_max = 25", "y_min = -15", "y_max = 20",
                        "z_min = 5371000", "z_max = 6371000", "n_cell_x = 9", "n_cell_y = 7", "n_cell_z = 5"]
            else:
                grid = ["grid_type = annulus", "dim = 2", "compositions = 2", "vtu_output_format = ASCII", "x_min = 0", "x_max = 0",
                        "z_min = 3371000", "z_max = 6371000", "n_cell_x = 4", "n_cell_y = 4", "n_cell_z = 12"]
            outs = []
            for j in ([1, 2, 4, 7] if quick else [1, 2, 3, 4, 8, 16, 40]):
                d = os.path.join(gdir, "g%d_j%d" % (gi, j))
                os.makedirs(d)
                json.dump(wj, open(os.path.join(d, "w.wb"), "w"))
                open(os.path.join(d, "g.grid"), "w").write("\n".join(grid) + "\n")
                rc, o, e = common.sh([exe, "-j", str(j), "w.wb", "g.grid"], cwd=d, timeout=600)
                chk.evaluations += 1
                vtu = os.path.join(d, "w.vtu")
                if rc != 0 or not os.path.exists(vtu):
                    viol.append(("gwb-grid fails with -j %d (rc=%d): %s" % (j, rc, (o + e)[-300:]), {"world": wj, "grid": grid, "threads": j}))
                    continue
                outs.append((j, vtu))
            for j, f in outs[1:]:
                chk.nontriv(("grid", gi, j))
                if not filecmp.cmp(outs[0][1], f, shallow=False):
                    viol.append(("gwb-grid output (%s grid) differs between -j %d and -j %d" % (gkind, outs[0][0], j), {"world": wj, "grid": grid, "threads": j}))
                    break
            continue
        wj, sph = area_world(rng, spherical=False, cross=True)
        if gi % 7 == 3:
            # two slabs hanging from one trench line, dipping to opposite sides, each with its own mass conserving model (different
            # ridges): neighbouring grid nodes ask the two models in turn, in an order that depends on how the nodes are divided
            tx = 0.0
            def mc(side, rd, vel):
                return {"model": "subducting plate", "name": "s%d" % side, "coordinates": [[tx, -6e5], [tx, 6e5]], "dip point": [tx + side * 1e6, 0.0],
                        "segments": [{"length": 5e5, "thickness": [1e5], "top truncation": [-5e4], "angle": [45.0]}],
                        "temperature models": [{"model": "mass conserving", "spreading velocity": vel, "subducting velocity": vel,
                                                "ridge coordinates": [[[tx - side * rd, -8e5], [tx - side * rd, 8e5]]], "coupling depth": 8e4, "taper distance": 1e5,
                                                "min distance slab top": -2e5, "max distance slab top": 3e5,
                                                "reference model name": "half space model" if side > 0 else "plate model"}],
                        "composition models": [{"model": "uniform", "compositions": [0 if side > 0 else 1]}]}
            wj = {"version": "1.1", "cross section": [[0.0, 0.0], [6e5, 0.0]], "features": [mc(1, 2.5e6, 0.05), mc(-1, 4e5, 0.03)]}
        # a layer under everything with a velocity, so that the 3-component data set is not all zero
        wj["features"].insert(0, {"model": "mantle layer", "name": "flow", "coordinates": [[-1e6, -1e6], [1e6, -1e6], [1e6, 1e6], [-1e6, 1e6]],
                                  "velocity models": [{"model": "uniform raw", "velocity": [0.01, -0.02, 0.03]}]})
        sanitize_numbers(wj)
        dim = 3 if gi % 2 == 0 else 2
        nx, ny, nz = rng.choice([(6, 4, 4), (10, 2, 6), (4, 4, 2)])
        if gi % 7 == 3:
            dim, nx, ny, nz = 2, 32, 2, 16
        grid = ["grid_type = cartesian", "dim = %d" % dim, "compositions = 2", "vtu_output_format = ASCII",
                "x_min = -4e5", "x_max = 4e5", "y_min = -4e5", "y_max = 4e5", "z_min = 6e5", "z_max = 1000e3",
                "n_cell_x = %d" % nx, "n_cell_y = %d" % ny, "n_cell_z = %d" % nz]
        outs = []
        for j in ([1, 2, 3, 7] if quick else [1, 2, 3, 5, 7, 16, 40]):
            d = os.path.join(gdir, "g%d_j%d" % (gi, j))
            os.makedirs(d)
            json.dump(wj, open(os.path.join(d, "w.wb"), "w"))
            open(os.path.join(d, "g.grid"), "w").write("\n".join(grid) + "\n")
            rc, o, e = common.sh([exe, "-j", str(j), "w.wb", "g.grid"], cwd=d, timeout=600)
            chk.evaluations += 1
            vtu = os.path.join(d, "w.vtu")
            if rc != 0 or not os.path.exists(vtu):
                viol.append(("gwb-grid fails with -j %d (rc=%d): %s" % (j, rc, (o + e)[-300:]), {"world": wj, "grid": grid, "threads": j}))
                continue
            outs.append((j, vtu))
        for j, f in outs[1:]:
            chk.nontriv(("grid", gi, j))
            if not filecmp.cmp(outs[0][1], f, shallow=False):
                viol.append(("gwb-grid output differs between -j %d and -j %d" % (outs[0][0], j), {"world": wj, "grid": grid, "threads": j}))
    shutil.rmtree(gdir, ignore_errors=True)
    for what, d in viol[:5]:
        chk.violation(what, d)
    if tie_broken is not None and not viol:
        chk.violation("the harness around gwb-grid's ThreadPool (%s) no longer compiles against /repo: the correspondence Apps.parallel_for <-> "
                      "ThreadPool::parallel_for cannot be checked; the concurrent queries and the gwb-grid -j runs found no failing input" % tie_broken.harness,
                      {"kind": "tie", "correspondence": tie_broken.harness, "log_tail": str(tie_broken)[-2500:]}, found_input=False)
    if bad and not viol:
        for i in bad[:3]:
            chk.violation("correspondence Apps.parallel_for <-> ThreadPool::parallel_for broken",
                          {"case": cases[i], "impl": impl[i], "model": model[i]}, found_input=False)
    cs.cleanup()
