# C13 - queries on a built world are total and return finite numbers
import json
import math
import os
import random
import shutil

import common
from cases import sanitize_numbers
from qgen import line_query, inside_query, query3d, query2d, TOP
from wbgen import PI, cart_point
from worlds import any_world

ALL = [[1, 0, 0], [2, 0, 0], [2, 1, 0], [2, 2, 0], [2, 3, 0], [3, 0, 2], [4, 0, 0], [5, 0, 0]]
TOK = "8 1 0 0 2 0 0 2 1 0 2 2 0 2 3 0 3 0 2 4 0 0 5 0 0"


def degenerate_queries(rng, wj, sph):
    """(kind, cartesian point, depth) aimed at the degenerate locations the property lists"""
    R = wj.get("coordinate system", {}).get("radius", 6371000.0)
    out = []

    def at(kind, x, y, d):
        out.append((kind, cart_point(sph, x, y, d, R, TOP), float(d)))
    for f in wj["features"]:
        cs = f.get("coordinates", [])
        lo = f.get("min depth", 0.0)
        lo = lo if isinstance(lo, (int, float)) else 0.0
        hi = f.get("max depth", 2e5)
        hi = hi if isinstance(hi, (int, float)) else 2e5
        depths = [0.0, lo, min(hi, lo + 5e4), hi]
        line = f["model"] in ("subducting plate", "fault")
        if line:
            segs = f["segments"]
            total = sum(s["length"] for s in segs)
            depths += [lo + total, lo + 0.5 * total]
        for i, c in enumerate(cs):
            for d in depths:
                at(("trench coordinate" if line else "polygon vertex"), c[0], c[1], d)
            n = cs[(i + 1) % len(cs)]
            if line and i == len(cs) - 1:
                continue
            for t in (0.5, 0.25, 1e-9, 1 - 1e-9):
                at(("on trench chord" if line else "polygon edge"), c[0] + t * (n[0] - c[0]), c[1] + t * (n[1] - c[1]), rng.choice(depths))
        if line and len(cs) >= 2:
            # a hair beyond either end of the trench: the foot of the point on the trench curve lies a rounding error outside the
            # first / last section (the closest-point search accepts section fractions in [-1e-8, 1 + 1e-8]), also next to the
            # line through the end, at the surface and at depth
            for (e0, e1) in ((cs[-1], cs[-2]), (cs[0], cs[1])):
                tx, ty = e0[0] - e1[0], e0[1] - e1[1]
                L = math.hypot(tx, ty) or 1.0
                for rel in (1e-16, 3e-16, 1e-13, 1e-11, 1e-9, 5e-9):
                    for side in (0.0, 1.0, -3.0):
                        px, py = e0[0] + tx * rel - ty / L * side * (1.0 if sph else 1e4), e0[1] + ty * rel + tx / L * side * (1.0 if sph else 1e4)
                        at("a hair beyond the end of the trench", px, py, rng.choice([0.0, lo, lo + 2e4, lo + 0.5 * total]))
                at("a hair beyond the end of the trench", math.nextafter(e0[0], e0[0] + tx), math.nextafter(e0[1], e0[1] + ty), lo + 1e4)
        if line and len(cs) == 2:
            # slab tip of a straight trench: end of the planar chain, on the dip side
            th = math.radians(segs[0]["angle"][0])
            dx, dy = cs[1][0] - cs[0][0], cs[1][1] - cs[0][1]
            L = math.hypot(dx, dy) or 1.0
            nx, ny = -dy / L, dx / L
            dp = f["dip point"]
            if (dp[0] - cs[0][0]) * nx + (dp[1] - cs[0][1]) * ny < 0:
                nx, ny = -nx, -ny
            u, v = total * math.cos(th), total * math.sin(th)
            if sph:
                u = u / 111e3
            mx, my = (cs[0][0] + cs[1][0]) / 2, (cs[0][1] + cs[1][1]) / 2
            at("slab tip", mx + u * nx, my + u * ny, lo + v)
        if not line and len(cs) >= 3:
            # interior points exactly at the top and bottom of the feature
            cx, cy = sum(c[0] for c in cs) / len(cs), sum(c[1] for c in cs) / len(cs)
            for v in cs[:3]:
                for tt in (0.0, 0.3, 0.7):
                    for d in (lo, hi, 0.0):
                        at("interior at the feature's own depth limits", cx + tt * (v[0] - cx), cy + tt * (v[1] - cy), d)
        if f["model"] == "plume":
            for c in cs:
                for d in (lo, lo + 1.0, hi):
                    at("plume axis", c[0], c[1], d)
    if sph:
        for d in (0.0, 1e4, 3e5):
            out.append(("north pole", (0.0, 0.0, R - d), d))
            out.append(("south pole", (0.0, 0.0, -(R - d)), d))
            for lat in (0.0, 37.0, -80.0):
                r = R - d
                out.append(("+-180 meridian", (-r * math.cos(math.radians(lat)), 0.0, r * math.sin(math.radians(lat))), d))
                out.append(("+-180 meridian (-0.0)", (-r * math.cos(math.radians(lat)), -0.0, r * math.sin(math.radians(lat))), d))
        out.append(("planet centre", (0.0, 0.0, 0.0), R))
        out.append(("near planet centre", (1e-3, -1e-3, 1e-3), R))
    else:
        out.append(("model bottom", (0.0, 0.0, 0.0), TOP))
        out.append(("far away", (1e12, -1e12, TOP - 1e4), 1e4))
        out.append(("huge depth", (0.0, 0.0, -1e9), 1e9 + TOP))
    return out


def run(chk):
    san = chk.tier == "thorough"
    chk.rule = ("worlds with every feature type (area features with depth surfaces, plumes, slabs/faults with sections, random "
                "models), both coordinate systems. Queries at the degenerate locations of the property text - every polygon "
                "vertex, edge points (incl. 1e-9 from a vertex), every trench coordinate and points on the trench chords at depth "
                "0 / min depth / max depth / tip depth, the slab tip of straight trenches, plume axes, depth exactly 0, the poles, "
                "the +-180 meridian (y = +0.0 and -0.0), the planet's centre, the model bottom, far-away points - plus random "
                "queries; 3-D and 2-D interface; full property list (temperature, compositions, grains, tag, velocity). Every "
                "answer must be a vector of finite numbers or a std::exception; a dead or hanging harness is a violation. "
                + ("Run under AddressSanitizer + UBSan (-fno-sanitize-recover=undefined). " if san else
                   "Quick tier: plain build (sanitizers in the thorough tier). ")
                + "non-trivial = a degenerate-location query answered inside a feature")
    chk.assumptions = ["finite-but-wrong values are not detected here (see D24 under C08)"]
    chk.prove()
    common.build_repo()
    exe = "wbprobe"
    if san:
        common.build_repo_san()
        exe = "wbprobe_san"
    rng = random.Random(chk.seed * 86028121 + 13)
    quick = chk.tier == "quick"
    wdir = os.path.join(common.WORK, "cases", "c13_%d" % os.getpid())
    shutil.rmtree(wdir, ignore_errors=True)
    os.makedirs(wdir)
    viol = []
    kinds = {}
    throws = 0
    nq = 0
    samples = []
    for wi in range(60 if quick else 400):
        rng.seed("%d/c13-1/%d" % (chk.seed, wi))      # every world has its own stream: families do not disturb each other
        sph = rng.random() < 0.45 and wi % 4 != 3
        wj, sph = any_world(rng, spherical=sph, lines=0.5, allow_mass_conserving=True)
        if wi % 4 == 3 and not sph:
            # a mass conserving slab with parameters at the ends of their ranges; the wedge above the slab top is part of
            # the feature (negative top truncation), probed in fine vertical steps through the slab top
            from worlds import line_world
            wj, sph, lf = line_world(rng, kind="subducting plate", spherical=False, straight=True, uniform_sections=True,
                                     allow_mass_conserving=True, extra_area=0.0)
            for k in ("temperature models", "composition models", "grains models", "velocity models", "sections"):
                lf.pop(k, None)
            a, b = lf["coordinates"][0], lf["coordinates"][-1]
            dx, dy = b[0] - a[0], b[1] - a[1]
            L = math.hypot(dx, dy)
            nx, ny = -dy / L, dx / L
            if (lf["dip point"][0] - a[0]) * nx + (lf["dip point"][1] - a[1]) * ny < 0:
                nx, ny = -nx, -ny
            rd = rng.choice([2e5, 4e5, 4e5, 8e5, 2e6])       # young and old plates
            mm = {"model": "mass conserving", "spreading velocity": rng.choice([0.05, 0.04, 0.02]), "subducting velocity": rng.choice([0.05, 0.04, 0.01, 0.1]),
                  "ridge coordinates": [[[float(round(a[0] - nx * rd - dx)), float(round(a[1] - ny * rd - dy))],
                                         [float(round(b[0] - nx * rd + dx)), float(round(b[1] - ny * rd + dy))]]],
                  "coupling depth": rng.choice([80e3, 0.0, 1e3]), "taper distance": rng.choice([100e3, 0.0, 1.0]),
                  "forearc cooling factor": rng.choice([0.0, 0.0, 1.0, 20.0, 1e-12]),
                  "min distance slab top": -3e5, "max distance slab top": 3e5}
            if (wi // 4) % 2 == 0:
                # one boundary value at a time: a young plate, nominal parameters, forearc cooling switched off
                mm.update({"spreading velocity": 0.04, "subducting velocity": 0.04, "coupling depth": 120e3, "taper distance": 50e3,
                           "forearc cooling factor": 0.0})
                rd2 = rng.choice([3e5, 4e5, 6e5])
                mm["ridge coordinates"] = [[[float(round(a[0] - nx * rd2 - dx)), float(round(a[1] - ny * rd2 - dy))],
                                            [float(round(b[0] - nx * rd2 + dx)), float(round(b[1] - ny * rd2 + dy))]]]
            lf["segments"] = [{"length": float(round(rng.uniform(3e5, 8e5))), "thickness": [float(round(rng.uniform(1e5, 3e5)))],
                               "top truncation": [-1e5], "angle": rng.choice([[float(round(rng.uniform(20, 70), 1))], [0.0, 30.0], [10.0, 50.0]])}]
            lf["temperature models"] = [mm]
            lf["composition models"] = [{"model": "uniform", "compositions": [0]}]
            wj["features"] = [lf]
            th0 = math.radians(0.5 * (lf["segments"][0]["angle"][0] + lf["segments"][0]["angle"][-1]))
            aimed_profile = []
            for _k in range(2):
                tt = rng.uniform(0.3, 0.7)
                u = rng.uniform(3e4, 0.7 * lf["segments"][0]["length"] * math.cos(th0))
                px, py = a[0] + tt * dx + u * nx, a[1] + tt * dy + u * ny
                top = lf.get("min depth", 0.0) + u * math.tan(th0)
                for k in range(-50, 30):
                    d = float(round(top + 2000.0 * k))
                    if d >= 0:
                        aimed_profile.append(("profile through the slab top", (px, py, TOP - d), d))
        else:
            aimed_profile = []
        # degenerate but valid parameter values: zero-thickness features, depth surfaces that pinch out, cooling models
        # with parameters at the ends of their documented ranges
        if wi % 6 == 2 and not any(f["model"] in ("continental plate", "oceanic plate", "mantle layer") for f in wj["features"]):
            from wbgen import Gen
            wj["features"].append(Gen(rng).area_feature("flat", sph, depth_arrays=0))
        first_area = True
        for f in wj["features"]:
            force = wi % 6 == 2 and first_area and f["model"] in ("continental plate", "oceanic plate", "mantle layer")
            if force:
                first_area = False
                f["model"] = ["continental plate", "oceanic plate", "mantle layer"][(wi // 6) % 3]
                f["temperature models"] = [m for m in f.get("temperature models", []) if m["model"] in ("uniform", "linear", "adiabatic")]
            if f["model"] in ("continental plate", "oceanic plate", "mantle layer") and (force or rng.random() < 0.3):
                tm = [m for m in f.get("temperature models", []) if m["model"] == "linear"]
                if not tm:
                    f.setdefault("temperature models", []).append({"model": "linear", "max depth": 2e5, "top temperature": rng.choice([293.15, -1]),
                                                                   "bottom temperature": rng.choice([1500.0, -1])})
                u = rng.random()
                if u < 0.5:
                    D = float(round(rng.uniform(0, 1e5))) if rng.random() < 0.7 else 0.0
                    f["min depth"], f["max depth"] = D, D
                else:
                    c = f["coordinates"]
                    f["min depth"] = 0.0
                    f["max depth"] = [[float(round(rng.uniform(5e4, 2e5)))], [0.0, [list(c[0]), list(c[1]), list(c[2])][:rng.randint(1, 3)]]]
            if f["model"] == "subducting plate":
                for m in f.get("temperature models", []) + [m for sg in f["segments"] for m in sg.get("temperature models", [])]:
                    if m.get("model") == "mass conserving" and wi % 4 == 3 and (wi // 4) % 2 == 0:
                        continue        # the nominal young plate with forearc cooling switched off stays as it is
                    if m.get("model") == "mass conserving" and (wi % 4 == 3 or rng.random() < 0.6):
                        keys = ["forearc cooling factor", "taper distance", "coupling depth", "min distance slab top", "thermal conductivity"]
                        k = keys[(wi // 8) % len(keys)] if wi % 4 == 3 else rng.choice(keys)
                        m[k] = rng.choice([0.0, 0.0, 1e-30, 1e30]) if k != "min distance slab top" else 0.0
        if wi % 6 == 1:
            # a slab or fault with uniform grains whose rotation matrices are rounded to a few decimals (not exactly
            # orthonormal: the quaternions of the section interpolation are not exactly unit, their scalar product may exceed 1)
            from worlds import line_world
            wj, sph, lf = line_world(rng, kind=rng.choice(["subducting plate", "fault"]), spherical=False, straight=rng.random() < 0.5,
                                     uniform_sections=True, allow_mass_conserving=False, extra_area=0.0)
            for k in ("temperature models", "composition models", "grains models", "velocity models", "sections"):
                lf.pop(k, None)
            for sg in lf["segments"]:
                for k in ("temperature models", "composition models", "grains models", "velocity models"):
                    sg.pop(k, None)
            ang = rng.uniform(0, 2 * PI)
            dec = rng.choice([2, 3, 4])
            ca, sa = round(math.cos(ang), dec), round(math.sin(ang), dec)
            sc = rng.choice([1.0, 1.0, 1.001, 0.999])
            lf["grains models"] = [{"model": "uniform", "compositions": [0], "rotation matrices": [[[ca * sc, -sa * sc, 0.0], [sa * sc, ca * sc, 0.0], [0.0, 0.0, 1.0]]],
                                    "grain sizes": [0.5]}]
            lf["composition models"] = [{"model": "uniform", "compositions": [0]}]
            wj["features"] = [lf]
            aimed_profile = []
            for _k in range(40):
                qq, dd = line_query(rng, wj, False, lf, spread=rng.choice([0.1, 0.2]))
                if dd >= 0:
                    aimed_profile.append(("inside a slab with rounded rotation matrices", qq, dd))
        if wi % 6 == 5:
            # spherical oceanic plates whose ridge is written on the other side of the +-180 meridian from most of the plate,
            # in either direction, with one velocity per ridge coordinate: the nearest ridge point of a query is reached
            # through its longitude copy, before the first / behind the last ridge coordinate included
            from wbgen import cart_point as _cp
            base = rng.choice([180.0, -180.0])
            lon_r = base + rng.choice([-1, 1]) * rng.uniform(2, 9)
            ridge = [[round(lon_r, 1), -10.0], [round(lon_r - rng.choice([-1, 1]) * rng.uniform(2, 8), 1), 10.0]]
            if rng.random() < 0.5:
                ridge = ridge[::-1]
            wj = {"version": "1.1", "coordinate system": {"model": "spherical", "depth method": "begin segment"},
                  "features": [{"model": "oceanic plate", "name": "o", "coordinates": [[base - 30, -35], [base + 30, -35], [base + 30, 35], [base - 30, 35]],
                                "max depth": 1.5e5,
                                "temperature models": [{"model": rng.choice(["plate model", "half space model"]), "max depth": 1.5e5, "top temperature": 300.0,
                                                        "bottom temperature": rng.choice([1600.0, -1]), "ridge coordinates": [ridge],
                                                        "spreading velocity": rng.choice([0.05, [[0.0, [[0.03, 0.08]]]]])}]}]}
            sph = True
            aimed_profile = [("ridge across the date line", _cp(True, base + rng.uniform(-28, 28), rng.uniform(-33, 33), dd, 6371000.0, TOP), dd)
                             for dd in [float(round(rng.uniform(0, 1.5e5))) for _k in range(40)]]
        if wi % 12 == 4:
            # ridges with a repeated coordinate, as digitised lines have them: the first two, the last two or two in the middle
            # coincide (a ridge segment of length zero); oceanic plate with the plate / half space model, both coordinate systems
            from wbgen import cart_point as _cp
            sph = (wi // 12) % 2 == 1
            dup = (wi // 12) % 3
            sc = 1.0 if sph else 2.5e4
            cx, cy = (round(rng.uniform(-100, 100), 1), round(rng.uniform(-30, 30), 1)) if sph else (0.0, 0.0)
            ridge = [[cx + 8 * sc, cy - 14 * sc], [cx + 10 * sc, cy - 2 * sc], [cx + 9 * sc, cy + 6 * sc], [cx + 11 * sc, cy + 15 * sc]]
            ridge.insert({0: 0, 1: len(ridge), 2: 2}[dup], list(ridge[{0: 0, 1: len(ridge) - 1, 2: 2}[dup]]))
            vel = rng.choice([0.05, [[0.0, [[0.03, 0.04, 0.05, 0.06, 0.07]]]]])
            wj = {"version": "1.1", "features": [{"model": "oceanic plate", "name": "o",
                                                   "coordinates": [[cx - 20 * sc, cy - 20 * sc], [cx + 20 * sc, cy - 20 * sc], [cx + 20 * sc, cy + 20 * sc], [cx - 20 * sc, cy + 20 * sc]],
                                                   "max depth": 1.5e5,
                                                   "temperature models": [{"model": ["plate model", "half space model"][(wi // 36) % 2], "max depth": 1.5e5, "top temperature": 300.0,
                                                                           "bottom temperature": rng.choice([1600.0, -1]), "ridge coordinates": [ridge], "spreading velocity": vel}]}]}
            if sph:
                wj["coordinate system"] = {"model": "spherical", "depth method": "begin segment"}
            aimed_profile = []
            for _k in range(40):
                dd = float(round(rng.uniform(0, 1.5e5)))
                px, py = cx + rng.uniform(-19, 19) * sc, cy + rng.uniform(-19, 19) * sc
                aimed_profile.append(("plate with a repeated ridge coordinate", _cp(True, px, py, dd, 6371000.0, TOP) if sph else (px, py, TOP - dd), dd))
        if wi % 12 == 7:
            # spherical area features whose outline is written as a closed ring (the first coordinate repeated as the last) and
            # whose depth is given at points: every point at the latitude of the repeated vertex passes the polygon test
            # (documented behaviour D17), whatever its longitude, and is then looked up on a depth surface that does not reach
            # there - the lookup must end in an exception ("not in any triangle"), not run on
            from wbgen import cart_point as _cp
            lon0, lat0 = round(rng.uniform(-120, 100), 1), round(rng.uniform(-40, 30), 1)
            w_, h_ = round(rng.uniform(10, 30), 1), round(rng.uniform(10, 25), 1)
            ring = [[lon0, lat0], [lon0 + w_, lat0], [lon0 + w_, lat0 + h_], [lon0, lat0 + h_], [lon0, lat0]]
            kind_ = ["continental plate", "oceanic plate", "mantle layer"][(wi // 12) % 3]
            wj = {"version": "1.1", "coordinate system": {"model": "spherical", "depth method": "begin segment"},
                  "features": [{"model": kind_, "name": "ring", "coordinates": ring,
                                "max depth": [[1e5], [2e5, [[round(lon0 + w_ / 2, 2), round(lat0 + h_ / 2, 2)]]]],
                                "temperature models": [{"model": "uniform", "temperature": 700.0}]}]}
            sph = True
            aimed_profile = []
            for _k in range(30):
                dd = float(round(rng.uniform(0.0, 1.9e5)))
                qlon = lon0 + rng.choice([-1, 1]) * rng.uniform(40, 170) if _k % 3 else lon0 + rng.uniform(-2, w_ + 2)
                qlat = lat0 if _k % 2 == 0 else lat0 + rng.uniform(0.0, h_)
                aimed_profile.append(("at the latitude of the ring-closing vertex of a closed-ring outline", _cp(True, qlon, qlat, dd, 6371000.0, TOP), dd))
        if wi % 12 == 10:
            # a trench of two coordinates about a kilometre apart with a slab thousands of kilometres long, queried a quarter of the
            # globe away: the closest-point iteration on the trench curve (flat at its first end, p0 + t^3 (p1 - p0)) may use up its
            # steps - the query then ends in an exception, not in a crash
            from wbgen import cart_point as _cp
            lon0, lat0 = round(rng.uniform(-150, 150), 1), round(rng.uniform(-40, 40), 1)
            dl = rng.choice([0.01, 0.005, 0.02])
            along_lat = (wi // 12) % 2 == 1
            c1 = [lon0, round(lat0 + dl, 3)] if along_lat else [round(lon0 + dl, 3), lat0]
            wj = {"version": "1.1", "coordinate system": {"model": "spherical", "depth method": rng.choice(["begin segment", "starting point"])},
                  "features": [{"model": rng.choice(["subducting plate", "fault"]), "name": "tiny", "coordinates": [[lon0, lat0], c1],
                                "dip point": [lon0 + (0.0 if not along_lat else 20.0), lat0 - (20.0 if not along_lat else 0.0)],
                                "segments": [{"length": float(round(rng.uniform(1.7e6, 4e6))), "thickness": [2e5], "angle": [float(rng.choice([20, 45, 70]))]}],
                                "temperature models": [{"model": "uniform", "temperature": 600.0}]}]}
            sph = True
            aimed_profile = []
            for _k in range(60):
                dd = float(round(rng.uniform(0.0, 6e5)))
                if along_lat:
                    qlon, qlat = lon0 + rng.choice([-1, 1]) * rng.uniform(60, 120), lat0 + rng.uniform(0.0, 2.0)
                else:
                    qlon, qlat = lon0 + rng.uniform(0.0, 2.0), max(-89.5, min(89.5, lat0 + rng.choice([-1, 1]) * rng.uniform(60, 120)))
                aimed_profile.append(("a quarter of the globe from a very short trench", _cp(True, qlon, qlat, dd, 6371000.0, TOP), dd))
        sanitize_numbers(wj)
        path = os.path.join(wdir, "w%d.wb" % wi)
        json.dump(wj, open(path, "w"))
        qs = degenerate_queries(rng, wj, sph) + aimed_profile
        feats = wj["features"]
        for _ in range(20):
            lf = [f for f in feats if f["model"] in ("subducting plate", "fault")]
            if lf and rng.random() < 0.5:
                q, d = line_query(rng, wj, sph, rng.choice(lf))
            else:
                q, d = (inside_query if rng.random() < 0.7 else query3d)(rng, wj, sph)
            qs.append(("random", q, d))
        lines = ["p3 0 %s %s %s %s %s" % (common.fhex(q[0]), common.fhex(q[1]), common.fhex(q[2]), common.fhex(d), TOK) for (_, q, d) in qs]
        meta = [(k, list(q), d, "3d") for (k, q, d) in qs]
        if "cross section" in wj:
            for _ in range(8):
                q, d = query2d(rng, wj, sph)
                lines.append("p2 0 %s %s %s %s" % (common.fhex(q[0]), common.fhex(q[1]), common.fhex(d), TOK))
                meta.append(("random 2d", list(q), d, "2d"))
            csx = wj["cross section"]
            L = math.hypot(csx[1][0] - csx[0][0], csx[1][1] - csx[0][1])
            for xx in (0.0, L if not sph else 0.0):
                z = TOP if not sph else 0.0
                lines.append("p2 0 %s %s %s %s" % (common.fhex(xx if not sph else 6371000.0), common.fhex(z), common.fhex(0.0), TOK))
                meta.append(("section end at the surface", [xx, z], 0.0, "2d"))
        setup, ans, errs = common.run_probe_resilient(["world 0 %s 1" % path], lines, exe=exe, timeout=(60 if exe == "wbprobe" else 600), cwd=wdir)
        if not setup or not setup[0].startswith("ok"):
            # construction refused the world (C12's business) - nothing to query
            continue
        for i, a in enumerate(ans):
            nq += 1
            k = meta[i][0]
            kinds[k] = kinds.get(k, 0) + 1
            if a is None:
                continue
            if a.startswith("throw") or a.startswith("error"):
                throws += 1
                continue
            if a.startswith("crash") or a.startswith("hang"):
                viol.append(("a query %s the process (%s) - %s" % ("hangs" if a.startswith("hang") else "kills", a, k),
                             {"kind": "p3", "world": wj, "slot": 0, "probe_line": lines[i], "location": k, "stderr": errs.get(i, "")[-1200:]}))
                continue
            v = common.parse_vec(a)
            if v is None:
                viol.append(("unparsable answer '%s' (%s)" % (a[:60], k), {"kind": "p3", "world": wj, "slot": 0, "probe_line": lines[i], "location": k}))
                continue
            if k != "random" and k != "random 2d" and v[-4] >= 0:
                chk.nontriv((wi, i))
            bad = [j for j, x in enumerate(v) if not math.isfinite(x)]
            if bad == [0] and meta[i][3] == "3d":
                # known finding D27: the background adiabat Tp*exp(alpha*g*depth/cp) overflows binary64 when
                # alpha*g*depth/cp exceeds 709.78 (only for depths of many planetary radii)
                al, cp_ = wj.get("thermal expansion coefficient", 3.5e-5), wj.get("specific heat", 1250)
                gr = wj.get("gravity model", {}).get("magnitude", 9.81)
                Tp_ = wj.get("potential mantle temperature", 1600)
                if math.log(max(Tp_, 1e-300)) + al * gr * meta[i][2] / cp_ > 709.0 and chk.known("D27", "adiabat overflow at absurd depth"):
                    chk.count("known finding D27 (adiabat overflow beyond alpha*g*depth/cp = 709)")
                    continue
            if bad:
                viol.append(("a query at a finite point returns a non-finite number (entry %d = %s) - %s" % (bad[0], v[bad[0]], k),
                             {"kind": "p3", "world": wj, "slot": 0, "probe_line": lines[i], "location": k, "answer": a}))
            if len(samples) < 3 and k not in ("random", "random 2d"):
                samples.append({"location": k, "query": lines[i][:110], "answer": a[:80]})
    chk.evaluations = nq
    chk.counters["queries per location kind"] = kinds
    chk.counters["std::exception answers"] = throws
    chk.counters["violating queries"] = len(viol)
    for s in samples:
        chk.sample(s)
    seen = set()
    for what, d in viol:
        key = what.split(" - ")[-1] + what[:40]
        if key in seen:
            continue
        seen.add(key)
        chk.violation(what, d)
        if len(seen) >= 6:
            break
    if not os.environ.get("VERIF_KEEP"):
        shutil.rmtree(wdir, ignore_errors=True)
