(* driver.ml: the binary64 interpretation of the model's number interface and the line printers
   used by the generated case files.  Trusted: this file, OCaml's float primitives and glibc's libm
   (the same libm the C++ links against). *)
open Model

let rec int_of_pos = function XH -> 1 | XO p -> 2 * int_of_pos p | XI p -> 2 * int_of_pos p + 1
let int_of_z = function Z0 -> 0 | Zpos p -> int_of_pos p | Zneg p -> - (int_of_pos p)
let int_of_n = function N0 -> 0 | Npos p -> int_of_pos p
let rec pos_of_int i = if i <= 1 then XH else if i land 1 = 0 then XO (pos_of_int (i lsr 1)) else XI (pos_of_int (i lsr 1))
let z_of_int i = if i = 0 then Z0 else if i > 0 then Zpos (pos_of_int i) else Zneg (pos_of_int (- i))
let n_of_int i = if i = 0 then N0 else Npos (pos_of_int i)
let nat_of_int i = let rec go acc i = if i <= 0 then acc else go (S acc) (i - 1) in go O i
let int_of_nat n = let rec go acc = function O -> acc | S m -> go (acc + 1) m in go 0 n

let num : float num = {
  f0 = 0.0; f1 = 1.0;
  fadd = ( +. ); fsub = ( -. ); fmul = ( *. ); fdiv = ( /. );
  fopp = (fun x -> -. x); fabs = Float.abs; fsqrt = sqrt;
  fexp = exp; fsin = sin; fcos = cos; ftan = tan; facos = acos; fasin = asin; ftanh = tanh;
  ferfc = Float.erfc; ffloor = floor; flog = log; flog10 = log10;
  fatan2 = Float.atan2; fpow = Float.pow; ffmod = Float.rem;
  flt = (fun (a : float) (b : float) -> a < b);
  fle = (fun (a : float) (b : float) -> a <= b);
  feqb = (fun (a : float) (b : float) -> a = b);
  fofZ = (fun z -> float_of_int (int_of_z z));
  fdec = (fun m e -> float_of_string (Printf.sprintf "%de%d" (int_of_z m) (int_of_z e)));
  feps = epsilon_float; fdmin = min_float; fdmax = max_float;
  fpi = 0x1.921fb54442d18p+1; fnan = nan;
  fisfinite = Float.is_finite;
}

let hx (v : float) : string =
  if Float.is_nan v then "nan"
  else if v = infinity then "inf" else if v = neg_infinity then "-inf"
  else Printf.sprintf "%h" v

let counter = ref 0
let emit (s : string) = Printf.printf "%d %s\n" !counter s; incr counter

let vec (l : float list) : string = String.concat " " ("ok" :: List.map hx l)

let out_res (r : (float list * nat) res) =
  match r with
  | Ok (l, _) -> emit (vec l)
  | Err Throw -> emit "throw"
  | Err OOB -> emit "error-oob"
  | Err Fuel -> emit "error-fuel"

let out_res1 (r : (float * nat) res) =
  match r with
  | Ok (v, _) -> emit (vec [v])
  | Err Throw -> emit "throw"
  | Err OOB -> emit "error-oob"
  | Err Fuel -> emit "error-fuel"

let out_vec (l : float list) = emit (vec l)
let out_bool (b : bool) = emit (if b then "ok 1" else "ok 0")
let out_int (i : int) = emit (Printf.sprintf "ok %d" i)
let out_opt (o : float option) = match o with Some v -> emit (vec [v]) | None -> emit "throw"
let out_str (s : string) = emit s

(* random tape: the draws the implementation's mt19937 produced for the same seed *)
let tape_of (a : float array) : nat -> float = fun n ->
  let i = int_of_nat n in if i < Array.length a then a.(i) else nan

(* random tape from the model's own engine (Mt19937.v): generated on demand, four times the furthest draw asked for *)
let engine_tape (seed : n) : nat -> float =
  let cache = ref [||] in
  fun k ->
    let i = int_of_nat k in
    if i >= Array.length !cache then
      cache := Array.of_list (mt_tape_list num seed (nat_of_int (max 1000 (4 * (i + 1)))));
    !cache.(i)

(* queries thread the tape position of their world through a reference *)
let out_res_st (st : nat ref) (r : (float list * nat) res) =
  (match r with Ok (_, t) -> st := t | _ -> ());
  out_res r
let out_res1_st (st : nat ref) (r : (float * nat) res) =
  (match r with Ok (_, t) -> st := t | _ -> ());
  out_res1 r
let no_tape : nat -> float = fun _ -> nan

(* planar slab specification (SlabSpec.v): distance, arclength, piece, fraction *)
let out_planar (o : (((float * float) * nat) * float) option) =
  match o with
  | None -> emit "ok inf inf"
  | Some (((d, a), k), fr) -> emit (vec [d; a; float_of_int (int_of_nat k); fr])

(* sphere grid (SphereGrid.v): node positions and Depth, connectivity, merge diagnostics *)
let out_sphere_nodes (l : ((((float * float) * float)) * float) list) =
  emit (String.concat " " ("ok" :: List.concat_map (fun (((x, y), z), d) -> [hx x; hx y; hx z; hx d]) l))
let out_nat_lists (l : nat list list) =
  emit (String.concat " " ("ok" :: List.map (fun i -> string_of_int (int_of_nat i)) (List.concat l)))
