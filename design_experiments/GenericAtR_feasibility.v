From Coq Require Import Reals Lra List Bool ZArith.
From X Require Import NumDict_feasibility.
Import ListNotations.
Open Scope R_scope.

#[global] Instance Rnum : Num R := {|
  f0 := 0; f1 := 1; fadd := Rplus; fsub := Rminus; fmul := Rmult; fdiv := Rdiv;
  fabs := Rabs; fsqrt := sqrt; fexp := exp; fsin := sin; fcos := cos;
  flt := fun x y => if Rlt_dec x y then true else false;
  fle := fun x y => if Rle_dec x y then true else false;
  feps := / 4503599627370496 |}.

Lemma fle_spec (x y : R) : reflect (x <= y) (fle x y).
Proof. cbn. destruct (Rle_dec x y); constructor; auto. Qed.
Lemma flt_spec (x y : R) : reflect (x < y) (flt x y).
Proof. cbn. destruct (Rlt_dec x y); constructor; auto. Qed.
Lemma is_left_R (pj pi p : R*R) : @is_left R Rnum pj pi p =
  (fst pi - fst pj) * (snd p - snd pj) - (fst p - fst pj) * (snd pi - snd pj).
Proof. reflexivity. Qed.
Global Opaque Rnum.

(* the same statement as edge_cross in the prototype, but about the generic model at Rnum *)
Definition cross (pj pi p : R*R) : Z :=
  if fle (snd pj) (snd p) && flt (snd p) (snd pi) && flt f0 (is_left pj pi p) then 1%Z
  else if fle (snd pi) (snd p) && flt (snd p) (snd pj) && flt (is_left pj pi p) f0 then (-1)%Z else 0%Z.

Lemma f0_R : @f0 R Rnum = 0. Proof. Transparent Rnum. reflexivity. Opaque Rnum. Qed.
Lemma fabs_R x : @fabs R Rnum x = Rabs x. Proof. Transparent Rnum. reflexivity. Opaque Rnum. Qed.
Lemma feps_pos : 0 < @feps R Rnum. Proof. Transparent Rnum. cbn. apply Rinv_0_lt_compat. lra. Opaque Rnum. Qed.

Lemma edge_cross pj pi p :
  (Rabs (is_left pj pi p) < feps -> is_left pj pi p = 0) ->
  match edge pj pi p with OnBoundary => True | Up => cross pj pi p = 1%Z | Down => cross pj pi p = (-1)%Z | Nothing => cross pj pi p = 0%Z end.
Proof.
  intros Hex. unfold edge, cross. rewrite ?fabs_R.
  destruct (fle_spec (snd pj) (snd p)).
  - destruct (fle_spec (snd p) (snd pi)).
    + destruct (flt_spec f0 (is_left pj pi p)), (flt_spec (snd p) (snd pi)); cbn [andb]; try reflexivity.
      all: destruct (flt_spec (Rabs (is_left pj pi p)) feps); [destruct (on_segment pj pi p); [exact I|]|].
      all: destruct (fle_spec (snd pi) (snd p)); cbn [andb]; try reflexivity.
      all: destruct (flt_spec (snd p) (snd pj)); cbn [andb]; try reflexivity; try lra.
    + destruct (flt_spec (snd p) (snd pi)); [lra|]. cbn [andb].
      destruct (fle_spec (snd pi) (snd p)); [|lra]. destruct (flt_spec (snd p) (snd pj)); [lra|]. reflexivity.
  - cbn [andb]. destruct (fle_spec (snd pi) (snd p)).
    + destruct (flt_spec (snd p) (snd pj)); [|lra]. cbn [andb].
      destruct (flt_spec (is_left pj pi p) f0); [reflexivity|].
      destruct (flt_spec (Rabs (is_left pj pi p)) feps); [destruct (on_segment pj pi p); [exact I|reflexivity]|reflexivity].
    + reflexivity.
Qed.
Print Assumptions edge_cross.
