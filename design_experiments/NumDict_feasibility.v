From Coq Require Import List Bool.
Import ListNotations.

Class Num (F : Type) := {
  f0 : F; f1 : F;
  fadd : F -> F -> F; fsub : F -> F -> F; fmul : F -> F -> F; fdiv : F -> F -> F;
  fabs : F -> F; fsqrt : F -> F; fexp : F -> F; fsin : F -> F; fcos : F -> F;
  flt : F -> F -> bool; fle : F -> F -> bool;
  feps : F
}.

Section Poly.
  Context {F : Type} {N : Num F}.
  Local Infix "+" := fadd. Local Infix "-" := fsub. Local Infix "*" := fmul.
  Local Infix "<?" := flt (at level 70). Local Infix "<=?" := fle (at level 70).

  Definition pt := (F * F)%type.
  Definition is_left (pj pi p : pt) : F :=
    (fst pi - fst pj) * (snd p - snd pj) - (fst p - fst pj) * (snd pi - snd pj).

  (* one edge step: returns (Some true) for "on boundary, return true", or winding delta *)
  Inductive edge_res := OnBoundary | Up | Down | Nothing.
  Definition on_segment (pj pi p : pt) : bool :=
    let dot := (fst p - fst pj) * (fst pi - fst pj) + (snd p - snd pj) * (snd pi - snd pj) in
    let sq := (fst pi - fst pj) * (fst pi - fst pj) + (snd pi - snd pj) * (snd pi - snd pj) in
    (f0 <=? dot) && (dot <=? sq).
  Definition edge (pj pi p : pt) : edge_res :=
    if snd pj <=? snd p then
      if snd p <=? snd pi then
        let il := is_left pj pi p in
        if (f0 <? il) && (snd p <? snd pi) then Up
        else if fabs il <? feps then (if on_segment pj pi p then OnBoundary else Nothing)
        else Nothing
      else Nothing
    else
      if snd pi <=? snd p then
        let il := is_left pj pi p in
        if il <? f0 then Down
        else if fabs il <? feps then (if on_segment pj pi p then OnBoundary else Nothing)
        else Nothing
      else Nothing.
End Poly.
