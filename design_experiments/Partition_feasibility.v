From Coq Require Import List Arith Lia PeanoNat.
Import ListNotations.

(* parallel_for(start,end): n = end-start+1; slice = max (n / P) 1;
   i1=start; i2=min(start+slice,end);
   for (i=0; i+1<P && i1<end; ++i) { launch [i1,i2); i1=i2; i2=min(i2+slice,end);}
   if (i1<end) launch [i1,end). *)
Fixpoint launch (k : nat) (i1 i2 slice e : nat) : list (nat*nat) :=
  match k with
  | 0 => if i1 <? e then [(i1,e)] else []
  | S k' => if i1 <? e then (i1,i2) :: launch k' i2 (Nat.min (i2+slice) e) slice e
            else []   (* loop exits, and the trailing "if (i1<end)" is false too *)
  end.
Definition parallel_for (s e P : nat) : list (nat*nat) :=
  let n := e - s + 1 in
  let slice := Nat.max (n / P) 1 in
  launch (P-1) s (Nat.min (s+slice) e) slice e.

(* contiguous chain from a to b of nonempty intervals *)
Fixpoint chain (a b : nat) (l : list (nat*nat)) : Prop :=
  match l with
  | [] => a = b
  | (x,y) :: l' => x = a /\ x < y /\ chain y b l'
  end.

Lemma launch_chain k : forall i1 i2 slice e,
  1 <= slice -> i1 <= e -> i2 = Nat.min (i1+slice) e ->
  chain i1 e (launch k i1 i2 slice e).
Proof.
  induction k as [|k IH]; intros i1 i2 slice e Hs Hle Hi2; cbn [launch].
  - destruct (Nat.ltb_spec i1 e); cbn; lia.
  - destruct (Nat.ltb_spec i1 e) as [Hlt|Hge]; cbn [chain].
    + split; [reflexivity|]. split; [lia|]. apply IH; lia.
    + lia.
Qed.

Lemma launch_len k : forall i1 i2 slice e, length (launch k i1 i2 slice e) <= S k.
Proof. induction k as [|k IH]; intros; cbn [launch]; destruct (_ <? _); cbn; auto with arith. Qed.

Theorem parallel_for_partition s e P : s <= e -> 1 <= P ->
  chain s e (parallel_for s e P) /\ length (parallel_for s e P) <= P.
Proof.
  intros Hse HP. unfold parallel_for. split.
  - apply launch_chain; lia.
  - pose proof (launch_len (P-1) s (Nat.min (s + Nat.max ((e - s + 1) / P) 1) e) (Nat.max ((e - s + 1) / P) 1) e). lia.
Qed.
Print Assumptions parallel_for_partition.
Example ex : parallel_for 0 10 3 = [(0,3);(3,6);(6,10)]. Proof. reflexivity. Qed.
