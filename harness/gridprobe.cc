// gridprobe: reaches the internals of gwb-grid (ThreadPool, filter_vtu_mesh, lay_points, project_on_sphere)
// by including its main.cc with main renamed.  Line protocol as wbprobe.
//   pfor <start> <end> <P>     -> ok (first last)*  sorted; "bad ..." if an index is visited twice / a thread's indices are not contiguous
#include <map>
#include <mutex>
#include <sstream>
#include <thread>
#define main gwb_grid_main
#include "source/gwb-grid/main.cc"
#undef main

static std::string run(const std::string &line)
{
  std::istringstream in(line);
  std::string cmd;
  in >> cmd;
  if (cmd == "pfor")
    {
      size_t start, end, P;
      in >> start >> end >> P;
      ThreadPool pool(P);
      std::mutex m;
      std::map<std::thread::id, std::vector<size_t>> seen;
      pool.parallel_for(start, end, [&](size_t k)
      {
        std::lock_guard<std::mutex> lock(m);
        seen[std::this_thread::get_id()].push_back(k);
      });
      std::vector<std::pair<size_t,size_t>> slices;
      std::vector<int> count(end > start ? end - start : 0, 0);
      for (auto &kv : seen)
        {
          const auto &v = kv.second;
          for (size_t i = 0; i < v.size(); ++i)
            {
              if (v[i] < start || v[i] >= end) return "bad index-out-of-range";
              count[v[i]-start]++;
              if (i > 0 && v[i] != v[i-1] + 1) return "bad thread-not-contiguous";
            }
          slices.emplace_back(v.front(), v.back() + 1);
        }
      for (int c : count) if (c != 1) return "bad index-not-visited-exactly-once";
      std::sort(slices.begin(), slices.end());
      std::string s = "ok";
      for (auto &sl : slices) s += " " + std::to_string(sl.first) + " " + std::to_string(sl.second);
      return s;
    }
  return "unknown-command";
}

int main()
{
  std::string line;
  size_t n = 0;
  while (std::getline(std::cin, line))
    {
      if (line.empty()) continue;
      std::string r;
      try { r = run(line); }
      catch (const std::exception &e) { r = std::string("throw ") + e.what(); }
      std::cout << n << ' ' << r << '\n';
      ++n;
    }
  return 0;
}
