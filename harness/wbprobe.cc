// wbprobe: line-protocol harness around the World Builder library rebuilt from /repo.
//
// One command per input line, one answer line per command (prefixed by the command's
// sequence number).  Doubles are printed as C hexadecimal floats (%a), read with strtod
// (accepts both hex and decimal).
//
//   world <slot> <file> [seed]                 -> ok | throw <what>
//   free <slot>
//   size <slot> n a b c ...                    -> ok <n>
//   p3 <slot> x y z depth n a b c ...          -> ok v1 v2 ... | throw
//   p2 <slot> x z depth n a b c ...
//   t3 / c3 / g3 / t2 / c2 / g2                (single-property entry points)
//   dist <slot> x y z depth <name with _ for spaces>
//   (kernel commands: see below)
#include <array>
#include <cmath>
#include <cstdio>
#include <cstdlib>
#include <cstring>
#include <fstream>
#include <iostream>
#include <map>
#include <memory>
#include <random>
#include <sstream>
#include <string>
#include <vector>
#include <thread>
#include <limits>
#include <algorithm>
#include <functional>
#include <iomanip>
#include <unordered_map>
#include <set>

#define private public
#define protected public
#include "world_builder/world.h"
#include "world_builder/utilities.h"
#include "world_builder/point.h"
#include "world_builder/kd_tree.h"
#include "world_builder/bounding_box.h"
#include "world_builder/objects/surface.h"
#include "world_builder/objects/bezier_curve.h"
#include "world_builder/objects/natural_coordinate.h"
#include "world_builder/coordinate_systems/spherical.h"
#include "world_builder/coordinate_systems/cartesian.h"
#include "world_builder/gravity_model/interface.h"
#include "world_builder/features/interface.h"
#include "world_builder/features/continental_plate.h"
#include "world_builder/features/oceanic_plate.h"
#include "world_builder/features/mantle_layer.h"
#include "world_builder/features/plume.h"
#include "world_builder/features/subducting_plate.h"
#include "world_builder/features/fault.h"
#include "surface_includes.inc"
#include "world_builder/wrapper_c.h"
#include "world_builder/wrapper_cpp.h"
#undef private
#undef protected

using namespace WorldBuilder;

static std::string hx(double v)
{
  char buf[64];
  if (std::isnan(v)) return "nan";
  if (std::isinf(v)) return v > 0 ? "inf" : "-inf";
  snprintf(buf, sizeof buf, "%a", v);
  return buf;
}

static double rd(std::istringstream &in)
{
  std::string s;
  in >> s;
  if (s == "nan") return std::numeric_limits<double>::quiet_NaN();
  if (s == "inf") return std::numeric_limits<double>::infinity();
  if (s == "-inf") return -std::numeric_limits<double>::infinity();
  return strtod(s.c_str(), nullptr);
}

static std::vector<std::array<unsigned int,3>> rd_props(std::istringstream &in)
{
  size_t n;
  in >> n;
  std::vector<std::array<unsigned int,3>> ps(n);
  for (auto &p : ps) in >> p[0] >> p[1] >> p[2];
  return ps;
}

static std::string vec(const std::vector<double> &v)
{
  std::string s = "ok";
  for (double x : v) { s += ' '; s += hx(x); }
  return s;
}

static std::string sanitize(const std::string &w)
{
  // a short, stable classification of exception texts
  std::string s = w.substr(0, 400);
  for (char &c : s) if (c == '\n' || c == '\r') c = ' ';
  return s;
}

// wsurf: the traversal below is also used to find one surface of a world by its key
static std::string wanted_surface_key;
static const Objects::Surface *wanted_surface = nullptr;

static void dump_surface(std::string &out, const std::string &key, const Objects::Surface &s)
{
  if (!wanted_surface_key.empty())
    {
      if (key == wanted_surface_key) wanted_surface = &s;
      return;
    }
  out += " S " + key + " " + (s.constant_value ? "1" : "0") + " " + hx(s.minimum) + " " + hx(s.maximum);
  out += " " + std::to_string(s.constant_value ? 0 : s.triangles.size());
  if (!s.constant_value)
    {
      for (const auto &t : s.triangles)
        for (int a = 0; a < 3; ++a)
          for (int b = 0; b < 3; ++b)
            out += " " + hx(t[a][b]);
      const auto &nodes = s.tree.get_nodes();
      out += " " + std::to_string(nodes.size());
      for (const auto &nd : nodes) out += " " + std::to_string(nd.index) + " " + hx(nd.x) + " " + hx(nd.y);
    }
  else
    out += " 0";
}

static void dump_feature_surfaces(std::string &out, const std::string &key, const Features::Interface *fp)
{
#include "surface_dump.inc"
}

static std::map<int, std::unique_ptr<World>> worlds;
static std::map<int, void *> cworlds;
static std::map<int, std::unique_ptr<wrapper_cpp::WorldBuilderWrapper>> cppworlds;

static std::string unders(std::string s) { for (char &c : s) if (c == '_') c = ' '; return s; }

static std::string unesc(std::string t)
{
  // %20 stands for a blank inside a path token of the line protocol
  size_t p;
  while ((p = t.find("%20")) != std::string::npos) t.replace(p, 3, " ");
  return t;
}

static std::string run(const std::string &line)
{
  std::istringstream in(line);
  std::string cmd;
  in >> cmd;
  if (cmd == "world")
    {
      int slot; std::string file; unsigned long seed = 1;
      in >> slot >> file;
      if (!(in >> seed)) seed = 1;
      worlds.erase(slot);
      worlds[slot] = std::unique_ptr<World>(new World(file, false, "", seed));
      return "ok";
    }
  if (cmd == "copy")
    {
      // copy <from> <to>: rewrite a world file between two constructions (the same path then holds different worlds in turn)
      std::string a, b; in >> a >> b;
      std::ifstream src(a, std::ios::binary);
      std::ofstream dst(b, std::ios::binary | std::ios::trunc);
      dst << src.rdbuf();
      return "ok";
    }
  if (cmd == "culling")
    {
      // culling 0 : worlds constructed from now on have the slab/fault shortcuts switched off (hook)
      int on; in >> on;
#ifdef GWB_VERIF
      WorldBuilder::verif_disable_culling = (on == 0);
      return "ok";
#else
      return "no-hook";
#endif
    }
  if (cmd == "free") { int slot; in >> slot; worlds.erase(slot); return "ok"; }
  if (cmd == "size")
    {
      int slot; in >> slot; auto ps = rd_props(in);
      return "ok " + std::to_string(worlds.at(slot)->properties_output_size(ps));
    }
  if (cmd == "p3")
    {
      int slot; in >> slot;
      std::array<double,3> p = {{rd(in), rd(in), rd(in)}}; p = {{p[0],p[1],p[2]}};
      double depth = rd(in); auto ps = rd_props(in);
      return vec(worlds.at(slot)->properties(p, depth, ps));
    }
  if (cmd == "p2")
    {
      int slot; in >> slot;
      double x = rd(in), z = rd(in);
      std::array<double,2> p = {{x, z}};
      double depth = rd(in); auto ps = rd_props(in);
      return vec(worlds.at(slot)->properties(p, depth, ps));
    }
  if (cmd == "t3" || cmd == "c3" || cmd == "g3")
    {
      int slot; in >> slot;
      double x = rd(in), y = rd(in), z = rd(in);
      std::array<double,3> p = {{x, y, z}};
      double depth = rd(in);
      if (cmd == "t3") return vec({worlds.at(slot)->temperature(p, depth)});
      unsigned int c; in >> c;
      if (cmd == "c3") return vec({worlds.at(slot)->composition(p, depth, c)});
      size_t k; in >> k;
      grains g = worlds.at(slot)->grains(p, depth, c, k);
      std::vector<double> out(k*10);
      g.unroll_into(out, 0);
      return vec(out);
    }
  if (cmd == "t2" || cmd == "c2" || cmd == "g2")
    {
      int slot; in >> slot;
      double x = rd(in), z = rd(in);
      std::array<double,2> p = {{x, z}};
      double depth = rd(in);
      if (cmd == "t2") return vec({worlds.at(slot)->temperature(p, depth)});
      unsigned int c; in >> c;
      if (cmd == "c2") return vec({worlds.at(slot)->composition(p, depth, c)});
      size_t k; in >> k;
      grains g = worlds.at(slot)->grains(p, depth, c, k);
      std::vector<double> out(k*10);
      g.unroll_into(out, 0);
      return vec(out);
    }
  if (cmd == "dist")
    {
      int slot; in >> slot;
      double x = rd(in), y = rd(in), z = rd(in);
      std::array<double,3> p = {{x, y, z}};
      double depth = rd(in); std::string name; in >> name;
      auto d = worlds.at(slot)->distance_to_plane(p, depth, unders(name));
      return vec({d.get_distance_from_surface(), d.get_distance_along_surface()});
    }
  if (cmd == "surfaces")
    {
      int slot; in >> slot; World &w = *worlds.at(slot);
      std::string out = "ok";
      for (size_t i = 0; i < w.parameters.features.size(); ++i)
        dump_feature_surfaces(out, "features/" + std::to_string(i), w.parameters.features[i].get());
      return out;
    }
  if (cmd == "wsurf")
    {
      // wsurf <slot> <key> <c|s> px py : Surface::local_value on the surface the world itself built from its file
      int slot; std::string key, cs; in >> slot >> key >> cs;
      World &w = *worlds.at(slot);
      wanted_surface_key = key; wanted_surface = nullptr;
      std::string dummy;
      for (size_t i = 0; i < w.parameters.features.size(); ++i)
        dump_feature_surfaces(dummy, "features/" + std::to_string(i), w.parameters.features[i].get());
      wanted_surface_key.clear();
      if (wanted_surface == nullptr) return "error no-such-surface";
      double px = rd(in), py = rd(in);
      auto r = wanted_surface->local_value(Point<2>(px, py, cs == "s" ? spherical : cartesian));
      return vec({r.interpolated_value});
    }
  if (cmd == "surf")
    {
      // surf <c|s> ntri (9 doubles)* nnodes (idx x y)* px py   : Surface::local_value on given data
      std::string cs; in >> cs;
      Objects::Surface s;
      s.constant_value = false;
      size_t nt; in >> nt;
      s.triangles.resize(nt);
      for (auto &t : s.triangles) for (int a = 0; a < 3; ++a) for (int b = 0; b < 3; ++b) t[a][b] = rd(in);
      size_t nn; in >> nn;
      std::vector<KDTree::Node> nodes;
      for (size_t i = 0; i < nn; ++i) { size_t idx; in >> idx; double x = rd(in), y = rd(in); nodes.emplace_back(idx, x, y); }
      s.tree = KDTree::KDTree(nodes);
      s.in_triangle_precomputed.resize(nt);
      for (size_t iii = 0; iii < nt; iii++)
        {
          auto &triangles = s.triangles; auto &pre = s.in_triangle_precomputed;
          pre[iii][0] = triangles[iii][0][1]*triangles[iii][2][0] - triangles[iii][0][0]*triangles[iii][2][1];
          pre[iii][1] = triangles[iii][2][1] - triangles[iii][0][1];
          pre[iii][2] = triangles[iii][0][0] - triangles[iii][2][0];
          pre[iii][3] = triangles[iii][0][0]*triangles[iii][1][1] - triangles[iii][0][1]*triangles[iii][1][0];
          pre[iii][4] = triangles[iii][0][1] - triangles[iii][1][1];
          pre[iii][5] = triangles[iii][1][0] - triangles[iii][0][0];
          pre[iii][6] = -(-triangles[iii][1][1]*triangles[iii][2][0] + triangles[iii][0][1]*(-triangles[iii][1][0] + triangles[iii][2][0]) + triangles[iii][0][0]*(triangles[iii][1][1] - triangles[iii][2][1]) + triangles[iii][1][0]*triangles[iii][2][1]);
          pre[iii][7] = 1./pre[iii][6];
        }
      double px = rd(in), py = rd(in);
      auto r = s.local_value(Point<2>(px, py, cs == "s" ? spherical : cartesian));
      return vec({r.interpolated_value});
    }
  // ---- C and C++ wrappers ---------------------------------------------------------------------
  if (cmd == "cworld")
    {
      // cworld <slot> <file> <has_dir: 0|1|null> <dir|null> <seed>
      int slot; std::string file, hd, dir; unsigned long seed;
      in >> slot >> file >> hd >> dir >> seed;
      file = unesc(file); dir = unesc(dir);
      bool has = hd == "1";
      void *ptr = nullptr;
      if (cworlds.count(slot)) { release_world(cworlds[slot]); cworlds.erase(slot); }
      create_world(&ptr, file.c_str(), hd == "null" ? nullptr : &has, dir == "null" ? nullptr : dir.c_str(), seed);
      cworlds[slot] = ptr;
      return "ok";
    }
  if (cmd == "cfree") { int slot; in >> slot; if (cworlds.count(slot)) { release_world(cworlds[slot]); cworlds.erase(slot); } return "ok"; }
  if (cmd == "wworld")
    {
      int slot; std::string file, hd, dir; unsigned long seed;
      in >> slot >> file >> hd >> dir >> seed;
      file = unesc(file); dir = unesc(dir);
      cppworlds.erase(slot);
      cppworlds[slot] = std::unique_ptr<wrapper_cpp::WorldBuilderWrapper>(new wrapper_cpp::WorldBuilderWrapper(file, hd == "1", dir == "null" ? "" : dir, seed));
      return "ok";
    }
  if (cmd == "nworld")
    {
      // native world with all constructor arguments
      int slot; std::string file, hd, dir; unsigned long seed;
      in >> slot >> file >> hd >> dir >> seed;
      file = unesc(file); dir = unesc(dir);
      worlds.erase(slot);
      worlds[slot] = std::unique_ptr<World>(new World(file, hd == "1", dir == "null" ? "" : dir, seed));
      return "ok";
    }
  if (cmd == "csize" || cmd == "cp3" || cmd == "cp2")
    {
      int slot; in >> slot;
      double x = 0, y = 0, z = 0, depth = 0;
      if (cmd == "cp3") { x = rd(in); y = rd(in); z = rd(in); depth = rd(in); }
      if (cmd == "cp2") { x = rd(in); z = rd(in); depth = rd(in); }
      auto ps = rd_props(in);
      std::vector<unsigned int> flat(ps.size()*3 + 3);
      for (size_t i = 0; i < ps.size(); ++i) { flat[3*i] = ps[i][0]; flat[3*i+1] = ps[i][1]; flat[3*i+2] = ps[i][2]; }
      auto arr = reinterpret_cast<const unsigned int (*)[3]>(flat.data());
      unsigned int n = properties_output_size(cworlds.at(slot), arr, static_cast<unsigned int>(ps.size()));
      if (cmd == "csize") return "ok " + std::to_string(n);
      std::vector<double> values(n + 4, -777.0);
      if (cmd == "cp3") properties_3d(cworlds.at(slot), x, y, z, depth, arr, static_cast<unsigned int>(ps.size()), values.data());
      else properties_2d(cworlds.at(slot), x, z, depth, arr, static_cast<unsigned int>(ps.size()), values.data());
      for (size_t k = n; k < values.size(); ++k) if (values[k] != -777.0) return "bad wrote-past-the-end";
      values.resize(n);
      return vec(values);
    }
  if (cmd == "ct3" || cmd == "cc3" || cmd == "wt3" || cmd == "wc3")
    {
      int slot; in >> slot;
      double x = rd(in), y = rd(in), z = rd(in), depth = rd(in), out = -777.0;
      unsigned int c = 0; if (cmd[1] == 'c') in >> c;
      if (cmd == "ct3") temperature_3d(cworlds.at(slot), x, y, z, depth, &out);
      if (cmd == "cc3") composition_3d(cworlds.at(slot), x, y, z, depth, c, &out);
      if (cmd == "wt3") out = cppworlds.at(slot)->temperature_3d(x, y, z, depth);
      if (cmd == "wc3") out = cppworlds.at(slot)->composition_3d(x, y, z, depth, c);
      return vec({out});
    }
  if (cmd == "ct2" || cmd == "cc2" || cmd == "wt2" || cmd == "wc2")
    {
      int slot; in >> slot;
      double x = rd(in), z = rd(in), depth = rd(in), out = -777.0;
      unsigned int c = 0; if (cmd[1] == 'c') in >> c;
      if (cmd == "ct2") temperature_2d(cworlds.at(slot), x, z, depth, &out);
      if (cmd == "cc2") composition_2d(cworlds.at(slot), x, z, depth, c, &out);
      if (cmd == "wt2") out = cppworlds.at(slot)->temperature_2d(x, z, depth);
      if (cmd == "wc2") out = cppworlds.at(slot)->composition_2d(x, z, depth, c);
      return vec({out});
    }
  if (cmd == "mt")
    {
      // mt <slot> <T> <n> (x y z depth)*n <props>: every thread issues all n queries concurrently
      // (thread t starts at query t); the answers must equal the sequential ones
      int slot; size_t T, n; in >> slot >> T >> n;
      std::vector<std::array<double,4>> qs(n);
      for (auto &q : qs) { q[0] = rd(in); q[1] = rd(in); q[2] = rd(in); q[3] = rd(in); }
      auto ps = rd_props(in);
      const World &w = *worlds.at(slot);
      auto ask = [&](size_t i) -> std::vector<double>
      {
        try { return w.properties(std::array<double,3>{{qs[i][0], qs[i][1], qs[i][2]}}, qs[i][3], ps); }
        catch (...) { return std::vector<double>{-12345.678}; }
      };
      std::vector<std::vector<double>> seq(n);
      for (size_t i = 0; i < n; ++i) seq[i] = ask(i);
      std::vector<int> bad(T, -1);
      std::vector<std::thread> th;
      for (size_t t = 0; t < T; ++t)
        th.emplace_back([&, t]()
        {
          for (size_t k = 0; k < n; ++k)
            {
              size_t i = (k + t) % n;
              std::vector<double> a = ask(i);
              if (a.size() != seq[i].size() || std::memcmp(a.data(), seq[i].data(), a.size()*sizeof(double)) != 0)
                { bad[t] = static_cast<int>(i); return; }
            }
        });
      for (auto &t : th) t.join();
      for (size_t t = 0; t < T; ++t) if (bad[t] >= 0) return "bad thread " + std::to_string(t) + " query " + std::to_string(bad[t]);
      return "ok same";
    }
  if (cmd == "globals")
    {
      int slot; in >> slot; World &w = *worlds.at(slot);
      std::vector<double> g = {w.potential_mantle_temperature, w.surface_temperature, w.thermal_expansion_coefficient,
                               w.specific_heat, w.thermal_diffusivity, w.parameters.gravity_model->gravity_norm(Point<3>(0,0,0,cartesian)),
                               w.force_surface_temperature ? 1. : 0., static_cast<double>(w.dim)
                              };
      if (w.dim == 2)
        {
          g.push_back(w.cross_section[0][0]); g.push_back(w.cross_section[0][1]);
          g.push_back(w.cross_section[1][0]); g.push_back(w.cross_section[1][1]);
          g.push_back(w.surface_coord_conversions[0]); g.push_back(w.surface_coord_conversions[1]);
        }
      return vec(g);
    }
  if (cmd == "draws")
    {
      // the first n draws of uniform_real_distribution<>(0,1) on mt19937 seeded like World
      unsigned long seed; size_t n; in >> seed >> n;
      std::mt19937 eng(seed);
      std::uniform_real_distribution<> dist(0.0, 1.0);
      std::vector<double> v(n);
      for (auto &x : v) x = dist(eng);
      return vec(v);
    }
  // ---- kernels -----------------------------------------------------------------------------
  if (cmd == "poly")
    {
      // poly <cs:c|s> n x1 y1 ... px py
      std::string cs; size_t n; in >> cs >> n;
      CoordinateSystem c = cs == "s" ? spherical : cartesian;
      std::vector<Point<2>> pl;
      for (size_t i = 0; i < n; ++i) { double x = rd(in), y = rd(in); pl.emplace_back(x, y, c); }
      double px = rd(in), py = rd(in);
      return std::string("ok ") + (Utilities::polygon_contains_point(pl, Point<2>(px, py, c)) ? "1" : "0");
    }
  if (cmd == "approx")
    {
      double a = rd(in), b = rd(in);
      return std::string("ok ") + (Utilities::approx(a, b) ? "1" : "0");
    }
  if (cmd == "c2s")
    {
      double x = rd(in), y = rd(in), z = rd(in);
      auto s = Utilities::cartesian_to_spherical_coordinates(Point<3>(x, y, z, cartesian));
      return vec({s[0], s[1], s[2]});
    }
  if (cmd == "s2c")
    {
      double r = rd(in), lo = rd(in), la = rd(in);
      auto c = Utilities::spherical_to_cartesian_coordinates({{r, lo, la}});
      return vec({c[0], c[1], c[2]});
    }
  if (cmd == "gc")
    {
      // great circle: gc r lon1 lat1 lon2 lat2
      double r = rd(in), lo1 = rd(in), la1 = rd(in), lo2 = rd(in), la2 = rd(in);
      CoordinateSystems::Spherical sph(nullptr);
      return vec({sph.distance_between_points_at_same_depth(Point<3>(r, lo1, la1, spherical), Point<3>(r, lo2, la2, spherical))});
    }
  if (cmd == "bez" || cmd == "bezcp" || cmd == "bezev")
    {
      // bez <c|s> n x y ...            -> angles, control points
      // bezcp <c|s> n x y ... px py    -> found distance fraction index pointx pointy normalx normaly
      // bezev <c|s> n x y ... i t      -> point
      std::string cs; size_t n; in >> cs >> n;
      CoordinateSystem c = cs == "s" ? spherical : cartesian;
      std::vector<Point<2>> pl;
      for (size_t i = 0; i < n; ++i) { double x = rd(in), y = rd(in); pl.emplace_back(x, y, c); }
      Objects::BezierCurve bc(pl);
      if (cmd == "bez")
        {
          std::vector<double> out;
          for (double a : bc.angles) out.push_back(a);
          for (auto &cp : bc.control_points) { out.push_back(cp[0][0]); out.push_back(cp[0][1]); out.push_back(cp[1][0]); out.push_back(cp[1][1]); }
          return vec(out);
        }
      if (cmd == "bezev")
        {
          size_t i; in >> i; double t = rd(in);
          Point<2> p = bc(i, t);
          return vec({p[0], p[1]});
        }
      double px = rd(in), py = rd(in);
      Objects::ClosestPointOnCurve r = bc.closest_point_on_curve_segment(Point<2>(px, py, c));
      return vec({r.distance, r.parametric_fraction, static_cast<double>(r.index), r.point[0], r.point[1], r.normal[0], r.normal[1]});
    }
  if (cmd == "kd" || cmd == "kdq" || cmd == "kds")
    {
      // kds: the query point carries the spherical tag, as Objects::Surface hands it over in spherical worlds
      const CoordinateSystem qcs = cmd == "kds" ? spherical : cartesian;
      // kd n x y ... px py  -> node order (index x y)* then min_index min_distance visited(index dist)*
      size_t n; in >> n;
      std::vector<KDTree::Node> nodes;
      for (size_t i = 0; i < n; ++i) { double x = rd(in), y = rd(in); nodes.emplace_back(i, x, y); }
      KDTree::KDTree tree(nodes);
      tree.create_tree(0, nodes.size()-1, false);
      double px = rd(in), py = rd(in);
      KDTree::IndexDistances r = tree.find_closest_points(Point<2>(px, py, qcs));
      std::string s = "ok";
      if (cmd == "kd" || cmd == "kds")
        {
          for (auto &nd : tree.get_nodes()) { s += " " + std::to_string(nd.index) + " " + hx(nd.x) + " " + hx(nd.y); }
          s += " |";
        }
      s += " " + std::to_string(r.min_index) + " " + hx(r.min_distance);
      for (auto &v : r.vector) s += " " + std::to_string(v.index) + " " + hx(v.distance);
      return s;
    }
  if (cmd == "kd1" || cmd == "kd1s")
    {
      // kd1 n x y ... px py  -> index and distance of KDTree::find_closest_point (the single-answer search)
      size_t n; in >> n;
      std::vector<KDTree::Node> nodes;
      for (size_t i = 0; i < n; ++i) { double x = rd(in), y = rd(in); nodes.emplace_back(i, x, y); }
      KDTree::KDTree tree(nodes);
      tree.create_tree(0, nodes.size()-1, false);
      double px = rd(in), py = rd(in);
      KDTree::IndexDistance r = tree.find_closest_point(Point<2>(px, py, cmd == "kd1s" ? spherical : cartesian));
      const auto &nd = tree.get_nodes()[r.index];
      return "ok " + hx(static_cast<double>(nd.index)) + " " + hx(r.distance) + " " + hx(nd.x) + " " + hx(nd.y);
    }
  return "unknown-command";
}

int main(int argc, char **argv)
{
  std::ios::sync_with_stdio(false);
  std::istream *inp = &std::cin;
  std::ifstream f;
  if (argc > 1) { f.open(argv[1]); inp = &f; }
  std::string line;
  size_t n = 0;
  while (std::getline(*inp, line))
    {
      if (line.empty() || line[0] == '%') continue;
      std::string r;
      try { r = run(line); }
      catch (const std::exception &e) { r = std::string("throw ") + sanitize(e.what()); }
      catch (...) { r = "throw unknown"; }
      std::cout << n << ' ' << r << '\n';
      ++n;
    }
  std::cout.flush();
  return 0;
}
