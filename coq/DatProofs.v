(** * DatProofs: which answer slot each gwb-dat column shows. *)
From Coq Require Import List Arith NArith Lia PeanoNat Bool.
From WB Require Import Props Dat.
Import ListNotations.
Local Open Scope nat_scope.

Lemma prop_offset_seq_miss (f : nat -> prop_req) w rest p : 
  (forall i, width (f i) = w) -> (forall i, prop_eqb (f i) p = false) ->
  forall n s acc, prop_offset (map f (seq s n) ++ rest) p acc = prop_offset rest p (acc + n * w).
Proof.
  intros Hw Hm. induction n as [|n IH]; intros s acc; cbn [seq map app prop_offset].
  - f_equal. lia.
  - rewrite Hm, Hw, IH. f_equal. lia.
Qed.

Lemma prop_offset_seq_hit (f : nat -> prop_req) w rest c :
  (forall i, width (f i) = w) -> (forall i, prop_eqb (f i) (f c) = Nat.eqb i c) ->
  forall n s acc, s <= c < s + n -> prop_offset (map f (seq s n) ++ rest) (f c) acc = Some (acc + (c - s) * w).
Proof.
  intros Hw Hm. induction n as [|n IH]; intros s acc Hc; [lia|].
  cbn [seq map app prop_offset]. rewrite Hm. destruct (Nat.eqb_spec s c) as [->|Hne].
  - f_equal. rewrite Nat.sub_diag. lia.
  - rewrite Hw, IH by lia. f_equal. replace (c - s) with (S (c - S s)) by lia. lia.
Qed.

Lemma N_of_nat_eqb i c : N.eqb (N.of_nat i) (N.of_nat c) = Nat.eqb i c.
Proof.
  destruct (Nat.eqb_spec i c) as [->|H]; [apply N.eqb_refl|].
  apply N.eqb_neq. intros E. apply H. now apply Nat2N.inj.
Qed.

Section Offsets.
  Variable o : dat_options.
  Let comps := do_comps o.
  Let gcs := do_gcomps o.
  Let ng := do_ngrains o.
  Let fc := fun c => PComp (N.of_nat c).
  Let fg := fun gc => PGrains (N.of_nat gc) (N.of_nat ng).

  Lemma wfc i : width (fc i) = 1. Proof. reflexivity. Qed.
  Lemma wfg i : width (fg i) = ng * 10. Proof. unfold fg. cbn [width]. now rewrite Nat2N.id. Qed.

  Lemma off_temp : prop_offset (dat_properties o) PTemp 0 = Some 0. Proof. reflexivity. Qed.
  Lemma off_vel : prop_offset (dat_properties o) PVel 0 = Some 1. Proof. reflexivity. Qed.

  Lemma off_comp c : c < comps -> prop_offset (dat_properties o) (PComp (N.of_nat c)) 0 = Some (4 + c).
  Proof.
    intros H. unfold dat_properties. cbn [app prop_offset prop_eqb width Nat.add].
    fold comps. change (PComp (N.of_nat c)) with (fc c).
    rewrite (prop_offset_seq_hit fc 1 _ c wfc) by (try lia; intros i; apply N_of_nat_eqb). f_equal. lia.
  Qed.

  Lemma off_grains gc : gc < gcs -> prop_offset (dat_properties o) (PGrains (N.of_nat gc) (N.of_nat ng)) 0 = Some (4 + comps + gc * (ng * 10)).
  Proof.
    intros H. unfold dat_properties. cbn [app prop_offset prop_eqb width Nat.add].
    fold comps gcs ng. change (PGrains (N.of_nat gc) (N.of_nat ng)) with (fg gc).
    rewrite (prop_offset_seq_miss fc 1 _ (fg gc) wfc) by reflexivity.
    rewrite (prop_offset_seq_hit fg (ng * 10) _ gc wfg).
    - f_equal. lia.
    - intros i. unfold fg. cbn [prop_eqb]. rewrite N_of_nat_eqb, N.eqb_refl. apply andb_true_r.
    - lia.
  Qed.

  Lemma off_tag : prop_offset (dat_properties o) PTag 0 = Some (4 + comps + gcs * (ng * 10)).
  Proof.
    unfold dat_properties. cbn [app prop_offset prop_eqb width Nat.add]. fold comps gcs ng.
    rewrite (prop_offset_seq_miss fc 1 _ PTag wfc) by reflexivity.
    rewrite (prop_offset_seq_miss fg (ng * 10) _ PTag wfg) by reflexivity.
    cbn [prop_offset prop_eqb]. f_equal. lia.
  Qed.

  Lemma size_props : output_size (dat_properties o) = 4 + comps + gcs * (ng * 10) + 1.
  Proof.
    unfold dat_properties. rewrite !output_size_app. fold comps gcs ng.
    assert (A : forall n s, output_size (map fc (seq s n)) = n).
    { induction n as [|n IH]; intros s; [reflexivity|]. cbn [seq map]. rewrite output_size_cons, IH. reflexivity. }
    assert (B : forall n s, output_size (map fg (seq s n)) = n * (ng * 10)).
    { induction n as [|n IH]; intros s; [reflexivity|]. cbn [seq map]. rewrite output_size_cons, IH, wfg. lia. }
    fold fc fg. rewrite A, B. change (output_size [PTemp; PVel]) with 4. change (output_size [PTag]) with 1. lia.
  Qed.
End Offsets.

(** 3-D: apart from the header's "g" column (which names no value of the library), every printed
    cell is the value its header names, for every number of compositions, grain sets and grains *)
Theorem dat_columns_3d (o : dat_options) :
  do_dim o <> 2 ->
  map (col_cell o) (filter (fun c => match c with CG => false | _ => true end) (dat_header o)) =
  map Some (map (fun c => match c with Echo 3 => Echo (do_dim o) | c => c end) (dat_row o (output_size (dat_properties o)))).
Proof.
  intros Hd. unfold dat_header, dat_row. destruct (Nat.eqb_spec (do_dim o) 2) as [E|_]; [contradiction|].
  rewrite !filter_app, !map_app.
  assert (filter_id : forall (P : col -> bool) l, (forall x, In x l -> P x = true) -> filter P l = l).
  { intros P l. induction l as [|a l IH]; intros H; [reflexivity|]. cbn [filter]. rewrite (H a (or_introl eq_refl)).
    f_equal. apply IH. intros x Hx. apply H. right; exact Hx. }
  assert (FC : filter (fun c => match c with CG => false | _ => true end) (map CComp (seq 0 (do_comps o))) = map CComp (seq 0 (do_comps o))).
  { apply filter_id. intros x Hx. apply in_map_iff in Hx. destruct Hx as (c & <- & _). reflexivity. }
  assert (FG : filter (fun c => match c with CG => false | _ => true end) (grain_cols o) = grain_cols o).
  { apply filter_id. intros x Hx. unfold grain_cols in Hx. apply in_flat_map in Hx. destruct Hx as (gc & _ & Hx).
    apply in_flat_map in Hx. destruct Hx as (g & _ & Hx). destruct Hx as [<-|Hx]; [reflexivity|].
    apply in_map_iff in Hx. destruct Hx as (k & <- & _). reflexivity. }
  rewrite FC, FG. cbn [filter map app].
  unfold col_cell at 1 2 3 4 5 6 7 8. destruct (Nat.eqb_spec (do_dim o) 2) as [E|_]; [contradiction|].
  rewrite off_temp, off_vel. cbn [option_map Nat.add].
  repeat (f_equal; []).
  f_equal; [|f_equal].
  - (* compositions *)
    rewrite !map_map. apply map_ext_in. intros c Hc. apply in_seq in Hc. unfold col_cell. rewrite off_comp by lia. reflexivity.
  - (* grains *)
    unfold grain_cols, grain_cells. rewrite !flat_map_concat_map, !concat_map, !map_map. f_equal.
    apply map_ext_in. intros gc Hgc. apply in_seq in Hgc.
    rewrite !flat_map_concat_map, !concat_map, !map_map. f_equal.
    apply map_ext_in. intros g Hg. cbn [map]. unfold col_cell at 1. rewrite off_grains by lia. cbn [option_map].
    f_equal; [f_equal; f_equal; lia|].
    rewrite !map_map. apply map_ext_in. intros k Hk. unfold col_cell. rewrite off_grains by lia. cbn [option_map]. f_equal. f_equal. lia.
  - (* tag *)
    cbn [map]. unfold col_cell. rewrite off_tag, size_props. cbn [option_map]. f_equal. f_equal. f_equal. lia.
Qed.
