(** * Dat: gwb-dat (source/gwb-dat/main.cc): option lines, property list, header and row layout. *)
From Coq Require Import List Arith NArith Lia PeanoNat Bool String.
From WB Require Import Props.
Import ListNotations.
Local Open Scope nat_scope.

(** ** option lines ('#' lines of the data file, split into tokens) *)
Record dat_options := { do_dim : nat; do_comps : nat; do_gcomps : nat; do_ngrains : nat; do_convert : bool }.
Definition dat_defaults : dat_options :=
  {| do_dim := 3; do_comps := 0; do_gcomps := 0; do_ngrains := 0; do_convert := false |}.

(** tokens are abstract: a token is either a keyword we recognise or a number *)
Inductive tok := THash | TDim | TCompositions | TGrain | TNumber | TOf | TGrains | TConvert | TSpherical | TEq | TTrue
               | TNum (n : nat) | TOther.

Definition tok_num (t : tok) : nat := match t with TNum n => n | _ => 0 end.

(** one line; [None] marks an access past the end of the token vector (undefined behaviour in C++) *)
Definition dat_option_line (o : dat_options) (l : list tok) : dat_options :=
  match l with
  | THash :: TDim :: TEq :: v :: _ =>
      {| do_dim := tok_num v; do_comps := do_comps o; do_gcomps := do_gcomps o; do_ngrains := do_ngrains o; do_convert := do_convert o |}
  | THash :: TCompositions :: TEq :: v :: _ =>
      {| do_dim := do_dim o; do_comps := tok_num v; do_gcomps := do_gcomps o; do_ngrains := do_ngrains o; do_convert := do_convert o |}
  | THash :: TGrain :: TCompositions :: TEq :: v :: _ =>
      {| do_dim := do_dim o; do_comps := do_comps o; do_gcomps := tok_num v; do_ngrains := do_ngrains o; do_convert := do_convert o |}
  | THash :: TNumber :: TOf :: TGrains :: TEq :: v :: _ =>
      {| do_dim := do_dim o; do_comps := do_comps o; do_gcomps := do_gcomps o; do_ngrains := tok_num v; do_convert := do_convert o |}
  | THash :: TConvert :: TSpherical :: TEq :: TTrue :: _ =>
      {| do_dim := do_dim o; do_comps := do_comps o; do_gcomps := do_gcomps o; do_ngrains := do_ngrains o; do_convert := true |}
  | _ => o
  end.

Definition dat_options_of (lines : list (list tok)) : dat_options := fold_left dat_option_line lines dat_defaults.

(** ** the request (main.cc:183-199) *)
Definition dat_properties (o : dat_options) : list prop_req :=
  [PTemp; PVel] ++ map (fun c => PComp (N.of_nat c)) (seq 0 (do_comps o))
  ++ map (fun gc => PGrains (N.of_nat gc) (N.of_nat (do_ngrains o))) (seq 0 (do_gcomps o)) ++ [PTag].

(** ** header and rows *)
Inductive col := CX | CY | CZ | CD | CG | CT | CVx | CVy | CVz | CComp (c : nat) | CGs (gc g : nat) | CGm (gc g k : nat) | CTag.
(** a printed cell: the i-th token of the input row echoed, or the i-th value of the library's answer *)
Inductive cell := Echo (i : nat) | Val (i : nat).

Definition grain_cols (o : dat_options) : list col :=
  flat_map (fun gc => flat_map (fun g => CGs gc g :: map (CGm gc g) (seq 0 9)) (seq 0 (do_ngrains o))) (seq 0 (do_gcomps o)).

Definition dat_header (o : dat_options) : list col :=
  (if Nat.eqb (do_dim o) 2 then [CX; CZ; CD; CT; CVx; CVz] else [CX; CY; CZ; CD; CG; CT; CVx; CVy; CVz])
  ++ map CComp (seq 0 (do_comps o)) ++ grain_cols o ++ [CTag].

Definition grain_cells (o : dat_options) (base : nat) : list cell :=
  flat_map (fun gc =>
              let start := base + do_comps o + gc * do_ngrains o * 10 in
              flat_map (fun g => Val (start + g) :: map (fun k => Val (start + do_ngrains o + g * 9 + k)) (seq 0 9))
                       (seq 0 (do_ngrains o)))
           (seq 0 (do_gcomps o)).

(** the cells of a data row as the code prints them; [size] is the length of the answer *)
Definition dat_row (o : dat_options) (size : nat) : list cell :=
  if Nat.eqb (do_dim o) 2 then
    [Echo 0; Echo 1; Echo 2; Val 0; Val 1; Val 2]
    ++ map (fun c => Val (3 + c)) (seq 0 (do_comps o)) ++ grain_cells o 3 ++ [Val (size - 1)]
  else
    [Echo 0; Echo 1; Echo 2; Echo 3; Val 0; Val 1; Val 2; Val 3]
    ++ map (fun c => Val (4 + c)) (seq 0 (do_comps o)) ++ grain_cells o 4 ++ [Val (size - 1)].

(** malformed rows: a data row must have dim+1 tokens, otherwise the tool throws *)
Definition dat_row_accepted (o : dat_options) (ntokens : nat) : bool := Nat.eqb ntokens (do_dim o + 1).

(** ** what a header name means, written from the request list alone *)
Definition prop_eqb (a b : prop_req) : bool :=
  match a, b with
  | PTemp, PTemp | PTag, PTag | PVel, PVel => true
  | PComp x, PComp y => N.eqb x y
  | PGrains x k, PGrains y l => N.eqb x y && N.eqb k l
  | _, _ => false
  end.

(** offset of the (first) block of request [p] in the answer to [ps] *)
Fixpoint prop_offset (ps : list prop_req) (p : prop_req) (acc : nat) : option nat :=
  match ps with
  | [] => None
  | q :: r => if prop_eqb q p then Some acc else prop_offset r p (acc + width q)
  end.

Definition col_cell (o : dat_options) (c : col) : option cell :=
  let ps := dat_properties o in
  let off p := prop_offset ps p 0 in
  let grains gc := PGrains (N.of_nat gc) (N.of_nat (do_ngrains o)) in
  match c with
  | CX => Some (Echo 0)
  | CY => if Nat.eqb (do_dim o) 2 then None else Some (Echo 1)
  | CZ => Some (Echo (if Nat.eqb (do_dim o) 2 then 1 else 2))
  | CD => Some (Echo (do_dim o))
  | CG => None                                        (* no value of the library is a "g" *)
  | CT => option_map Val (off PTemp)
  | CVx => option_map Val (off PVel)
  | CVy => if Nat.eqb (do_dim o) 2 then None else option_map (fun i => Val (i + 1)) (off PVel)
  | CVz => option_map (fun i => Val (i + (if Nat.eqb (do_dim o) 2 then 1 else 2))) (off PVel)
  | CComp c => option_map Val (off (PComp (N.of_nat c)))
  | CGs gc g => option_map (fun i => Val (i + g)) (off (grains gc))
  | CGm gc g k => option_map (fun i => Val (i + do_ngrains o + g * 9 + k)) (off (grains gc))
  | CTag => option_map Val (off PTag)
  end.
