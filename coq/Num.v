(** * Num: the number interface of the model.

    Every definition of the model is polymorphic in a type [F] of "doubles"
    with the operations below.  Three interpretations are used:
    - the OCaml dictionary built by [ocaml/driver.ml] (binary64, glibc libm):
      the one that is run against the C++ in the correspondence check;
    - [Rnum] (file RNum.v): exact reals, under which [R] theorems are proved;
    - any other instance: [S] (structural) theorems are proved for every
      instance, hence also for the binary64 one. *)
From Coq Require Import ZArith Bool List.
Import ListNotations.

Class Num (F : Type) := {
  f0 : F; f1 : F;
  fadd : F -> F -> F; fsub : F -> F -> F; fmul : F -> F -> F; fdiv : F -> F -> F;
  fopp : F -> F; fabs : F -> F; fsqrt : F -> F;
  fexp : F -> F; fsin : F -> F; fcos : F -> F; ftan : F -> F;
  facos : F -> F; fasin : F -> F; ftanh : F -> F; ferfc : F -> F;
  ffloor : F -> F; flog : F -> F; flog10 : F -> F;
  fatan2 : F -> F -> F; fpow : F -> F -> F; ffmod : F -> F -> F;
  flt : F -> F -> bool; fle : F -> F -> bool; feqb : F -> F -> bool;
  fofZ : Z -> F;              (* exact conversion of an integer *)
  fdec : Z -> Z -> F;         (* decimal literal  m * 10^e, correctly rounded *)
  feps : F;                   (* std::numeric_limits<double>::epsilon() *)
  fdmin : F;                  (* std::numeric_limits<double>::min() *)
  fdmax : F;                  (* std::numeric_limits<double>::max() *)
  fpi : F;                    (* Consts::PI *)
  fnan : F;                   (* a quiet/signalling NaN *)
  fisfinite : F -> bool
}.

Declare Scope num_scope.
Delimit Scope num_scope with F.
Infix "+" := fadd : num_scope.
Infix "-" := fsub : num_scope.
Infix "*" := fmul : num_scope.
Infix "/" := fdiv : num_scope.
Notation "- x" := (fopp x) : num_scope.
Infix "<?" := flt : num_scope.
Infix "<=?" := fle : num_scope.
Notation "x >? y" := (flt y x) (only parsing) : num_scope.
Notation "x >=? y" := (fle y x) (only parsing) : num_scope.

Section Derived.
  Context {F : Type} {NF : Num F}.
  Local Open Scope num_scope.

  (** [std::min(a,b)] is [(b < a) ? b : a];  [std::max(a,b)] is [(a < b) ? b : a]. *)
  Definition fmin (a b : F) : F := if b <? a then b else a.
  Definition fmax (a b : F) : F := if a <? b then b else a.
  Definition f2 : F := fofZ 2.
  Definition fhalf : F := fdec 5 (-1).
  Definition fsq (x : F) : F := x * x.     (* std::pow(x,2) is compiled to x*x *)
End Derived.
