(** * C11 - depth surfaces given at points are honoured, affine-exact and bounded ([R] theorems). *)
From Coq Require Import Reals Lra List ZArith Bool.
From WB Require Import Num Base RNum Kernels SurfaceProofs SurfaceLookup.
Import ListNotations.
Local Open Scope R_scope.

Section C11.
  Variable sp : special.
  Local Existing Instance Rnum.
  Let N := Rnum sp.

  (** the interpolated depth is the barycentric combination of the three nodal values *)
  Theorem C11_value : forall (t : @tri R) p v,
    tri_det t <> 0 -> @in_triangle R N t p = Some v ->
    let '((_, _, v0), (_, _, v1), (_, _, v2)) := t in
    v = v0 * (1 - bary_s t p - bary_t t p) + v1 * bary_s t p + v2 * bary_t t p.
  Proof. exact (in_triangle_value sp). Qed.

  (** everywhere inside a triangle it lies between the smallest and largest nodal value *)
  Theorem C11_bounds : forall v0 v1 v2 s t lo hi,
    0 <= s -> 0 <= t -> s + t <= 1 ->
    lo <= v0 <= hi -> lo <= v1 <= hi -> lo <= v2 <= hi ->
    lo <= v0 * (1 - s - t) + v1 * s + v2 * t <= hi.
  Proof. exact interpolation_bounded. Qed.

  (** at a node it is the nodal value (barycentric coordinates (0,0), (1,0), (0,1)) *)
  Theorem C11_node : forall (t : @tri R),
    tri_det t <> 0 ->
    let '((x0, y0, _), (x1, y1, _), (x2, y2, _)) := t in
    (bary_s t (x0, y0) = 0 /\ bary_t t (x0, y0) = 0) /\
    (bary_s t (x1, y1) = 1 /\ bary_t t (x1, y1) = 0) /\
    (bary_s t (x2, y2) = 0 /\ bary_t t (x2, y2) = 1).
  Proof. exact interpolation_nodal. Qed.

  (** no point of a closed triangle is turned away: over exact reals the point-in-triangle test accepts every point with
      barycentric coordinates s, t >= 0, s + t <= 1 (its tolerances are non-negative); the triangles come clockwise in the
      surface coordinates (tri_det < 0), which lib/cases.py checks on every triangulation the implementation builds.
      In binary64 the tolerances must also exceed the rounding error of the sums they guard: defect D33 was a tolerance that
      did not, for small triangles far from the origin. *)
  Theorem C11_no_point_of_a_triangle_is_missed : forall (t : @tri R) (p : R * R),
    tri_det t < 0 -> 0 <= bary_s t p -> 0 <= bary_t t p -> bary_s t p + bary_t t p <= 1 ->
    exists v, @in_triangle R N t p = Some v.
  Proof. exact (in_triangle_complete sp). Qed.

  (** affine data are reproduced exactly by every non-degenerate triangle: whatever triangulation *)
  Theorem C11_affine : forall (t : @tri R) p A B C v,
    tri_det t <> 0 ->
    (let '((x0, y0, v0), (x1, y1, v1), (x2, y2, v2)) := t in
     v0 = A * x0 + B * y0 + C /\ v1 = A * x1 + B * y1 + C /\ v2 = A * x2 + B * y2 + C) ->
    @in_triangle R N t p = Some v ->
    v = A * fst p + B * snd p + C.
  Proof. exact (interpolation_affine sp). Qed.

  (** merging a listed point: it carries the listed value afterwards (replacing the default of a
      corner it coincides with), every other node keeps its value *)
  Theorem C11_merge_listed : forall acc p v,
    (forall a, In a (map snd acc) -> (@approx R N (fst a) (fst p) && @approx R N (snd a) (snd p) = true <-> a = p)) ->
    In (v, p) (@merge_point R N v acc p) /\
    (forall w q, q <> p -> In (w, q) acc -> In (w, q) (@merge_point R N v acc p)).
  Proof. exact (merge_point_sets_value sp). Qed.

  (** known finding D8: with the strict '<' of [approx] a point with a zero coordinate is never
      identified with itself, so a value listed for a corner such as (0,0) does NOT replace the
      corner's default: the faithful model keeps the old node and appends a duplicate. *)
  Theorem C11_corner_override_refuted :
    exists (acc : list (R * (R * R))) (p : R * R) (d v : R),
      d <> v /\ In (d, p) acc /\ In (d, p) (@merge_point R N v acc p) /\
      length (@merge_point R N v acc p) = S (length acc).
  Proof.
    exists [(1, (0, 0))], (0, 0), 1, 2.
    assert (A : @approx R N 0 0 = false).
    { unfold approx, fmin. change (@flt R N) with Rltb. change (@fabs R N) with Rabs. change (@fsub R N) with Rminus.
      change (@fmul R N) with Rmult.
      destruct (Rltb_spec 0 0) as [H|_]; [lra|].
      replace (0 - 0) with 0 by ring. rewrite Rabs_R0, !Rmult_0_l.
      destruct (Rltb_spec 0 0) as [H|_]; [lra|reflexivity]. }
    unfold merge_point. cbn [find_same fst snd]. rewrite A. cbn [andb app length].
    repeat split; [lra | left; reflexivity | left; reflexivity].
  Qed.
End C11.

(** the triangle search of [Surface::local_value], for every number interpretation (binary64 included): whichever route
    (nearest centroid, its longitude alias, the other kd candidates, the last-resort loop over all nodes) produces the answer,
    it is the value [in_triangle] computes for one triangle of the surface at the point or at its alias - containment and
    interpolation always belong to the same triangle - and the search fails only if no triangle accepts the point *)
Section C11_lookup.
  Context {F : Type} {N : Num F}.

  Theorem C11_lookup_answers_from_one_triangle : forall (s : @dsurf F) sph p v,
    ds_const s = false -> surface_local_value s sph p = Some v ->
    exists k p0, (p0 = p \/ (sph = true /\ p0 = alias_point p)) /\
                 in_triangle (nth k (ds_tris s) tri_default) p0 = Some v.
  Proof. exact surface_lookup_sound. Qed.

  Theorem C11_lookup_never_loses_a_triangle : forall (s : @dsurf F) sph p nd,
    ds_const s = false -> In nd (ds_nodes s) ->
    (in_triangle (nth (kd_index nd) (ds_tris s) tri_default) p <> None \/
     (sph = true /\ in_triangle (nth (kd_index nd) (ds_tris s) tri_default) (alias_point p) <> None)) ->
    surface_local_value s sph p <> None.
  Proof. exact surface_lookup_complete. Qed.

  Theorem C11_constant_surface : forall (s : @dsurf F) sph p,
    ds_const s = true -> surface_local_value s sph p = Some (ds_min s).
  Proof. exact surface_lookup_constant. Qed.
End C11_lookup.

Print Assumptions C11_value.
Print Assumptions C11_bounds.
Print Assumptions C11_node.
Print Assumptions C11_affine.
Print Assumptions C11_no_point_of_a_triangle_is_missed.
Print Assumptions C11_merge_listed.
Print Assumptions C11_corner_override_refuted.
Print Assumptions C11_lookup_answers_from_one_triangle.
Print Assumptions C11_lookup_never_loses_a_triangle.
Print Assumptions C11_constant_surface.
