(** * SlabModel: Utilities::distance_point_from_curved_planes (utilities.cc:379-1038), Cartesian worlds.

    A faithful transcription, operation by operation (the correspondence check compares the distances
    bit for bit with World::distance_to_plane).  Spherical worlds are not modelled: the spherical
    closest-point search of the trench curve is not in Bezier.v. *)
From Coq Require Import ZArith List Bool.
From WB Require Import Num Base Props World Kernels Bezier.
Import ListNotations.

Section SlabModel.
  Context {F : Type} {NF : Num F}.
  Local Open Scope num_scope.

  Local Notation vec3 := (@vec3 F).
  Local Notation pt2 := (@pt2 F).
  Definition finf : F := f1 / f0.
  Definition fisnan (x : F) : bool := negb (feqb x x).

  Definition v3sub (a b : vec3) : vec3 :=
    let '(a0, a1, a2) := a in let '(b0, b1, b2) := b in (a0 - b0, a1 - b1, a2 - b2).
  Definition v3dot (a b : vec3) : F :=
    let '(a0, a1, a2) := a in let '(b0, b1, b2) := b in ((f0 + (a0 * b0)) + (a1 * b1)) + (a2 * b2).
  Definition v3norm (a : vec3) : F := let '(a0, a1, a2) := a in fsqrt (((a0 * a0) + (a1 * a1)) + (a2 * a2)).
  Definition v3scale (a : vec3) (s : F) : vec3 := let '(a0, a1, a2) := a in (a0 * s, a1 * s, a2 * s).
  (** Point::operator/ multiplies by the reciprocal *)
  Definition v3div (a : vec3) (s : F) : vec3 := v3scale a (f1 / s).

  Definition p2sub (a b : pt2) : pt2 := (fst a - fst b, snd a - snd b).
  Definition p2add (a b : pt2) : pt2 := (fst a + fst b, snd a + snd b).
  Definition p2scale (a : pt2) (s : F) : pt2 := (fst a * s, snd a * s).
  Definition p2dot (a b : pt2) : F := (f0 + (fst a * fst b)) + (snd a * snd b).
  Definition p2nsq (a : pt2) : F := (fst a * fst a) + (snd a * snd a).
  Definition p2norm (a : pt2) : F := fsqrt (p2nsq a).
  Definition p2dist (a b : pt2) : F :=
    let dx := fst a - fst b in let dy := snd a - snd b in fsqrt ((dx * dx) + (dy * dy)).

  (** Point<2>::distance for spherical points (longitude, latitude): the haversine central angle *)
  Definition p2dist_sph (a b : pt2) : F :=
    let dlon := fst b - fst a in let dlat := snd b - snd a in
    let sdt := fsin (dlat * fhalf) in let sdl := fsin (dlon * fhalf) in
    f2 * fasin (fsqrt ((sdt * sdt) + (((sdl * sdl) * fcos (snd a)) * fcos (snd b)))).

  Record plane_distances := {
    pd_distance : F; pd_along : F; pd_section_fraction : F; pd_segment_fraction : F;
    pd_section : nat; pd_segment : nat; pd_average_angle : F; pd_depth_reference : F; pd_trench : vec3
  }.

  (** DepthMethod of the coordinate system (Cartesian: none) *)
  Inductive depth_method := DMNone | DMStartingPoint | DMBeginSegment | DMBeginAtEndSegment.

  (** loop state of the segment loop *)
  Record seg_state := {
    ss_begin : pt2; ss_end : pt2; ss_total : F; ss_avg : F; ss_add : F;
    ss_ndist : F; ss_nalong : F; ss_ndepth : F;            (* new_distance, ... : keep their value across iterations *)
    ss_best : plane_distances
  }.

  Definition e8 : F := fdec 1 (-8).
  Definition e14 : F := fdec 1 (-14).
  Definition twopi : F := f2 * fpi.

  (** a straight piece (equal top and bottom dip) from [begin]: end point and, when the foot of the check point lies on
      the piece, (signed distance, distance along the piece, depth of the foot) *)
  Definition straight_piece (sr : F) (begin : pt2) (len top : F) (cp2d : pt2) : pt2 * option (F * F * F) :=
    let deg90 := fhalf * fpi in
    let e0 := fst begin + (len * fsin (deg90 - top)) in
    let e1 := snd begin - (len * fcos (deg90 - top)) in
    let endp := (e0, e1) in
    let bsp_esp := p2sub endp begin in
    let bsp_cp := p2sub cp2d begin in
    let c1 := p2dot bsp_esp bsp_cp in
    let c2 := p2dot bsp_esp bsp_esp in
    if (c1 <? f0) || (c2 <? c1) then (endp, None)
    else
      let pb := p2add begin (p2scale bsp_esp (c1 / c2)) in
      let side := if (((fst begin - fst endp) * (snd cp2d - snd begin)) - ((snd begin - snd endp) * (fst cp2d - fst begin))) <? f0
                  then - f1 else f1 in
      (endp, Some (side * p2norm (p2sub cp2d pb), p2norm (p2sub begin pb), sr - snd pb)).

  (** a circular arc (dip changing from [top] to [bottom], [diff = top - bottom]) from [begin] *)
  Definition arc_piece (sr : F) (begin : pt2) (len top bottom diff : F) (cp2d : pt2) : pt2 * option (F * F * F) :=
    let R := fabs (len / diff) in
    let cos_top := fcos top in
    let center : pt2 :=
      if fabs (top - (fhalf * fpi)) <? e8 then
        ((if f0 <? diff then fst begin + R else fst begin - R), snd begin)
      else if fabs (top - (fdec 15 (-1) * fpi)) <? e8 then
        ((if f0 <? diff then fst begin - R else fst begin + R), snd begin)
      else
        let tan_top := ftan top in
        let ccy := if diff <? f0 then snd begin - (R * cos_top) else snd begin + (R * cos_top) in
        let ccybs := ccy - snd begin in
        (fst begin + (tan_top * ccybs), ccy) in
    let bspc := p2sub begin center in
    let sd := fsin diff in let cd := fcos diff in
    let endp := (((cd * fst bspc) - (sd * snd bspc)) + fst center, ((sd * fst bspc) + (cd * snd bspc)) + snd center) in
    let cpcr := p2sub cp2d center in
    let n := p2norm cpcr in
    let dotp := (f0 + (fst cpcr * f0)) + (snd cpcr * R) in
    let cpa0 := if fabs n <? feps then twopi
                else if fst cp2d <=? fst center then facos (dotp / (n * R))
                else twopi - facos (dotp / (n * R)) in
    let cpa1 := if f0 <=? diff then fpi - cpa0 else twopi - cpa0 in
    let cpa := if fabs (cpa1 - twopi) <? e14 then f0 else cpa1 in
    let e12 := fdec 1 (-12) in
    let inside :=
      ((f0 <? diff) && ((cpa <=? top) || (fabs (cpa - top) <? e12)) && ((bottom <=? cpa) || (fabs (cpa - bottom) <? e12)))
      || ((diff <? f0) && ((top <=? cpa) || (fabs (cpa - top) <? e12)) && ((cpa <=? bottom) || (fabs (cpa - bottom) <? e12))) in
    if inside then
      let sgn := if diff <? f0 then f1 else - f1 in
      (endp, Some ((R - n) * sgn, ((R * cpa) - (R * top)) * sgn,
                   sr - (((fsin (cpa + top) * fst bspc) + (fcos (cpa + top) * snd bspc)) + snd center)))
    else (endp, None).

  (** one iteration of the segment loop; [top0 bot0 len0] belong to the current section, [top1 bot1 len1] to the next *)
  Definition segment_step (dm : depth_method) (sr frac : F) (isec : nat) (cp2d : pt2) (st : seg_state) (iseg : nat)
             (cur nxt : F * F * F) : seg_state :=
    let '(top0, bot0, len0) := cur in
    let '(top1, bot1, len1) := nxt in
    (* the angle between the previous begin and end points, seen from the centre (spherical depth methods) *)
    let uses_add := match dm with DMBeginSegment | DMBeginAtEndSegment => negb (Nat.eqb iseg 0) | _ => false end in
    let corr :=
      if uses_add then
        let inner0 := p2dot (ss_begin st) (ss_end st) / (p2norm (ss_begin st) * p2norm (ss_end st)) in
        let inner1 := if (inner0 <? f0) && (fdec (-1) (-14) <=? inner0) then f0 else inner0 in
        let inner := if (f1 <? inner1) && (inner1 <=? (f1 + e14)) then f1 else inner1 in
        facos inner
      else f0 in
    let add := if uses_add then ss_add st + corr else ss_add st in
    let begin := ss_end st in
    let top := ((top0 + (frac * (top1 - top0))) + add)
               + (match dm with DMBeginAtEndSegment => if Nat.eqb iseg 0 then f0 else - corr | _ => f0 end) in
    let bottom := (bot0 + (frac * (bot1 - bot0))) + add in
    let len := len0 + (frac * (len1 - len0)) in
    if len <? e14 then
      {| ss_begin := begin; ss_end := ss_end st; ss_total := ss_total st; ss_avg := ss_avg st; ss_add := add;
         ss_ndist := ss_ndist st; ss_nalong := ss_nalong st; ss_ndepth := ss_ndepth st; ss_best := ss_best st |}
    else
      let diff := top - bottom in
      (* (end_segment, new_distance, new_along, new_depth) *)
      let '(endp, nd, na, ndep) :=
        if fabs diff <? e8 then
          if feps <? fabs len then
            match straight_piece sr begin len top cp2d with
            | (endp, Some (a, b, c)) => (endp, a, b, c)
            | (endp, None) => (endp, finf, finf, finf)
            end
          else (ss_end st, ss_ndist st, ss_nalong st, ss_ndepth st)
        else
          match arc_piece sr begin len top bottom diff cp2d with
          | (endp, Some (a, b, c)) => (endp, a, b, c)
          | (endp, None) => (endp, ss_ndist st, ss_nalong st, ss_ndepth st)     (* the previous values stay *)
          end in
      let best := ss_best st in
      let half_sum := fhalf * ((top + bottom) - (f2 * add)) in
      let best' :=
        if (fdec (-1) (-10) <=? na) && (na <=? fabs len) && (fabs nd <? fabs (pd_distance best)) then
          let taa := (ss_avg st * ss_total st) + (half_sum * na) in
          {| pd_distance := nd; pd_along := na + ss_total st; pd_section_fraction := frac;
             pd_segment_fraction := na / len; pd_section := isec; pd_segment := iseg;
             pd_average_angle := if fabs taa <? feps then f0 else taa / (ss_total st + na);
             pd_depth_reference := ndep; pd_trench := pd_trench best |}
        else best in
      let aa := (ss_avg st * ss_total st) + (half_sum * len) in
      {| ss_begin := begin; ss_end := endp; ss_total := ss_total st + len;
         ss_avg := if fabs aa <? feps then f0 else aa / (ss_total st + len); ss_add := add;
         ss_ndist := nd; ss_nalong := na; ss_ndepth := ndep; ss_best := best' |}.

  Fixpoint segment_loop (dm : depth_method) (sr frac : F) (isec : nat) (cp2d : pt2) (st : seg_state) (iseg : nat)
           (cur nxt : list (F * F * F)) : seg_state :=
    match cur with
    | [] => st
    | c :: cr =>
        let n := match nxt with n :: _ => n | [] => c end in
        segment_loop dm sr frac isec cp2d (segment_step dm sr frac isec cp2d st iseg c n) (S iseg) cr (tl nxt)
    end.

  (** [geom] : per trench coordinate, per segment: (top angle, bottom angle, length), angles in radians *)
  Definition distance_point_from_curved_planes (check_point : vec3) (reference_point : pt2) (point_list : list pt2)
             (geom : list (list (F * F * F))) (sr : F) (b : bezier) : plane_distances :=
    let '(px, py, pz) := check_point in
    let cps2d : pt2 := (px, py) in
    let cl := closest_point_cartesian b cps2d in
    let cpl2d := cl_point cl in
    let cplc : vec3 := (fst cpl2d, snd cpl2d, sr) in
    let none := {| pd_distance := finf; pd_along := finf; pd_section_fraction := f0; pd_segment_fraction := f0;
                   pd_section := 0; pd_segment := 0; pd_average_angle := f0; pd_depth_reference := f0; pd_trench := cplc |} in
    if fisnan (fst cpl2d) then none
    else
      let isec := cl_index cl in
      let frac := cl_fraction cl in
      let bottom : vec3 := (fst cpl2d, snd cpl2d, f0) in
      let cps : vec3 := (px, py, sr) in
      let y_axis0 := v3sub cplc bottom in
      let x_axis0 := v3sub cplc cps in
      let cur := nth isec geom [] in
      let nxt := nth (S isec) geom [] in
      (* Some (x_axis, y_axis) or None for the early return *)
      let axes : option (vec3 * vec3) :=
        if fabs (v3norm (v3sub cps cplc)) <? fdec 2 (-14) then
          if fdec 2 (-14) <? fabs (v3norm (v3sub check_point cplc)) then
            let P1 := nth isec point_list (f0, f0) in
            let P2 := nth (S isec) point_list (f0, f0) in
            let p1p2 := p2sub P2 P1 in
            let unit := p2scale p1p2 (f1 / p2norm p1p2) in
            let nrm := p2norm cpl2d in
            let cplpn := p2add cpl2d (p2scale unit (e8 * (if f1 <? nrm then nrm else f1))) in
            let cplpn_cart : vec3 := (fst cplpn, snd cplpn, sr) in
            let ntp0 := v3sub cplpn_cart cplc in
            let '(ux, uy, uz) := v3div ntp0 (v3norm ntp0) in
            let ya := v3sub cplc bottom in
            let '(vx, vy, vz) := v3div ya (v3norm ya) in
            let xa : vec3 :=
              ((((((ux * ux) * vx) + ((ux * uy) * vy)) - (uz * vy)) + ((uy * uz) * vz)) + (uy * vz),
               (((((uy * ux) * vx) + (uz * vx)) + ((uy * uy) * vy)) + ((uy * uz) * vz)) - (ux * vz),
               (((((uz * ux) * vx) - (uy * vx)) + ((uz * uy) * vy)) + (ux * vy)) + ((uz * uz) * vz)) in
            let reference_p := p2add (p2scale (p2sub (cl_normal cl) cpl2d) (fdec 1 2)) cpl2d in
            let ros := if p2nsq (p2sub cpl2d reference_p) <? p2nsq (p2sub cps2d reference_p) then - f1 else f1 in
            Some (v3scale xa (ros / v3norm xa), (vx, vy, vz))
          else None
        else
          let ya := v3div y_axis0 (v3norm y_axis0) in
          let ab_normal := p2scale (cl_normal cl) (p2dist cpl2d reference_point) in
          let lrp := p2add (p2scale ab_normal f1) cpl2d in
          let rn_side := p2dot (p2sub cps2d cpl2d) (p2sub lrp cpl2d) <? f0 in
          let pl0 := nth 0 point_list (f0, f0) in
          let pll := last point_list (f0, f0) in
          let rp_side := (((fst pll - fst pl0) * (snd reference_point - snd pl0)) - ((fst reference_point - fst pl0) * (snd pll - snd pl0))) <? f0 in
          let ros := if Bool.eqb rn_side rp_side then f1 else - f1 in
          Some (v3scale x_axis0 (ros / v3norm x_axis0), ya) in
      match axes with
      | None =>
          let a0 := fst (fst (nth 0 cur (f0, f0, f0))) in
          let a1 := fst (fst (nth 0 nxt (f0, f0, f0))) in
          {| pd_distance := f0; pd_along := f0; pd_section_fraction := frac; pd_segment_fraction := f0;
             pd_section := isec; pd_segment := 0; pd_average_angle := a0 + (frac * (a1 - a0));
             pd_depth_reference := f0; pd_trench := cplc |}
      | Some (xa, ya) =>
          let rel := v3sub check_point bottom in
          let cp2d : pt2 := (v3dot xa rel, v3dot ya rel) in
          let rel0 := v3sub cplc bottom in
          let begin : pt2 := (v3dot xa rel0, v3dot ya rel0) in
          let st0 := {| ss_begin := begin; ss_end := begin; ss_total := f0; ss_avg := f0; ss_add := f0;
                        ss_ndist := finf; ss_nalong := finf; ss_ndepth := finf; ss_best := none |} in
          ss_best (segment_loop DMNone sr frac isec cp2d st0 0 cur nxt)
      end.

  (** ** spherical worlds: the same routine with the natural coordinates (radius, longitude, latitude), the
      spherical closest-point search on the trench, and the longitude alias of the check point *)
  Definition distance_point_from_curved_planes_sph (dm : depth_method) (closest_sph : @bezier F -> pt2 -> @closest F)
             (check_point : vec3) (reference_point : pt2) (point_list : list pt2)
             (geom : list (list (F * F * F))) (sr : F) (b : @bezier F) : plane_distances :=
    let '(_, lon, lat) := cartesian_to_spherical check_point in
    let cps2d : pt2 := (lon, lat) in
    let cl := closest_sph b cps2d in
    let cpl2d := cl_point cl in
    let cpl_nat : vec3 := (sr, fst cpl2d, snd cpl2d) in
    let cplc : vec3 := spherical_to_cartesian cpl_nat in
    let none := {| pd_distance := finf; pd_along := finf; pd_section_fraction := f0; pd_segment_fraction := f0;
                   pd_section := 0; pd_segment := 0; pd_average_angle := f0; pd_depth_reference := f0; pd_trench := cplc |} in
    if fisnan (fst cpl2d) then none
    else
      let isec := cl_index cl in
      let frac := cl_fraction cl in
      let bottom : vec3 := spherical_to_cartesian (f0, fst cpl2d, snd cpl2d) in
      let cps_nat : vec3 := (sr, lon, lat) in
      let cps : vec3 := spherical_to_cartesian cps_nat in
      let y_axis0 := v3sub cplc bottom in
      let x_axis0 := v3sub cplc cps in
      let cur := nth isec geom [] in
      let nxt := nth (S isec) geom [] in
      let axes : option (vec3 * vec3) :=
        if fabs (v3norm (v3sub cps_nat cpl_nat)) <? fdec 2 (-14) then
          if fdec 2 (-14) <? fabs (v3norm (v3sub check_point cplc)) then
            let P1 := nth isec point_list (f0, f0) in
            let P2 := nth (S isec) point_list (f0, f0) in
            let p1p2 := p2sub P2 P1 in
            let unit := p2scale p1p2 (f1 / p2norm p1p2) in
            let nrm := p2norm cpl2d in
            let cplpn := p2add cpl2d (p2scale unit (e8 * (if f1 <? nrm then nrm else f1))) in
            let cplpn_cart : vec3 := spherical_to_cartesian (sr, fst cplpn, snd cplpn) in
            let ntp0 := v3sub cplpn_cart cplc in
            let '(ux, uy, uz) := v3div ntp0 (v3norm ntp0) in
            let ya := v3sub cplc bottom in
            let '(vx, vy, vz) := v3div ya (v3norm ya) in
            let xa : vec3 :=
              ((((((ux * ux) * vx) + ((ux * uy) * vy)) - (uz * vy)) + ((uy * uz) * vz)) + (uy * vz),
               (((((uy * ux) * vx) + (uz * vx)) + ((uy * uy) * vy)) + ((uy * uz) * vz)) - (ux * vz),
               (((((uz * ux) * vx) - (uy * vx)) + ((uz * uy) * vy)) + (ux * vy)) + ((uz * uz) * vz)) in
            let reference_p := p2add (p2scale (p2sub (cl_normal cl) cpl2d) (fdec 1 2)) cpl2d in
            let ros := if p2nsq (p2sub cpl2d reference_p) <? p2nsq (p2sub cps2d reference_p) then - f1 else f1 in
            Some (v3scale xa (ros / v3norm xa), (vx, vy, vz))
          else None
        else
          let ya := v3div y_axis0 (v3norm y_axis0) in
          (* the copy of the check point (longitude, longitude +- 2 pi) closest to the nearer end of the trench interval *)
          let plx := fst (nth (isec + (if fhalf <=? frac then 1 else 0)) point_list (f0, f0)) in
          let normal := fabs (plx - lon) in
          let plus := fabs (plx - (lon + twopi)) in
          let minus := fabs (plx - (lon - twopi)) in
          let cps2d_temp : pt2 := if plus <? normal then (lon + twopi, lat) else if minus <? normal then (lon - twopi, lat) else cps2d in
          let ab_normal := p2scale (cl_normal cl) (p2dist_sph cpl2d reference_point) in
          let lrp := p2add (p2scale ab_normal f1) cpl2d in
          let rn_side := p2dot (p2sub cps2d_temp cpl2d) (p2sub lrp cpl2d) <? f0 in
          let pl0 := nth 0 point_list (f0, f0) in
          let pll := last point_list (f0, f0) in
          let rp_side := (((fst pll - fst pl0) * (snd reference_point - snd pl0)) - ((fst reference_point - fst pl0) * (snd pll - snd pl0))) <? f0 in
          let ros := if Bool.eqb rn_side rp_side then f1 else - f1 in
          Some (v3scale x_axis0 (ros / v3norm x_axis0), ya) in
      match axes with
      | None =>
          let a0 := fst (fst (nth 0 cur (f0, f0, f0))) in
          let a1 := fst (fst (nth 0 nxt (f0, f0, f0))) in
          {| pd_distance := f0; pd_along := f0; pd_section_fraction := frac; pd_segment_fraction := f0;
             pd_section := isec; pd_segment := 0; pd_average_angle := a0 + (frac * (a1 - a0));
             pd_depth_reference := f0; pd_trench := cplc |}
      | Some (xa, ya) =>
          let rel := v3sub check_point bottom in
          let cp2d : pt2 := (v3dot xa rel, v3dot ya rel) in
          let rel0 := v3sub cplc bottom in
          let begin : pt2 := (v3dot xa rel0, v3dot ya rel0) in
          let st0 := {| ss_begin := begin; ss_end := begin; ss_total := f0; ss_avg := f0; ss_add := f0;
                        ss_ndist := finf; ss_nalong := finf; ss_ndepth := finf; ss_best := none |} in
          ss_best (segment_loop dm sr frac isec cp2d st0 0 cur nxt)
      end.
End SlabModel.
