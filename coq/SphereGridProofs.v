(** * SphereGridProofs: structure of the sphere mesh of SphereGrid.v, for every number interpretation. *)
From Coq Require Import List Arith Lia PeanoNat Bool ZArith.
From WB Require Import Num Base Grid GridProofs SphereGrid.
Import ListNotations.
Local Open Scope nat_scope.

Section SGP.
  Context {F : Type} {NF : Num F}.

  (** ** counts *)
  Lemma lay_points_length level q : length (lay_points level q) = block_np level.
  Proof.
    unfold lay_points, block_np. rewrite (length_flat_map_const _ (level + 1)).
    - rewrite seq_length. reflexivity.
    - intros x _. rewrite map_length, seq_length. reflexivity.
  Qed.

  Lemma block_corners_length : length (@block_corners F NF) = 12.
  Proof. reflexivity. Qed.

  Theorem all_nodes_length level : length (@all_nodes F NF level) = 12 * block_np level.
  Proof.
    unfold all_nodes. rewrite (length_flat_map_const _ (block_np level)).
    - rewrite block_corners_length. reflexivity.
    - intros x _. rewrite map_length. apply lay_points_length.
  Qed.

  Lemma dups_from_length dist all rest : forall i, length (@dups_from F NF dist all rest i) = length rest.
  Proof. induction rest as [|p r IH]; intros i; cbn [dups_from length]; [reflexivity|]. rewrite IH. reflexivity. Qed.

  Lemma dups_length dist all : length (@dups F NF dist all) = length all.
  Proof. apply dups_from_length. Qed.

  Lemma kept_points_length : forall (all : list (@spt F * bool)) ds, length all = length ds ->
    length (kept_points all ds) = n_kept ds.
  Proof.
    induction all as [|[p s] r IH]; intros [|[j|] rd] H; cbn [length] in H; try discriminate; cbn [kept_points n_kept filter length].
    - reflexivity.
    - apply IH. lia.
    - f_equal. apply IH. lia.
  Qed.

  Lemma shell_cells_length level ds : length (@shell_cells level ds) = 12 * (level * level).
  Proof.
    unfold shell_cells. rewrite (length_flat_map_const _ (level * level)).
    - rewrite seq_length. reflexivity.
    - intros x _. rewrite map_length. apply cells2_count.
  Qed.

  (** the mesh has n_cell_z * 12 * n^2 cells *)
  Theorem sphere_cells_count level nz ds : length (sphere_cells_of level nz ds) = nz * (12 * (level * level)).
  Proof.
    unfold sphere_cells_of. rewrite (length_flat_map_const _ (12 * (level * level))).
    - rewrite seq_length. reflexivity.
    - intros x _. unfold layer_cells. rewrite map_length. apply shell_cells_length.
  Qed.

  (** ... and (n_cell_z + 1) layers with one node per kept shell node each *)
  Theorem sphere_nodes_count level nz (inner outer : F) :
    length (sphere_nodes level nz inner outer) = (nz + 1) * n_kept (sphere_dups level outer).
  Proof.
    unfold sphere_nodes, sphere_dups. rewrite (length_flat_map_const _ (n_kept (dups (fmul (fdec 1 (-12)) outer) (all_nodes level)))).
    - rewrite seq_length. reflexivity.
    - intros x _. unfold layer_nodes. rewrite map_length. apply kept_points_length. rewrite dups_length. reflexivity.
  Qed.

  (** ** the renumbering *)
  Definition kept (ds : list (option nat)) (i : nat) : Prop := i < length ds /\ nth i ds None = None.

  Lemma n_kept_cons d ds : n_kept (d :: ds) = (match d with None => 1 | Some _ => 0 end) + n_kept ds.
  Proof. unfold n_kept. cbn [filter]. destruct d; reflexivity. Qed.

  (** every entry of [compact] is below the number of kept nodes (as soon as one node is kept) *)
  Lemma compact_from_bound ds : forall c v, In v (compact_from ds c) -> v < c + n_kept ds \/ v = 0.
  Proof.
    induction ds as [|[j|] r IH]; intros c v H; cbn [compact_from] in H; [destruct H| |]; rewrite n_kept_cons.
    - destruct H as [<-|H]; [right; reflexivity|]. destruct (IH c v H); [left; lia|right; assumption].
    - destruct H as [<-|H]; [left; lia|]. destruct (IH (S c) v H); [left; lia|right; assumption].
  Qed.

  Lemma compact_from_length ds : forall c, length (compact_from ds c) = length ds.
  Proof. induction ds as [|[j|] r IH]; intros c; cbn [compact_from length]; [reflexivity| |]; rewrite IH; reflexivity. Qed.

  (** kept positions are numbered in increasing order, starting from the number of kept nodes before them:
      the renumbering is the order-preserving bijection from the kept nodes onto 0 .. n_kept-1 *)
  Definition kept_before (ds : list (option nat)) (i : nat) : nat := n_kept (firstn i ds).

  Lemma compact_from_kept ds : forall c i, kept ds i -> nth i (compact_from ds c) 0 = c + kept_before ds i.
  Proof.
    induction ds as [|d r IH]; intros c i [Hi Hn]; [cbn in Hi; lia|].
    destruct i as [|i].
    - cbn [nth] in Hn. subst d. cbn [compact_from nth]. unfold kept_before. cbn [firstn]. unfold n_kept. cbn. lia.
    - cbn [nth] in Hn. cbn [length] in Hi.
      assert (K : kept r i) by (split; [lia|exact Hn]).
      unfold kept_before. cbn [firstn]. rewrite n_kept_cons. fold (kept_before r i).
      destruct d as [j|]; cbn [compact_from nth]; rewrite (IH _ i K); lia.
  Qed.

  Lemma n_kept_app a b : n_kept (a ++ b) = n_kept a + n_kept b.
  Proof. unfold n_kept. rewrite filter_app, app_length. reflexivity. Qed.

  Lemma kept_before_lt ds i : kept ds i -> kept_before ds i < n_kept ds.
  Proof.
    intros [Hi Hn]. unfold kept_before.
    rewrite <- (firstn_skipn i ds) at 2. rewrite n_kept_app.
    assert (E : skipn i ds = None :: skipn (S i) ds).
    { clear -Hi Hn. revert i Hi Hn. induction ds as [|d r IH]; intros i Hi Hn; [cbn in Hi; lia|].
      destruct i as [|i]; [cbn [nth] in Hn; subst d; reflexivity|]. cbn [skipn]. apply IH; [cbn [length] in Hi; lia|exact Hn]. }
    rewrite E, n_kept_cons. lia.
  Qed.

  Lemma firstn_plus {A} (l : list A) : forall i k, firstn (i + k) l = firstn i l ++ firstn k (skipn i l).
  Proof.
    induction l as [|a r IH]; intros i k; [destruct i, k; reflexivity|].
    destruct i as [|i]; [reflexivity|]. cbn [Nat.add firstn skipn app]. rewrite IH. reflexivity.
  Qed.

  Lemma kept_before_mono ds i j : i < j -> kept ds i -> kept_before ds i < kept_before ds j.
  Proof.
    intros Hij [Hi Hn]. unfold kept_before.
    assert (E : firstn j ds = firstn i ds ++ firstn (j - i) (skipn i ds)).
    { replace j with (i + (j - i)) at 1 by lia. apply firstn_plus. }
    rewrite E, n_kept_app.
    assert (S1 : skipn i ds = None :: skipn (S i) ds).
    { clear -Hi Hn. revert i Hi Hn. induction ds as [|d r IH]; intros i Hi Hn; [cbn in Hi; lia|].
      destruct i as [|i]; [cbn [nth] in Hn; subst d; reflexivity|]. cbn [skipn]. apply IH; [cbn [length] in Hi; lia|exact Hn]. }
    rewrite S1. destruct (j - i) as [|k] eqn:Ek; [lia|]. cbn [firstn]. rewrite n_kept_cons. lia.
  Qed.

  Theorem renumbering_is_order_preserving ds i j :
    kept ds i -> kept ds j -> i < j ->
    nth i (sg_compact ds) 0 < nth j (sg_compact ds) 0 /\ nth j (sg_compact ds) 0 < n_kept ds.
  Proof.
    intros Ki Kj Hij. unfold sg_compact. rewrite (compact_from_kept ds 0 i Ki), (compact_from_kept ds 0 j Kj).
    split; [apply kept_before_mono; assumption | apply kept_before_lt; assumption].
  Qed.

  (** ** every vertex index of every cell is a node of the mesh *)
  Lemma nth_compact_bound ds k : 1 <= n_kept ds -> nth k (sg_compact ds) 0 < n_kept ds.
  Proof.
    intros H1. unfold sg_compact. destruct (Nat.lt_ge_cases k (length (compact_from ds 0))) as [L|L].
    - destruct (compact_from_bound ds 0 _ (nth_In _ 0 L)) as [B|B]; [exact B|]. rewrite B. lia.
    - rewrite nth_overflow by exact L. lia.
  Qed.

  Theorem sphere_cells_in_range level nz ds c v :
    1 <= n_kept ds -> In c (sphere_cells_of level nz ds) -> In v c -> v < (nz + 1) * n_kept ds.
  Proof.
    intros H1 Hc Hv. unfold sphere_cells_of in Hc. apply in_flat_map in Hc. destruct Hc as [i [Hi Hc]].
    apply in_seq in Hi. unfold layer_cells in Hc. apply in_map_iff in Hc. destruct Hc as [sc [<- Hsc]].
    assert (B : forall w, In w sc -> w < n_kept ds).
    { unfold shell_cells in Hsc. apply in_flat_map in Hsc. destruct Hsc as [b [_ Hsc]].
      apply in_map_iff in Hsc. destruct Hsc as [c0 [<- _]]. intros w Hw. apply in_map_iff in Hw. destruct Hw as [u [<- _]].
      apply nth_compact_bound. exact H1. }
    apply in_app_or in Hv. destruct Hv as [Hv|Hv]; apply in_map_iff in Hv; destruct Hv as [w [<- Hw]]; specialize (B w Hw); nia.
  Qed.

  (** each cell has eight vertices: the four of a shell cell on layer i and the same four on layer i+1 *)
  Theorem sphere_cells_shape level nz ds c :
    In c (sphere_cells_of level nz ds) ->
    exists i sc, i < nz /\ In sc (shell_cells level ds) /\ length sc = 4 /\
                 c = map (fun v => v + i * n_kept ds) sc ++ map (fun v => v + (i + 1) * n_kept ds) sc.
  Proof.
    intros Hc. unfold sphere_cells_of in Hc. apply in_flat_map in Hc. destruct Hc as [i [Hi Hc]].
    apply in_seq in Hi. unfold layer_cells in Hc. apply in_map_iff in Hc. destruct Hc as [sc [<- Hsc]].
    exists i, sc. split; [lia|]. split; [exact Hsc|]. split; [|reflexivity].
    unfold shell_cells in Hsc. apply in_flat_map in Hsc. destruct Hsc as [b [_ Hsc]].
    apply in_map_iff in Hsc. destruct Hsc as [c0 [<- Hc0]]. rewrite map_length.
    unfold cells2 in Hc0. apply in_flat_map in Hc0. destruct Hc0 as [j [_ Hc0]]. apply in_map_iff in Hc0.
    destruct Hc0 as [i0 [<- _]]. reflexivity.
  Qed.

  (** the first node is never merged away (the scan starts at node 1), so the hypothesis 1 <= n_kept holds for every mesh *)
  Theorem first_node_kept dist (all : list (@spt F * bool)) : all <> [] -> 1 <= n_kept (dups dist all).
  Proof.
    intros H. destruct all as [|p r]; [contradiction|]. unfold dups. cbn [dups_from]. rewrite n_kept_cons.
    unfold dup_of. cbn [Nat.leb andb]. lia.
  Qed.
  (** node i*n_kept + k of the mesh is shell node k on layer i *)
  Theorem sphere_nodes_layer level nz (inner outer : F) i k d0 :
    i <= nz -> k < n_kept (sphere_dups level outer) ->
    nth (i * n_kept (sphere_dups level outer) + k) (sphere_nodes level nz inner outer) d0 =
    nth k (layer_nodes inner outer nz (kept_points (all_nodes level) (sphere_dups level outer)) i) d0.
  Proof.
    intros Hi Hk. unfold sphere_nodes. fold (sphere_dups level outer).
    rewrite (nth_flat_map_const _ (n_kept (sphere_dups level outer)) _ d0 0).
    - rewrite seq_nth by lia. reflexivity.
    - intros x. unfold layer_nodes. rewrite map_length. apply kept_points_length. unfold sphere_dups. rewrite dups_length. reflexivity.
    - exact Hk.
    - rewrite seq_length. lia.
  Qed.
End SGP.

(** ** the hull merge *)
Section SGM.
  Context {F : Type} {NF : Num F}.
  Variable dist : F.
  Variable all : list (@spt F * bool).
  Let dflt : @spt F * bool := (mk3 f0 f0 f0, false).

  Definition hull_close (i j : nat) : bool :=
    snd (nth j all dflt) && sg_close dist (fst (nth i all dflt)) (fst (nth j all dflt)).

  (** [find_dup] returns the first candidate that is a hull node within the tolerance *)
  Lemma find_dup_spec p : forall cands base j,
    find_dup dist p cands base = Some j ->
    base <= j < base + length cands /\
    (let q := nth (j - base) cands dflt in snd q && sg_close dist p (fst q) = true) /\
    (forall k, base <= k < j -> let q := nth (k - base) cands dflt in snd q && sg_close dist p (fst q) = false).
  Proof.
    induction cands as [|[q s] r IH]; intros base j H; cbn [find_dup] in H; [discriminate|].
    destruct (s && sg_close dist p q) eqn:E.
    - injection H as <-. cbn [length]. split; [lia|]. rewrite Nat.sub_diag. cbn [nth fst snd]. split; [exact E|]. intros k Hk. lia.
    - destruct (IH (S base) j H) as [R [A B]]. cbn [length]. split; [lia|]. split.
      + replace (j - base) with (S (j - S base)) by lia. cbn [nth]. exact A.
      + intros k Hk. destruct (Nat.eq_dec k base) as [->|Hne].
        * rewrite Nat.sub_diag. cbn [nth fst snd]. exact E.
        * replace (k - base) with (S (k - S base)) by lia. cbn [nth]. apply B. lia.
  Qed.

  Lemma nth_dups_from rest : forall i0 i, i < length rest ->
    nth i (dups_from dist all rest i0) None = dup_of dist all (i0 + i) (nth i rest dflt).
  Proof.
    induction rest as [|ps r IH]; intros i0 i Hi; [cbn in Hi; lia|].
    cbn [dups_from]. destruct i as [|i]; cbn [nth]; [rewrite Nat.add_0_r; reflexivity|].
    cbn [length] in Hi. rewrite IH by lia. f_equal. lia.
  Qed.

  Lemma nth_dups i : i < length all -> nth i (dups dist all) None = dup_of dist all i (nth i all dflt).
  Proof. intros Hi. unfold dups. rewrite nth_dups_from by exact Hi. reflexivity. Qed.

  Lemma nth_firstn {A} (l : list A) n k d : k < n -> nth k (firstn n l) d = nth k l d.
  Proof.
    revert n k. induction l as [|a r IH]; intros n k H; [destruct n, k; reflexivity|].
    destruct n as [|n]; [lia|]. destruct k as [|k]; [reflexivity|]. cbn [firstn nth]. apply IH. lia.
  Qed.

  (** what it means for node i to be a double point of node j *)
  Lemma dup_spec i j : i < length all -> nth i (dups dist all) None = Some j ->
    j + 1 < i /\ snd (nth i all dflt) = true /\ hull_close i j = true /\ (forall k, k < j -> hull_close i k = false).
  Proof.
    intros Hi H. rewrite nth_dups in H by exact Hi. unfold dup_of in H.
    destruct (1 <=? i) eqn:E1; [|discriminate]. destruct (snd (nth i all dflt)) eqn:E2; [|discriminate]. cbn [andb] in H.
    apply Nat.leb_le in E1.
    destruct (find_dup_spec _ _ _ _ H) as [R [A B]]. rewrite Nat.sub_0_r in A.
    assert (Lf : length (firstn (i - 1) all) = i - 1) by (rewrite firstn_length; lia).
    rewrite Lf in R. split; [lia|]. split; [reflexivity|]. split.
    - unfold hull_close. cbv zeta in A. rewrite nth_firstn in A by lia. exact A.
    - intros k Hk. specialize (B k ltac:(lia)). cbv zeta in B. rewrite Nat.sub_0_r, nth_firstn in B by lia. exact B.
  Qed.

  (** if "a hull node within the tolerance" is transitive, no node is merged into a node that is itself merged away:
      the renumbering never reads an unwritten entry *)
  Theorem targets_ok_of_transitivity :
    (forall i j k, hull_close i j = true -> hull_close j k = true -> hull_close i k = true) ->
    targets_ok (dups dist all) = true.
  Proof.
    intros Tr. unfold targets_ok. apply forallb_forall. intros d Hd.
    destruct d as [j|]; [|reflexivity].
    destruct (In_nth _ _ None Hd) as [i [Hi Ei]]. rewrite dups_length in Hi.
    destruct (dup_spec i j Hi Ei) as [Lj [Si [Cij Mi]]].
    destruct (nth j (dups dist all) None) as [k|] eqn:Ej; [|reflexivity].
    exfalso. destruct (dup_spec j k ltac:(lia) Ej) as [Lk [Sj [Cjk _]]].
    pose proof (Tr i j k Cij Cjk) as Cik. rewrite (Mi k ltac:(lia)) in Cik. discriminate.
  Qed.
End SGM.
