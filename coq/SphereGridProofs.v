(** * SphereGridProofs: structure of the sphere mesh of SphereGrid.v, for every number interpretation. *)
From Coq Require Import List Arith Lia PeanoNat Bool ZArith.
From WB Require Import Num Base Grid GridProofs SphereGrid.
Import ListNotations.
Local Open Scope nat_scope.

Section SGP.
  Context {F : Type} {NF : Num F}.

  (** ** counts *)
  Lemma lay_points_length level q : length (lay_points level q) = block_np level.
  Proof.
    unfold lay_points, block_np. rewrite (length_flat_map_const _ (level + 1)).
    - rewrite seq_length. reflexivity.
    - intros x _. rewrite map_length, seq_length. reflexivity.
  Qed.

  Lemma block_corners_length : length (@block_corners F NF) = 12.
  Proof. reflexivity. Qed.

  Theorem all_nodes_length level : length (@all_nodes F NF level) = 12 * block_np level.
  Proof.
    unfold all_nodes. rewrite (length_flat_map_const _ (block_np level)).
    - rewrite block_corners_length. reflexivity.
    - intros x _. rewrite map_length. apply lay_points_length.
  Qed.

  Lemma dups_from_length dist all rest : forall i, length (@dups_from F NF dist all rest i) = length rest.
  Proof. induction rest as [|p r IH]; intros i; cbn [dups_from length]; [reflexivity|]. rewrite IH. reflexivity. Qed.

  Lemma dups_length dist all : length (@dups F NF dist all) = length all.
  Proof. apply dups_from_length. Qed.

  Lemma kept_points_length : forall (all : list (@spt F * bool)) ds, length all = length ds ->
    length (kept_points all ds) = n_kept ds.
  Proof.
    induction all as [|[p s] r IH]; intros [|[j|] rd] H; cbn [length] in H; try discriminate; cbn [kept_points n_kept filter length].
    - reflexivity.
    - apply IH. lia.
    - f_equal. apply IH. lia.
  Qed.

  Lemma shell_cells_length level ds : length (@shell_cells level ds) = 12 * (level * level).
  Proof.
    unfold shell_cells. rewrite (length_flat_map_const _ (level * level)).
    - rewrite seq_length. reflexivity.
    - intros x _. rewrite map_length. apply cells2_count.
  Qed.

  (** the mesh has n_cell_z * 12 * n^2 cells *)
  Theorem sphere_cells_count level nz ds : length (sphere_cells_of level nz ds) = nz * (12 * (level * level)).
  Proof.
    unfold sphere_cells_of. rewrite (length_flat_map_const _ (12 * (level * level))).
    - rewrite seq_length. reflexivity.
    - intros x _. unfold layer_cells. rewrite map_length. apply shell_cells_length.
  Qed.

  (** ... and (n_cell_z + 1) layers with one node per kept shell node each *)
  Theorem sphere_nodes_count level nz (inner outer : F) :
    length (sphere_nodes level nz inner outer) = (nz + 1) * n_kept (sphere_dups level outer).
  Proof.
    unfold sphere_nodes, sphere_dups. rewrite (length_flat_map_const _ (n_kept (dups (fmul (fdec 1 (-12)) outer) (all_nodes level)))).
    - rewrite seq_length. reflexivity.
    - intros x _. unfold layer_nodes. rewrite map_length. apply kept_points_length. rewrite dups_length. reflexivity.
  Qed.

  (** ** the renumbering *)
  Definition kept (ds : list (option nat)) (i : nat) : Prop := i < length ds /\ nth i ds None = None.

  Lemma n_kept_cons d ds : n_kept (d :: ds) = (match d with None => 1 | Some _ => 0 end) + n_kept ds.
  Proof. unfold n_kept. cbn [filter]. destruct d; reflexivity. Qed.

  (** every entry of [compact] is below the number of kept nodes (as soon as one node is kept) *)
  Lemma compact_from_bound ds : forall c v, In v (compact_from ds c) -> v < c + n_kept ds \/ v = 0.
  Proof.
    induction ds as [|[j|] r IH]; intros c v H; cbn [compact_from] in H; [destruct H| |]; rewrite n_kept_cons.
    - destruct H as [<-|H]; [right; reflexivity|]. destruct (IH c v H); [left; lia|right; assumption].
    - destruct H as [<-|H]; [left; lia|]. destruct (IH (S c) v H); [left; lia|right; assumption].
  Qed.

  Lemma compact_from_length ds : forall c, length (compact_from ds c) = length ds.
  Proof. induction ds as [|[j|] r IH]; intros c; cbn [compact_from length]; [reflexivity| |]; rewrite IH; reflexivity. Qed.

  (** kept positions are numbered in increasing order, starting from the number of kept nodes before them:
      the renumbering is the order-preserving bijection from the kept nodes onto 0 .. n_kept-1 *)
  Definition kept_before (ds : list (option nat)) (i : nat) : nat := n_kept (firstn i ds).

  Lemma compact_from_kept ds : forall c i, kept ds i -> nth i (compact_from ds c) 0 = c + kept_before ds i.
  Proof.
    induction ds as [|d r IH]; intros c i [Hi Hn]; [cbn in Hi; lia|].
    destruct i as [|i].
    - cbn [nth] in Hn. subst d. cbn [compact_from nth]. unfold kept_before. cbn [firstn]. unfold n_kept. cbn. lia.
    - cbn [nth] in Hn. cbn [length] in Hi.
      assert (K : kept r i) by (split; [lia|exact Hn]).
      unfold kept_before. cbn [firstn]. rewrite n_kept_cons. fold (kept_before r i).
      destruct d as [j|]; cbn [compact_from nth]; rewrite (IH _ i K); lia.
  Qed.

  Lemma n_kept_app a b : n_kept (a ++ b) = n_kept a + n_kept b.
  Proof. unfold n_kept. rewrite filter_app, app_length. reflexivity. Qed.

  Lemma kept_before_lt ds i : kept ds i -> kept_before ds i < n_kept ds.
  Proof.
    intros [Hi Hn]. unfold kept_before.
    rewrite <- (firstn_skipn i ds) at 2. rewrite n_kept_app.
    assert (E : skipn i ds = None :: skipn (S i) ds).
    { clear -Hi Hn. revert i Hi Hn. induction ds as [|d r IH]; intros i Hi Hn; [cbn in Hi; lia|].
      destruct i as [|i]; [cbn [nth] in Hn; subst d; reflexivity|]. cbn [skipn]. apply IH; [cbn [length] in Hi; lia|exact Hn]. }
    rewrite E, n_kept_cons. lia.
  Qed.

  Lemma firstn_plus {A} (l : list A) : forall i k, firstn (i + k) l = firstn i l ++ firstn k (skipn i l).
  Proof.
    induction l as [|a r IH]; intros i k; [destruct i, k; reflexivity|].
    destruct i as [|i]; [reflexivity|]. cbn [Nat.add firstn skipn app]. rewrite IH. reflexivity.
  Qed.

  Lemma kept_before_mono ds i j : i < j -> kept ds i -> kept_before ds i < kept_before ds j.
  Proof.
    intros Hij [Hi Hn]. unfold kept_before.
    assert (E : firstn j ds = firstn i ds ++ firstn (j - i) (skipn i ds)).
    { replace j with (i + (j - i)) at 1 by lia. apply firstn_plus. }
    rewrite E, n_kept_app.
    assert (S1 : skipn i ds = None :: skipn (S i) ds).
    { clear -Hi Hn. revert i Hi Hn. induction ds as [|d r IH]; intros i Hi Hn; [cbn in Hi; lia|].
      destruct i as [|i]; [cbn [nth] in Hn; subst d; reflexivity|]. cbn [skipn]. apply IH; [cbn [length] in Hi; lia|exact Hn]. }
    rewrite S1. destruct (j - i) as [|k] eqn:Ek; [lia|]. cbn [firstn]. rewrite n_kept_cons. lia.
  Qed.

  Theorem renumbering_is_order_preserving ds i j :
    kept ds i -> kept ds j -> i < j ->
    nth i (sg_compact ds) 0 < nth j (sg_compact ds) 0 /\ nth j (sg_compact ds) 0 < n_kept ds.
  Proof.
    intros Ki Kj Hij. unfold sg_compact. rewrite (compact_from_kept ds 0 i Ki), (compact_from_kept ds 0 j Kj).
    split; [apply kept_before_mono; assumption | apply kept_before_lt; assumption].
  Qed.

  (** ** every vertex index of every cell is a node of the mesh *)
  Lemma nth_compact_bound ds k : 1 <= n_kept ds -> nth k (sg_compact ds) 0 < n_kept ds.
  Proof.
    intros H1. unfold sg_compact. destruct (Nat.lt_ge_cases k (length (compact_from ds 0))) as [L|L].
    - destruct (compact_from_bound ds 0 _ (nth_In _ 0 L)) as [B|B]; [exact B|]. rewrite B. lia.
    - rewrite nth_overflow by exact L. lia.
  Qed.

  Theorem sphere_cells_in_range level nz ds c v :
    1 <= n_kept ds -> In c (sphere_cells_of level nz ds) -> In v c -> v < (nz + 1) * n_kept ds.
  Proof.
    intros H1 Hc Hv. unfold sphere_cells_of in Hc. apply in_flat_map in Hc. destruct Hc as [i [Hi Hc]].
    apply in_seq in Hi. unfold layer_cells in Hc. apply in_map_iff in Hc. destruct Hc as [sc [<- Hsc]].
    assert (B : forall w, In w sc -> w < n_kept ds).
    { unfold shell_cells in Hsc. apply in_flat_map in Hsc. destruct Hsc as [b [_ Hsc]].
      apply in_map_iff in Hsc. destruct Hsc as [c0 [<- _]]. intros w Hw. apply in_map_iff in Hw. destruct Hw as [u [<- _]].
      apply nth_compact_bound. exact H1. }
    apply in_app_or in Hv. destruct Hv as [Hv|Hv]; apply in_map_iff in Hv; destruct Hv as [w [<- Hw]]; specialize (B w Hw); nia.
  Qed.

  (** each cell has eight vertices: the four of a shell cell on layer i and the same four on layer i+1 *)
  Theorem sphere_cells_shape level nz ds c :
    In c (sphere_cells_of level nz ds) ->
    exists i sc, i < nz /\ In sc (shell_cells level ds) /\ length sc = 4 /\
                 c = map (fun v => v + i * n_kept ds) sc ++ map (fun v => v + (i + 1) * n_kept ds) sc.
  Proof.
    intros Hc. unfold sphere_cells_of in Hc. apply in_flat_map in Hc. destruct Hc as [i [Hi Hc]].
    apply in_seq in Hi. unfold layer_cells in Hc. apply in_map_iff in Hc. destruct Hc as [sc [<- Hsc]].
    exists i, sc. split; [lia|]. split; [exact Hsc|]. split; [|reflexivity].
    unfold shell_cells in Hsc. apply in_flat_map in Hsc. destruct Hsc as [b [_ Hsc]].
    apply in_map_iff in Hsc. destruct Hsc as [c0 [<- Hc0]]. rewrite map_length.
    unfold cells2 in Hc0. apply in_flat_map in Hc0. destruct Hc0 as [j [_ Hc0]]. apply in_map_iff in Hc0.
    destruct Hc0 as [i0 [<- _]]. reflexivity.
  Qed.

  (** the first node is never merged away (the scan starts at node 1), so the hypothesis 1 <= n_kept holds for every mesh *)
  Theorem first_node_kept dist (all : list (@spt F * bool)) : all <> [] -> 1 <= n_kept (dups dist all).
  Proof.
    intros H. destruct all as [|p r]; [contradiction|]. unfold dups. cbn [dups_from]. rewrite n_kept_cons.
    unfold dup_of. cbn [Nat.leb andb]. lia.
  Qed.
  (** node i*n_kept + k of the mesh is shell node k on layer i *)
  Theorem sphere_nodes_layer level nz (inner outer : F) i k d0 :
    i <= nz -> k < n_kept (sphere_dups level outer) ->
    nth (i * n_kept (sphere_dups level outer) + k) (sphere_nodes level nz inner outer) d0 =
    nth k (layer_nodes inner outer nz (kept_points (all_nodes level) (sphere_dups level outer)) i) d0.
  Proof.
    intros Hi Hk. unfold sphere_nodes. fold (sphere_dups level outer).
    rewrite (nth_flat_map_const _ (n_kept (sphere_dups level outer)) _ d0 0).
    - rewrite seq_nth by lia. reflexivity.
    - intros x. unfold layer_nodes. rewrite map_length. apply kept_points_length. unfold sphere_dups. rewrite dups_length. reflexivity.
    - exact Hk.
    - rewrite seq_length. lia.
  Qed.
End SGP.
