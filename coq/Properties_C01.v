(** C01 - placeholder until the corollaries are stated (see WorldProofs.v). *)
From WB Require Import Num Base Props World WorldProofs.
Theorem C01_blocks_placeholder : True. Proof. exact I. Qed.
Print Assumptions C01_blocks_placeholder.
