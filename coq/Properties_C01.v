(** * C01 - query answers are a pure function of the input file and the query.
    Structural theorems: they hold for every interpretation of the numbers, hence for binary64.
    Only statements, [exact] of lemmas proved elsewhere, and [Print Assumptions]. *)
From Coq Require Import List Arith NArith Bool.
From WB Require Import Num Base Props World WorldProofs WorldProofs2 Kernels Features FeaturesProofs.
Import ListNotations.

Section C01.
  Context {F : Type} {NF : Num F}.
  Notation world := (@world F).

  (** a batched request returns exactly the announced number of values (random models included) *)
  Theorem C01_size : forall (w : world) pos depth ps t r t',
    world_ok w -> properties3d w pos depth ps t = Ok (r, t') -> length r = output_size ps.
  Proof. exact properties3d_length. Qed.

  (** the i-th block, at the prefix-sum offset, is the value of its request alone:
      it does not depend on the other requests, their order or their multiplicity *)
  Theorem C01_blocks : forall (w : world) pos depth ps t r t',
    world_ok w -> world_no_random w ->
    properties3d w pos depth ps t = Ok (r, t') ->
    t' = t /\ length r = output_size ps /\
    forall i p, nth_error ps i = Some p ->
      slice (output_size (firstn i ps)) (width p) r = block_value w pos depth p.
  Proof. exact properties3d_blocks. Qed.

  (** ... and is bit-identical to the answer of the stand-alone query (3-D) *)
  Theorem C01_block_is_standalone_3d : forall (w : world) pos depth ps t r t' i p,
    world_ok w -> world_no_random w ->
    properties3d w pos depth ps t = Ok (r, t') ->
    nth_error ps i = Some p ->
    properties3d w pos depth [p] t = Ok (slice (nth i (offsets ps) 0) (width p) r, t).
  Proof. exact block_is_standalone. Qed.

  (** ... and in the 2-D interface, velocity projection included *)
  Theorem C01_block_is_standalone_2d : forall (w : world) p2 depth ps t r t' i p,
    world_ok w -> world_no_random w ->
    properties2d w p2 depth ps t = Ok (r, t') ->
    nth_error ps i = Some p ->
    properties2d w p2 depth [p] t = Ok (slice (nth i (offsets ps) 0) (width p) r, t).
  Proof. exact properties2d_blocks. Qed.

  (** earlier queries have no influence: after any history the same query has the same answer,
      and a query leaves the (only) mutable state where it was *)
  Theorem C01_history : forall (w : world) h t t1 pos d ps r t',
    world_no_random w ->
    run_history w h t = Ok t1 ->
    properties3d w pos d ps t = Ok (r, t') ->
    properties3d w pos d ps t1 = Ok (r, t1).
  Proof. exact history_irrelevant. Qed.

  (** the contracts assumed above hold for every world made of the modelled area features *)
  Theorem C01_premises_met : forall g tape sph (afs : list (@area_feature F)) cs Tp Ts al cp force grav cross,
    Forall area_nonrandom afs ->
    let w := {| w_cs := cs; w_Tp := Tp; w_Ts := Ts; w_alpha := al; w_cp := cp; w_force := force;
                w_gravity := grav; w_cross := cross; w_features := map (area_to_feature g tape sph) afs |} in
    world_ok w /\ world_no_random w.
  Proof.
    intros g tape sph afs cs Tp Ts al cp force grav cross NR w.
    split; unfold world_ok, world_no_random; cbn [w_features w]; apply Forall_forall; intros f Hf;
      apply in_map_iff in Hf; destruct Hf as (a & <- & Ha); [apply area_paint_len | apply area_no_random].
    rewrite Forall_forall in NR. apply NR, Ha.
  Qed.
End C01.

Print Assumptions C01_size.
Print Assumptions C01_blocks.
Print Assumptions C01_block_is_standalone_3d.
Print Assumptions C01_block_is_standalone_2d.
Print Assumptions C01_history.
Print Assumptions C01_premises_met.

(** the premises [world_ok] / [world_no_random] of the theorems above are also met by subducting plates and faults
    (SlabFeature.v): every painted block keeps its width, and without random grains models no draw is consumed *)
From WB Require Import SlabFeature SlabFeatureProofs.
Theorem C01_premises_met_by_slabs_and_faults : forall (F : Type) (NF : Num F) g tape (lf : @line_feature F),
  paint_len (line_to_feature g tape lf) /\ (line_nonrandom lf -> no_random (line_to_feature g tape lf)).
Proof. intros F NF g tape lf. split; [apply line_paint_len | apply line_no_random]. Qed.
Print Assumptions C01_premises_met_by_slabs_and_faults.

(** models that call back the world (the "tian water content" composition models ask for the temperature of the whole
    world at the query point): what they receive is what the public temperature query returns there, whenever painting a
    temperature does not itself read that value - which holds for every feature of the model *)
From WB Require Import Plume CallbackProofs.
Theorem C01_callback_is_public_temperature : forall (F : Type) (NF : Num F) (w : @world F) pos depth,
  Forall temp_ignores_wtemp (w_features w) ->
  world_temperature w (mk_query w pos depth) = rmap fst (temperature3d w pos depth 0).
Proof. intros F NF w pos depth H. exact (callback_is_public_temperature w pos depth H). Qed.
Print Assumptions C01_callback_is_public_temperature.

Theorem C01_callback_premise_met : forall (F : Type) (NF : Num F) g tape sph (a : @area_feature F) (pl : @plume_feature F) (lf : @line_feature F),
  and (temp_ignores_wtemp (area_to_feature g tape sph a))
      (and (temp_ignores_wtemp (plume_to_feature g tape sph pl)) (temp_ignores_wtemp (line_to_feature g tape lf))).
Proof. intros. split; [apply area_temp_ignores | split; [apply plume_temp_ignores | apply line_temp_ignores]]. Qed.
Print Assumptions C01_callback_premise_met.
