(** * SlabChain: the surface traced by the implementation's segment loop is the specification's chain (C06).

    SlabRefine.v relates one piece of the model (straight_piece / arc_piece) with one piece of the
    specification.  Here the pieces are put together the way the loop of
    distance_point_from_curved_planes does it:

    - [S] (any number dictionary) one iteration of [segment_step], Cartesian depth method: the new end
      point is [piece_end] of the old one, the angle correction stays, the total length grows by the
      interpolated length of the piece;
    - [R] (reals) [piece_end] is the end point of the specification's piece, for straight pieces and
      for arcs with the generic centre construction, *whatever the check point*;
    - [R] the end point after the whole loop is the end of the specification's chain over the
      interpolated pieces, and the accumulated length is the sum of the lengths.

    The specification side gets [spec_chain_end] and the splitting lemma [planar_chain_app]: evaluating
    a chain [ps ++ qs] is evaluating [qs] from the end of [ps]. *)
From Coq Require Import Reals Lra Lia List ZArith Bool Psatz.
From WB Require Import Num Base RNum Props SlabSpec SlabSpecProofs SlabModel SlabRefine.
Import ListNotations.

Section ChainS.
  Context {F : Type} {NF : Num F}.
  Local Open Scope num_scope.
  Local Notation pt2 := (F * F)%type.

  (** the end point of one piece as the loop computes it *)
  Definition piece_end (sr : F) (begin : pt2) (len top bottom : F) (cp2d : pt2) : pt2 :=
    let diff := top - bottom in
    if fabs diff <? e8 then (if feps <? fabs len then fst (straight_piece sr begin len top cp2d) else begin)
    else fst (arc_piece sr begin len top bottom diff cp2d).

  Lemma segment_step_end_cartesian sr frac isec cp2d st iseg t0 b0 l0 t1 b1 l1 :
    let top := ((t0 + (frac * (t1 - t0))) + ss_add st) + f0 in
    let bottom := (b0 + (frac * (b1 - b0))) + ss_add st in
    let len := l0 + (frac * (l1 - l0)) in
    let st' := segment_step DMNone sr frac isec cp2d st iseg (t0, b0, l0) (t1, b1, l1) in
    ss_add st' = ss_add st /\
    ss_end st' = (if len <? e14 then ss_end st else piece_end sr (ss_end st) len top bottom cp2d) /\
    ss_total st' = (if len <? e14 then ss_total st else ss_total st + len).
  Proof.
    cbv zeta. unfold segment_step, piece_end. cbn [negb].
    destruct (_ <? e14) eqn:E14; cbn [ss_add ss_end ss_total]; [repeat split; reflexivity|].
    destruct (fabs _ <? e8) eqn:E8.
    - destruct (feps <? fabs _) eqn:EE.
      + destruct (straight_piece _ _ _ _ _) as [endp [[[a b] c]|]]; cbn [ss_add ss_end ss_total fst]; repeat split; reflexivity.
      + cbn [ss_add ss_end ss_total]. repeat split; reflexivity.
    - destruct (arc_piece _ _ _ _ _ _ _) as [endp [[[a b] c]|]]; cbn [ss_add ss_end ss_total fst]; repeat split; reflexivity.
  Qed.

  (** ** the specification: where a chain ends, and evaluating a chain in two parts *)
  Fixpoint spec_chain_end (ps : list (@piece F)) (sx sy u v : F) : F * F :=
    match ps with
    | [] => (sx, sy)
    | p :: r => let e := eval_piece sx sy p u v in spec_chain_end r (pe_ex e) (pe_ey e) u v
    end.

  Fixpoint spec_chain_done (ps : list (@piece F)) (done : F) : F :=
    match ps with [] => done | p :: r => spec_chain_done r (done + pc_len p) end.

  Lemma planar_chain_app : forall (ps qs : list (@piece F)) sx sy done k u v best,
    planar_chain (ps ++ qs) sx sy done k u v best =
    planar_chain qs (fst (spec_chain_end ps sx sy u v)) (snd (spec_chain_end ps sx sy u v))
                 (spec_chain_done ps done) (length ps + k) u v
                 (planar_chain ps sx sy done k u v best).
  Proof.
    induction ps as [|p r IH]; intros qs sx sy done k u v best; cbn [app planar_chain spec_chain_end spec_chain_done length fst snd plus].
    - reflexivity.
    - rewrite IH. replace (length r + S k)%nat with (S (length r + k))%nat by lia. reflexivity.
  Qed.
End ChainS.

(** ** [R]: the loop's surface is the specification's *)
Section ChainR.
  Variable sp : special.
  Local Existing Instance Rnum.
  Let N := Rnum sp.
  Local Open Scope R_scope.

  Lemma eps_lt_e14 : powerRZ 2 (-52) < 1 * powerRZ 10 (-14).
  Proof.
    unfold powerRZ. rewrite Rmult_1_l.
    apply Rinv_lt_contravar.
    - apply Rmult_lt_0_compat; apply pow_lt; lra.
    - replace (Pos.to_nat 14) with 14%nat by reflexivity. replace (Pos.to_nat 52) with 52%nat by reflexivity.
      replace (2 ^ 52) with (4503599627370496) by (cbn [pow]; ring).
      replace (10 ^ 14) with (100000000000000) by (cbn [pow]; ring).
      lra.
  Qed.

  Lemma e9_lt_e8 : 1 * powerRZ 10 (-9) < 1 * powerRZ 10 (-8).
  Proof.
    unfold powerRZ. rewrite !Rmult_1_l. apply Rinv_lt_contravar.
    - apply Rmult_lt_0_compat; apply pow_lt; lra.
    - replace (Pos.to_nat 8) with 8%nat by reflexivity. replace (Pos.to_nat 9) with 9%nat by reflexivity.
      replace (10 ^ 9) with (10 * 10 ^ 8) by (cbn [pow]; ring).
      assert (0 < 10 ^ 8) by (apply pow_lt; lra). lra.
  Qed.

  (** a piece the two constructions treat alike: not skipped by the loop (length at least 1e-14), and either straight
      (equal dips) or an arc with dips at least 1e-8 apart, top dip in (0, pi) and at least 1e-8 away from the vertical *)
  Definition piece_ok (p : @piece R) : Prop :=
    1 * powerRZ 10 (-14) <= pc_len p /\
    (pc_top p = pc_bot p \/
     (1 * powerRZ 10 (-8) <= Rabs (pc_top p - pc_bot p) /\ 0 < pc_top p < PI /\
      1 * powerRZ 10 (-8) <= Rabs (pc_top p - PI / 2))).

  Definition frame (sr : R) (q : R * R) : R * R := (fst q, sr - snd q).

  Lemma straight_end_any sr bx by_ L th (cp : R * R) :
    fst (@straight_piece R N sr (bx, by_) L th cp) = (bx + L * cos th, by_ - L * sin th).
  Proof.
    pose proof (half_pi sp) as HP. fold N in HP. unfold straight_piece. rewrite HP.
    change (@fsin R N) with sin. change (@fcos R N) with cos. change (@fmul R N) with Rmult.
    change (@fadd R N) with Rplus. change (@fsub R N) with Rminus.
    rewrite sin_shift, cos_shift. cbn [fst snd].
    match goal with |- fst (if ?c then _ else _) = _ => destruct c end; reflexivity.
  Qed.

  Lemma arc_end_any sr bx by_ L t1 t2 (cp : R * R) :
    0 < L -> 0 < t1 < PI -> t1 <> t2 -> 1 * powerRZ 10 (-8) <= Rabs (t1 - PI / 2) ->
    let sg := if Rlt_dec t1 t2 then 1 else -1 in
    let Rr := L / Rabs (t2 - t1) in
    fst (@arc_piece R N sr (bx, by_) L t1 t2 (t1 - t2) cp) =
    (bx - sg * Rr * sin t1 + sg * Rr * sin t2, by_ - sg * Rr * cos t1 + sg * Rr * cos t2).
  Proof.
    intros HL Ht1 Hne Hgen sg Rr.
    assert (CN : cos t1 <> 0).
    { intros C. destruct Ht1 as [A B].
      assert (E : t1 = PI / 2).
      { destruct (Rtotal_order t1 (PI / 2)) as [Hl|[He|Hg]]; [|exact He|].
        - assert (0 < cos t1) by (apply cos_gt_0; lra). lra.
        - assert (cos t1 < 0) by (apply cos_lt_0; lra). lra. }
      rewrite E in Hgen. replace (PI / 2 - PI / 2) with 0 in Hgen by ring. rewrite Rabs_R0 in Hgen.
      assert (0 < powerRZ 10 (-8)) by (apply powerRZ_lt; lra). lra. }
    pose proof (half_pi sp) as HP. fold N in HP. unfold arc_piece. rewrite !HP.
    change (@fabs R N) with Rabs. change (@fdiv R N) with Rdiv. change (@fcos R N) with cos. change (@fsin R N) with sin.
    change (@ftan R N) with tan.
    change (@fsub R N) with Rminus. change (@fadd R N) with Rplus. change (@fmul R N) with Rmult. change (@fopp R N) with Ropp.
    change (@flt R N) with Rltb. change (@fle R N) with Rleb. change (@f0 R N) with 0. change (@f1 R N) with 1.
    change (@fpi R N) with PI.
    unfold e8. change (@fdec R N 1 (-8)) with (1 * powerRZ 10 (-8)). change (@fdec R N 15 (-1)) with (15 * powerRZ 10 (-1)).
    assert (ER : Rabs (L / (t1 - t2)) = Rr).
    { unfold Rr, Rdiv. rewrite Rabs_mult, (Rabs_right L) by lra. rewrite Rabs_inv.
      replace (Rabs (t1 - t2)) with (Rabs (t2 - t1)) by (rewrite <- Rabs_Ropp; f_equal; ring). reflexivity. }
    rewrite ER.
    destruct (Rltb_spec (Rabs (t1 - PI / 2)) (1 * powerRZ 10 (-8))) as [Hc|_]; [lra|].
    assert (H15 : 15 * powerRZ 10 (-1) * PI = 3 * (PI / 2)) by (change (powerRZ 10 (-1)) with (/ (10 * 1)); field).
    rewrite H15.
    destruct (Rltb_spec (Rabs (t1 - 3 * (PI / 2))) (1 * powerRZ 10 (-8))) as [Hc|_].
    { exfalso. pose proof (pow10_neg_small 8) as P8.
      assert (P3 : 3 < PI) by (pose proof PI2_3_2 as Q; unfold PI2 in Q; lra).
      rewrite Rabs_left in Hc by lra. lra. }
    cbn [fst snd].
    match goal with |- fst (if ?c then _ else _) = _ => destruct c end; cbn [fst].
    all: unfold p2sub; cbn [fst snd]; change (@fsub R N) with Rminus.
    all: assert (CX : bx + tan t1 * ((if Rltb (t1 - t2) 0 then by_ - Rr * cos t1 else by_ + Rr * cos t1) - by_) = bx - sg * Rr * sin t1 /\
                      (if Rltb (t1 - t2) 0 then by_ - Rr * cos t1 else by_ + Rr * cos t1) = by_ - sg * Rr * cos t1)
      by (unfold sg, tan; destruct (Rltb_spec (t1 - t2) 0); destruct (Rlt_dec t1 t2); try lra; split; try ring; field; exact CN).
    all: destruct CX as [CX CY]; rewrite CX, CY.
    all: f_equal.
    all: try (replace (bx - (bx - sg * Rr * sin t1)) with (sg * Rr * sin t1) by ring;
              replace (by_ - (by_ - sg * Rr * cos t1)) with (sg * Rr * cos t1) by ring).
    all: try (replace t2 with (t1 - (t1 - t2)) at 3 by ring; rewrite ?(sin_minus t1 (t1 - t2)), ?(cos_minus t1 (t1 - t2)); ring).
  Qed.

  (** the end of one piece, model and specification, for any check point *)
  Theorem piece_end_refines_spec sr bx by_ (p : @piece R) (cp : R * R) (u v : R) :
    piece_ok p ->
    @piece_end R N sr (bx, by_) (pc_len p) (pc_top p) (pc_bot p) cp =
    frame sr (pe_ex (@eval_piece R N bx (sr - by_) p u v), pe_ey (@eval_piece R N bx (sr - by_) p u v)).
  Proof.
    intros [HL Hk]. destruct p as [L t1 t2]. cbn [pc_len pc_top pc_bot] in *.
    pose proof eps_lt_e14 as E1. pose proof e9_lt_e8 as E2. pose proof (pow10_neg_small 8) as [P8 _].
    pose proof (pow10_neg_small 14) as [P14 _].
    unfold piece_end, eval_piece, is_straight, frame. cbn [pc_len pc_top pc_bot fst snd].
    change (@fabs R N) with Rabs. change (@fsub R N) with Rminus. change (@flt R N) with Rltb.
    unfold e8. change (@fdec R N 1 (-8)) with (1 * powerRZ 10 (-8)). change (@fdec R N 1 (-9)) with (1 * powerRZ 10 (-9)).
    change (@feps R N) with (powerRZ 2 (-52)).
    destruct Hk as [Heq|[Hd [Ht1 Hgen]]].
    - subst t2. replace (t1 - t1) with 0 by ring. rewrite Rabs_R0.
      assert (P9 : 0 < 1 * powerRZ 10 (-9)) by (rewrite Rmult_1_l; apply powerRZ_lt; lra).
      destruct (Rltb_spec 0 (1 * powerRZ 10 (-8))) as [_|H]; [|lra].
      destruct (Rltb_spec 0 (1 * powerRZ 10 (-9))) as [_|H]; [|lra].
      rewrite (Rabs_right L) by lra.
      destruct (Rltb_spec (powerRZ 2 (-52)) L) as [_|H]; [|lra].
      rewrite straight_end_any. unfold straight_eval. cbn [pe_ex pe_ey pc_len pc_top].
      change (@fsin R N) with sin. change (@fcos R N) with cos. change (@fmul R N) with Rmult. change (@fadd R N) with Rplus.
      f_equal. ring.
    - assert (Hne : t1 <> t2). { intros E. subst t2. replace (t1 - t1) with 0 in Hd by ring. rewrite Rabs_R0 in Hd. lra. }
      assert (Hd' : Rabs (t2 - t1) = Rabs (t1 - t2)) by (rewrite <- Rabs_Ropp; f_equal; ring).
      destruct (Rltb_spec (Rabs (t1 - t2)) (1 * powerRZ 10 (-8))) as [H|_]; [lra|].
      destruct (Rltb_spec (Rabs (t2 - t1)) (1 * powerRZ 10 (-9))) as [H|_]; [rewrite Hd' in H; lra|].
      assert (HL' : 0 < L) by lra.
      rewrite (arc_end_any sr bx by_ L t1 t2 cp HL' Ht1 Hne Hgen).
      pose proof (arc_end sp bx (sr - by_) L t1 t2 Hne u v) as [Hex [Hey _]].
      fold N in Hex, Hey. rewrite Hex, Hey.
      unfold arc_px, arc_py, arc_cx, arc_cy, nrm_x, nrm_y, arc_sgn, arc_radius. cbn [pc_top pc_bot pc_len].
      change (@fsub R N) with Rminus. change (@fadd R N) with Rplus. change (@fmul R N) with Rmult. change (@fopp R N) with Ropp.
      change (@fsin R N) with sin. change (@fcos R N) with cos. change (@fdiv R N) with Rdiv. change (@fabs R N) with Rabs.
      change (@flt R N) with Rltb. change (@f1 R N) with 1.
      destruct (Rltb_spec t1 t2); destruct (Rlt_dec t1 t2); try lra; f_equal; ring.
  Qed.

  (** ** the whole loop *)
  Definition interp_piece (frac : R) (c n : R * R * R) : @piece R :=
    let '(t0, b0, l0) := c in let '(t1, b1, l1) := n in
    {| pc_len := l0 + frac * (l1 - l0); pc_top := t0 + frac * (t1 - t0); pc_bot := b0 + frac * (b1 - b0) |}.

  (** the pieces the loop walks over: segment k of the current section interpolated with segment k of the next
      (with itself when the next section has fewer segments) *)
  Fixpoint loop_pieces (frac : R) (cur nxt : list (R * R * R)) : list (@piece R) :=
    match cur with
    | [] => []
    | c :: cr => interp_piece frac c (match nxt with n :: _ => n | [] => c end) :: loop_pieces frac cr (tl nxt)
    end.

  Theorem loop_end_refines_spec : forall (cur nxt : list (R * R * R)) sr frac isec cp st iseg u v,
    ss_add st = 0 ->
    Forall piece_ok (loop_pieces frac cur nxt) ->
    let st' := @segment_loop R N DMNone sr frac isec cp st iseg cur nxt in
    ss_add st' = 0 /\
    ss_end st' = frame sr (@spec_chain_end R N (loop_pieces frac cur nxt) (fst (ss_end st)) (sr - snd (ss_end st)) u v) /\
    ss_total st' = @spec_chain_done R N (loop_pieces frac cur nxt) (ss_total st).
  Proof.
    induction cur as [|c cr IH]; intros nxt sr frac isec cp st iseg u v Hadd Hok; cbn [segment_loop loop_pieces spec_chain_end spec_chain_done].
    - split; [exact Hadd|]. split; [|reflexivity].
      unfold frame. cbn [fst snd]. destruct (ss_end st) as [x y]. cbn [fst snd]. f_equal. ring.
    - cbn [loop_pieces] in Hok. inversion Hok as [|p ps Hp Hps]; subst.
      set (n := match nxt with n :: _ => n | [] => c end) in *.
      destruct c as [[t0 b0] l0]. destruct n as [[t1 b1] l1] eqn:En.
      pose proof (@segment_step_end_cartesian R N sr frac isec cp st iseg t0 b0 l0 t1 b1 l1) as S. cbv zeta in S.
      destruct S as [Sadd [Send Stot]].
      set (st1 := @segment_step R N DMNone sr frac isec cp st iseg (t0, b0, l0) (t1, b1, l1)) in *.
      assert (Hadd1 : ss_add st1 = 0) by (rewrite Sadd; exact Hadd).
      specialize (IH (tl nxt) sr frac isec cp st1 (S iseg) u v Hadd1 Hps).
      cbv zeta in IH. destruct IH as [I1 [I2 I3]].
      split; [exact I1|].
      (* the step *)
      set (p := interp_piece frac (t0, b0, l0) (t1, b1, l1)) in *.
      assert (Plen : pc_len p = l0 + frac * (l1 - l0)) by reflexivity.
      assert (Ptop : pc_top p = t0 + frac * (t1 - t0)) by reflexivity.
      assert (Pbot : pc_bot p = b0 + frac * (b1 - b0)) by reflexivity.
      destruct Hp as [HL Hk].
      pose proof (pow10_neg_small 14) as [P14 _].
      change (@fadd R N) with Rplus in Send, Stot. change (@fmul R N) with Rmult in Send, Stot. change (@fsub R N) with Rminus in Send, Stot.
      change (@flt R N) with Rltb in Send, Stot. change (@f0 R N) with 0 in Send. unfold e14 in Send, Stot.
      change (@fdec R N 1 (-14)) with (1 * powerRZ 10 (-14)) in Send, Stot.
      rewrite Hadd in Send.
      destruct (Rltb_spec (l0 + frac * (l1 - l0)) (1 * powerRZ 10 (-14))) as [Hs|_]; [rewrite Plen in HL; lra|].
      replace (t0 + frac * (t1 - t0) + 0 + 0) with (pc_top p) in Send by (rewrite Ptop; ring).
      replace (b0 + frac * (b1 - b0) + 0) with (pc_bot p) in Send by (rewrite Pbot; ring).
      rewrite <- Plen in Send, Stot.
      destruct (ss_end st) as [bx by_] eqn:Eend.
      rewrite (piece_end_refines_spec sr bx by_ p cp u v (conj HL Hk)) in Send.
      cbn [fst snd]. split.
      + rewrite I2, Send. unfold frame. cbn [fst snd].
        replace (sr - (sr - pe_ey (@eval_piece R N bx (sr - by_) p u v))) with (pe_ey (@eval_piece R N bx (sr - by_) p u v)) by ring.
        reflexivity.
      + rewrite I3, Stot. reflexivity.
  Qed.
End ChainR.
