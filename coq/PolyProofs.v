(** * PolyProofs: the generic polygon kernel (Kernels.v) at the real interpretation is the
    algorithm of PolySpec.v, hence correct with respect to [inside]. *)
From Coq Require Import Reals Lra Lia List ZArith Bool.
From WB Require Import Num Base RNum Kernels PolySpec.
Import ListNotations.
Local Open Scope R_scope.

Section Link.
  Variable sp : special.
  Local Existing Instance Rnum.
  Let N := Rnum sp.
  Notation approxR := (@approx R N).
  Notation epsR := (@feps R N).

  Definition conv (e : edge_res) : edge_verdict :=
    match e with OnB => OnBoundary | Up => Delta 1 | Down => Delta (-1) | Nothing => Delta 0 end.

  Lemma edge_link pj pi p : @Kernels.edge R N pj pi p = conv (PolySpec.edge epsR approxR pj pi p).
  Proof.
    unfold Kernels.edge, PolySpec.edge, Kernels.on_segment, PolySpec.on_segment, Kernels.is_left, PolySpec.is_left,
      PolySpec.dotp, PolySpec.sqlen.
    change (@fle R N) with Rleb. change (@flt R N) with Rltb. change (@f0 R N) with 0.
    change (@fabs R N) with Rabs. change (@fsub R N) with Rminus. change (@fmul R N) with Rmult.
    change (@fadd R N) with Rplus.
    change Rleb with PolySpec.leb. change Rltb with PolySpec.ltb.
    destruct (PolySpec.leb (snd pj) (snd p)).
    - destruct (approxR (fst pi) (fst p) && approxR (snd pi) (snd p)); [reflexivity|].
      destruct (PolySpec.leb (snd p) (snd pi)); [|reflexivity].
      destruct (PolySpec.ltb 0 _ && PolySpec.ltb (snd p) (snd pi)); [reflexivity|].
      destruct (PolySpec.ltb (Rabs _) epsR); [|reflexivity].
      destruct (PolySpec.leb 0 _); cbn [andb]; [|reflexivity].
      destruct (PolySpec.leb _ _); reflexivity.
    - destruct (PolySpec.leb (snd pi) (snd p)); [|reflexivity].
      destruct (PolySpec.ltb _ 0); [reflexivity|].
      destruct (PolySpec.ltb (Rabs _) epsR); [|reflexivity].
      destruct (PolySpec.leb 0 _); cbn [andb]; [|reflexivity].
      destruct (PolySpec.leb _ _); reflexivity.
  Qed.

  Lemma scan_link p : forall l prev wn,
    @poly_scan R N prev l p wn = PolySpec.scan epsR approxR prev l p wn.
  Proof.
    induction l as [|x l IH]; intros prev wn; [reflexivity|].
    cbn [poly_scan PolySpec.scan]. rewrite edge_link.
    destruct (PolySpec.edge epsR approxR prev x p); cbn [conv].
    - reflexivity.
    - apply IH.
    - rewrite IH. reflexivity.
    - rewrite Z.add_0_r. apply IH.
  Qed.

  (** the C++ counter is a [size_t]; it is non-zero iff the integer winding number is *)
  Lemma scan_bound p : forall l prev wn w,
    PolySpec.scan epsR approxR prev l p wn = Some w -> (Z.abs (w - wn) <= Z.of_nat (length l))%Z.
  Proof.
    induction l as [|x l IH]; intros prev wn w H; cbn [PolySpec.scan length] in *.
    - inversion H. lia.
    - destruct (PolySpec.edge epsR approxR prev x p); try discriminate; apply IH in H; lia.
  Qed.

  Lemma wrap64_zero w : (Z.abs w < 18446744073709551616)%Z -> (wrap64 w =? 0)%Z = (w =? 0)%Z.
  Proof.
    intros H. unfold wrap64. destruct (Z.eqb_spec w 0) as [->|Hn]; [reflexivity|].
    apply Z.eqb_neq. intros E.
    apply Z.mod_divide in E; [|lia]. destruct E as [k Hk]. lia.
  Qed.

  Lemma contains_link poly p : (Z.of_nat (length poly) < 18446744073709551616)%Z ->
    @polygon_contains_impl R N poly p = PolySpec.contains epsR approxR poly p.
  Proof.
    intros L. unfold polygon_contains_impl, PolySpec.contains.
    destruct poly as [|v0 poly']; [reflexivity|]. set (poly := v0 :: poly') in *.
    rewrite scan_link.
    replace (last poly v0) with (last poly (0, 0)).
    2:{ unfold poly. clear. revert v0. induction poly' as [|a l IH]; intros v0; [reflexivity|].
        change (last (v0 :: a :: l) (0,0)) with (last (a :: l) (0,0)).
        change (last (v0 :: a :: l) v0) with (last (a :: l) v0).
        rewrite IH. clear. revert a. induction l as [|b l IH]; intros a; [reflexivity|].
        change (last (a :: b :: l) a) with (last (b :: l) a). change (last (a :: b :: l) v0) with (last (b :: l) v0).
        destruct l as [|c l]; [reflexivity|].
        change (last (b :: c :: l) a) with (last (c :: l) a). change (last (b :: c :: l) v0) with (last (c :: l) v0).
        clear. revert c. induction l as [|d l IH]; intros c; [reflexivity|].
        change (last (c :: d :: l) a) with (last (d :: l) a). change (last (c :: d :: l) v0) with (last (d :: l) v0). apply IH. }
    assert (X : forall s : option Z,
               (forall w, s = Some w -> (Z.abs w <= Z.of_nat (length poly))%Z) ->
               match s with None => true | Some wn => negb (wrap64 wn =? 0)%Z end =
               match s with Some wn => negb (wn =? 0)%Z | None => true end).
    { intros [w|] Hs; [|reflexivity]. rewrite wrap64_zero; [reflexivity|].
      eapply Z.le_lt_trans; [apply Hs; reflexivity | exact L]. }
    apply X. intros w E. apply scan_bound in E. rewrite Z.sub_0_r in E. exact E.
  Qed.

  (** the generic kernel decides the closed polygon, in exact arithmetic, in the exact regime *)
  Theorem polygon_contains_correct poly p :
    poly <> [] -> (Z.of_nat (length poly) < 18446744073709551616)%Z ->
    nondegenerate poly -> exact epsR approxR poly p ->
    (@polygon_contains_impl R N poly p = true <-> inside poly p).
  Proof.
    intros Hne L Hnd Hex. rewrite contains_link by exact L.
    apply (contains_correct epsR approxR (feps_pos sp)); assumption.
  Qed.
End Link.
