(** * C14 - concurrent queries are race-free and gwb-grid output does not depend on -j
    (the logic part: state-independence of queries under every schedule, and the slice partition). *)
From Coq Require Import List Arith NArith Lia.
From WB Require Import Num Base Props World WorldProofs WorldProofs2 Apps.
Import ListNotations.

Section C14.
  Context {F : Type} {NF : Num F}.
  Notation world := (@world F).

  (** a query never changes the only mutable state and its answer does not depend on it *)
  Theorem C14_no_state : forall (w : world) pos depth ps t r t',
    world_no_random w -> properties3d w pos depth ps t = Ok (r, t') ->
    t' = t /\ forall t2, properties3d w pos depth ps t2 = Ok (r, t2).
  Proof. exact properties3d_tape_irrelevant. Qed.

  (** [Interleaving qss h]: [h] is one interleaving of the per-thread query streams [qss] *)
  Inductive Interleaving : list (list (@q3 F)) -> list (@q3 F) -> Prop :=
  | il_nil : forall qss, Forall (fun qs => qs = []) qss -> Interleaving qss []
  | il_step : forall pre q qs post h,
      Interleaving (pre ++ qs :: post) h -> Interleaving (pre ++ (q :: qs) :: post) (q :: h).

  (** whatever the interleaving of any number of threads, a query issued after it gets the answer a
      single thread would get on a fresh world (induction over the schedule) *)
  Theorem C14_schedule : forall (w : world) qss h t t1 pos d ps r t',
    world_no_random w ->
    Interleaving qss h ->
    run_history w h t = Ok t1 ->
    properties3d w pos d ps t = Ok (r, t') ->
    properties3d w pos d ps t1 = Ok (r, t1).
  Proof. intros w qss h t t1 pos d ps r t' WN _. apply history_irrelevant, WN. Qed.
End C14.

(** gwb-grid: the node range is partitioned among the threads, for every range and thread count *)
Theorem C14_partition : forall s e P, s <= e -> 1 <= P ->
  chain s e (parallel_for s e P) /\ length (parallel_for s e P) <= P.
Proof. exact parallel_for_partition. Qed.

(** ... so every node is evaluated by exactly one thread (cover + disjointness) *)
Theorem C14_every_node_once : forall s e P k, s <= e -> 1 <= P -> s <= k < e ->
  (exists x y, In (x, y) (parallel_for s e P) /\ x <= k < y) /\
  (forall i j x1 y1 x2 y2, i < j -> nth_error (parallel_for s e P) i = Some (x1, y1) ->
     nth_error (parallel_for s e P) j = Some (x2, y2) -> y1 <= x2).
Proof.
  intros s e P k Hse HP Hk. destruct (parallel_for_partition s e P Hse HP) as [C _]. split.
  - apply (chain_cover s e _ C k Hk).
  - apply (chain_disjoint s e _ C).
Qed.

(** thread counts not dividing the range, and more threads than nodes *)
Example C14_example_uneven : parallel_for 0 10 3 = [(0, 3); (3, 6); (6, 10)].
Proof. reflexivity. Qed.
Example C14_example_more_threads_than_nodes : parallel_for 0 3 8 = [(0, 1); (1, 2); (2, 3)].
Proof. reflexivity. Qed.

Print Assumptions C14_no_state.
Print Assumptions C14_schedule.
Print Assumptions C14_partition.
Print Assumptions C14_every_node_once.
