(** * C19 - geometric kernels agree with their brute-force definitions ([R] theorems). *)
From Coq Require Import Reals List ZArith.
From WB Require Import Num Base RNum Kernels World Bezier KdSpec KdProofs PolySpec PolyProofs GeomProofs.
Import ListNotations.
Local Open Scope R_scope.

Section C19.
  Variable sp : special.
  Local Existing Instance Rnum.
  Let N := Rnum sp.

  (** the nearest-centroid search returns a node at the true minimum distance, for every node array
      with the invariant that std::nth_element establishes and every query *)
  Theorem C19_kd : forall (nodes : list (@kdnode R)) cp,
    nodes <> [] ->
    (forall i, (i < length nodes)%nat -> KdSpec.dist (KdSpec.node (pts nodes) i) cp < @fdmax R N) ->
    KdSpec.kd_inv (length nodes) (pts nodes) 0 (length nodes - 1) false ->
    let res := fst (@find_closest_points R N nodes cp) in
    (fst res < length nodes)%nat /\
    snd res = @kd_dist R N (nth (fst res) nodes (@kd_default R N)) cp /\
    forall i, (i < length nodes)%nat -> snd res <= @kd_dist R N (nth i nodes (@kd_default R N)) cp.
  Proof. exact (find_closest_points_correct sp). Qed.

  (** the polygon test is exact, boundary included, whenever the arithmetic is exact *)
  Theorem C19_polygon : forall poly p,
    poly <> [] -> (Z.of_nat (length poly) < 18446744073709551616)%Z ->
    nondegenerate poly -> exact (@feps R N) (@approx R N) poly p ->
    (@polygon_contains_impl R N poly p = true <-> inside poly p).
  Proof. exact (polygon_contains_correct sp). Qed.

  (** the trench curve passes through its coordinates *)
  Theorem C19_bezier_through_points : forall (b : @bezier R) i,
    @bezier_eval R N b i 0 = @pnth R N (bz_points b) i /\
    @bezier_eval R N b i 1 = @pnth R N (bz_points b) (i + 1).
  Proof. intros b i. split; [apply bezier_eval_start | apply bezier_eval_end]. Qed.

  (** the point reported by the closest-point search lies on the curve at the reported parameter *)
  Theorem C19_reported_point_on_curve : forall (b : @bezier R) i t,
    let q := @cubic_of R N b i in
    (@poly_plain R N (ca0 q) (cb0 q) (cc0 q) (cd0 q) t, @poly_plain R N (ca1 q) (cb1 q) (cc1 q) (cd1 q) t)
    = @bezier_eval R N b i t.
  Proof. exact (cubic_is_bezier sp). Qed.

  (** the same-depth distance on the sphere is the great-circle distance for any pair of points *)
  Theorem C19_great_circle : forall r lon1 lat1 lon2 lat2,
    0 < r ->
    @great_circle_distance R N (r, lon1, lat1) (r, lon2, lat2) =
    r * acos (cos lat1 * cos lat2 * cos (lon1 - lon2) + sin lat1 * sin lat2).
  Proof. exact (great_circle_is_central_angle sp). Qed.

  (** Cartesian <-> spherical conversion round-trips (off the axis; atan2 law as a premise) *)
  Theorem C19_roundtrip : forall r lon lat,
    special_laws sp ->
    @fdmin R N < r -> - PI < lon <= PI -> - (PI / 2) < lat < PI / 2 ->
    @cartesian_to_spherical R N (@spherical_to_cartesian R N (r, lon, lat)) = (r, lon, lat).
  Proof. exact (spherical_roundtrip sp). Qed.
End C19.

Print Assumptions C19_kd.
Print Assumptions C19_polygon.
Print Assumptions C19_bezier_through_points.
Print Assumptions C19_reported_point_on_curve.
Print Assumptions C19_great_circle.
Print Assumptions C19_roundtrip.
