(** * QuatProofs: what the quaternion averaging does to the "no orientation" block (all zeros). *)
From Coq Require Import Reals Lra List ZArith Bool.
From WB Require Import Num Base RNum Quat.
Import ListNotations.
Local Open Scope R_scope.

Section QP.
  Variable sp : special.
  Local Existing Instance Rnum.
  Let N := Rnum sp.

  (** any quaternion with zero vector part is cast to the identity matrix *)
  Lemma mat3_cast_scalar (w : R) : @mat3_cast R N (w, 0, 0, 0) = [1; 0; 0; 0; 1; 0; 0; 0; 1].
  Proof.
    unfold mat3_cast. change (@fmul R N) with Rmult. change (@fadd R N) with Rplus. change (@fsub R N) with Rminus.
    change (@f1 R N) with 1. unfold f2. change (@fofZ R N 2) with 2.
    repeat (f_equal; try ring).
  Qed.

  Lemma quat_cast_zero : @quat_cast R N (repeat 0 9) = (sqrt 1 * (5 * powerRZ 10 (-1)), 0, 0, 0).
  Proof.
    unfold quat_cast, mget. cbn [repeat nth Nat.mul Nat.add].
    change (@fsub R N) with Rminus. change (@fadd R N) with Rplus. change (@fmul R N) with Rmult. change (@fdiv R N) with Rdiv.
    change (@flt R N) with Rltb. change (@f1 R N) with 1. change (@fsqrt R N) with sqrt. unfold fhalf.
    change (@fdec R N 5 (-1)) with (5 * powerRZ 10 (-1)). change (@fdec R N 25 (-2)) with (25 * powerRZ 10 (-2)).
    replace (0 - 0 - 0) with 0 by ring. replace (0 + 0 + 0) with 0 by ring.
    assert (E : Rltb 0 0 = false) by (destruct (Rltb_spec 0 0); [lra | reflexivity]).
    rewrite !E. cbv beta iota zeta. rewrite ?E. cbv beta iota zeta. rewrite ?E. cbv beta iota zeta.
    replace (0 + 1) with 1 by ring.
    f_equal; [f_equal; [f_equal|]|]; ring.
  Qed.

  (** known finding D4 as a theorem about the model: two all-zero orientation blocks (a slab / fault without grains
      models over a background without grains) are "averaged" to the identity matrix, whatever the section fraction *)
  Theorem zero_rotations_become_identity (a : R) : @average_rotation R N (repeat 0 9) (repeat 0 9) a = [1; 0; 0; 0; 1; 0; 0; 0; 1].
  Proof.
    unfold average_rotation. rewrite quat_cast_zero. set (w := sqrt 1 * (5 * powerRZ 10 (-1))).
    unfold slerp.
    change (@fmul R N) with Rmult. change (@fadd R N) with Rplus. change (@fsub R N) with Rminus. change (@fdiv R N) with Rdiv.
    change (@fopp R N) with Ropp. change (@flt R N) with Rltb. change (@f0 R N) with 0. change (@f1 R N) with 1.
    change (@facos R N) with acos. change (@fsin R N) with sin. change (@feps R N) with (powerRZ 2 (-52)).
    destruct (Rltb (w * w + 0 * 0 + 0 * 0 + 0 * 0) 0).
    - destruct (Rltb (1 - powerRZ 2 (-52)) (- (w * w + 0 * 0 + 0 * 0 + 0 * 0))).
      + unfold qmix. change (@fmul R N) with Rmult. change (@fadd R N) with Rplus. change (@fsub R N) with Rminus. change (@f1 R N) with 1.
        replace (0 * (1 - a) + - 0 * a) with 0 by ring. apply mat3_cast_scalar.
      + replace ((0 * sin ((1 - a) * acos (- (w * w + 0 * 0 + 0 * 0 + 0 * 0))) + - 0 * sin (a * acos (- (w * w + 0 * 0 + 0 * 0 + 0 * 0)))) /
                 sin (acos (- (w * w + 0 * 0 + 0 * 0 + 0 * 0)))) with 0 by (unfold Rdiv; ring).
        apply mat3_cast_scalar.
    - destruct (Rltb (1 - powerRZ 2 (-52)) (w * w + 0 * 0 + 0 * 0 + 0 * 0)).
      + unfold qmix. change (@fmul R N) with Rmult. change (@fadd R N) with Rplus. change (@fsub R N) with Rminus. change (@f1 R N) with 1.
        replace (0 * (1 - a) + 0 * a) with 0 by ring. apply mat3_cast_scalar.
      + replace ((0 * sin ((1 - a) * acos (w * w + 0 * 0 + 0 * 0 + 0 * 0)) + 0 * sin (a * acos (w * w + 0 * 0 + 0 * 0 + 0 * 0))) /
                 sin (acos (w * w + 0 * 0 + 0 * 0 + 0 * 0))) with 0 by (unfold Rdiv; ring).
        apply mat3_cast_scalar.
  Qed.
End QP.
