(** * Spline: Utilities::interpolation (monotone cubic spline over unit-spaced nodes; utilities.cc:1043-1091, utilities.h:203-214) *)
From Coq Require Import ZArith List Bool.
From WB Require Import Num.
Import ListNotations.

Section Spline.
  Context {F : Type} {NF : Num F}.
  Local Open Scope num_scope.

  (** the tangents m[i][2]: 0 at the first node, the harmonic mean of neighbouring secants where they have the same sign,
      the last secant at the last node *)
  Fixpoint spline_inner (ys : list F) : list F :=
    match ys with
    | y0 :: ((y1 :: y2 :: _) as rest) =>
        let m0 := y1 - y0 in let m1 := y2 - y1 in
        (if (m0 * m1) <=? f0 then f0 else ((f2 * m0) * m1) / (m0 + m1)) :: spline_inner rest
    | _ => []
    end.

  Definition spline_tangents (ys : list F) : list F :=
    let n := length ys in
    f0 :: spline_inner ys ++ [nth (n - 1) ys f0 - nth (n - 2) ys f0].

  (** rows (a, b, c, y); the last row keeps a = b = 0 *)
  Definition spline_rows (ys : list F) : list (F * F * F * F) :=
    let cs := spline_tangents ys in
    let n := length ys in
    map (fun i =>
           let y := nth i ys f0 in let c1 := nth i cs f0 in
           if Nat.ltb (S i) n then
             let m0 := nth (S i) ys f0 - y in
             let common0 := ((c1 + nth (S i) cs f0) - m0) - m0 in
             (common0, (m0 - c1) - common0, c1, y)
           else (f0, f0, c1, y)) (seq 0 n).

  (** static_cast<size_t>(x) for 0 <= x <= n: the number of integers 1..n that are <= x *)
  Fixpoint trunc_index (n : nat) (x : F) : nat :=
    match n with
    | O => O
    | S n' => if fofZ (Z.of_nat n) <=? x then n else trunc_index n' x
    end.

  Definition spline_eval (ys : list F) (x : F) : F :=
    let rows := spline_rows ys in
    let n := length ys in
    let zero4 := (f0, f0, f0, f0) in
    if (f0 <=? x) && (x <=? fofZ (Z.of_nat n)) then
      let idx := trunc_index n x in
      let h := x - fofZ (Z.of_nat idx) in
      let '(a, b, c, y) := nth idx rows zero4 in
      ((((a * h) + b) * h + c) * h) + y
    else
      let idx := if x <? f1 then O else n in
      let h := x - fofZ (Z.of_nat idx) in
      let '(a, b, c, y) := nth idx rows zero4 in
      (((b * h) + c) * h) + y.
End Spline.
