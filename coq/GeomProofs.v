(** * GeomProofs: Bezier evaluation, great-circle distance and coordinate round trips over exact reals. *)
From Coq Require Import Reals Lra Lia List ZArith Bool Psatz.
From WB Require Import Num Base RNum Kernels World Bezier.
Import ListNotations.
Local Open Scope R_scope.

Section Geom.
  Variable sp : special.
  Local Existing Instance Rnum.
  Let N := Rnum sp.

  (** ** the trench curve passes through its coordinates *)
  Theorem bezier_eval_start (b : @bezier R) i : @bezier_eval R N b i 0 = @pnth R N (bz_points b) i.
  Proof.
    unfold bezier_eval. destruct (nth i (bz_ctrl b) (@p0 R N, @p0 R N)) as [C0 C1].
    unfold padd, pscale, f3. cbn [fst snd].
    change (@fsub R N) with Rminus. change (@fmul R N) with Rmult. change (@fadd R N) with Rplus.
    change (@f1 R N) with 1. change (@fofZ R N 3) with 3.
    destruct (@pnth R N (bz_points b) i) as [x y]. cbn [fst snd]. f_equal; ring.
  Qed.

  Theorem bezier_eval_end (b : @bezier R) i : @bezier_eval R N b i 1 = @pnth R N (bz_points b) (i + 1).
  Proof.
    unfold bezier_eval. destruct (nth i (bz_ctrl b) (@p0 R N, @p0 R N)) as [C0 C1].
    unfold padd, pscale, f3. cbn [fst snd].
    change (@fsub R N) with Rminus. change (@fmul R N) with Rmult. change (@fadd R N) with Rplus.
    change (@f1 R N) with 1. change (@fofZ R N 3) with 3.
    destruct (@pnth R N (bz_points b) (i + 1)) as [x y]. cbn [fst snd]. f_equal; ring.
  Qed.

  (** the cubic used by the closest-point search is the Bezier curve: the reported point
      [poly_plain a b c d t] is the curve point at the reported parameter *)
  Theorem cubic_is_bezier (b : @bezier R) i t :
    let q := @cubic_of R N b i in
    (@poly_plain R N (ca0 q) (cb0 q) (cc0 q) (cd0 q) t, @poly_plain R N (ca1 q) (cb1 q) (cc1 q) (cd1 q) t)
    = @bezier_eval R N b i t.
  Proof.
    cbn zeta. unfold cubic_of, bezier_eval.
    destruct (nth i (bz_ctrl b) (@p0 R N, @p0 R N)) as [[c0x c0y] [c1x c1y]].
    destruct (@pnth R N (bz_points b) i) as [x0 y0]. destruct (@pnth R N (bz_points b) (i + 1)) as [x1 y1].
    unfold poly_plain, padd, pscale, f3. cbn [fst snd ca0 ca1 cb0 cb1 cc0 cc1 cd0 cd1].
    change (@fsub R N) with Rminus. change (@fmul R N) with Rmult. change (@fadd R N) with Rplus.
    change (@fopp R N) with Ropp.
    change (@f1 R N) with 1. change (@fofZ R N 3) with 3. change (@fofZ R N 6) with 6.
    f_equal; ring.
  Qed.

  (** ** great-circle distance *)
  Lemma law_of_cosines_bound a1 a2 c :
    -1 <= cos c <= 1 ->
    -1 <= cos a1 * cos a2 * cos c + sin a1 * sin a2 <= 1.
  Proof.
    intros Hc.
    pose proof (sin2_cos2 a1) as H1. pose proof (sin2_cos2 a2) as H2. unfold Rsqr in *.
    set (s1 := sin a1) in *. set (c1 := cos a1) in *. set (s2 := sin a2) in *. set (c2 := cos a2) in *.
    set (k := cos c) in *.
    assert (Hk : k * k <= 1) by nra.
    (* (c1 c2 k + s1 s2)^2 <= (c1^2 + s1^2)(c2^2 k^2 + s2^2) <= 1 *)
    assert (Hsq : (c1 * c2 * k + s1 * s2) * (c1 * c2 * k + s1 * s2) <= 1).
    { assert (L : (c1 * c2 * k + s1 * s2) * (c1 * c2 * k + s1 * s2)
                  = (c1 * c1 + s1 * s1) * (c2 * c2 * (k * k) + s2 * s2) - (c1 * s2 - s1 * c2 * k) * (c1 * s2 - s1 * c2 * k)) by ring.
      rewrite L. replace (c1 * c1 + s1 * s1) with 1 by lra.
      assert (0 <= (c1 * s2 - s1 * c2 * k) * (c1 * s2 - s1 * c2 * k)) by apply Rle_0_sqr.
      assert (c2 * c2 * (k * k) <= c2 * c2) by (assert (0 <= c2 * c2) by apply Rle_0_sqr; nra).
      lra. }
    split; nra.
  Qed.

  (** same-depth distance on the sphere = radius times the central angle, for every pair of points *)
  Theorem great_circle_is_central_angle r lon1 lat1 lon2 lat2 :
    0 < r ->
    @great_circle_distance R N (r, lon1, lat1) (r, lon2, lat2) =
    r * acos (cos lat1 * cos lat2 * cos (lon1 - lon2) + sin lat1 * sin lat2).
  Proof.
    intros Hr. unfold great_circle_distance, spherical_to_cartesian, dot3, fmin, fmax, fhalf.
    change (@fsub R N) with Rminus. change (@fmul R N) with Rmult. change (@fadd R N) with Rplus.
    change (@fdiv R N) with Rdiv. change (@fopp R N) with Ropp. change (@facos R N) with acos.
    change (@fsin R N) with sin. change (@fcos R N) with cos. change (@flt R N) with Rltb.
    change (@f0 R N) with 0. change (@f1 R N) with 1. change (@fpi R N) with PI.
    change (@fdec R N 5 (-1)) with (5 * powerRZ 10 (-1)).
    assert (Hh : 5 * powerRZ 10 (-1) * PI = PI / 2).
    { change (powerRZ 10 (-1)) with (/ (10 * 1)). field. }
    rewrite Hh.
    assert (S1 : forall x, sin (PI / 2 - x) = cos x) by (intros x; apply sin_shift).
    assert (C1 : forall x, cos (PI / 2 - x) = sin x) by (intros x; apply cos_shift).
    rewrite !S1, !C1.
    set (d := (0 + r * cos lat1 * cos lon1 * (r * cos lat2 * cos lon2) + r * cos lat1 * sin lon1 * (r * cos lat2 * sin lon2)
               + r * sin lat1 * (r * sin lat2)) / (r * r)).
    assert (Hd : d = cos lat1 * cos lat2 * cos (lon1 - lon2) + sin lat1 * sin lat2).
    { unfold d. rewrite cos_minus. field. lra. }
    pose proof (law_of_cosines_bound lat1 lat2 (lon1 - lon2) (COS_bound _)) as [B1 B2].
    rewrite <- Hd in B1, B2.
    rewrite <- Hd. f_equal. f_equal.
    destruct (Rltb_spec (- (1)) d) as [H1|H1].
    - destruct (Rltb_spec d 1) as [H2|H2]; [reflexivity|lra].
    - assert (E : d = - (1)) by lra. destruct (Rltb_spec (- (1)) 1); [exact (eq_sym E)|lra].
  Qed.

  (** ** spherical -> Cartesian -> spherical is the identity off the axis *)
  Theorem spherical_roundtrip r lon lat :
    special_laws sp ->
    @fdmin R N < r -> - PI < lon <= PI -> - (PI / 2) < lat < PI / 2 ->
    @cartesian_to_spherical R N (@spherical_to_cartesian R N (r, lon, lat)) = (r, lon, lat).
  Proof.
    intros L Hr Hlon Hlat.
    assert (Hr0 : 0 < r).
    { eapply Rlt_trans; [|exact Hr]. change (0 < powerRZ 2 (-1022)). apply powerRZ_lt. lra. }
    unfold cartesian_to_spherical, spherical_to_cartesian, norm3, fhalf.
    change (@fsub R N) with Rminus. change (@fmul R N) with Rmult. change (@fadd R N) with Rplus.
    change (@fdiv R N) with Rdiv. change (@facos R N) with acos. change (@fsqrt R N) with sqrt.
    change (@fsin R N) with sin. change (@fcos R N) with cos. change (@flt R N) with Rltb.
    change (@f0 R N) with 0. change (@fpi R N) with PI. change (@fatan2 R N) with (sp_atan2 sp).
    change (@fdec R N 5 (-1)) with (5 * powerRZ 10 (-1)).
    assert (Hh : 5 * powerRZ 10 (-1) * PI = PI / 2).
    { change (powerRZ 10 (-1)) with (/ (10 * 1)). field. }
    rewrite Hh, sin_shift, cos_shift.
    assert (Hc : 0 < cos lat) by (apply cos_gt_0; lra).
    set (x := r * cos lat * cos lon). set (y := r * cos lat * sin lon). set (z := r * sin lat).
    assert (Hn : sqrt (x * x + y * y + z * z) = r).
    { replace (x * x + y * y + z * z) with (r * r).
      - apply sqrt_square; lra.
      - unfold x, y, z. pose proof (sin2_cos2 lat) as A. pose proof (sin2_cos2 lon) as B. unfold Rsqr in *.
        replace (r * cos lat * cos lon * (r * cos lat * cos lon) + r * cos lat * sin lon * (r * cos lat * sin lon) + r * sin lat * (r * sin lat))
          with (r * r * (cos lat * cos lat * (sin lon * sin lon + cos lon * cos lon) + sin lat * sin lat)) by ring.
        rewrite B. replace (cos lat * cos lat * 1 + sin lat * sin lat) with (sin lat * sin lat + cos lat * cos lat) by ring.
        rewrite A. ring. }
    rewrite Hn.
    destruct (Rltb_spec (@fdmin R N) r) as [_|H]; [|contradiction].
    f_equal; [f_equal|].
    - unfold y, x. replace (r * cos lat * sin lon) with (r * cos lat * sin lon) by ring.
      apply (atan2_polar sp L (r * cos lat) lon); [apply Rmult_lt_0_compat; lra | exact Hlon].
    - unfold z. replace (r * sin lat / r) with (sin lat) by (field; lra).
      rewrite <- (cos_shift lat). rewrite acos_cos by lra. ring.
  Qed.
End Geom.
