(** * Plume: the plume feature (features/plume.cc) and its models. *)
From Coq Require Import List Arith NArith ZArith Lia Bool.
From WB Require Import Num Base Props World Kernels Features.
Import ListNotations.

Section Plume.
  Context {F : Type} {NF : Num F}.
  Local Open Scope num_scope.
  Notation query := (@query F).
  Notation pt2 := (@pt2 F).

  (** [std::upper_bound]: index of the first element greater than [d] *)
  Fixpoint upper_bound (l : list F) (d : F) : nat :=
    match l with
    | [] => 0
    | x :: r => if d <? x then 0 else S (upper_bound r d)
    end.

  (** utilities.cc:166-186.  Note the early return of [false] (= 0.0) for tiny axes. *)
  Definition fraction_from_ellipse_center (c : pt2) (a e theta : F) (p : pt2) : F :=
    let xr := ((fst p - fst c) * fcos theta) + ((snd p - snd c) * fsin theta) in
    let yr := ((- (fst p - fst c)) * fsin theta) + ((snd p - snd c) * fcos theta) in
    let b := a * fsqrt (f1 - (e * e)) in
    if (a <? (fofZ 10 * fdmin)) || (b <? (fofZ 10 * fdmin)) then f0
    else ((xr * xr) / (a * a)) + ((yr * yr) / (b * b)).

  (** utilities.cc:1095-1116 *)
  Definition interpolate_angle_across_zero (a1 a2 fraction : F) : F :=
    let wrap := fpi <? fabs (a2 - a1) in
    let t1 := if wrap && (a1 <? a2) then a1 + (f2 * fpi) else a1 in
    let t2 := if wrap && negb (a1 <? a2) then a2 + (f2 * fpi) else a2 in
    let r := ((f1 - fraction) * t1) + (fraction * t2) in
    r - ((f2 * fpi) * ffloor (r / (f2 * fpi))).

  Inductive ptemp_model :=
  | PTUniform (mn mx : F) (o : op) (T : F)
  | PTGaussian (o : op) (depths temps sigmas : list F).

  Record plume_feature := {
    pl_coords : list pt2;
    pl_min : F; pl_max : F;
    pl_depths : list F;
    pl_axes : list F;          (* radians in spherical worlds *)
    pl_ecc : list F;
    pl_rot : list F;           (* already pi/2 - angle*pi/180 *)
    pl_temp : list ptemp_model;
    pl_comp : list (@comp_model F);
    pl_grains : list (@grains_model F);
    pl_vel : list (@vel_model F);
    pl_tag : F
  }.

  Definition lastf (l : list F) : F := last l f0.
  Definition pt0 : pt2 := (f0, f0).

  (** centre, semi-major axis, eccentricity, rotation angle of the cross-section at this depth *)
  Definition plume_section (pl : plume_feature) (depth : F) : pt2 * F * F * F :=
    let ds := pl_depths pl in
    let up := upper_bound ds depth in
    if Nat.eqb up 0 then
      let d0 := nth 0 ds f0 in
      let fraction := (depth - pl_min pl) / (d0 - pl_min pl) in
      let a := d0 - pl_min pl in
      let b := nth 0 (pl_axes pl) f0 in
      let y := (f1 - fraction) * a in
      (nth 0 (pl_coords pl) pt0, fsqrt ((f1 - ((y / a) * (y / a))) * b * b), nth 0 (pl_ecc pl) f0, nth 0 (pl_rot pl) f0)
    else if Nat.eqb up (length ds) then
      (last (pl_coords pl) pt0, lastf (pl_axes pl), lastf (pl_ecc pl), lastf (pl_rot pl))
    else
      let i := up in
      let dl := nth (i - 1) ds f0 in
      let dh := nth i ds f0 in
      let fraction := (depth - dl) / (dh - dl) in
      let lerp a b := ((f1 - fraction) * a) + (fraction * b) in
      let c0 := nth (i - 1) (pl_coords pl) pt0 in
      let c1 := nth i (pl_coords pl) pt0 in
      ((lerp (fst c0) (fst c1), lerp (snd c0) (snd c1)),
       lerp (nth (i - 1) (pl_axes pl) f0) (nth i (pl_axes pl) f0),
       lerp (nth (i - 1) (pl_ecc pl) f0) (nth i (pl_ecc pl) f0),
       interpolate_angle_across_zero (nth (i - 1) (pl_rot pl) f0) (nth i (pl_rot pl) f0) fraction).

  (** relative (squared) distance from the plume axis; in the head an ellipsoid *)
  Definition plume_rel_distance (pl : plume_feature) (p : pt2) (depth : F) : F :=
    let '(c, a, e, th) := plume_section pl depth in
    let d0 := nth 0 (pl_depths pl) f0 in
    if (pl_min pl <=? depth) && (depth <? d0) then
      let a0 := nth 0 (pl_axes pl) f0 in
      let b0 := a0 * fsqrt (f1 - (e * e)) in
      let c0 := d0 - pl_min pl in
      let x := ((fst p - fst c) * fcos th) + ((snd p - snd c) * fsin th) in
      let y := ((- (fst p - fst c)) * fsin th) + ((snd p - snd c) * fcos th) in
      let z := d0 - depth in
      (((x * x) / (a0 * a0)) + ((y * y) / (b0 * b0))) + ((z * z) / (c0 * c0))
    else fraction_from_ellipse_center c a e th p.

  (** the surface point of the query; in spherical coordinates the copy (longitude, longitude +- 2 pi)
      closest in longitude to the centre of the cross-section at this depth *)
  Definition plume_point (sph : bool) (pl : plume_feature) (q : query) : pt2 :=
    let p := surf_point sph q in
    if sph then
      let '(c, _, _, _) := plume_section pl (q_depth q) in
      if fpi <? (fst p - fst c) then (fst p - (f2 * fpi), snd p)
      else if (fst p - fst c) <? - fpi then (fst p + (f2 * fpi), snd p)
      else p
    else p.

  Definition plume_covers (sph : bool) (pl : plume_feature) (q : query) : bool :=
    let d := q_depth q in
    if d <? pl_min pl then false
    else (d <=? pl_max pl) && (pl_min pl <=? d) && (plume_rel_distance pl (plume_point sph pl q) d <=? f1).

  Definition ptemp_eval (g : @globals F) (pl : plume_feature) (q : query) (rdc : F) (m : ptemp_model) (old : F) : F :=
    let d := q_depth q in
    match m with
    | PTUniform mn mx o T => if in_range mn mx d then apply_op o old T else old
    | PTGaussian o depths temps sigmas =>
        if (d <=? pl_max pl) && (pl_min pl <=? d) && (rdc <=? f1) then
          let up := upper_bound depths d in
          let '(tc, sg) :=
            if Nat.eqb up 0 then (nth 0 temps f0, nth 0 sigmas f0)
            else if Nat.eqb up (length depths) then (lastf temps, lastf sigmas)
            else
              let dl := nth (up - 1) depths f0 in
              let dh := nth up depths f0 in
              let fraction := (d - dl) / (dh - dl) in
              (((f1 - fraction) * nth (up - 1) temps f0) + (fraction * nth up temps f0),
               ((f1 - fraction) * nth (up - 1) sigmas f0) + (fraction * nth up sigmas f0)) in
          let tc := if tc <? f0 then adiabat_g g (q_g q) d else tc in
          apply_op o old (tc * fexp ((- rdc) / (f2 * (sg * sg))))
        else old
    end.

  Definition plume_paint (g : @globals F) (tape : nat -> F) (sph : bool) (pl : plume_feature) (q : query) (wt : @wtemp F)
             (p : prop_req) (t : nat) (blk : list F) : list F * nat :=
    let rdc := plume_rel_distance pl (plume_point sph pl q) (q_depth q) in
    match p with
    | PTemp => ([fold_left (fun old m => ptemp_eval g pl q rdc m old) (pl_temp pl) (nth 0 blk f0)], t)
    | PComp c =>
        let '(v, t') := fold_left (fun st m => comp_eval tape sph q wt m c st) (pl_comp pl) (nth 0 blk f0, t) in ([v], t')
    | PGrains c k => fold_left (fun st m => grains_eval tape sph q m c k st) (pl_grains pl) (blk, t)
    | PTag => ([pl_tag pl], t)
    | PVel =>
        let '(vx, vy, vz) := fold_left (fun old m => vel_eval sph q m old) (pl_vel pl) (f0, f0, f0) in
        ([vx; vy; vz], t)
    end.

  Definition plume_to_feature (g : @globals F) (tape : nat -> F) (sph : bool) (pl : plume_feature) : @feature F :=
    {| ft_covers := plume_covers sph pl;
       ft_cov_err := fun _ => false;
       ft_paint_err := fun _ _ _ => false;
       ft_paint := plume_paint g tape sph pl;
       ft_tag := pl_tag pl |}.
End Plume.
