(** * Props: property requests, slot widths and offsets
    (mirrors world.cc: properties_output_size and the slot allocation loop of World::properties). *)
From Coq Require Import List Arith NArith Lia.
Import ListNotations.

Inductive prop_req :=
| PTemp                      (* {1,0,0} *)
| PComp (c : N)              (* {2,c,0} *)
| PGrains (c : N) (k : N)    (* {3,c,k} : 10 values per grain *)
| PTag                       (* {4,0,0} *)
| PVel.                      (* {5,0,0} *)

(** The C++ interface passes triples of unsigned ints; anything else than 1..5 throws. *)
Definition decode (p : N * N * N) : option prop_req :=
  let '(a, b, c) := p in
  match a with
  | 1%N => Some PTemp | 2%N => Some (PComp b) | 3%N => Some (PGrains b c)
  | 4%N => Some PTag | 5%N => Some PVel | _ => None
  end.

Definition width (p : prop_req) : nat :=
  match p with
  | PGrains _ k => N.to_nat k * 10
  | PVel => 3
  | _ => 1
  end.

(** [World::properties_output_size] *)
Definition output_size (ps : list prop_req) : nat := fold_left (fun n p => n + width p) ps 0.

(** prefix sums: where the block of each request starts *)
Fixpoint offsets_from (start : nat) (ps : list prop_req) : list nat :=
  match ps with
  | [] => []
  | p :: r => start :: offsets_from (start + width p) r
  end.
Definition offsets := offsets_from 0.

Lemma fold_width_acc ps : forall a, fold_left (fun n p => n + width p) ps a = a + output_size ps.
Proof.
  unfold output_size. induction ps as [|p ps IH]; intros a; cbn [fold_left]; [lia|].
  rewrite IH, (IH (0 + width p)). lia.
Qed.

Lemma output_size_cons p ps : output_size (p :: ps) = width p + output_size ps.
Proof. unfold output_size at 1. cbn [fold_left]. rewrite fold_width_acc. lia. Qed.

Lemma output_size_app ps qs : output_size (ps ++ qs) = output_size ps + output_size qs.
Proof.
  induction ps as [|p ps IH]; [reflexivity|].
  cbn [app]. rewrite !output_size_cons, IH. lia.
Qed.

Lemma offsets_from_length s ps : length (offsets_from s ps) = length ps.
Proof. revert s; induction ps as [|p ps IH]; intros s; cbn; [reflexivity|]. now rewrite IH. Qed.

Lemma offsets_from_nth ps : forall s i, i < length ps ->
  nth i (offsets_from s ps) 0 = s + output_size (firstn i ps).
Proof.
  induction ps as [|p ps IH]; intros s i Hi; [cbn in Hi; lia|].
  destruct i as [|i]; cbn [offsets_from nth firstn].
  - unfold output_size; cbn; lia.
  - rewrite IH by (cbn in Hi; lia). rewrite output_size_cons. lia.
Qed.
