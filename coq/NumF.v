(** * NumF: the number interface interpreted by Coq's primitive binary64 floats.
    Arithmetic, square root, comparisons and absolute value are the kernel's IEEE operations; the functions of libm have no
    primitive counterpart and are NaN here, so only kernels that do not use them (polygon test, kd-tree search, triangle
    test / barycentric interpolation, approx, the slot bookkeeping) can be evaluated under this instance.  It is used for
    one thing: evaluating those kernels *inside Coq* ([vm_compute]) on the inputs of the correspondence check, as a cross-check
    of extraction and of the OCaml float dictionary (lib/c19.py). *)
From Coq Require Import ZArith Floats Uint63 List.
From WB Require Import Num.
Import ListNotations.
Local Open Scope float_scope.

Definition float_of_Z (z : Z) : float :=
  match z with
  | Z0 => 0
  | Zpos p => PrimFloat.of_uint63 (Uint63.of_Z (Zpos p))
  | Zneg p => - PrimFloat.of_uint63 (Uint63.of_Z (Zpos p))
  end.

(** m * 10^e: exact integer scaling, one correctly rounded division for negative exponents (|m|, 10^|e| < 2^53) *)
Definition float_dec (m e : Z) : float :=
  match e with
  | Z0 => float_of_Z m
  | Zpos p => float_of_Z (m * 10 ^ Zpos p)
  | Zneg p => float_of_Z m / float_of_Z (10 ^ Zpos p)
  end.

Definition Fnum : Num float := {|
  f0 := 0; f1 := 1;
  fadd := PrimFloat.add; fsub := PrimFloat.sub; fmul := PrimFloat.mul; fdiv := PrimFloat.div;
  fopp := PrimFloat.opp; fabs := PrimFloat.abs; fsqrt := PrimFloat.sqrt;
  fexp := fun _ => nan; fsin := fun _ => nan; fcos := fun _ => nan; ftan := fun _ => nan;
  facos := fun _ => nan; fasin := fun _ => nan; ftanh := fun _ => nan; ferfc := fun _ => nan;
  ffloor := fun _ => nan; flog := fun _ => nan; flog10 := fun _ => nan;
  fatan2 := fun _ _ => nan; fpow := fun _ _ => nan; ffmod := fun _ _ => nan;
  flt := PrimFloat.ltb; fle := PrimFloat.leb; feqb := PrimFloat.eqb;
  fofZ := float_of_Z;
  fdec := float_dec;
  feps := 0x1p-52;
  fdmin := 0x1p-1022;
  fdmax := 0x1.fffffffffffffp+1023;
  fpi := 0x1.921fb54442d18p+1;
  fnan := nan;
  fisfinite := fun x => negb (PrimFloat.is_nan x || PrimFloat.is_infinity x)
|}.
