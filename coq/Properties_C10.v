(** * C10 - segment models are inherited and sections interpolate only between neighbours.

    The layout model (SlabLayout.v) describes how the per-coordinate segment table is assembled from the
    feature, its section entries and their segments; the evaluation of a query reads the table rows of
    the two coordinates next to its foot and combines them with [section_interp].  The model is tied to
    the code by the re-layout oracle of lib/c10.py (equivalent layouts / overrides on the implementation);
    the slab evaluation itself is not modelled yet. *)
From Coq Require Import Reals Lra List.
From WB Require Import Num RNum Base Props World Kernels Features Bezier SlabLayout SlabLayoutProofs SlabModel SlabFeature SlabTie.
Import ListNotations.

Section C10S.
  Variables K M G : Type.

  (** writing the inherited models into every segment builds the same table (models compared per kind) *)
  Theorem C10_explicit_models : forall L : layout K M G, table_eq K M G (table (explicit_models L)) (table L).
  Proof. exact (explicit_models_table K M G). Qed.

  (** repeating the default segment list as a section entry for every coordinate that has none builds the same table *)
  Theorem C10_explicit_sections : forall L : layout K M G, table_eq K M G (table (explicit_sections L)) (table L).
  Proof. exact (explicit_sections_table K M G). Qed.

  (** an override changes the row of its own coordinate only, so anything computed from the rows k and
      k+1 next to the foot is unchanged unless the overridden coordinate is k or k+1 *)
  Theorem C10_override_local : forall (L : layout K M G) (e : section_entry K M G),
    (forall j, se_coord e <> j -> section_of (override L e) j = section_of L j) /\
    section_of (override L e) (se_coord e) = map (resolve (inherit (se_models e) (ly_models L))) (se_segments e) /\
    (forall (A : Type) (eval : list (G * (K -> option M)) -> list (G * (K -> option M)) -> A) k,
       se_coord e <> k -> se_coord e <> S k ->
       eval (section_of (override L e) k) (section_of (override L e) (S k)) = eval (section_of L k) (section_of L (S k))).
  Proof.
    intros L e. split; [|split].
    - intros j H. exact (override_other K M G L e j H).
    - exact (override_self K M G L e).
    - intros A eval k H1 H2. exact (evaluation_local K M G A eval L e k H1 H2).
  Qed.
End C10S.

Section C10T.
  Context {F : Type} {NF : Num F}.

  (** at the level of the evaluator that is compared with the implementation bit for bit (SlabFeature.v, whose table
      is [table_of_layout]): the two re-layouts build literally the same feature, so every query has the same answer *)
  Theorem C10_relayout_same_feature : forall fault coords dip mn mx (L : layout mkind (@mlist_ F) (@sgeom F)) tag,
    line_of_layout fault coords dip mn mx (explicit_models L) tag = line_of_layout fault coords dip mn mx L tag /\
    line_of_layout fault coords dip mn mx (explicit_sections L) tag = line_of_layout fault coords dip mn mx L tag.
  Proof. intros. apply relayout_same_feature. Qed.

  (** an override leaves every other row of the evaluator's table unchanged, and a query reads only the rows of the
      two coordinates next to its foot - for the local thickness / truncation / length / models and for the distances *)
  Theorem C10_override_local_evaluator :
    (forall (L : layout mkind (@mlist_ F) (@sgeom F)) e j, se_coord e <> j -> (j < ly_n L)%nat ->
       nth j (table_of_layout (override L e)) [] = nth j (table_of_layout L) []) /\
    (forall (lf1 lf2 : @line_feature F) pd,
       nth (pd_section pd) (lf_table lf1) [] = nth (pd_section pd) (lf_table lf2) [] ->
       nth (S (pd_section pd)) (lf_table lf1) [] = nth (S (pd_section pd)) (lf_table lf2) [] ->
       lf_local lf1 pd = lf_local lf2 pd) /\
    (forall cp rp pl (g1 g2 : list (list (F * F * F))) sr b,
       (forall i, i = cl_index (closest_point_cartesian b (fst (fst cp), snd (fst cp))) ->
                  nth i g1 [] = nth i g2 [] /\ nth (S i) g1 [] = nth (S i) g2 []) ->
       distance_point_from_curved_planes cp rp pl g1 sr b = distance_point_from_curved_planes cp rp pl g2 sr b).
  Proof.
    split; [|split].
    - intros L e j H1 H2. exact (override_rows L e j H1 H2).
    - intros lf1 lf2 pd H1 H2. exact (local_reads_two_rows lf1 lf2 pd H1 H2).
    - intros cp rp pl g1 g2 sr b H. exact (distances_read_two_rows cp rp pl g1 g2 sr b H).
  Qed.
End C10T.

Section C10R.
  Variable sp : special.
  Local Existing Instance Rnum.
  Let N := Rnum sp.
  Local Open Scope R_scope.

  (** every interpolated quantity is a convex combination of the two adjacent sections' values and
      equals a section's own value at its coordinate *)
  Theorem C10_interpolation : forall a b f,
    @section_interp R N a b f = (1 - f) * a + f * b /\
    @section_interp R N a b 0 = a /\ @section_interp R N a b 1 = b /\
    (0 <= f <= 1 -> Rmin a b <= @section_interp R N a b f <= Rmax a b).
  Proof.
    intros a b f. unfold section_interp.
    change (@fadd R N) with Rplus. change (@fmul R N) with Rmult. change (@fsub R N) with Rminus.
    split; [ring | split; [ring | split; [ring|]]].
    intros [H0 H1]. unfold Rmin, Rmax. destruct (Rle_dec a b); split; nra.
  Qed.
End C10R.

Print Assumptions C10_explicit_models.
Print Assumptions C10_explicit_sections.
Print Assumptions C10_override_local.
Print Assumptions C10_interpolation.
Print Assumptions C10_relayout_same_feature.
Print Assumptions C10_override_local_evaluator.
