(** * Validate: the list-length checks the constructors enforce (WBAssertThrow in the parse_entries functions),
    as a boolean function of the *length signature* of a world document.  A document is a list of signatures, one per
    instantiated object that owns parallel lists.  [doc_ok] is the verdict "no length check throws".
    plume.cc:148-172, plume_models/temperature/gaussian.cc:99, */composition/uniform.cc, */grains/uniform.cc,
    */grains/random_uniform_distribution*.cc, oceanic_plate_models/temperature/{half_space_model,plate_model}.cc,
    subducting_plate_models/temperature/mass_conserving.cc:237, subducting_plate.cc:218,257 and fault.cc:198,236. *)
From Coq Require Import List Arith Bool NArith.
Import ListNotations.

Inductive lsig :=
| SigPlume (ncoords ndepths naxes necc nrot : nat)
| SigGaussian (ndepths ntemps nsigmas : nat)
| SigFractions (ncomp nfrac : nat)
| SigSmooth (ncomp nfirst nsecond : nat)                              (* smooth composition: top / bottom (center / side) fractions *)
| SigGrainsUniform (ncomp nrot nsizes : nat)
| SigGrainsRandom (ncomp nsizes nnorm : nat)
| SigGrainsDeflected (ncomp nsizes nnorm ndefl nbasis : nat)
| SigSpreading (ridges : list nat) (nvel : nat)                       (* points per ridge; velocities listed *)
| SigSubducting (ridges : list nat) (rows : list nat)                 (* points per ridge; entries per row of the subducting velocity table *)
| SigSection (ncoords coordinate nseg_default nseg_section : nat)
| SigVersion (file program : list N).                                 (* bytes of the "version" entry and of MAJOR.MINOR of the library *)

Definition sum_list (l : list nat) : nat := fold_right Nat.add 0 l.

Fixpoint nat_list_eqb (a b : list nat) : bool :=
  match a, b with
  | [], [] => true
  | x :: a', y :: b' => (x =? y) && nat_list_eqb a' b'
  | _, _ => false
  end.

Fixpoint bytes_eqb (a b : list N) : bool :=
  match a, b with
  | [], [] => true
  | x :: a', y :: b' => N.eqb x y && bytes_eqb a' b'
  | _, _ => false
  end.

Definition sig_ok (s : lsig) : bool :=
  match s with
  | SigPlume nc nd na ne nr => (nd =? nc) && (na =? nc) && (ne =? nc) && (nr =? nc)
  | SigGaussian nd nt ns => (nt =? nd) && (ns =? nd)
  | SigFractions nc nf => nc =? nf
  | SigSmooth nc n1 n2 => (nc =? n1) && (nc =? n2)
  | SigGrainsUniform nc nr ns => (nc =? nr) && (nc =? ns)
  | SigGrainsRandom nc ns nn => (nc =? ns) && (nc =? nn)
  | SigGrainsDeflected nc ns nn nd nb => (nc =? ns) && (nc =? nn) && (nc =? nd) && (nc =? nb)
  | SigSpreading ridges nv => (nv =? 1) || (nv =? sum_list ridges)
  | SigSubducting ridges rows =>
      (* mass_conserving.cc:270-276: a table whose first row has more than one entry must have the shape of the ridge coordinates *)
      if 1 <? hd 0 rows then match ridges with [] => true | _ => nat_list_eqb rows ridges end else true
  | SigSection ncoords coordinate nd ns => (coordinate <? ncoords) && (ns =? nd)
  | SigVersion file program => bytes_eqb file program       (* world.cc:171: the strings are compared as a whole *)
  end.

Definition doc_ok (d : list lsig) : bool := forallb sig_ok d.

(** the constructor's loop that hands every ridge point its spreading velocity (half_space_model.cc:127-144 and its
    copies): one listed value serves every point, otherwise the values are consumed in order, ridge after ridge *)
Fixpoint take_group {A} (n : nat) (single : bool) (vels : list A) (idx : nat) (d : A) : list A :=
  match n with
  | O => []
  | S n' => nth (if single then 0 else idx) vels d :: take_group n' single vels (S idx) d
  end.

Fixpoint group_velocities {A} (ridges : list nat) (single : bool) (vels : list A) (idx : nat) (d : A) : list (list A) :=
  match ridges with
  | [] => []
  | n :: r => take_group n single vels idx d :: group_velocities r single vels (idx + n) d
  end.

(** the indices of [vels] that loop reads *)
Fixpoint group_reads (ridges : list nat) (single : bool) (idx : nat) : list nat :=
  match ridges with
  | [] => []
  | n :: r => map (fun k => if single then 0 else idx + k) (seq 0 n) ++ group_reads r single (idx + n)
  end.
