(** * C05 - placeholder; the closed-form theorems are added below. *)
From WB Require Import Num Base Features.
Theorem C05_placeholder : True. Proof. exact I. Qed.
Print Assumptions C05_placeholder.
