(** * C05 - models documented by a closed-form expression return that expression. *)
From Coq Require Import Reals Lra List ZArith Bool.
From WB Require Import Num Base RNum Props World Kernels Features ModelProofs.
Import ListNotations.

(** [S] range guard and dispatch: for every Num instance *)
Section C05S.
  Context {F : Type} {NF : Num F}.
  Local Open Scope num_scope.

  (** a model applies only inside its own min/max range: outside it returns the value painted so far *)
  Theorem C05_out_of_range : forall g k sph (q : @query F) fmn fmx m old,
    in_range (ds_min (fst (tm_surfs m))) (ds_max (snd (tm_surfs m))) (q_depth q) = false ->
    temp_eval g k sph q fmn fmx m old = old.
  Proof. intros g k sph q fmn fmx m old H. unfold temp_eval. destruct (tm_surfs m) as [mn mx]. cbn [fst snd] in H. now rewrite H. Qed.

  (** inside its range each model returns apply_operation(op, old, closed form) *)
  Theorem C05_dispatch : forall g k sph (q : @query F) fmn fmx m old,
    in_range (ds_min (fst (tm_surfs m))) (ds_max (snd (tm_surfs m))) (q_depth q) = true ->
    in_range (dsl sph q (fst (tm_surfs m))) (dsl sph q (snd (tm_surfs m))) (q_depth q) = true ->
    let d := q_depth q in
    let mnl := dsl sph q (fst (tm_surfs m)) in let mxl := dsl sph q (snd (tm_surfs m)) in
    let top_ll := fmax fmn mnl in let bot_ll := fmin fmx mxl in
    temp_eval g k sph q fmn fmx m old =
    match m with
    | TUniform _ _ o T => apply_op o old T
    | TLinear _ _ o top bottom =>
        apply_op o old (linear_T (if top <? f0 then adiabat_g g (q_g q) top_ll else top)
                                 (if bottom <? f0 then adiabat_g g (q_g q) bot_ll else bottom) top_ll bot_ll d)
    | TAdiabatic _ _ o Tp alpha cp => apply_op o old (adiabatic_T Tp alpha cp (q_g q) d)
    | TChapman _ _ o kc A qt top =>
        apply_op o old (chapman_T (if top <? f0 then adiabat_g g (q_g q) top_ll else top) qt kc A (d - top_ll))
    | THalfSpace mn _ o top bottom ridges vels =>
        let '(v, dist) := ridge_distance_and_spreading sph ridges vels (nat_at_min_depth sph q (ds_min mn)) in
        apply_op o old (half_space_T (g_kappa g) top (if bottom <? f0 then adiabat_g g (q_g q) d else bottom) (dist / v) d)
    | _ => temp_eval g k sph q fmn fmx m old
    end.
  Proof.
    intros g k sph q fmn fmx m old H1 H2. cbn zeta. unfold temp_eval.
    destruct (tm_surfs m) as [mn mx] eqn:E. cbn [fst snd] in *. rewrite H1, H2.
    destruct m; try reflexivity.
    cbn [tm_surfs] in E. inversion E; subst. reflexivity.
  Qed.
End C05S.

Local Open Scope R_scope.
Section C05R.
  Variable sp : special.
  Local Existing Instance Rnum.
  Let N := Rnum sp.

  (** linear between the local top and bottom of the model's range *)
  Theorem C05_linear : forall top bot a b d,
    10 * powerRZ 2 (-52) <= b - a ->
    @linear_T R N top bot a b d = top + (d - a) * (bot - top) / (b - a).
  Proof. exact (linear_closed_form sp). Qed.

  Theorem C05_chapman : forall top q k A dz,
    @chapman_T R N top q k A dz = top + (q / k) * dz - (A / (2 * k)) * dz * dz.
  Proof. exact (chapman_closed_form sp). Qed.

  Theorem C05_adiabatic : forall Tp alpha cp g d, @adiabatic_T R N Tp alpha cp g d = Tp * exp (alpha * g / cp * d).
  Proof. exact (adiabatic_closed_form sp). Qed.

  Theorem C05_half_space : forall kappa top bot age d, 0 < age ->
    @half_space_T R N kappa top bot age d = bot + (top - bot) * sp_erfc sp (d / (2 * sqrt (kappa * age))).
  Proof. exact (half_space_closed_form sp). Qed.

  (** the age uses the distance to the nearest point of the ridge segment: the clamped projection
      minimises the distance over the whole segment *)
  Theorem C05_ridge_nearest_point : forall (px py ax ay bx by_ t : R),
    0 <= t <= 1 -> (ax, ay) <> (bx, by_) ->
    let vx := bx - ax in let vy := by_ - ay in
    let c := vx * vx + vy * vy in
    let c1 := (px - ax) * vx + (py - ay) * vy in
    let s := if Rle_dec c1 0 then 0 else if Rle_dec c c1 then 1 else c1 / c in
    (px - (ax + s * vx)) * (px - (ax + s * vx)) + (py - (ay + s * vy)) * (py - (ay + s * vy)) <=
    (px - (ax + t * vx)) * (px - (ax + t * vx)) + (py - (ay + t * vy)) * (py - (ay + t * vy)).
  Proof. exact ridge_projection_nearest. Qed.
End C05R.

Print Assumptions C05_out_of_range.
Print Assumptions C05_dispatch.
Print Assumptions C05_linear.
Print Assumptions C05_chapman.
Print Assumptions C05_adiabatic.
Print Assumptions C05_half_space.
Print Assumptions C05_ridge_nearest_point.

(** slab and fault temperature models (uniform, linear with prescribed end temperatures, adiabatic): the old value outside
    the model's distance range, the documented expression combined by the operation inside it; [S], every number
    interpretation.  (The slab plate model, the mass conserving model and the smooth composition are in the model and
    compared bit for bit; their closed forms are the model terms themselves.) *)
From WB Require Import Bezier SlabModel SlabFeature SlabFeatureProofs.
Theorem C05_slab_fault_dispatch : forall (F : Type) (NF : Num F) g fault sph q pd th tot old,
  (forall mn mx o T, @stemp_eval F NF g fault sph q pd th tot (STUniform mn mx o T) old =
     if in_dist mn mx (if fault then fabs (pd_distance pd) else pd_distance pd) then apply_op o old T else old) /\
  (forall mn mx o t0 t1, flt t0 f0 = false -> flt t1 f0 = false ->
     @stemp_eval F NF g fault sph q pd th tot (STLinear mn mx o t0 t1) old =
     let dd := if fault then fabs (pd_distance pd) else pd_distance pd in
     if in_dist mn mx dd then apply_op o old (fadd t0 (fmul (fsub dd mn) (fdiv (fsub t1 t0) (fsub mx mn)))) else old) /\
  (forall mn mx o Tp alpha cp,
     @stemp_eval F NF g fault sph q pd th tot (STAdiabatic mn mx o Tp alpha cp) old =
     if in_dist mn mx (if fault then q_depth q else pd_distance pd)
     then apply_op o old (fmul Tp (fexp (fmul (fdiv (fmul alpha (q_g q)) cp) (q_depth q)))) else old).
Proof. intros F NF g fault sph q pd th tot old. exact (stemp_dispatch g fault sph q pd th tot old). Qed.
Print Assumptions C05_slab_fault_dispatch.

(** the bound water content (tian water content models of oceanic and subducting plates) lies between 0 and the
    configured initial water content (given in per cent, painted as a fraction), whatever pressure and temperature *)
From WB Require Import Tian CallbackProofs.
Theorem C05_water_content_bounds : forall (sp : special) l density maxw cutoff depth T, (0 <= maxw)%R ->
  (0 <= @tian_value R (Rnum sp) l density maxw cutoff depth T <= maxw / 100)%R.
Proof. intros sp l density maxw cutoff depth T H. exact (tian_value_bounds sp l density maxw cutoff depth T H). Qed.
Print Assumptions C05_water_content_bounds.
