(** * MotionProofs: the geometric kernels are functions of coordinate differences that rigid motions
    preserve (property C08). *)
From Coq Require Import Reals Lra Lia List ZArith Bool Psatz.
From WB Require Import Num Base RNum Props World Kernels Features Plume GeomProofs.
Import ListNotations.
Local Open Scope R_scope.

Section Motion.
  Variable sp : special.
  Local Existing Instance Rnum.
  Let N := Rnum sp.

  (** rotation about the vertical by [al] followed by the translation [(tx, ty)] *)
  Definition move (al tx ty : R) (p : R * R) : R * R :=
    (fst p * cos al - snd p * sin al + tx, fst p * sin al + snd p * cos al + ty).

  Lemma sc2 al : sin al * sin al + cos al * cos al = 1.
  Proof. pose proof (sin2_cos2 al) as H. unfold Rsqr in H. exact H. Qed.

  (** the orientation test of the polygon scan and of the ridge / trench side tests *)
  Theorem is_left_rigid al tx ty pj pi p :
    @is_left R N (move al tx ty pj) (move al tx ty pi) (move al tx ty p) = @is_left R N pj pi p.
  Proof.
    unfold is_left, move. cbn [fst snd].
    change (@fsub R N) with Rminus. change (@fmul R N) with Rmult.
    destruct pj as [a b], pi as [c d], p as [e f]. cbn [fst snd].
    transitivity (((c - a) * (f - b) - (e - a) * (d - b)) * (sin al * sin al + cos al * cos al)); [ring | rewrite sc2; ring].
  Qed.

  (** scalar products of coordinate differences (on-segment test, nearest point of a ridge segment,
      linear start estimate of the closest point on the trench) *)
  Theorem dot_rigid al tx ty a b c d :
    (fst (move al tx ty b) - fst (move al tx ty a)) * (fst (move al tx ty d) - fst (move al tx ty c)) +
    (snd (move al tx ty b) - snd (move al tx ty a)) * (snd (move al tx ty d) - snd (move al tx ty c)) =
    (fst b - fst a) * (fst d - fst c) + (snd b - snd a) * (snd d - snd c).
  Proof.
    unfold move. cbn [fst snd]. destruct a as [a1 a2], b as [b1 b2], c as [c1 c2], d as [d1 d2]. cbn [fst snd].
    transitivity (((b1 - a1) * (d1 - c1) + (b2 - a2) * (d2 - c2)) * (sin al * sin al + cos al * cos al)); [ring | rewrite sc2; ring].
  Qed.

  Theorem on_segment_rigid al tx ty pj pi p :
    @on_segment R N (move al tx ty pj) (move al tx ty pi) (move al tx ty p) = @on_segment R N pj pi p.
  Proof.
    unfold on_segment.
    change (@fsub R N) with Rminus. change (@fmul R N) with Rmult. change (@fadd R N) with Rplus.
    pose proof (dot_rigid al tx ty pj p pj pi) as D1. pose proof (dot_rigid al tx ty pj pi pj pi) as D2.
    rewrite D1, D2. reflexivity.
  Qed.

  (** Cartesian same-depth distance (ridge distance) *)
  Theorem cartesian_distance_rigid al tx ty (p q : R * R) z1 z2 :
    @dist_same_depth R N false (fst (move al tx ty p), snd (move al tx ty p), z1) (fst (move al tx ty q), snd (move al tx ty q), z2) =
    @dist_same_depth R N false (fst p, snd p, z1) (fst q, snd q, z2).
  Proof.
    unfold dist_same_depth. change (@fsub R N) with Rminus. change (@fmul R N) with Rmult.
    change (@fadd R N) with Rplus. change (@fsqrt R N) with sqrt. f_equal.
    pose proof (dot_rigid al tx ty q p q p) as D. lra.
  Qed.

  (** the plume cross-section test: the world is rotated by [al], the ellipse azimuth with it *)
  Theorem ellipse_fraction_rigid al tx ty c a e th p :
    @fraction_from_ellipse_center R N (move al tx ty c) a e (th + al) (move al tx ty p) =
    @fraction_from_ellipse_center R N c a e th p.
  Proof.
    unfold fraction_from_ellipse_center, move. cbn [fst snd].
    change (@fsub R N) with Rminus. change (@fmul R N) with Rmult. change (@fadd R N) with Rplus.
    change (@fopp R N) with Ropp. change (@fcos R N) with cos. change (@fsin R N) with sin.
    destruct c as [c1 c2], p as [p1 p2]. cbn [fst snd].
    rewrite cos_plus, sin_plus.
    assert (X : (p1 * cos al - p2 * sin al + tx - (c1 * cos al - c2 * sin al + tx)) * (cos th * cos al - sin th * sin al) +
                (p1 * sin al + p2 * cos al + ty - (c1 * sin al + c2 * cos al + ty)) * (sin th * cos al + cos th * sin al)
                = (p1 - c1) * cos th + (p2 - c2) * sin th).
    { transitivity (((p1 - c1) * cos th + (p2 - c2) * sin th) * (sin al * sin al + cos al * cos al)); [ring | rewrite sc2; ring]. }
    assert (Y : - (p1 * cos al - p2 * sin al + tx - (c1 * cos al - c2 * sin al + tx)) * (sin th * cos al + cos th * sin al) +
                (p1 * sin al + p2 * cos al + ty - (c1 * sin al + c2 * cos al + ty)) * (cos th * cos al - sin th * sin al)
                = - (p1 - c1) * sin th + (p2 - c2) * cos th).
    { transitivity ((- (p1 - c1) * sin th + (p2 - c2) * cos th) * (sin al * sin al + cos al * cos al)); [ring | rewrite sc2; ring]. }
    rewrite X, Y. reflexivity.
  Qed.

  (** spherical worlds: the same-depth distance depends on the longitudes through their difference only *)
  Theorem great_circle_longitude_shift r lon1 lat1 lon2 lat2 off : 0 < r ->
    @great_circle_distance R N (r, lon1 + off, lat1) (r, lon2 + off, lat2) = @great_circle_distance R N (r, lon1, lat1) (r, lon2, lat2).
  Proof.
    intros Hr. rewrite !(great_circle_is_central_angle sp) by exact Hr.
    replace (lon1 + off - (lon2 + off)) with (lon1 - lon2) by ring. reflexivity.
  Qed.

  (** a query longitude L and L +- 360 degrees describe the same Cartesian point *)
  Theorem spherical_alias_same_point r lon lat :
    @spherical_to_cartesian R N (r, lon + 2 * PI, lat) = @spherical_to_cartesian R N (r, lon, lat) /\
    @spherical_to_cartesian R N (r, lon - 2 * PI, lat) = @spherical_to_cartesian R N (r, lon, lat).
  Proof.
    unfold spherical_to_cartesian.
    change (@fsub R N) with Rminus. change (@fmul R N) with Rmult. change (@fcos R N) with cos. change (@fsin R N) with sin.
    assert (Cp : cos (lon + 2 * PI) = cos lon) by (rewrite cos_plus, sin_2PI, cos_2PI; ring).
    assert (Sp : sin (lon + 2 * PI) = sin lon) by (rewrite sin_plus, sin_2PI, cos_2PI; ring).
    assert (Cm : cos (lon - 2 * PI) = cos lon) by (rewrite cos_minus, sin_2PI, cos_2PI; ring).
    assert (Sm : sin (lon - 2 * PI) = sin lon) by (rewrite sin_minus, sin_2PI, cos_2PI; ring).
    rewrite Cp, Sp, Cm, Sm. split; reflexivity.
  Qed.

  (** ** translations: the polygon test.  The only expression of the scan that is not a function of
      coordinate differences is the vertex test [approx] (a relative tolerance of 1e4 ulp), so the
      statement is for points whose vertex test has the same outcome in both frames (in particular
      every point that is not within that tolerance of a vertex in either frame). *)
  Definition shift (tx ty : R) (p : R * R) : R * R := (fst p + tx, snd p + ty).

  Definition vertex_test (v p : R * R) : bool := @approx R N (fst v) (fst p) && @approx R N (snd v) (snd p).

  Lemma Rleb_shift a b t : Rleb (a + t) (b + t) = Rleb a b.
  Proof. destruct (Rleb_spec (a + t) (b + t)); destruct (Rleb_spec a b); try reflexivity; lra. Qed.
  Lemma Rltb_shift a b t : Rltb (a + t) (b + t) = Rltb a b.
  Proof. destruct (Rltb_spec (a + t) (b + t)); destruct (Rltb_spec a b); try reflexivity; lra. Qed.

  Lemma is_left_shift tx ty pj pi p : @is_left R N (shift tx ty pj) (shift tx ty pi) (shift tx ty p) = @is_left R N pj pi p.
  Proof.
    unfold is_left, shift. cbn [fst snd]. change (@fsub R N) with Rminus. change (@fmul R N) with Rmult. ring.
  Qed.
  Lemma on_segment_shift tx ty pj pi p : @on_segment R N (shift tx ty pj) (shift tx ty pi) (shift tx ty p) = @on_segment R N pj pi p.
  Proof.
    unfold on_segment, shift. cbn [fst snd].
    change (@fsub R N) with Rminus. change (@fmul R N) with Rmult. change (@fadd R N) with Rplus.
    replace (fst p + tx - (fst pj + tx)) with (fst p - fst pj) by ring.
    replace (fst pi + tx - (fst pj + tx)) with (fst pi - fst pj) by ring.
    replace (snd p + ty - (snd pj + ty)) with (snd p - snd pj) by ring.
    replace (snd pi + ty - (snd pj + ty)) with (snd pi - snd pj) by ring.
    reflexivity.
  Qed.

  Lemma edge_shift tx ty pj pi p :
    vertex_test (shift tx ty pi) (shift tx ty p) = vertex_test pi p ->
    @edge R N (shift tx ty pj) (shift tx ty pi) (shift tx ty p) = @edge R N pj pi p.
  Proof.
    intros Hv. unfold edge. rewrite is_left_shift, on_segment_shift.
    unfold vertex_test in Hv. rewrite Hv.
    unfold shift. cbn [fst snd]. change (@fle R N) with Rleb. change (@flt R N) with Rltb.
    rewrite !Rleb_shift, !Rltb_shift. reflexivity.
  Qed.

  Lemma poly_scan_shift tx ty p : forall l prev wn,
    (forall v, In v l -> vertex_test (shift tx ty v) (shift tx ty p) = vertex_test v p) ->
    @poly_scan R N (shift tx ty prev) (map (shift tx ty) l) (shift tx ty p) wn = @poly_scan R N prev l p wn.
  Proof.
    induction l as [|v r IH]; intros prev wn H; cbn [poly_scan map]; [reflexivity|].
    rewrite edge_shift by (apply H; left; reflexivity).
    destruct (edge prev v p); [reflexivity|]. apply IH. intros w Hw. apply H. right. exact Hw.
  Qed.

  Lemma last_map_shift tx ty : forall (l : list (R * R)) d, last (map (shift tx ty) l) (shift tx ty d) = shift tx ty (last l d).
  Proof.
    induction l as [|a l IH]; intros d; [reflexivity|]. destruct l as [|b l]; [reflexivity|].
    change (last (map (shift tx ty) (a :: b :: l)) (shift tx ty d)) with (last (map (shift tx ty) (b :: l)) (shift tx ty d)).
    rewrite IH. reflexivity.
  Qed.

  Theorem polygon_translation tx ty poly p :
    (forall v, In v poly -> vertex_test (shift tx ty v) (shift tx ty p) = vertex_test v p) ->
    @polygon_contains_impl R N (map (shift tx ty) poly) (shift tx ty p) = @polygon_contains_impl R N poly p.
  Proof.
    intros H. unfold polygon_contains_impl. destruct poly as [|v0 r]; [reflexivity|].
    cbn [map]. change (shift tx ty v0 :: map (shift tx ty) r) with (map (shift tx ty) (v0 :: r)).
    rewrite last_map_shift, poly_scan_shift by exact H. reflexivity.
  Qed.
End Motion.
