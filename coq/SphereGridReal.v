(** * SphereGridReal: the sphere mesh over exact reals - projected nodes lie on their layer's sphere, the layers run from the
    inner to the outer radius in equal steps. *)
From Coq Require Import Reals Lra Lia List ZArith Bool Psatz.
From WB Require Import Num Base RNum Grid GridProofs SphereGrid SphereGridProofs.
Import ListNotations.
Local Open Scope R_scope.

Section SGR.
  Variable sp : special.
  Local Existing Instance Rnum.
  Let N := Rnum sp.

  (** a projected point lies on the sphere of the requested radius *)
  Theorem project_on_sphere_norm (radius : R) (p : @spt R) :
    @sg_norm R N (@sg_project R N radius p) = Rabs radius.
  Proof.
    unfold sg_norm, sg_project, px, py, pz, mk3. cbn [fst snd].
    change (@fsqrt R N) with sqrt. change (@fadd R N) with Rplus. change (@fmul R N) with Rmult.
    change (@fcos R N) with cos. change (@fsin R N) with sin.
    set (th := @fatan2 R N _ _). set (ph := @facos R N _).
    replace (radius * cos th * sin ph * (radius * cos th * sin ph) + radius * sin th * sin ph * (radius * sin th * sin ph) +
             radius * cos ph * (radius * cos ph))
      with (Rsqr radius * ((Rsqr (sin th) + Rsqr (cos th)) * Rsqr (sin ph) + Rsqr (cos ph))) by (unfold Rsqr; ring).
    rewrite (sin2_cos2 th), Rmult_1_l, (sin2_cos2 ph), Rmult_1_r. apply sqrt_Rsqr_abs.
  Qed.

  (** the layers run from the inner to the outer radius in equal steps *)
  Theorem layer_radius_ends (inner outer : R) (nz : nat) : (1 <= nz)%nat ->
    @layer_radius R N inner outer nz 0 = inner /\ @layer_radius R N inner outer nz nz = outer /\
    (forall i, @layer_radius R N inner outer nz (S i) - @layer_radius R N inner outer nz i = (outer - inner) / INR nz).
  Proof.
    intros H. assert (Z : INR nz <> 0) by (apply not_0_INR; lia).
    unfold layer_radius, fnat. change (@fadd R N) with Rplus. change (@fsub R N) with Rminus. change (@fmul R N) with Rmult.
    change (@fdiv R N) with Rdiv. change (@fofZ R N) with IZR. rewrite <- !INR_IZR_INZ.
    split; [cbn [INR]; ring|]. split; [field; exact Z|].
    intros i. rewrite <- !INR_IZR_INZ, S_INR. field. exact Z.
  Qed.

  (** every node of layer i (nodes i*n_kept .. (i+1)*n_kept - 1 of the mesh) lies on the sphere of that layer's radius *)
  Theorem layer_nodes_on_sphere (inner outer : R) nz shell i q d :
    In (q, d) (@layer_nodes R N inner outer nz shell i) ->
    @sg_norm R N q = Rabs (@layer_radius R N inner outer nz i).
  Proof.
    unfold layer_nodes. intros H. apply in_map_iff in H. destruct H as [p [E _]]. injection E as <- _.
    apply project_on_sphere_norm.
  Qed.
End SGR.
