(** * C04 - area features and plumes occupy exactly their declared footprint and depth range.
    [R] theorems: numbers are interpreted as exact reals ([Rnum sp], any [special] functions). *)
From Coq Require Import Reals Lra Lia List ZArith Bool.
From WB Require Import Num Base RNum Props World Kernels Features Plume PolySpec PolyProofs PlumeProofs.
Import ListNotations.
Local Open Scope R_scope.

Section C04.
  Variable sp : special.
  Local Existing Instance Rnum.
  Let N := Rnum sp.

  (** the polygon test of the library decides the closed polygon: a point is accepted iff it lies
      on an edge or its winding number is not zero.  Any non-empty vertex list, either orientation;
      [exact]: no edge sees the point within the epsilon band without containing it and
      [approx] identifies no vertex with a different point (true on coordinates that are exactly
      representable and far enough apart); [nondegenerate]: no zero-length edge. *)
  Theorem C04_poly : forall poly p,
    poly <> [] -> (Z.of_nat (length poly) < 18446744073709551616)%Z ->
    nondegenerate poly -> exact (@feps R N) (@approx R N) poly p ->
    (@polygon_contains_impl R N poly p = true <-> inside poly p).
  Proof. exact (polygon_contains_correct sp). Qed.

  (** spherical worlds: the point or its alias one full turn away *)
  Theorem C04_alias : forall poly (p : R * R),
    @polygon_contains R N true poly p = true <->
    (@polygon_contains_impl R N poly p = true \/
     @polygon_contains_impl R N poly (fst p + (if Rltb (fst p) 0 then 2 * PI else - 2 * PI), snd p) = true).
  Proof.
    intros poly p. unfold polygon_contains, alias_point.
    change (@flt R N) with Rltb. change (@f0 R N) with 0. change (@fadd R N) with Rplus.
    change (@fmul R N (@f2 R N) (@fpi R N)) with (IZR 2 * PI).
    change (@fmul R N (@fopp R N (@f2 R N)) (@fpi R N)) with (- IZR 2 * PI).
    rewrite orb_true_iff. reflexivity.
  Qed.

  (** an area feature with constant depths contains a point iff its surface position is in the
      closed polygon and min depth <= depth <= max depth *)
  Definition const_surface (s : @dsurf R) : Prop := ds_const s = true /\ ds_min s = ds_max s.

  Theorem C04_area : forall sph (a : @area_feature R) (q : @query R),
    const_surface (af_min a) -> const_surface (af_max a) ->
    (@area_covers R N sph a q = true <->
     @polygon_contains R N sph (af_coords a) (@surf_point R sph q) = true /\
     ds_min (af_min a) <= q_depth q <= ds_max (af_max a)).
  Proof.
    intros sph a q [C1 E1] [C2 E2]. unfold area_covers, area_pre, in_range, dsl, surface_local_value.
    rewrite C1, C2. change (@fle R N) with Rleb. rewrite <- E2.
    destruct (Rleb_spec (q_depth q) (ds_min (af_max a))), (Rleb_spec (ds_min (af_min a)) (q_depth q)),
      (@polygon_contains R N sph (af_coords a) (surf_point sph q)); cbn [andb]; split; intros H;
      try discriminate; try reflexivity; try (destruct H as [H1 H2]; try discriminate; lra); split; auto; lra.
  Qed.

  (** plume: the cross-section table is searched correctly ... *)
  Theorem C04_plume_interval : forall (depths : list R) d,
    increasing depths ->
    let i := @upper_bound R N depths d in
    (forall j, (j < i)%nat -> nth j depths 0 <= d) /\ (forall j, (i <= j < length depths)%nat -> d < nth j depths 0).
  Proof. exact (upper_bound_spec sp). Qed.

  (** ... the rotation angle is interpolated cyclically (along the shorter arc, up to full turns,
      which the ellipse test cannot see) ... *)
  Theorem C04_plume_angle : forall a1 a2 f,
    exists (t1 t2 : R) (k : Z),
      (t1 = a1 \/ t1 = a1 + 2 * PI) /\ (t2 = a2 \/ t2 = a2 + 2 * PI) /\
      (Rabs (a2 - a1) <= PI \/ 2 * PI < Rabs (a2 - a1) \/ Rabs (t2 - t1) < PI) /\
      @interpolate_angle_across_zero R N a1 a2 f = ((1 - f) * t1 + f * t2) - 2 * PI * IZR k.
  Proof. exact (interpolate_angle_congruent sp). Qed.

  Theorem C04_plume_angle_invisible : forall c a e th p (k : Z),
    @fraction_from_ellipse_center R N c a e (th - 2 * PI * IZR k) p =
    @fraction_from_ellipse_center R N c a e th p.
  Proof. exact (ellipse_fraction_periodic sp). Qed.

  (** ... below the deepest cross-section the last ellipse is continued unchanged ... *)
  Theorem C04_plume_below : forall (pl : @plume_feature R) p d,
    @upper_bound R N (pl_depths pl) d = length (pl_depths pl) -> pl_depths pl <> [] ->
    nth 0 (pl_depths pl) 0 <= d ->
    @plume_rel_distance R N pl p d =
    @fraction_from_ellipse_center R N (last (pl_coords pl) (0, 0)) (last (pl_axes pl) 0)
                                  (last (pl_ecc pl) 0) (last (pl_rot pl) 0) p.
  Proof.
    intros pl p d H Hne Hd. unfold plume_rel_distance, plume_section. rewrite H.
    destruct (pl_depths pl) as [|x l] eqn:E; [congruence|]. cbn [length Nat.eqb]. rewrite Nat.eqb_refl.
    change (@flt R N) with Rltb. change (@fle R N) with Rleb. cbn [nth] in *.
    destruct (Rltb_spec d x); [lra|]. rewrite andb_false_r. reflexivity.
  Qed.

  (** ... and above the shallowest one the plume is closed by a half-ellipsoid reaching min depth *)
  Theorem C04_plume_head : forall (pl : @plume_feature R) p d,
    pl_min pl <= d < nth 0 (pl_depths pl) 0 ->
    let c := nth 0 (pl_coords pl) (0, 0) in
    let th := nth 0 (pl_rot pl) 0 in
    let a0 := nth 0 (pl_axes pl) 0 in
    let b0 := a0 * sqrt (1 - nth 0 (pl_ecc pl) 0 * nth 0 (pl_ecc pl) 0) in
    let c0 := nth 0 (pl_depths pl) 0 - pl_min pl in
    let x := (fst p - fst c) * cos th + (snd p - snd c) * sin th in
    let y := - (fst p - fst c) * sin th + (snd p - snd c) * cos th in
    let z := nth 0 (pl_depths pl) 0 - d in
    @plume_rel_distance R N pl p d = x * x / (a0 * a0) + y * y / (b0 * b0) + z * z / (c0 * c0).
  Proof.
    intros pl p d [H1 H2]. cbn zeta. unfold plume_rel_distance, plume_section.
    assert (U : @upper_bound R N (pl_depths pl) d = 0%nat).
    { destruct (pl_depths pl) as [|x0 l]; [reflexivity|]. cbn [upper_bound nth] in *.
      change (@flt R N) with Rltb. destruct (Rltb_spec d x0); [reflexivity|lra]. }
    rewrite U. cbn [Nat.eqb].
    change (@flt R N) with Rltb. change (@fle R N) with Rleb.
    destruct (Rleb_spec (pl_min pl) d); [|lra]. destruct (Rltb_spec d (nth 0 (pl_depths pl) (@f0 R N))); [|exfalso; apply n; exact H2].
    cbn [andb]. reflexivity.
  Qed.
End C04.

Print Assumptions C04_poly.
Print Assumptions C04_alias.
Print Assumptions C04_area.
Print Assumptions C04_plume_interval.
Print Assumptions C04_plume_angle.
Print Assumptions C04_plume_angle_invisible.
Print Assumptions C04_plume_below.
Print Assumptions C04_plume_head.
