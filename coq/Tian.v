(** * Tian: the bound water content parameterisation of Tian et al. (2019)
    (features/{oceanic,subducting}_plate_models/composition/tian2019_water_content.cc:126-162, coefficient
    tables of the header).  Both features share the formula; they differ in the range test only. *)
From Coq Require Import ZArith List Bool.
From WB Require Import Num.
Import ListNotations.

Inductive lithology := Peridotite | Gabbro | MORB | Sediment.

Section Tian.
  Context {F : Type} {NF : Num F}.
  Local Open Scope num_scope.

  Definition dl (l : list (Z * Z)) : list F := map (fun me => fdec (fst me) (snd me)) l.

  Definition LR_poly (l : lithology) : list F :=
    match l with
    | Peridotite => dl [(-190609, -4); (168983, -3); (-630032, -3); (128184, -2); (-154314, -2); (111188, -2); (-459142, -3); (954143, -4); (197246, -5)]
    | Gabbro => dl [(-181745, -5); (767198, -5); (-108507, -4); (509329, -5); (814519, -5)]
    | MORB => dl [(-178177, -5); (750871, -5); (-104840, -4); (519725, -5); (796365, -5)]
    | Sediment => dl [(-203283, -5); (108186, -4); (-212119, -4); (183351, -4); (-648711, -5); (832459, -5)]
    end%Z.

  Definition c_sat_poly (l : lithology) : list F :=
    match l with
    | Peridotite => dl [(115628, -8); (242179, -5)]
    | Gabbro => dl [(-176673, -7); (893044, -7); (152732, -5)]
    | MORB => dl [(102725, -7); (-115390, -6); (324452, -6); (141588, -5)]
    | Sediment => dl [(-150662, -6); (301807, -6); (101867, -5)]
    end%Z.

  Definition Td_poly (l : lithology) : list F :=
    match l with
    | Peridotite => dl [(-154627, -4); (949716, -4); (636603, -3)]
    | Gabbro => dl [(-172277, -5); (205898, -4); (637517, -3)]
    | MORB => dl [(-381280, -5); (227809, -4); (638049, -3)]
    | Sediment => dl [(283277, -5); (-247593, -4); (859090, -4); (524898, -3)]
    end%Z.

  (** sum_i coeff_i * pow(x, size - 1 - i), accumulated from 0 in the order of the loop *)
  Fixpoint poly_pow (cs : list F) (x : F) (acc : F) : F :=
    match cs with
    | [] => acc
    | c :: r => poly_pow r x (acc + (c * fpow x (fofZ (Z.of_nat (length r)))))
    end.

  Definition tian_partition (l : lithology) (pressure temperature : F) : F :=
    let ln_c_sat := poly_pow (c_sat_poly l) (match l with Sediment => flog10 pressure | _ => pressure end) f0 in
    let ln_LR := poly_pow (LR_poly l) (f1 / pressure) f0 in
    let Td := poly_pow (Td_poly l) pressure f0 in
    fexp ln_c_sat * fexp (fexp ln_LR * ((f1 / temperature) - (f1 / Td))).

  (** lithostatic pressure in GPa, clamped to [0.5, cutoff] *)
  Definition tian_pressure (density depth cutoff : F) : F :=
    fmax (fdec 5 (-1)) (fmin (((density * fdec 981 (-2)) * depth) / fdec 1 9) cutoff).

  (** the value painted: a fraction (the parameterisation returns per cent) *)
  Definition tian_value (l : lithology) (density maxw cutoff depth temperature : F) : F :=
    fmin maxw (tian_partition l (tian_pressure density depth cutoff) temperature) / fofZ 100.
End Tian.
