(** * PlumeProofs: facts about the plume cross-section table in exact arithmetic. *)
From Coq Require Import Reals Lra Lia List ZArith Bool.
From WB Require Import Num Base RNum Kernels Features Plume.
Import ListNotations.
Local Open Scope R_scope.

Section PP.
  Variable sp : special.
  Local Existing Instance Rnum.
  Let N := Rnum sp.

  (** ** [upper_bound] on an increasing table selects the interval containing the depth *)
  Fixpoint increasing (l : list R) : Prop :=
    match l with
    | [] => True
    | x :: r => match r with [] => True | y :: _ => x < y end /\ increasing r
    end.

  Lemma upper_bound_le (l : list R) d : (@upper_bound R N l d <= length l)%nat.
  Proof.
    induction l as [|x l IH]; [apply le_n|]. cbn [upper_bound length].
    change (@flt R N d x) with (Rltb d x). destruct (Rltb d x); lia.
  Qed.

  Lemma increasing_head_lt (l : list R) x : increasing (x :: l) -> forall y, In y l -> x < y.
  Proof.
    revert x. induction l as [|a l IH]; intros x H y I; [destruct I|].
    cbn [increasing] in H. destruct H as [H1 H2]. destruct I as [<-|I]; [exact H1|].
    apply Rlt_trans with a; [exact H1|]. apply (IH a H2 y I).
  Qed.

  (** everything before the returned index is <= d, everything from it on is > d *)
  Lemma upper_bound_spec (l : list R) d : increasing l ->
    let i := @upper_bound R N l d in
    (forall j, (j < i)%nat -> nth j l 0 <= d) /\ (forall j, (i <= j < length l)%nat -> d < nth j l 0).
  Proof.
    induction l as [|x l IH]; intros Hinc; cbn zeta.
    - split; intros j Hj; cbn in Hj; lia.
    - cbn [upper_bound]. change (@flt R N d x) with (Rltb d x).
      destruct (Rltb_spec d x) as [Hlt|Hge].
      + split; [intros j Hj; lia|]. intros j Hj. destruct j as [|j]; [exact Hlt|].
        cbn [nth]. apply Rlt_trans with x; [exact Hlt|].
        apply (increasing_head_lt l x Hinc). apply nth_In. cbn [length] in Hj. lia.
      + assert (Hinc' : increasing l) by (cbn [increasing] in Hinc; tauto).
        destruct (IH Hinc') as [A B]. split.
        * intros [|j] Hj; [cbn; lra|]. cbn [nth]. apply A. lia.
        * intros [|j] Hj; [lia|]. cbn [nth]. apply B. cbn [length] in Hj. lia.
  Qed.

  (** ** the rotation angle is interpolated along the shorter arc, modulo a full turn *)
  (** [interpolate_angle_across_zero] differs from a linear interpolation between two
      representatives of the end angles (at most a full turn apart from the given ones, and less
      than half a turn apart from each other) by an integer number of full turns. *)
  Theorem interpolate_angle_congruent a1 a2 f :
    exists (t1 t2 : R) (k : Z),
      (t1 = a1 \/ t1 = a1 + 2 * PI) /\ (t2 = a2 \/ t2 = a2 + 2 * PI) /\
      (Rabs (a2 - a1) <= PI \/ 2 * PI < Rabs (a2 - a1) \/ Rabs (t2 - t1) < PI) /\
      @interpolate_angle_across_zero R N a1 a2 f = ((1 - f) * t1 + f * t2) - 2 * PI * IZR k.
  Proof.
    unfold interpolate_angle_across_zero.
    change (@flt R N) with Rltb. change (@fpi R N) with PI. change (@fabs R N) with Rabs.
    change (@fsub R N) with Rminus. change (@fadd R N) with Rplus. change (@fmul R N) with Rmult.
    change (@fdiv R N) with Rdiv. change (@ffloor R N) with Rfloor. change (@f1 R N) with 1.
    change (@f2 R N) with (IZR 2).
    destruct (Rltb_spec PI (Rabs (a2 - a1))) as [Hw|Hw]; cbn [andb].
    - destruct (Rltb_spec a1 a2) as [Hl|Hl]; cbn [negb].
      + exists (a1 + 2 * PI), a2, (Int_part (((1 - f) * (a1 + 2 * PI) + f * a2) / (2 * PI))).
        repeat split; auto. 
        * destruct (Rle_dec (Rabs (a2 - a1)) (2 * PI)) as [H2|H2]; [|right; left; lra].
          right; right. rewrite Rabs_right in Hw, H2 by lra.
          replace (a2 - (a1 + 2 * PI)) with (- (2 * PI - (a2 - a1))) by ring. rewrite Rabs_Ropp, Rabs_right; lra.
      + exists a1, (a2 + 2 * PI), (Int_part (((1 - f) * a1 + f * (a2 + 2 * PI)) / (2 * PI))).
        repeat split; auto.
        destruct (Rle_dec (Rabs (a2 - a1)) (2 * PI)) as [H2|H2]; [|right; left; lra].
        right; right. assert (a2 <= a1) by lra. rewrite Rabs_left1 in Hw, H2 by lra.
        replace (a2 + 2 * PI - a1) with (2 * PI - (a1 - a2)) by ring. rewrite Rabs_right; lra.
    - exists a1, a2, (Int_part (((1 - f) * a1 + f * a2) / (2 * PI))).
      repeat split; auto. left; lra.
  Qed.

  Lemma trig_period_Z (x : R) (k : Z) :
    cos (x + 2 * IZR k * PI) = cos x /\ sin (x + 2 * IZR k * PI) = sin x.
  Proof.
    destruct k as [|p|p].
    - replace (x + 2 * 0 * PI) with x by ring. split; reflexivity.
    - replace (IZR (Z.pos p)) with (INR (Pos.to_nat p)) by (rewrite INR_IZR_INZ, positive_nat_Z; reflexivity).
      split; [apply cos_period | apply sin_period].
    - set (n := Pos.to_nat p).
      assert (E : IZR (Z.neg p) = - INR n).
      { unfold n. rewrite INR_IZR_INZ, positive_nat_Z. change (Z.neg p) with (- Z.pos p)%Z. apply opp_IZR. }
      rewrite E. set (y := x + 2 * - INR n * PI).
      assert (Ex : x = y + 2 * INR n * PI) by (unfold y; ring).
      split.
      + rewrite <- (cos_period y n), <- Ex. reflexivity.
      + rewrite <- (sin_period y n), <- Ex. reflexivity.
  Qed.

  (** the ellipse test only sees cos and sin of the angle, which are 2 pi-periodic *)
  Theorem ellipse_fraction_periodic c a e th p (k : Z) :
    @fraction_from_ellipse_center R N c a e (th - 2 * PI * IZR k) p =
    @fraction_from_ellipse_center R N c a e th p.
  Proof.
    unfold fraction_from_ellipse_center.
    change (@fcos R N) with cos. change (@fsin R N) with sin.
    assert (C : cos (th - 2 * PI * IZR k) = cos th).
    { replace (th - 2 * PI * IZR k) with (th + 2 * IZR (- k) * PI) by (rewrite opp_IZR; ring). apply trig_period_Z. }
    assert (S : sin (th - 2 * PI * IZR k) = sin th).
    { replace (th - 2 * PI * IZR k) with (th + 2 * IZR (- k) * PI) by (rewrite opp_IZR; ring). apply trig_period_Z. }
    rewrite C, S. reflexivity.
  Qed.
End PP.
