(** * Features: the area features (continental plate, oceanic plate, mantle layer) and their models.
    One constructor per C++ model file; where the copies of a model differ between feature
    types the evaluation branches on the feature kind. *)
From Coq Require Import List Arith NArith ZArith Lia Bool.
From WB Require Import Num Base Props World Kernels.
Import ListNotations.

Section Features.
  Context {F : Type} {NF : Num F}.
  Local Open Scope num_scope.
  Notation query := (@query F).
  Notation dsurf := (@dsurf F).
  Notation pt2 := (@pt2 F).

  (** feature_utilities.h:35-73 *)
  Inductive op := OReplace | OAdd | OSubtract | OReplaceDefinedOnly.
  Definition apply_op (o : op) (old new : F) : F :=
    match o with
    | OReplace | OReplaceDefinedOnly => new
    | OAdd => old + new
    | OSubtract => old - new
    end.

  Record globals := { g_Tp : F; g_alpha : F; g_cp : F; g_kappa : F; g_Ts : F }.

  Inductive akind := Continental | Oceanic | MantleLayer.

  (** surface coordinates of the query: (x,y) or (longitude, latitude) *)
  Definition surf_point (sph : bool) (q : query) : pt2 :=
    let '(a, b, c) := q_nat q in if sph then (b, c) else (a, b).

  (** [constant_value ? minimum : local_value(...)]; a failed triangle search is reported
      separately by [dsl_err], the value is then irrelevant. *)
  Definition dsl (sph : bool) (q : query) (s : dsurf) : F :=
    match surface_local_value s sph (surf_point sph q) with Some v => v | None => fnan end.
  Definition dsl_err (sph : bool) (q : query) (s : dsurf) : bool :=
    match surface_local_value s sph (surf_point sph q) with Some _ => false | None => true end.

  Definition in_range (lo hi d : F) : bool := (d <=? hi) && (lo <=? d).

  (** ** temperature models of area features *)
  Inductive temp_model :=
  | TUniform (mn mx : dsurf) (o : op) (T : F)
  | TLinear (mn mx : dsurf) (o : op) (top bottom : F)
  | TAdiabatic (mn mx : dsurf) (o : op) (Tp alpha cp : F)   (* sentinels resolved at parse time *)
  | TChapman (mn mx : dsurf) (o : op) (k A q_top top : F).  (* continental plate only *)

  Definition tm_surfs (m : temp_model) : dsurf * dsurf :=
    match m with
    | TUniform mn mx _ _ | TLinear mn mx _ _ _ | TAdiabatic mn mx _ _ _ _ | TChapman mn mx _ _ _ _ _ => (mn, mx)
    end.

  Definition adiabat_g (g : globals) (grav depth : F) : F :=
    g_Tp g * fexp (((g_alpha g * grav) / g_cp g) * depth).

  (** [fmin_l], [fmax_l]: the feature's local depth range handed to the model *)
  Definition temp_eval (g : globals) (k : akind) (sph : bool) (q : query)
             (fmin_l fmax_l : F) (m : temp_model) (old : F) : F :=
    let d := q_depth q in
    let '(mn, mx) := tm_surfs m in
    if in_range (ds_min mn) (ds_max mx) d then
      let mnl := dsl sph q mn in
      let mxl := dsl sph q mx in
      if in_range mnl mxl d then
        match m with
        | TUniform _ _ o T => apply_op o old T
        | TLinear _ _ o top bottom =>
            let mnll := fmax fmin_l mnl in
            let mxll := fmin fmax_l mxl in
            let top_l := if top <? f0 then adiabat_g g (q_g q) mnll else top in
            let bot_l := if bottom <? f0 then adiabat_g g (q_g q) mxll else bottom in
            let start := match k with Continental => mnl | _ => mnll end in
            let new := top_l + (if (mxll - mnll) <? (fofZ 10 * feps) then f0
                                else (d - start) * ((bot_l - top_l) / (mxll - mnll))) in
            apply_op o old new
        | TAdiabatic _ _ o Tp alpha cp =>
            apply_op o old (Tp * fexp (((alpha * q_g q) / cp) * d))
        | TChapman _ _ o kc A qt top =>
            let mnll := fmax fmin_l mnl in
            let dz := d - mnll in
            let new := (top + ((qt / kc) * dz)) - (((A / (f2 * kc)) * dz) * dz) in
            apply_op o old new
        end
      else old
    else old.

  (** does evaluating the model's own depth surfaces throw? (only reached inside the global range) *)
  Definition temp_err (sph : bool) (q : query) (m : temp_model) : bool :=
    let '(mn, mx) := tm_surfs m in
    match m with
    | TUniform _ _ _ _ =>
        (* the continental copy looks the surfaces up before the global test; the other copies after *)
        dsl_err sph q mn || dsl_err sph q mx
    | _ => in_range (ds_min mn) (ds_max mx) (q_depth q) && (dsl_err sph q mn || dsl_err sph q mx)
    end.

  Fixpoint find_idx (comps : list N) (c : N) (i : nat) : option nat :=
    match comps with
    | [] => None
    | c' :: r => if N.eqb c' c then Some i else find_idx r c (S i)
    end.

  (** ** composition models *)
  Inductive comp_model :=
  | CUniform (mn mx : dsurf) (o : op) (comps : list N) (fracs : list F)
  | CRandom (mn mx : dsurf) (o : op) (comps : list N) (mins maxs : list F).   (* continental plate only *)

  Fixpoint find_comp (comps : list N) (fracs : list F) (c : N) : option F :=
    match comps, fracs with
    | c' :: cr, f :: fr => if N.eqb c' c then Some f else find_comp cr fr c
    | _, _ => None
    end.

  (** [tape] is the stream of uniform draws in [0,1) of the world's random engine, [t] the position *)
  Definition comp_eval (tape : nat -> F) (sph : bool) (q : query) (m : comp_model) (c : N) (st : F * nat) : F * nat :=
    let '(old, t) := st in
    match m with
    | CUniform mn mx o comps fracs =>
        let d := q_depth q in
        if in_range (ds_min mn) (ds_max mx) d then
          if in_range (dsl sph q mn) (dsl sph q mx) d then
            match find_comp comps fracs c with
            | Some f => (apply_op o old f, t)
            | None => (match o with OReplace => f0 | _ => old end, t)
            end
          else (old, t)
        else (old, t)
    | CRandom mn mx o comps mins maxs =>
        let d := q_depth q in
        if in_range (ds_min mn) (ds_max mx) d then
          if in_range (dsl sph q mn) (dsl sph q mx) d then
            match find_idx comps c 0 with
            | Some i =>
                (* the bounds of the matching composition; a single pair applies to all *)
                let j := if Nat.ltb i (length mins) && Nat.ltb i (length maxs) then i else 0 in
                let a := nth j mins f0 in
                let b := nth j maxs f0 in
                (* std::uniform_real_distribution(a,b): canonical * (b - a) + a *)
                (apply_op o old ((tape t * (b - a)) + a), S t)
            | None => (match o with OReplace => f0 | _ => old end, t)
            end
          else (old, t)
        else (old, t)
    end.

  Definition comp_err (sph : bool) (q : query) (m : comp_model) : bool :=
    match m with
    | CUniform mn mx _ _ _ | CRandom mn mx _ _ _ _ =>
        in_range (ds_min mn) (ds_max mx) (q_depth q) && (dsl_err sph q mn || dsl_err sph q mx)
    end.

  (** ** velocity models *)
  Inductive vel_model :=
  | VUniformRaw (mn mx : dsurf) (o : op) (v : F * F * F).

  Definition vel_eval (sph : bool) (q : query) (m : vel_model) (old : F * F * F) : F * F * F :=
    match m with
    | VUniformRaw mn mx o (vx, vy, vz) =>
        let d := q_depth q in
        if in_range (dsl sph q mn) (dsl sph q mx) d then
          if in_range (ds_min mn) (ds_max mx) d then
            let '(ox, oy, oz) := old in (apply_op o ox vx, apply_op o oy vy, apply_op o oz vz)
          else old
        else old
    end.

  Definition vel_err (sph : bool) (q : query) (m : vel_model) : bool :=
    match m with VUniformRaw mn mx _ _ => dsl_err sph q mn || dsl_err sph q mx end.

  (** ** grains models *)
  (** a grains block is laid out as k sizes followed by k row-major 3x3 matrices (grains.cc) *)
  Inductive grains_model :=
  | GUniform (mn mx : dsurf) (comps : list N) (mats : list (list F)) (sizes : list F)
  | GRandom (mn mx : dsurf) (comps : list N) (sizes : list F) (normalize : list bool)
            (defl : option (list F * list (list F))).   (* deflections and basis matrices of the deflected variant *)

  (** Arvo's random rotation from three draws (random_uniform_distribution*.cc), row-major;
      [defl] = 1 for the non-deflected model (x * 1.0 = x exactly) *)
  Definition arvo (u1 u2 u3 defl : F) : list F :=
    let theta := ((f2 * fpi) * u1) * defl in
    let phi := (f2 * fpi) * u2 in
    let z := (f2 * u3) * defl in
    let r := fsqrt z in
    let Vx := fsin phi * r in
    let Vy := fcos phi * r in
    let Vz := fsqrt (f2 - z) in
    let st := fsin theta in
    let ct := fcos theta in
    let Sx := (Vx * ct) - (Vy * st) in
    let Sy := (Vx * st) + (Vy * ct) in
    [ (Vx * Sx) - ct; (Vx * Sy) - st; Vx * Vz;
      (Vy * Sx) + st; (Vy * Sy) - ct; Vy * Vz;
      Vz * Sx; Vz * Sy; f1 - z ].

  (** Utilities::multiply_3x3_matrices, row-major lists of 9 *)
  Definition mat_mul (a b : list F) : list F :=
    let e m i j := nth ((i * 3) + j)%nat m f0 in
    flat_map (fun i => map (fun j => ((f0 + (e a i 0%nat * e b 0%nat j)) + (e a i 1%nat * e b 1%nat j)) + (e a i 2%nat * e b 2%nat j)) [0; 1; 2]%nat) [0; 1; 2]%nat.

  (** k random rotations (3 draws each), then k sizes (1 draw each when the fixed size is negative) *)
  Fixpoint random_rotations (tape : nat -> F) (k : nat) (t : nat) (defl : F) (basis : option (list F)) : list (list F) * nat :=
    match k with
    | O => ([], t)
    | S k' =>
        let m := arvo (tape t) (tape (t + 1)%nat) (tape (t + 2)%nat) defl in
        let m := match basis with Some b => mat_mul m b | None => m end in
        let '(rest, t') := random_rotations tape k' (t + 3)%nat defl basis in
        (m :: rest, t')
    end.

  Fixpoint random_sizes (tape : nat -> F) (k : nat) (t : nat) (sz : F) : list F * nat :=
    match k with
    | O => ([], t)
    | S k' =>
        if sz <? f0 then let '(rest, t') := random_sizes tape k' (S t) sz in (tape t :: rest, t')
        else let '(rest, t') := random_sizes tape k' t sz in (sz :: rest, t')
    end.

  Definition grains_eval (tape : nat -> F) (sph : bool) (q : query) (m : grains_model) (c k : N) (st : list F * nat) : list F * nat :=
    let '(old, t) := st in
    match m with
    | GUniform mn mx comps mats sizes =>
        let d := q_depth q in
        if in_range (ds_min mn) (ds_max mx) d then
          if in_range (dsl sph q mn) (dsl sph q mx) d then
            match find_idx comps c 0 with
            | Some i =>
                let kk := N.to_nat k in
                let sz := nth i sizes f0 in
                let size := if sz <? f0 then f1 / fofZ (Z.of_N k) else sz in
                (repeat size kk ++ concat (repeat (firstn 9 (nth i mats [] ++ repeat f0 9)) kk), t)
            | None => (old, t)
            end
          else (old, t)
        else (old, t)
    | GRandom mn mx comps sizes normalize defl =>
        let d := q_depth q in
        if in_range (ds_min mn) (ds_max mx) d then
          if in_range (dsl sph q mn) (dsl sph q mx) d then
            match find_idx comps c 0 with
            | Some i =>
                let kk := N.to_nat k in
                let '(dfl, basis) := match defl with
                                     | Some (ds, bs) => (nth i ds f0, Some (firstn 9 (nth i bs [] ++ repeat f0 9)))
                                     | None => (f1, None)
                                     end in
                let '(mats, t1) := random_rotations tape kk t dfl basis in
                let '(szs, t2) := random_sizes tape kk t1 (nth i sizes f0) in
                let total := fold_left (fun a s => a + s) szs f0 in
                let szs := if nth i normalize false then map (fun s => s * (f1 / total)) szs else szs in
                (szs ++ concat mats, t2)
            | None => (old, t)
            end
          else (old, t)
        else (old, t)
    end.

  Definition grains_err (sph : bool) (q : query) (m : grains_model) : bool :=
    match m with
    | GUniform mn mx _ _ _ | GRandom mn mx _ _ _ _ =>
        in_range (ds_min mn) (ds_max mx) (q_depth q) && (dsl_err sph q mn || dsl_err sph q mx)
    end.

  (** ** the area feature (continental_plate.cc:192-309 and its two copies) *)
  Record area_feature := {
    af_kind : akind;
    af_coords : list pt2;
    af_min : dsurf;
    af_max : dsurf;
    af_temp : list temp_model;
    af_comp : list comp_model;
    af_grains : list grains_model;
    af_vel : list vel_model;
    af_tag : F
  }.

  Definition area_pre (sph : bool) (a : area_feature) (q : query) : bool :=
    (q_depth q <=? ds_max (af_max a)) && (ds_min (af_min a) <=? q_depth q)
    && polygon_contains sph (af_coords a) (surf_point sph q).

  Definition area_covers (sph : bool) (a : area_feature) (q : query) : bool :=
    area_pre sph a q &&
    in_range (dsl sph q (af_min a)) (dsl sph q (af_max a)) (q_depth q).

  Definition area_cov_err (sph : bool) (a : area_feature) (q : query) : bool :=
    area_pre sph a q && (dsl_err sph q (af_min a) || dsl_err sph q (af_max a)).

  Definition vec_of (l : list F) : F * F * F := (nth 0 l f0, nth 1 l f0, nth 2 l f0).

  Definition area_paint (g : globals) (tape : nat -> F) (sph : bool) (a : area_feature) (q : query)
             (p : prop_req) (t : nat) (blk : list F) : list F * nat :=
    let mnl := dsl sph q (af_min a) in
    let mxl := dsl sph q (af_max a) in
    match p with
    | PTemp =>
        ([fold_left (fun old m => temp_eval g (af_kind a) sph q mnl mxl m old) (af_temp a) (nth 0 blk f0)], t)
    | PComp c =>
        let '(v, t') := fold_left (fun st m => comp_eval tape sph q m c st) (af_comp a) (nth 0 blk f0, t) in ([v], t')
    | PGrains c k =>
        fold_left (fun st m => grains_eval tape sph q m c k st) (af_grains a) (blk, t)
    | PTag => ([af_tag a], t)
    | PVel =>
        let '(vx, vy, vz) := fold_left (fun old m => vel_eval sph q m old) (af_vel a) (f0, f0, f0) in
        ([vx; vy; vz], t)
    end.

  Definition area_paint_err (sph : bool) (a : area_feature) (q : query) (p : prop_req) : bool :=
    match p with
    | PTemp => existsb (temp_err sph q) (af_temp a)
    | PComp _ => existsb (comp_err sph q) (af_comp a)
    | PGrains _ _ => existsb (grains_err sph q) (af_grains a)
    | PTag => false
    | PVel => existsb (vel_err sph q) (af_vel a)
    end.

  Definition area_to_feature (g : globals) (tape : nat -> F) (sph : bool) (a : area_feature) : @feature F :=
    {| ft_covers := area_covers sph a;
       ft_cov_err := area_cov_err sph a;
       ft_paint_err := area_paint_err sph a;
       ft_paint := area_paint g tape sph a;
       ft_tag := af_tag a |}.
End Features.
