(** * Features: the area features (continental plate, oceanic plate, mantle layer) and their models.
    One constructor per C++ model file; where the copies of a model differ between feature
    types the evaluation branches on the feature kind. *)
From Coq Require Import List Arith NArith ZArith Lia Bool.
From WB Require Import Num Base Props World Kernels.
Import ListNotations.

Section Features.
  Context {F : Type} {NF : Num F}.
  Local Open Scope num_scope.
  Notation query := (@query F).
  Notation dsurf := (@dsurf F).
  Notation pt2 := (@pt2 F).

  (** feature_utilities.h:35-73 *)
  Inductive op := OReplace | OAdd | OSubtract | OReplaceDefinedOnly.
  Definition apply_op (o : op) (old new : F) : F :=
    match o with
    | OReplace | OReplaceDefinedOnly => new
    | OAdd => old + new
    | OSubtract => old - new
    end.

  Record globals := { g_Tp : F; g_alpha : F; g_cp : F; g_kappa : F; g_Ts : F }.

  Inductive akind := Continental | Oceanic | MantleLayer.

  (** surface coordinates of the query: (x,y) or (longitude, latitude) *)
  Definition surf_point (sph : bool) (q : query) : pt2 :=
    let '(a, b, c) := q_nat q in if sph then (b, c) else (a, b).

  (** [constant_value ? minimum : local_value(...)]; a failed triangle search is reported
      separately by [dsl_err], the value is then irrelevant. *)
  Definition dsl (sph : bool) (q : query) (s : dsurf) : F :=
    match surface_local_value s sph (surf_point sph q) with Some v => v | None => fnan end.
  Definition dsl_err (sph : bool) (q : query) (s : dsurf) : bool :=
    match surface_local_value s sph (surf_point sph q) with Some _ => false | None => true end.

  Definition in_range (lo hi d : F) : bool := (d <=? hi) && (lo <=? d).

  (** ** temperature models of area features *)
  Inductive temp_model :=
  | TUniform (mn mx : dsurf) (o : op) (T : F)
  | TLinear (mn mx : dsurf) (o : op) (top bottom : F)
  | TAdiabatic (mn mx : dsurf) (o : op) (Tp alpha cp : F)   (* sentinels resolved at parse time *)
  | TChapman (mn mx : dsurf) (o : op) (k A q_top top : F).  (* continental plate only *)

  Definition tm_surfs (m : temp_model) : dsurf * dsurf :=
    match m with
    | TUniform mn mx _ _ | TLinear mn mx _ _ _ | TAdiabatic mn mx _ _ _ _ | TChapman mn mx _ _ _ _ _ => (mn, mx)
    end.

  Definition adiabat_g (g : globals) (grav depth : F) : F :=
    g_Tp g * fexp (((g_alpha g * grav) / g_cp g) * depth).

  (** [fmin_l], [fmax_l]: the feature's local depth range handed to the model *)
  Definition temp_eval (g : globals) (k : akind) (sph : bool) (q : query)
             (fmin_l fmax_l : F) (m : temp_model) (old : F) : F :=
    let d := q_depth q in
    let '(mn, mx) := tm_surfs m in
    if in_range (ds_min mn) (ds_max mx) d then
      let mnl := dsl sph q mn in
      let mxl := dsl sph q mx in
      if in_range mnl mxl d then
        match m with
        | TUniform _ _ o T => apply_op o old T
        | TLinear _ _ o top bottom =>
            let mnll := fmax fmin_l mnl in
            let mxll := fmin fmax_l mxl in
            let top_l := if top <? f0 then adiabat_g g (q_g q) mnll else top in
            let bot_l := if bottom <? f0 then adiabat_g g (q_g q) mxll else bottom in
            let start := match k with Continental => mnl | _ => mnll end in
            let new := top_l + (if (mxll - mnll) <? (fofZ 10 * feps) then f0
                                else (d - start) * ((bot_l - top_l) / (mxll - mnll))) in
            apply_op o old new
        | TAdiabatic _ _ o Tp alpha cp =>
            apply_op o old (Tp * fexp (((alpha * q_g q) / cp) * d))
        | TChapman _ _ o kc A qt top =>
            let mnll := fmax fmin_l mnl in
            let dz := d - mnll in
            let new := (top + ((qt / kc) * dz)) - (((A / (f2 * kc)) * dz) * dz) in
            apply_op o old new
        end
      else old
    else old.

  (** does evaluating the model's own depth surfaces throw? (only reached inside the global range) *)
  Definition temp_err (sph : bool) (q : query) (m : temp_model) : bool :=
    let '(mn, mx) := tm_surfs m in
    match m with
    | TUniform _ _ _ _ =>
        (* the continental copy looks the surfaces up before the global test; the other copies after *)
        dsl_err sph q mn || dsl_err sph q mx
    | _ => in_range (ds_min mn) (ds_max mx) (q_depth q) && (dsl_err sph q mn || dsl_err sph q mx)
    end.

  (** ** composition models *)
  Inductive comp_model :=
  | CUniform (mn mx : dsurf) (o : op) (comps : list N) (fracs : list F).

  Fixpoint find_comp (comps : list N) (fracs : list F) (c : N) : option F :=
    match comps, fracs with
    | c' :: cr, f :: fr => if N.eqb c' c then Some f else find_comp cr fr c
    | _, _ => None
    end.

  Definition comp_eval (sph : bool) (q : query) (m : comp_model) (c : N) (old : F) : F :=
    match m with
    | CUniform mn mx o comps fracs =>
        let d := q_depth q in
        if in_range (ds_min mn) (ds_max mx) d then
          if in_range (dsl sph q mn) (dsl sph q mx) d then
            match find_comp comps fracs c with
            | Some f => apply_op o old f
            | None => match o with OReplace => f0 | _ => old end
            end
          else old
        else old
    end.

  Definition comp_err (sph : bool) (q : query) (m : comp_model) : bool :=
    match m with
    | CUniform mn mx _ _ _ =>
        in_range (ds_min mn) (ds_max mx) (q_depth q) && (dsl_err sph q mn || dsl_err sph q mx)
    end.

  (** ** velocity models *)
  Inductive vel_model :=
  | VUniformRaw (mn mx : dsurf) (o : op) (v : F * F * F).

  Definition vel_eval (sph : bool) (q : query) (m : vel_model) (old : F * F * F) : F * F * F :=
    match m with
    | VUniformRaw mn mx o (vx, vy, vz) =>
        let d := q_depth q in
        if in_range (dsl sph q mn) (dsl sph q mx) d then
          if in_range (ds_min mn) (ds_max mx) d then
            let '(ox, oy, oz) := old in (apply_op o ox vx, apply_op o oy vy, apply_op o oz vz)
          else old
        else old
    end.

  Definition vel_err (sph : bool) (q : query) (m : vel_model) : bool :=
    match m with VUniformRaw mn mx _ _ => dsl_err sph q mn || dsl_err sph q mx end.

  (** ** grains models *)
  (** a grains block is laid out as k sizes followed by k row-major 3x3 matrices (grains.cc) *)
  Inductive grains_model :=
  | GUniform (mn mx : dsurf) (comps : list N) (mats : list (list F)) (sizes : list F).

  Fixpoint find_idx (comps : list N) (c : N) (i : nat) : option nat :=
    match comps with
    | [] => None
    | c' :: r => if N.eqb c' c then Some i else find_idx r c (S i)
    end.

  Definition grains_eval (sph : bool) (q : query) (m : grains_model) (c k : N) (old : list F) : list F :=
    match m with
    | GUniform mn mx comps mats sizes =>
        let d := q_depth q in
        if in_range (ds_min mn) (ds_max mx) d then
          if in_range (dsl sph q mn) (dsl sph q mx) d then
            match find_idx comps c 0 with
            | Some i =>
                let kk := N.to_nat k in
                let sz := nth i sizes f0 in
                let size := if sz <? f0 then f1 / fofZ (Z.of_N k) else sz in
                repeat size kk ++ concat (repeat (firstn 9 (nth i mats [] ++ repeat f0 9)) kk)
            | None => old
            end
          else old
        else old
    end.

  Definition grains_err (sph : bool) (q : query) (m : grains_model) : bool :=
    match m with
    | GUniform mn mx _ _ _ =>
        in_range (ds_min mn) (ds_max mx) (q_depth q) && (dsl_err sph q mn || dsl_err sph q mx)
    end.

  (** ** the area feature (continental_plate.cc:192-309 and its two copies) *)
  Record area_feature := {
    af_kind : akind;
    af_coords : list pt2;
    af_min : dsurf;
    af_max : dsurf;
    af_temp : list temp_model;
    af_comp : list comp_model;
    af_grains : list grains_model;
    af_vel : list vel_model;
    af_tag : F
  }.

  Definition area_pre (sph : bool) (a : area_feature) (q : query) : bool :=
    (q_depth q <=? ds_max (af_max a)) && (ds_min (af_min a) <=? q_depth q)
    && polygon_contains sph (af_coords a) (surf_point sph q).

  Definition area_covers (sph : bool) (a : area_feature) (q : query) : bool :=
    area_pre sph a q &&
    in_range (dsl sph q (af_min a)) (dsl sph q (af_max a)) (q_depth q).

  Definition area_cov_err (sph : bool) (a : area_feature) (q : query) : bool :=
    area_pre sph a q && (dsl_err sph q (af_min a) || dsl_err sph q (af_max a)).

  Definition vec_of (l : list F) : F * F * F := (nth 0 l f0, nth 1 l f0, nth 2 l f0).

  Definition area_paint (g : globals) (sph : bool) (a : area_feature) (q : query)
             (p : prop_req) (t : nat) (blk : list F) : list F * nat :=
    let mnl := dsl sph q (af_min a) in
    let mxl := dsl sph q (af_max a) in
    match p with
    | PTemp =>
        ([fold_left (fun old m => temp_eval g (af_kind a) sph q mnl mxl m old) (af_temp a) (nth 0 blk f0)], t)
    | PComp c =>
        ([fold_left (fun old m => comp_eval sph q m c old) (af_comp a) (nth 0 blk f0)], t)
    | PGrains c k =>
        (fold_left (fun old m => grains_eval sph q m c k old) (af_grains a) blk, t)
    | PTag => ([af_tag a], t)
    | PVel =>
        let '(vx, vy, vz) := fold_left (fun old m => vel_eval sph q m old) (af_vel a) (f0, f0, f0) in
        ([vx; vy; vz], t)
    end.

  Definition area_paint_err (sph : bool) (a : area_feature) (q : query) (p : prop_req) : bool :=
    match p with
    | PTemp => existsb (temp_err sph q) (af_temp a)
    | PComp _ => existsb (comp_err sph q) (af_comp a)
    | PGrains _ _ => existsb (grains_err sph q) (af_grains a)
    | PTag => false
    | PVel => existsb (vel_err sph q) (af_vel a)
    end.

  Definition area_to_feature (g : globals) (sph : bool) (a : area_feature) : @feature F :=
    {| ft_covers := area_covers sph a;
       ft_cov_err := area_cov_err sph a;
       ft_paint_err := area_paint_err sph a;
       ft_paint := area_paint g sph a;
       ft_tag := af_tag a |}.
End Features.
