(** * Features: the area features (continental plate, oceanic plate, mantle layer) and their models.
    One constructor per C++ model file; where the copies of a model differ between feature
    types the evaluation branches on the feature kind. *)
From Coq Require Import List Arith NArith ZArith Lia Bool.
From WB Require Import Num Base Props World Kernels Tian.
Import ListNotations.

Section Features.
  Context {F : Type} {NF : Num F}.
  Local Open Scope num_scope.
  Notation query := (@query F).
  Notation dsurf := (@dsurf F).
  Notation pt2 := (@pt2 F).

  (** feature_utilities.h:35-73 *)
  Inductive op := OReplace | OAdd | OSubtract | OReplaceDefinedOnly.
  Definition apply_op (o : op) (old new : F) : F :=
    match o with
    | OReplace | OReplaceDefinedOnly => new
    | OAdd => old + new
    | OSubtract => old - new
    end.

  Record globals := { g_Tp : F; g_alpha : F; g_cp : F; g_kappa : F; g_Ts : F }.

  Inductive akind := Continental | Oceanic | MantleLayer.

  (** surface coordinates of the query: (x,y) or (longitude, latitude) *)
  Definition surf_point (sph : bool) (q : query) : pt2 :=
    let '(a, b, c) := q_nat q in if sph then (b, c) else (a, b).

  (** [constant_value ? minimum : local_value(...)]; a failed triangle search is reported
      separately by [dsl_err], the value is then irrelevant. *)
  Definition dsl (sph : bool) (q : query) (s : dsurf) : F :=
    match surface_local_value s sph (surf_point sph q) with Some v => v | None => fnan end.
  Definition dsl_err (sph : bool) (q : query) (s : dsurf) : bool :=
    match surface_local_value s sph (surf_point sph q) with Some _ => false | None => true end.

  Definition in_range (lo hi d : F) : bool := (d <=? hi) && (lo <=? d).

  (** ** distance to the mid-oceanic ridge and spreading velocity (utilities.cc:1289-1479),
      with the oceanic-plate arguments subducting_plate_velocities = {{0}}, ridge_migration_times = {0} *)
  Definition seconds_in_year : F := fofZ 31557600.        (* 60*60*24*365.25 *)

  Definition dist_same_depth (sph : bool) (p1 p2 : F * F * F) : F :=
    if sph then great_circle_distance p1 p2
    else let '(x1, y1, _) := p1 in let '(x2, y2, _) := p2 in
         let dx := x1 - x2 in let dy := y1 - y2 in fsqrt ((dx * dx) + (dy * dy)).

  Definition side_lt0 (t0 t1 p : pt2) : bool :=
    (((fst t1 - fst t0) * (snd p - snd t0)) - ((snd t1 - snd t0) * (fst p - fst t0))) <? f0.

  Definition pt_default : pt2 := (f0, f0).

  (** index of the ridge on whose side of the transform faults the point lies *)
  Fixpoint relevant_ridge (ridges : list (list pt2)) (cp cp2 : pt2) (i : nat) : nat :=
    match ridges with
    | r0 :: ((r1 :: _) as rest) =>
        let tp0 := nth 0 r1 pt_default in
        let tp1 := last r0 pt_default in
        let ref := nth 0 r0 pt_default in
        (* the copy of the point closest in longitude to the transform fault decides the side *)
        let sp := if fabs (fst cp - fst tp0) <=? fabs (fst cp2 - fst tp0) then cp else cp2 in
        if Bool.eqb (side_lt0 tp0 tp1 ref) (side_lt0 tp0 tp1 sp) then i else relevant_ridge rest cp cp2 (S i)
    | _ => i
    end.

  (** nearest point of one ridge segment, for the point and for its 2 pi alias: (distance, velocity) *)
  Definition ridge_segment (sph : bool) (nat_min : F * F * F) (cp cp2 : pt2) (p0 p1 : pt2) (v0 v1 : F) : F * F :=
    let vx := fst p1 - fst p0 in let vy := snd p1 - snd p0 in
    let c := (vx * vx) + (vy * vy) in
    let proj (q : pt2) : pt2 * F :=
      let wx := fst q - fst p0 in let wy := snd q - snd p0 in
      let c1 := (wx * vx) + (wy * vy) in
      if c1 <=? f0 then (p0, v0)
      else if c <=? c1 then (p1, v1)
      else ((fst p0 + ((c1 / c) * vx), snd p0 + ((c1 / c) * vy)), v0 + ((v1 - v0) * (c1 / c))) in
    let '(pb1, s1) := proj cp in
    let '(pb2, s2) := proj cp2 in
    let '(a, b, c3) := nat_min in
    let cmp (pb : pt2) : F * F * F := if sph then (a, fst pb, snd pb) else (fst pb, snd pb, c3) in
    let d1 := dist_same_depth sph nat_min (cmp pb1) in
    let d2 := dist_same_depth sph nat_min (cmp pb2) in
    (* the copy of the point closest in longitude to the segment decides (the projection of the other copy is an
       arbitrary point of the segment) *)
    let mid := fhalf * (fst p0 + fst p1) in
    if fabs (fst cp2 - mid) <? fabs (fst cp - mid) then (d2, s2) else (d1, s1).

  Fixpoint ridge_scan (sph : bool) (nat_min : F * F * F) (cp cp2 : pt2) (pts : list pt2) (vels : list F)
           (first : bool) (best : F * F) : F * F :=
    match pts, vels with
    | p0 :: ((p1 :: _) as rest), v0 :: ((v1 :: _) as vrest) =>
        let '(d, s) := ridge_segment sph nat_min cp cp2 p0 p1 v0 v1 in
        let best' := if first || (d <? fst best) then (d, s) else best in
        ridge_scan sph nat_min cp cp2 rest vrest false best'
    | _, _ => best
    end.

  (** returns (spreading velocity in m/s, distance to the ridge) *)
  Definition ridge_distance_and_spreading (sph : bool) (ridges : list (list pt2)) (vels : list (list F))
             (nat_min : F * F * F) : F * F :=
    let '(a, b, c3) := nat_min in
    let cp : pt2 := if sph then (b, c3) else (a, b) in
    let cp2 : pt2 := if sph then (fst cp + (if fst cp <? f0 then f2 * fpi else (- f2) * fpi), snd cp) else cp in
    let r := if Nat.ltb 1 (length (nth 0 ridges [])) then relevant_ridge ridges cp cp2 0 else 0 in
    let '(d, s) := ridge_scan sph nat_min cp cp2 (nth r ridges []) (nth r vels []) true (fdmax, f0) in
    (s / seconds_in_year, d).

  (** the query position moved to the top of the model: natural depth coordinate += depth - min depth *)
  Definition nat_at_min_depth (sph : bool) (q : query) (min_depth : F) : F * F * F :=
    let '(a, b, c3) := q_nat q in
    if sph then (a + (q_depth q - min_depth), b, c3) else (a, b, c3 + (q_depth q - min_depth)).

  (** ** temperature models of area features *)
  Inductive temp_model :=
  | TUniform (mn mx : dsurf) (o : op) (T : F)
  | TLinear (mn mx : dsurf) (o : op) (top bottom : F)
  | TAdiabatic (mn mx : dsurf) (o : op) (Tp alpha cp : F)   (* sentinels resolved at parse time *)
  | TChapman (mn mx : dsurf) (o : op) (k A q_top top : F)   (* continental plate only *)
  (* oceanic plate only: *)
  | THalfSpace (mn mx : dsurf) (o : op) (top bottom : F) (ridges : list (list pt2)) (vels : list (list F))
  | TPlateModel (mn mx : dsurf) (o : op) (top bottom : F) (ridges : list (list pt2)) (vels : list (list F))
  | TPlateConstAge (mn mx : dsurf) (o : op) (top bottom age_s : F).

  Definition tm_surfs (m : temp_model) : dsurf * dsurf :=
    match m with
    | TUniform mn mx _ _ | TLinear mn mx _ _ _ | TAdiabatic mn mx _ _ _ _ | TChapman mn mx _ _ _ _ _
    | THalfSpace mn mx _ _ _ _ _ | TPlateModel mn mx _ _ _ _ _ | TPlateConstAge mn mx _ _ _ _ => (mn, mx)
    end.

  (** the 100-term plate-model series; [expo i] is the argument of exp for term i *)
  Fixpoint plate_series (n : nat) (i : nat) (dT depth max_depth : F) (expo : F -> F) (acc : F) : F :=
    match n with
    | O => acc
    | S n' =>
        let fi := fofZ (Z.of_nat i) in
        let term := ((f2 / (fi * fpi)) * fsin (((fi * fpi) * depth) / max_depth)) * fexp (expo fi) in
        plate_series n' (S i) dT depth max_depth expo (acc + (dT * term))
    end.

  Definition adiabat_g (g : globals) (grav depth : F) : F :=
    g_Tp g * fexp (((g_alpha g * grav) / g_cp g) * depth).

  (** the closed forms, as separate functions (the theorems of C05/C20 are about these terms) *)
  Definition linear_T (top_l bot_l mnll mxll d : F) : F :=
    top_l + (if (mxll - mnll) <? (fofZ 10 * feps) then f0
             else (d - mnll) * ((bot_l - top_l) / (mxll - mnll))).
  Definition chapman_T (top_l qt kc A dz : F) : F :=
    (top_l + ((qt / kc) * dz)) - (((A / (f2 * kc)) * dz) * dz).
  Definition half_space_T (kappa top bot age d : F) : F :=
    bot + (if f0 <? age then (top - bot) * ferfc (d / (f2 * fsqrt (kappa * age))) else f0).
  Definition adiabatic_T (Tp alpha cp grav d : F) : F := Tp * fexp (((alpha * grav) / cp) * d).

  (** [fmin_l], [fmax_l]: the feature's local depth range handed to the model *)
  Definition temp_eval (g : globals) (k : akind) (sph : bool) (q : query)
             (fmin_l fmax_l : F) (m : temp_model) (old : F) : F :=
    let d := q_depth q in
    let '(mn, mx) := tm_surfs m in
    if in_range (ds_min mn) (ds_max mx) d then
      let mnl := dsl sph q mn in
      let mxl := dsl sph q mx in
      if in_range mnl mxl d then
        match m with
        | TUniform _ _ o T => apply_op o old T
        | TLinear _ _ o top bottom =>
            let mnll := fmax fmin_l mnl in
            let mxll := fmin fmax_l mxl in
            let top_l := if top <? f0 then adiabat_g g (q_g q) mnll else top in
            let bot_l := if bottom <? f0 then adiabat_g g (q_g q) mxll else bottom in
            apply_op o old (linear_T top_l bot_l mnll mxll d)
        | TAdiabatic _ _ o Tp alpha cp =>
            apply_op o old (adiabatic_T Tp alpha cp (q_g q) d)
        | TChapman _ _ o kc A qt top =>
            let mnll := fmax fmin_l mnl in
            let top_l := if top <? f0 then adiabat_g g (q_g q) mnll else top in
            apply_op o old (chapman_T top_l qt kc A (d - mnll))
        | THalfSpace _ _ o top bottom ridges vels =>
            let bot := if bottom <? f0 then adiabat_g g (q_g q) d else bottom in
            let '(v, dist) := ridge_distance_and_spreading sph ridges vels (nat_at_min_depth sph q (ds_min mn)) in
            apply_op o old (half_space_T (g_kappa g) top bot (dist / v) d)
        | TPlateModel _ _ o top bottom ridges vels =>
            let bot := if bottom <? f0 then adiabat_g g (q_g q) d else bottom in
            let '(v, dist) := ridge_distance_and_spreading sph ridges vels (nat_at_min_depth sph q (ds_min mn)) in
            let kap := g_kappa g in
            let md := ds_max mx in
            let age := dist / v in
            let base := top + ((bot - top) * (d / md)) in
            let expo fi := (((v * md) / (f2 * kap)) - fsqrt (((((v * v) * md) * md) / ((fofZ 4 * kap) * kap)) + (((fi * fi) * fpi) * fpi)))
                           * ((v * age) / md) in
            apply_op o old (plate_series 100 1 (bot - top) d md expo base)
        | TPlateConstAge _ _ o top bottom age_s =>
            let bot := if bottom <? f0 then adiabat_g g (q_g q) d else bottom in
            let kap := g_kappa g in
            let md := ds_max mx in
            let base := top + ((bot - top) * (d / md)) in
            let expo fi := (((((((- f1) * fi) * fi) * fpi) * fpi) * kap) * age_s) / (md * md) in
            apply_op o old (plate_series 100 1 (bot - top) d md expo base)
        end
      else old
    else old.

  (** does evaluating the model's own depth surfaces throw? (only reached inside the global range) *)
  Definition temp_err (sph : bool) (q : query) (m : temp_model) : bool :=
    let '(mn, mx) := tm_surfs m in
    match m with
    | TUniform _ _ _ _ =>
        (* the continental copy looks the surfaces up before the global test; the other copies after *)
        dsl_err sph q mn || dsl_err sph q mx
    | _ => in_range (ds_min mn) (ds_max mx) (q_depth q) && (dsl_err sph q mn || dsl_err sph q mx)
    end.

  Fixpoint find_idx (comps : list N) (c : N) (i : nat) : option nat :=
    match comps with
    | [] => None
    | c' :: r => if N.eqb c' c then Some i else find_idx r c (S i)
    end.

  (** ** composition models *)
  Inductive comp_model :=
  | CUniform (mn mx : dsurf) (o : op) (comps : list N) (fracs : list F)
  | CRandom (mn mx : dsurf) (o : op) (comps : list N) (mins maxs : list F)    (* continental plate only *)
  | CTian (mn mx : dsurf) (o : op) (comps : list N) (lith : lithology) (density maxw cutoff : F).   (* oceanic plate only *)

  Fixpoint find_comp (comps : list N) (fracs : list F) (c : N) : option F :=
    match comps, fracs with
    | c' :: cr, f :: fr => if N.eqb c' c then Some f else find_comp cr fr c
    | _, _ => None
    end.

  (** [tape] is the stream of uniform draws in [0,1) of the world's random engine, [t] the position *)
  Definition comp_eval (tape : nat -> F) (sph : bool) (q : query) (wt : @wtemp F) (m : comp_model) (c : N) (st : F * nat) : F * nat :=
    let '(old, t) := st in
    match m with
    | CUniform mn mx o comps fracs =>
        let d := q_depth q in
        if in_range (ds_min mn) (ds_max mx) d then
          if in_range (dsl sph q mn) (dsl sph q mx) d then
            match find_comp comps fracs c with
            | Some f => (apply_op o old f, t)
            | None => (match o with OReplace => f0 | _ => old end, t)
            end
          else (old, t)
        else (old, t)
    | CRandom mn mx o comps mins maxs =>
        let d := q_depth q in
        if in_range (ds_min mn) (ds_max mx) d then
          if in_range (dsl sph q mn) (dsl sph q mx) d then
            match find_idx comps c 0 with
            | Some i =>
                (* the bounds of the matching composition; a single pair applies to all *)
                let j := if Nat.ltb i (length mins) && Nat.ltb i (length maxs) then i else 0 in
                let a := nth j mins f0 in
                let b := nth j maxs f0 in
                (* std::uniform_real_distribution(a,b): canonical * (b - a) + a *)
                (apply_op o old ((tape t * (b - a)) + a), S t)
            | None => (match o with OReplace => f0 | _ => old end, t)
            end
          else (old, t)
        else (old, t)
    | CTian mn mx o comps lith density maxw cutoff =>
        (* tian2019_water_content.cc: bound water from the lithostatic pressure and the temperature of the whole world here *)
        let d := q_depth q in
        if in_range (ds_min mn) (ds_max mx) d then
          if in_range (dsl sph q mn) (dsl sph q mx) d then
            match wt tt with
            | Ok T =>
                if existsb (N.eqb c) comps then (apply_op o old (tian_value lith density maxw cutoff d T), t)
                else (match o with OReplace => f0 | _ => old end, t)
            | Err _ => (old, t)
            end
          else (old, t)
        else (old, t)
    end.

  Definition comp_err (sph : bool) (q : query) (wt : @wtemp F) (m : comp_model) : bool :=
    match m with
    | CUniform mn mx _ _ _ | CRandom mn mx _ _ _ _ =>
        in_range (ds_min mn) (ds_max mx) (q_depth q) && (dsl_err sph q mn || dsl_err sph q mx)
    | CTian mn mx _ _ _ _ _ _ =>
        in_range (ds_min mn) (ds_max mx) (q_depth q)
        && (dsl_err sph q mn || dsl_err sph q mx
            || (in_range (dsl sph q mn) (dsl sph q mx) (q_depth q)
                && match wt tt with Ok _ => false | Err _ => true end))
    end.

  (** ** velocity models *)
  Inductive vel_model :=
  | VUniformRaw (mn mx : dsurf) (o : op) (v : F * F * F).

  Definition vel_eval (sph : bool) (q : query) (m : vel_model) (old : F * F * F) : F * F * F :=
    match m with
    | VUniformRaw mn mx o (vx, vy, vz) =>
        let d := q_depth q in
        if in_range (dsl sph q mn) (dsl sph q mx) d then
          if in_range (ds_min mn) (ds_max mx) d then
            let '(ox, oy, oz) := old in (apply_op o ox vx, apply_op o oy vy, apply_op o oz vz)
          else old
        else old
    end.

  Definition vel_err (sph : bool) (q : query) (m : vel_model) : bool :=
    match m with VUniformRaw mn mx _ _ => dsl_err sph q mn || dsl_err sph q mx end.

  (** ** grains models *)
  (** a grains block is laid out as k sizes followed by k row-major 3x3 matrices (grains.cc) *)
  Inductive grains_model :=
  | GUniform (mn mx : dsurf) (comps : list N) (mats : list (list F)) (sizes : list F)
  | GRandom (mn mx : dsurf) (comps : list N) (sizes : list F) (normalize : list bool)
            (defl : option (list F * list (list F))).   (* deflections and basis matrices of the deflected variant *)

  (** Arvo's random rotation from three draws (random_uniform_distribution*.cc), row-major;
      [defl] = 1 for the non-deflected model (x * 1.0 = x exactly) *)
  Definition arvo (u1 u2 u3 defl : F) : list F :=
    let theta := ((f2 * fpi) * u1) * defl in
    let phi := (f2 * fpi) * u2 in
    let z := (f2 * u3) * defl in
    let r := fsqrt z in
    let Vx := fsin phi * r in
    let Vy := fcos phi * r in
    let Vz := fsqrt (f2 - z) in
    let st := fsin theta in
    let ct := fcos theta in
    let Sx := (Vx * ct) - (Vy * st) in
    let Sy := (Vx * st) + (Vy * ct) in
    [ (Vx * Sx) - ct; (Vx * Sy) - st; Vx * Vz;
      (Vy * Sx) + st; (Vy * Sy) - ct; Vy * Vz;
      Vz * Sx; Vz * Sy; f1 - z ].

  (** Utilities::multiply_3x3_matrices, row-major lists of 9 *)
  Definition mat_mul (a b : list F) : list F :=
    let e m i j := nth ((i * 3) + j)%nat m f0 in
    flat_map (fun i => map (fun j => ((f0 + (e a i 0%nat * e b 0%nat j)) + (e a i 1%nat * e b 1%nat j)) + (e a i 2%nat * e b 2%nat j)) [0; 1; 2]%nat) [0; 1; 2]%nat.

  (** k random rotations (3 draws each), then k sizes (1 draw each when the fixed size is negative) *)
  Fixpoint random_rotations (tape : nat -> F) (k : nat) (t : nat) (defl : F) (basis : option (list F)) : list (list F) * nat :=
    match k with
    | O => ([], t)
    | S k' =>
        let m := arvo (tape t) (tape (t + 1)%nat) (tape (t + 2)%nat) defl in
        let m := match basis with Some b => mat_mul m b | None => m end in
        let '(rest, t') := random_rotations tape k' (t + 3)%nat defl basis in
        (m :: rest, t')
    end.

  Fixpoint random_sizes (tape : nat -> F) (k : nat) (t : nat) (sz : F) : list F * nat :=
    match k with
    | O => ([], t)
    | S k' =>
        if sz <? f0 then let '(rest, t') := random_sizes tape k' (S t) sz in (tape t :: rest, t')
        else let '(rest, t') := random_sizes tape k' t sz in (sz :: rest, t')
    end.

  Definition grains_eval (tape : nat -> F) (sph : bool) (q : query) (m : grains_model) (c k : N) (st : list F * nat) : list F * nat :=
    let '(old, t) := st in
    match m with
    | GUniform mn mx comps mats sizes =>
        let d := q_depth q in
        if in_range (ds_min mn) (ds_max mx) d then
          if in_range (dsl sph q mn) (dsl sph q mx) d then
            match find_idx comps c 0 with
            | Some i =>
                let kk := N.to_nat k in
                let sz := nth i sizes f0 in
                let size := if sz <? f0 then f1 / fofZ (Z.of_N k) else sz in
                (repeat size kk ++ concat (repeat (firstn 9 (nth i mats [] ++ repeat f0 9)) kk), t)
            | None => (old, t)
            end
          else (old, t)
        else (old, t)
    | GRandom mn mx comps sizes normalize defl =>
        let d := q_depth q in
        if in_range (ds_min mn) (ds_max mx) d then
          if in_range (dsl sph q mn) (dsl sph q mx) d then
            match find_idx comps c 0 with
            | Some i =>
                let kk := N.to_nat k in
                let '(dfl, basis) := match defl with
                                     | Some (ds, bs) => (nth i ds f0, Some (firstn 9 (nth i bs [] ++ repeat f0 9)))
                                     | None => (f1, None)
                                     end in
                let '(mats, t1) := random_rotations tape kk t dfl basis in
                let '(szs, t2) := random_sizes tape kk t1 (nth i sizes f0) in
                let total := fold_left (fun a s => a + s) szs f0 in
                let szs := if nth i normalize false then map (fun s => s * (f1 / total)) szs else szs in
                (szs ++ concat mats, t2)
            | None => (old, t)
            end
          else (old, t)
        else (old, t)
    end.

  Definition grains_err (sph : bool) (q : query) (m : grains_model) : bool :=
    match m with
    | GUniform mn mx _ _ _ | GRandom mn mx _ _ _ _ =>
        in_range (ds_min mn) (ds_max mx) (q_depth q) && (dsl_err sph q mn || dsl_err sph q mx)
    end.

  (** ** the area feature (continental_plate.cc:192-309 and its two copies) *)
  Record area_feature := {
    af_kind : akind;
    af_coords : list pt2;
    af_min : dsurf;
    af_max : dsurf;
    af_temp : list temp_model;
    af_comp : list comp_model;
    af_grains : list grains_model;
    af_vel : list vel_model;
    af_tag : F
  }.

  Definition area_pre (sph : bool) (a : area_feature) (q : query) : bool :=
    (q_depth q <=? ds_max (af_max a)) && (ds_min (af_min a) <=? q_depth q)
    && polygon_contains sph (af_coords a) (surf_point sph q).

  Definition area_covers (sph : bool) (a : area_feature) (q : query) : bool :=
    area_pre sph a q &&
    in_range (dsl sph q (af_min a)) (dsl sph q (af_max a)) (q_depth q).

  Definition area_cov_err (sph : bool) (a : area_feature) (q : query) : bool :=
    area_pre sph a q && (dsl_err sph q (af_min a) || dsl_err sph q (af_max a)).

  Definition vec_of (l : list F) : F * F * F := (nth 0 l f0, nth 1 l f0, nth 2 l f0).

  Definition area_paint (g : globals) (tape : nat -> F) (sph : bool) (a : area_feature) (q : query) (wt : @wtemp F)
             (p : prop_req) (t : nat) (blk : list F) : list F * nat :=
    let mnl := dsl sph q (af_min a) in
    let mxl := dsl sph q (af_max a) in
    match p with
    | PTemp =>
        ([fold_left (fun old m => temp_eval g (af_kind a) sph q mnl mxl m old) (af_temp a) (nth 0 blk f0)], t)
    | PComp c =>
        let '(v, t') := fold_left (fun st m => comp_eval tape sph q wt m c st) (af_comp a) (nth 0 blk f0, t) in ([v], t')
    | PGrains c k =>
        fold_left (fun st m => grains_eval tape sph q m c k st) (af_grains a) (blk, t)
    | PTag => ([af_tag a], t)
    | PVel =>
        let '(vx, vy, vz) := fold_left (fun old m => vel_eval sph q m old) (af_vel a) (f0, f0, f0) in
        ([vx; vy; vz], t)
    end.

  Definition area_paint_err (sph : bool) (a : area_feature) (q : query) (wt : @wtemp F) (p : prop_req) : bool :=
    match p with
    | PTemp => existsb (temp_err sph q) (af_temp a)
    | PComp _ => existsb (comp_err sph q wt) (af_comp a)
    | PGrains _ _ => existsb (grains_err sph q) (af_grains a)
    | PTag => false
    | PVel => existsb (vel_err sph q) (af_vel a)
    end.

  Definition area_to_feature (g : globals) (tape : nat -> F) (sph : bool) (a : area_feature) : @feature F :=
    {| ft_covers := area_covers sph a;
       ft_cov_err := area_cov_err sph a;
       ft_paint_err := area_paint_err sph a;
       ft_paint := area_paint g tape sph a;
       ft_tag := af_tag a |}.
End Features.
