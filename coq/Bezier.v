(** * Bezier: the trench curve (objects/bezier_curve.cc): control points, evaluation and the
    Cartesian closest-point search (linear estimate + damped Newton with line search). *)
From Coq Require Import List Arith NArith ZArith Lia Bool.
From WB Require Import Num Base Kernels.
Import ListNotations.

Section Bezier.
  Context {F : Type} {NF : Num F}.
  Local Open Scope num_scope.
  Notation pt2 := (@pt2 F).

  Definition p0 : pt2 := (f0, f0).
  Definition psub (a b : pt2) : pt2 := (fst a - fst b, snd a - snd b).
  Definition padd (a b : pt2) : pt2 := (fst a + fst b, snd a + snd b).
  Definition pscale (s : F) (a : pt2) : pt2 := (s * fst a, s * snd a).     (* scalar * Point *)
  Definition pscaler (a : pt2) (s : F) : pt2 := (fst a * s, snd a * s).    (* Point * scalar *)
  (* Point::operator*: the sum starts from 0 *)
  Definition pdot (a b : pt2) : F := (f0 + (fst a * fst b)) + (snd a * snd b).
  Definition pnorm (a : pt2) : F := fsqrt ((fst a * fst a) + (snd a * snd a)).
  Definition f3 : F := fofZ 3.

  Record bezier := { bz_points : list pt2; bz_ctrl : list (pt2 * pt2); bz_angles : list F }.

  Definition pnth (l : list pt2) (i : nat) : pt2 := nth i l p0.

  Definition atan2p (v : pt2) : F := fatan2 (snd v) (fst v).

  (** angles at the points (bezier_curve.cc:53-103), no angle constraints *)
  Definition bz_angle (ps : list pt2) (i : nat) : F :=
    let n := length ps in
    if Nat.eqb i 0 then atan2p (psub (pnth ps 1) (pnth ps 0))
    else if Nat.eqb i (n - 1) then atan2p (psub (pnth ps (n - 2)) (pnth ps (n - 1)))
    else
      let a1 := atan2p (psub (pnth ps (i - 1)) (pnth ps i)) in
      let a2 := atan2p (psub (pnth ps (i + 1)) (pnth ps i)) in
      ((a1 + a2) * fhalf) - (fpi * fhalf).

  Definition ctrl_at (ang len : F) (p : pt2) : pt2 :=
    (((fcos ang * len) * fdec 2 (-1)) + fst p, ((fsin ang * len) * fdec 2 (-1)) + snd p).

  (** [side_of_line]: (p1x - p2x)*(qy - p1y) - (p1y - p2y)*(qx - p1x) < 0 *)
  Definition side (p1 p2 q : pt2) : bool :=
    (((fst p1 - fst p2) * (snd q - snd p1)) - ((snd p1 - snd p2) * (fst q - fst p1))) <? f0.

  (** control points, built in index order; [prev] is control_points[i-1][1] *)
  Fixpoint ctrl_from (ps : list pt2) (angles : list F) (n : nat) (i : nat) (todo : nat) (prev : pt2)
    : list (pt2 * pt2) :=
    match todo with
    | O => []
    | S k =>
        let p1 := pnth ps i in
        let p2 := pnth ps (i + 1) in
        let len := pnorm (psub p1 p2) in
        let ai := nth i angles f0 in
        let ai1 := nth (i + 1) angles f0 in
        let c0 :=
          if Nat.eqb i 0 then ctrl_at ai len p1
          else
            let c := ctrl_at ai len p1 in
            if Bool.eqb (side p1 p2 prev) (side p1 p2 c) then ctrl_at (ai + fpi) len p1 else c in
        let c1 :=
          let c := ctrl_at ai1 len p2 in
          if Nat.ltb (i + 1) (n - 1) then
            if Bool.eqb (side p1 p2 c) (side p1 p2 (pnth ps (i + 2))) then ctrl_at (ai1 + fpi) len p2 else c
          else c in
        (c0, c1) :: ctrl_from ps angles n (i + 1) k c1
    end.

  Definition bezier_build (ps : list pt2) : bezier :=
    let n := length ps in
    let angles := map (bz_angle ps) (seq 0 n) in
    let ctrl :=
      if Nat.ltb 2 n then ctrl_from ps angles n 0 (n - 1) p0
      else repeat (pnth ps 0, pnth ps 0) (n - 1) in
    {| bz_points := ps; bz_ctrl := ctrl; bz_angles := angles |}.

  (** evaluation, BezierCurve::operator() *)
  Definition bezier_eval (b : bezier) (i : nat) (t : F) : pt2 :=
    let P0 := pnth (bz_points b) i in
    let P1 := pnth (bz_points b) (i + 1) in
    let '(C0, C1) := nth i (bz_ctrl b) (p0, p0) in
    let u := f1 - t in
    padd (padd (padd (pscale ((u * u) * u) P0) (pscale (((f3 * u) * u) * t) C0))
               (pscale (((f3 * u) * t) * t) C1))
         (pscale ((t * t) * t) P1).

  (** ** closest point, Cartesian branch (bezier_curve.cc:192-341) *)
  Record closest := {
    cl_distance : F; cl_fraction : F; cl_index : nat; cl_point : pt2; cl_normal : pt2; cl_found : bool
  }.

  Record cubic := { ca0 : F; ca1 : F; cb0 : F; cb1 : F; cc0 : F; cc1 : F; cd0 : F; cd1 : F }.

  Definition cubic_of (b : bezier) (i : nat) : cubic :=
    let P0 := pnth (bz_points b) i in
    let P1 := pnth (bz_points b) (i + 1) in
    let '(C0, C1) := nth i (bz_ctrl b) (p0, p0) in
    let six := fofZ 6 in
    {| ca0 := (((f3 * fst C0) - (f3 * fst C1)) + fst P1) - fst P0;
       ca1 := (((f3 * snd C0) - (f3 * snd C1)) + snd P1) - snd P0;
       cb0 := ((f3 * fst P0) - (six * fst C0)) + (f3 * fst C1);
       cb1 := ((f3 * snd P0) - (six * snd C0)) + (f3 * snd C1);
       cc0 := ((- f3) * fst P0) + (f3 * fst C0);
       cc1 := ((- f3) * snd P0) + (f3 * snd C0);
       cd0 := fst P0; cd1 := snd P0 |}.

  (** a*est_sq*est + b*est_sq + c*est + d   (the form used inside the Newton loop) *)
  Definition poly_sq (a b c d est : F) : F :=
    let esq := est * est in ((((a * esq) * est) + (b * esq)) + (c * est)) + d.
  (** a*est*est*est + b*est*est + c*est + d  (the form used after the loop) *)
  Definition poly_plain (a b c d est : F) : F :=
    (((((a * est) * est) * est) + ((b * est) * est)) + (c * est)) + d.

  (** the line search: up to 10 trial steps; returns the step length *)
  Fixpoint line_search (k : nat) (i : nat) (q : cubic) (dm0 dm1 est update sq ls prev : F) : F :=
    match k with
    | O => ls
    | S k' =>
        let et := est - (update * ls) in
        let t0 := poly_sq (ca0 q) (cb0 q) (cc0 q) dm0 et in
        let t1 := poly_sq (ca1 q) (cb1 q) (cc1 q) dm1 et in
        let test := (t0 * t0) + (t1 * t1) in
        if Nat.ltb 0 i && (prev <? test) && ((prev - sq) <? f0) then ls * (f3 / f2)
        else line_search k' (S i) q dm0 dm1 est update sq (ls * (f2 / f3)) test
    end.

  (** Newton iterations; returns (estimate, found) *)
  Fixpoint newton (fuel : nat) (q : cubic) (dm0 dm1 est : F) : F * bool :=
    match fuel with
    | O => (est, false)
    | S fuel' =>
        let esq := est * est in
        let e0 := poly_sq (ca0 q) (cb0 q) (cc0 q) dm0 est in
        let e1 := poly_sq (ca1 q) (cb1 q) (cc1 q) dm1 est in
        let d0 := (((f3 * ca0 q) * esq) + ((f2 * cb0 q) * est)) + cc0 q in
        let d1 := (((f3 * ca1 q) * esq) + ((f2 * cb1 q) * est)) + cc1 q in
        let sq := (e0 * e0) + (e1 * e1) in
        let dsq := f2 * ((d0 * e0) + (d1 * e1)) in
        let six := fofZ 6 in
        let dd := fabs (f2 * (((((((six * ca0 q) * est) + (f2 * cb0 q)) * e0) + (d0 * d0))
                              + ((((six * ca1 q) * est) + (f2 * cb1 q)) * e1)) + (d1 * d1))) in
        if dd <=? f0 then (est, true)
        else
          let update := fmin fhalf (fmax (- fhalf) (dsq / dd)) in
          let ls := if fdec 1 (-1) <? fabs update
                    then line_search 10 0 q dm0 dm1 est update sq f1 sq else f1 in
          let est' := est - (update * ls) in
          if (fabs update <? fdec 1 (-4)) || (est' <? fdec (-1) (-1)) || (fdec 11 (-1) <? est')
          then (est', true)
          else newton fuel' q dm0 dm1 est'
    end.

  Definition closest_default : closest :=
    {| cl_distance := f1 / f0; cl_fraction := fnan; cl_index := 0; cl_point := (fnan, fnan);
       cl_normal := (fnan, fnan); cl_found := true |}.

  (** one curve segment; [st] = (min squared distance so far, result so far) *)
  Definition closest_segment (b : bezier) (cp : pt2) (st : F * closest) (i : nat) : F * closest :=
    let '(minsq, res) := st in
    let P1 := pnth (bz_points b) i in
    let P2 := pnth (bz_points b) (i + 1) in
    let P1P2 := psub P2 P1 in
    let P1Pc := psub cp P1 in
    let dd := pdot P1P2 P1P2 in
    let est0 := if f0 <? dd then fmin f1 (fmax f0 (pdot P1Pc P1P2 / dd)) else f1 in
    let q := cubic_of b i in
    let dm0 := cd0 q - fst cp in
    let dm1 := cd1 q - snd cp in
    let '(est, found) := newton 150 q dm0 dm1 est0 in
    if negb found then (minsq, {| cl_distance := cl_distance res; cl_fraction := cl_fraction res; cl_index := cl_index res;
                                 cl_point := cl_point res; cl_normal := cl_normal res; cl_found := false |})
    else
      let m0 := poly_plain (ca0 q) (cb0 q) (cc0 q) dm0 est in
      let m1 := poly_plain (ca1 q) (cb1 q) (cc1 q) dm1 est in
      let msq := (m0 * m0) + (m1 * m1) in
      let fi := fofZ (Z.of_nat i) in
      if (msq <? minsq) && (fdec (-1) (-8) <=? est) && (f0 <? (fi + est))
         && ((est - f1) <=? fdec 1 (-8)) && ((est - f1) <? fi) then
        let poc := (poly_plain (ca0 q) (cb0 q) (cc0 q) (cd0 q) est, poly_plain (ca1 q) (cb1 q) (cc1 q) (cd1 q) est) in
        let '(C0, C1) := nth i (bz_ctrl b) (p0, p0) in
        let six := fofZ 6 in
        let nine := fofZ 9 in
        let dp := padd (padd (padd (pscaler P1 (((six - (f3 * est)) * est) - f3))
                                   (pscaler C0 ((est * ((nine * est) - fofZ 12)) + f3)))
                             (pscaler (pscaler C1 (six - (nine * est))) est))
                       (pscaler (pscaler (pscaler P2 f3) est) est) in
        let tangent := psub dp poc in
        let dotp := pdot tangent (psub cp poc) in
        let sign := if dotp <? f0 then - f1 else f1 in
        let der := ((((ca0 q * est) * est) + (cb0 q * est)) + cc0 q, (((ca1 q * est) * est) + (cb1 q * est)) + cc1 q) in
        let ns := pnorm der in
        let normal := if f0 <? ns then (snd der / ns, (- fst der) / ns) else der in
        (msq, {| cl_distance := sign * fsqrt msq; cl_fraction := est; cl_index := i; cl_point := poc;
                 cl_normal := normal; cl_found := cl_found res |})
      else (minsq, res).

  Definition closest_point_cartesian (b : bezier) (cp : pt2) : closest :=
    snd (fold_left (closest_segment b cp) (seq 0 (length (bz_ctrl b))) (f1 / f0, closest_default)).
End Bezier.
