(** * MtProofs: every output of the engine is a 32-bit number, the stream has the requested length, and the number
    handed to the models lies in [0,1) (exact reals). *)
From Coq Require Import List NArith ZArith Lia Bool Reals Lra.
From WB Require Import Num Base RNum Mt19937.
Import ListNotations.
Local Open Scope N_scope.

Definition small (n a : N) : Prop := forall m, n <= m -> N.testbit a m = false.

Lemma small_iff n a : a < 2 ^ n <-> small n a.
Proof.
  split.
  - intros H m Hm. destruct (N.eq_dec a 0) as [->|Ha]; [apply N.bits_0|].
    apply N.bits_above_log2. apply N.log2_lt_pow2 in H; lia.
  - intros H. destruct (N.eq_dec a 0) as [->|Ha]; [apply N.neq_0_lt_0; apply N.pow_nonzero; discriminate|].
    apply N.log2_lt_pow2; [lia|]. destruct (N.lt_ge_cases (N.log2 a) n) as [L|L]; [exact L|].
    specialize (H (N.log2 a) L). rewrite N.bit_log2 in H by exact Ha. discriminate.
Qed.

Lemma small_lxor n a b : small n a -> small n b -> small n (N.lxor a b).
Proof. intros A B m Hm. rewrite N.lxor_spec, (A m Hm), (B m Hm). reflexivity. Qed.
Lemma small_lor n a b : small n a -> small n b -> small n (N.lor a b).
Proof. intros A B m Hm. rewrite N.lor_spec, (A m Hm), (B m Hm). reflexivity. Qed.
Lemma small_land_r n a b : small n b -> small n (N.land a b).
Proof. intros B m Hm. rewrite N.land_spec, (B m Hm). apply andb_false_r. Qed.
Lemma small_shiftr n a k : small n a -> small n (N.shiftr a k).
Proof. intros A m Hm. rewrite N.shiftr_spec by lia. apply A. lia. Qed.
Lemma small_const n a : a <? 2 ^ n = true -> small n a.
Proof. intros H. apply small_iff. apply N.ltb_lt. exact H. Qed.

Lemma temper_small y : small 32 y -> small 32 (temper y).
Proof.
  intros Y. unfold temper. cbv zeta.
  assert (Y1 : small 32 (N.lxor y (N.shiftr y 11))) by (apply small_lxor; [exact Y | apply small_shiftr; exact Y]).
  set (y1 := N.lxor y (N.shiftr y 11)) in *.
  assert (Y2 : small 32 (N.lxor y1 (N.land (N.shiftl y1 7) 2636928640))).
  { apply small_lxor; [exact Y1|]. apply small_land_r. apply small_const. reflexivity. }
  set (y2 := N.lxor y1 (N.land (N.shiftl y1 7) 2636928640)) in *.
  assert (Y3 : small 32 (N.lxor y2 (N.land (N.shiftl y2 15) 4022730752))).
  { apply small_lxor; [exact Y2|]. apply small_land_r. apply small_const. reflexivity. }
  set (y3 := N.lxor y2 (N.land (N.shiftl y2 15) 4022730752)) in *.
  apply small_lxor; [exact Y3 | apply small_shiftr; exact Y3].
Qed.

Lemma mt_next_small a b c : small 32 c -> small 32 (mt_next a b c).
Proof.
  intros C. unfold mt_next. cbv zeta.
  assert (Y : small 32 (N.lor (N.land a 2147483648) (N.land b 2147483647))).
  { apply small_lor; apply small_land_r; apply small_const; reflexivity. }
  apply small_lxor; [apply small_lxor; [exact C | apply small_shiftr; exact Y]|].
  destruct (N.odd _); apply small_const; reflexivity.
Qed.

Lemma w32_small x : small 32 (w32 x).
Proof. apply small_iff. unfold w32, two32. apply N.mod_lt. discriminate. Qed.

Lemma mt_seed_from_small n : forall i prev, Forall (small 32) (mt_seed_from n i prev).
Proof. induction n as [|n IH]; intros i prev; cbn [mt_seed_from]; constructor; [apply w32_small | apply IH]. Qed.

Lemma mt_init_small seed : Forall (small 32) (mt_init seed).
Proof. unfold mt_init. constructor; [apply w32_small | apply mt_seed_from_small]. Qed.

Lemma mt_seed_from_length n : forall i prev, length (mt_seed_from n i prev) = n.
Proof. induction n as [|n IH]; intros i prev; cbn [mt_seed_from length]; [reflexivity | now rewrite IH]. Qed.

Lemma mt_init_length seed : length (mt_init seed) = 624%nat.
Proof. unfold mt_init. cbn [length]. now rewrite mt_seed_from_length. Qed.

Lemma nth_small (l : list N) i : Forall (small 32) l -> small 32 (nth i l 0).
Proof.
  intros H. destruct (Nat.lt_ge_cases i (length l)) as [L|L].
  - rewrite Forall_forall in H. apply H. apply nth_In. exact L.
  - rewrite nth_overflow by exact L. intros m _. apply N.bits_0.
Qed.

Lemma tl_small (l : list N) : Forall (small 32) l -> Forall (small 32) (tl l).
Proof. intros H. destruct l; [constructor | inversion H; assumption]. Qed.

Theorem mt_run_small n : forall window, Forall (small 32) window -> Forall (small 32) (mt_run n window).
Proof.
  induction n as [|n IH]; intros w H; cbn [mt_run]; [constructor|].
  assert (X : small 32 (mt_next (nth 0 w 0) (nth 1 w 0) (nth 397 w 0))) by (apply mt_next_small, nth_small, H).
  constructor; [apply temper_small; exact X|].
  apply IH. apply Forall_app. split; [apply tl_small; exact H | constructor; [exact X | constructor]].
Qed.

Theorem mt_outputs_32bit seed n : Forall (fun x => x < 2 ^ 32) (mt_outputs seed n).
Proof.
  eapply Forall_impl; [|apply (mt_run_small n (mt_init seed) (mt_init_small seed))].
  intros a H. apply small_iff. exact H.
Qed.

Theorem mt_outputs_length seed n : length (mt_outputs seed n) = n.
Proof.
  unfold mt_outputs. generalize (mt_init seed). induction n as [|n IH]; intros w; cbn [mt_run length]; [reflexivity | now rewrite IH].
Qed.

(** the window keeps its 624 entries: x_k, x_{k+1} and x_{k+397} are always real entries, never the default of [nth] *)
Theorem mt_window_length n : forall w, length w = 624%nat ->
  forall k, (k < n)%nat -> exists w', length w' = 624%nat /\ nth k (mt_run n w) 0 = temper (mt_next (nth 0 w' 0) (nth 1 w' 0) (nth 397 w' 0)).
Proof.
  induction n as [|n IH]; intros w Hw k Hk; [lia|]. cbn [mt_run]. destruct k as [|k].
  - exists w. split; [exact Hw | reflexivity].
  - cbn [nth]. apply IH; [|lia]. rewrite app_length. destruct w as [|x w]; [discriminate|]. cbn [tl length] in *. lia.
Qed.

(** ** the canonical number over the exact reals lies in [0,1) *)
Local Open Scope R_scope.
Section CanonR.
  Variable sp : special.
  Local Existing Instance Rnum.
  Let NR := Rnum sp.

  Theorem canonical_unit_interval (e0 e1 : N) : (e0 < 2 ^ 32)%N -> (e1 < 2 ^ 32)%N ->
    0 <= @canonical R NR e0 e1 < 1.
  Proof.
    intros H0 H1. unfold canonical. cbv zeta.
    change (@fofZ R NR) with IZR. change (@fadd R NR) with Rplus. change (@fmul R NR) with Rmult. change (@fdiv R NR) with Rdiv.
    change (@fle R NR) with Rleb. change (@f1 R NR) with 1.
    assert (A0 : 0 <= IZR (Z.of_N e0) <= 4294967295).
    { split; [apply IZR_le; lia|]. apply IZR_le. change (2 ^ 32)%N with 4294967296%N in H0. lia. }
    assert (A1 : 0 <= IZR (Z.of_N e1) <= 4294967295).
    { split; [apply IZR_le; lia|]. apply IZR_le. change (2 ^ 32)%N with 4294967296%N in H1. lia. }
    set (x0 := IZR (Z.of_N e0)) in *. set (x1 := IZR (Z.of_N e1)) in *.
    assert (U : 0 <= (x0 + x1 * 4294967296) / (4294967296 * 4294967296) < 1).
    { split.
      - apply Rmult_le_pos; [nra|]. apply Rlt_le, Rinv_0_lt_compat. lra.
      - apply (Rmult_lt_reg_r (4294967296 * 4294967296)); [lra|]. unfold Rdiv. rewrite Rmult_assoc, Rinv_l by lra. nra. }
    destruct (Rleb_spec 1 ((x0 + x1 * 4294967296) / (4294967296 * 4294967296))) as [L|L]; [lra | exact U].
  Qed.
End CanonR.
