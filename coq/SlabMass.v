(** * SlabMass: the "mass conserving" slab temperature model (mass_conserving.cc:281-630) with a scalar
    subducting velocity, one spreading velocity per ridge coordinate, the optional monotone spline across the slab,
    and the part of Utilities::calculate_ridge_distance_and_spreading it needs (all four results). *)
From Coq Require Import ZArith List Bool.
From WB Require Import Num Base Props World Kernels Features SlabModel Spline.
Import ListNotations.

Section SlabMass.
  Context {F : Type} {NF : Num F}.
  Local Open Scope num_scope.
  Local Notation pt2 := (@pt2 F).

  Definition secs_year : F := fofZ 31557600.       (* 60.0 * 60.0 * 24.0 * 365.25 *)

  (** nearest point of one ridge segment, for the point and its 2 pi alias: (distance, spreading, subducting velocity).
      [sub] is the scalar subducting velocity; the alias copy takes the *spreading* velocity of the end point when its
      foot is beyond the end of the segment (utilities.cc:1433, as written) *)
  Definition ridge_segment_full (sph : bool) (nat_min : F * F * F) (cp cp2 : pt2) (p0 p1 : pt2) (v0 v1 sub : F) : F * F * F :=
    let vx := fst p1 - fst p0 in let vy := snd p1 - snd p0 in
    let c := (vx * vx) + (vy * vy) in
    let proj (q : pt2) (alias : bool) : pt2 * F * F :=
      let wx := fst q - fst p0 in let wy := snd q - snd p0 in
      let c1 := (wx * vx) + (wy * vy) in
      if c1 <=? f0 then (p0, v0, sub)
      else if c <=? c1 then (p1, v1, if alias then v1 else sub)
      else ((fst p0 + ((c1 / c) * vx), snd p0 + ((c1 / c) * vy)), v0 + ((v1 - v0) * (c1 / c)), sub + ((sub - sub) * (c1 / c))) in
    let '(pb1, s1, u1) := proj cp false in
    let '(pb2, s2, u2) := proj cp2 true in
    let '(a, b, c3) := nat_min in
    let cmp (pb : pt2) : F * F * F := if sph then (a, fst pb, snd pb) else (fst pb, snd pb, c3) in
    let d1 := dist_same_depth sph nat_min (cmp pb1) in
    let d2 := dist_same_depth sph nat_min (cmp pb2) in
    let mid := fhalf * (fst p0 + fst p1) in
    if fabs (fst cp2 - mid) <? fabs (fst cp - mid) then (d2, s2, u2) else (d1, s1, u1).

  Fixpoint ridge_scan_full (sph : bool) (nat_min : F * F * F) (cp cp2 : pt2) (pts : list pt2) (vels : list F) (sub : F)
           (first : bool) (best : F * F * F) : F * F * F :=
    match pts, vels with
    | p0 :: ((p1 :: _) as rest), v0 :: ((v1 :: _) as vrest) =>
        let '(d, s, u) := ridge_segment_full sph nat_min cp cp2 p0 p1 v0 v1 sub in
        let best' := if first || (d <? fst (fst best)) then (d, s, u) else best in
        ridge_scan_full sph nat_min cp cp2 rest vrest sub false best'
    | _, _ => best
    end.

  (** (spreading velocity m/s, distance, subducting velocity m/s) *)
  Definition ridge_parameters (sph : bool) (ridges : list (list pt2)) (vels : list (list F)) (sub : F) (nat_min : F * F * F) : F * F * F :=
    let '(a, b, c3) := nat_min in
    let cp : pt2 := if sph then (b, c3) else (a, b) in
    let cp2 : pt2 := if sph then (fst cp + (if fst cp <? f0 then f2 * fpi else (- f2) * fpi), snd cp) else cp in
    let r := if Nat.ltb 1 (length (nth 0 ridges [])) then relevant_ridge ridges cp cp2 0 else 0 in
    let '(d, s, u) := ridge_scan_full sph nat_min cp cp2 (nth r ridges []) (nth r vels []) sub true (fdmax, f0, f0) in
    (s / secs_year, d, u / secs_year).

  Record mass_model := {
    mc_min : F; mc_max : F; mc_op : op;
    mc_density : F; mc_conductivity : F; mc_coupling : F; mc_forearc : F; mc_taper : F;
    mc_alpha : F; mc_cp : F; mc_kappa : F; mc_adiabatic : bool; mc_Tp : F; mc_Ts : F;
    mc_ridges : list (list pt2); mc_vels : list (list F); mc_sub : F;
    mc_plate_reference : bool;         (* reference model name = plate model (else half space model) *)
    mc_spline : option nat             (* apply spline: number of points in spline *)
  }.

  (** the truncated plate-model heat content: [base - sum_{i<50} term_i] *)
  Fixpoint heat_series (n i : nat) (m : mass_model) (dT vUI fa fb acc : F) : F :=
    match n with
    | O => acc
    | S n' =>
        let odd := fofZ (Z.of_nat (2 * i + 1)) in
        let md := mc_max m in
        let kap := mc_kappa m in
        let t := (((((((mc_conductivity m / kap) * dT) * fofZ 4) * md) / odd) / odd) / fpi) / fpi in
        let pq := (((vUI * md) / f2) / kap)
                  - fsqrt (((((((vUI * vUI) * md) * md) / fofZ 4) / kap) / kap) + (((odd * odd) * fpi) * fpi)) in
        let e := fexp (((pq * fa) * fb) / md) in
        heat_series n' (S i) m dT vUI fa fb (acc - (t * e))
    end.

  (** get_temperature_analytic *)
  Fixpoint analytic_series (n i : nat) (m : mass_model) (dT vUI adj age acc : F) : F :=
    match n with
    | O => acc
    | S n' =>
        let fi := fofZ (Z.of_nat i) in
        let md := mc_max m in
        let kap := mc_kappa m in
        let term := ((f2 / (fi * fpi)) * fsin (((fi * fpi) * adj) / md))
                    * fexp ((((vUI * md) / (f2 * kap))
                             - fsqrt (((((vUI * vUI) * md) * md) / ((fofZ 4 * kap) * kap)) + (((fi * fi) * fpi) * fpi)))
                            * ((vUI * age) / md)) in
        analytic_series n' (S i) m dT vUI adj age (acc - (dT * term))
    end.

  Definition temperature_analytic (m : mass_model) (top_heat minT bgT old subvel age adj : F) : F :=
    if adj <? f0 then
      let e16 := fdec 1 (-16) in
      let inner := (f2 * top_heat) / (((f2 * mc_density m) * mc_cp m) * ((minT - old) + e16)) in
      let time_top := ((f1 / (fpi * mc_kappa m)) * (inner * inner)) + e16 in
      if old <? minT then old
      else old + (((f2 * top_heat) / (((f2 * mc_density m) * mc_cp m) * fsqrt ((fpi * mc_kappa m) * time_top)))
                  * fexp ((- (adj * adj)) / ((fofZ 4 * mc_kappa m) * time_top)))
    else if mc_plate_reference m then
      if adj <? mc_max m then
        let vUI := subvel / secs_year in
        let base := bgT + ((minT - bgT) * (f1 - (adj / mc_max m))) in
        analytic_series 49 1 m (minT - bgT) vUI adj age base
      else bgT
    else bgT + ((minT - bgT) * ferfc (adj / (f2 * fsqrt (mc_kappa m * age)))).

  (** get_temperature.  [total] is the local total segment length (additional parameters) *)
  Definition mass_temperature (sph : bool) (g_norm depth : F) (m : mass_model) (pd : @plane_distances F) (total : F) (old : F) : F :=
    let d := pd_distance pd in
    if (d <=? mc_max m) && (mc_min m <=? d) then
      let trench_nat := if sph then cartesian_to_spherical (pd_trench pd) else pd_trench pd in
      let '(spr_ms, dist_ridge, sub_ms) := ridge_parameters sph (mc_ridges m) (mc_vels m) (mc_sub m) trench_nat in
      let along := pd_along pd in
      let dref := pd_depth_reference pd in
      let avg_angle := pd_average_angle pd in
      (* calculate_effective_trench_and_plate_ages *)
      let spr_y := spr_ms * secs_year in
      let sub_y := sub_ms * secs_year in
      let eff_age := (dist_ridge + along) / spr_y in
      let age_trench := eff_age - (along / sub_y) in
      let spreading_velocity := spr_ms * secs_year in
      let subducting_velocity := sub_ms * secs_year in
      let plate_age_sec := age_trench * secs_year in
      let kap := mc_kappa m in
      let dTs := mc_Ts m - mc_Tp m in
      let md := mc_max m in
      let initial0 :=
        if mc_plate_reference m then
          let vUI := subducting_velocity / secs_year in
          heat_series 50 0 m dTs vUI subducting_velocity age_trench ((((mc_conductivity m / kap) * dTs) * md) / f2)
        else ((f2 * mc_conductivity m) * dTs) * fsqrt (plate_age_sec / (kap * fpi)) in
      let eff0 := eff_age * secs_year in
      let bgT := if mc_adiabatic m then mc_Tp m * fexp ((((mc_alpha m * g_norm) * depth)) / mc_cp m) else mc_Tp m in
      let adgrad := if mc_adiabatic m then bgT - mc_Tp m else f0 in
      let max_plate_vel := fofZ 20 / fofZ 100 in
      let c035 := fdec 35 (-2) in let c01 := fdec 1 (-1) in
      let vsubfact := fmin (fmax (c035 + (((c01 - c035) / max_plate_vel) * subducting_velocity)) c01) c035 in
      let max_plate_age := fofZ 100 * fdec 1 6 in
      let agefact := fmin (fmax (f1 + (((c01 - f1) / max_plate_age) * age_trench)) c01) f1 in
      let agefact2 := fmax (fmin (c01 + (((c035 - c01) / max_plate_age) * age_trench)) c035) c01 in
      let subfact := (fdec 3 (-1) + vsubfact) + agefact in
      let subfact2 := (fdec 3 (-1) + vsubfact) + agefact2 in
      let Tcoup := fofZ 10 + ((subfact - fhalf) * (fofZ 350 - fofZ 10)) in
      let Tmin660 := fofZ 300 + ((subfact - fhalf) * (fofZ 900 - fofZ 300)) in
      let km := fdec 1 3 in
      let offset_coup := (fofZ 2 * km) + (subfact2 * ((fofZ 10 * km) - (fofZ 2 * km))) in
      let offset660 := (fofZ 15 * km) + (subfact2 * ((fofZ 25 * km) - (fofZ 15 * km))) in
      let start_taper := total - mc_taper m in
      let upper := fdec 660 3 - mc_coupling m in
      let taper_con := fdec 8 (-1) in
      (* (theta, min_temperature, offset, initial_heat_content, effective_plate_age_sec) *)
      let '(theta, minT0, offset, initial, eff) :=
        if dref <? mc_coupling m then
          let th := (mc_coupling m - dref) / (subfact * mc_coupling m) in
          (th, Tcoup * ferfc th, offset_coup * ferfc th, initial0, eff0)
        else if start_taper <=? along then
          let dst := dref - ((along - start_taper) * fsin ((avg_angle * fpi) / fofZ 180)) in
          let ths := (mc_coupling m - dst) / (subfact * upper) in
          let Tmin_start := (Tcoup + (Tmin660 * ferfc ths)) - Tmin660 in
          let off_start := (offset_coup + (offset660 * ferfc ths)) - offset660 in
          let th := (along - start_taper) / mc_taper m in
          (th, Tmin_start + ((mc_Tp m - Tmin_start) * (f1 - ferfc (taper_con * th))),
           off_start + (((f2 * (fofZ 25 * km)) - off_start) * (f1 - ferfc (taper_con * th))),
           initial0 * ferfc ((fdec 15 (-1) * taper_con) * th), eff0 * ferfc ((fdec 15 (-1) * taper_con) * th))
        else
          let th := (mc_coupling m - dref) / (subfact * upper) in
          (th, (Tcoup + (Tmin660 * ferfc th)) - Tmin660, (offset_coup + (offset660 * ferfc th)) - offset660, initial0, eff0) in
      let minT := (minT0 + adgrad) + mc_Ts m in
      let adj := d - offset in
      let max_top := ((fdec (-1) 9) * mc_forearc m) * bgT in
      let temperature :=
        if minT <? bgT then
          let dTm := minT - mc_Tp m in
          let bottom :=
            if mc_plate_reference m then
              let vUI := subducting_velocity / secs_year in
              heat_series 50 0 m dTm vUI vUI eff ((((mc_conductivity m / kap) * dTm) * md) / f2)
            else ((f2 * mc_conductivity m) * dTm) * fsqrt (eff / (kap * fpi)) in
          let top0 := fmin max_top (initial - bottom) in
          let top := if start_taper <? along then top0 * ferfc (taper_con * theta) else top0 in
          match mc_spline m with
          | None => temperature_analytic m top minT bgT old spreading_velocity eff adj
          | Some np =>
              (* 2 np + 1 samples of the analytic profile over (-1, 1) max depth; the vector has one more entry, left at 0 *)
              let interval := f1 / fofZ (Z.of_nat np) in
              let sample (i : nat) := temperature_analytic m top minT bgT old spreading_velocity eff
                                        (((fofZ (Z.of_nat i) * interval) - f1) * md) in
              let ys := map sample (seq 0 (2 * np + 1)) ++ [f0] in
              spline_eval ys (((adj / md) + f1) / interval)
          end
        else old in
      apply_op (mc_op m) old temperature
    else old.

  (** calculate_effective_trench_and_plate_ages throws when the subducting velocity or the age at the trench is not >= 0 *)
  Definition mass_throws (sph : bool) (m : mass_model) (pd : @plane_distances F) : bool :=
    let d := pd_distance pd in
    if (d <=? mc_max m) && (mc_min m <=? d) then
      let trench_nat := if sph then cartesian_to_spherical (pd_trench pd) else pd_trench pd in
      let '(spr_ms, dist_ridge, sub_ms) := ridge_parameters sph (mc_ridges m) (mc_vels m) (mc_sub m) trench_nat in
      let spr_y := spr_ms * secs_year in
      let sub_y := sub_ms * secs_year in
      let eff_age := (dist_ridge + pd_along pd) / spr_y in
      let age_trench := eff_age - (pd_along pd / sub_y) in
      negb (f0 <=? sub_y) || negb (f0 <=? age_trench)
    else false.
End SlabMass.
