(** * SeriesProofs: how far the truncated plate-model series can leave the envelope of its end members. *)
From Coq Require Import Reals Lra Lia List ZArith Bool Psatz.
From WB Require Import Num Base RNum Props World Kernels Features.
Import ListNotations.
Local Open Scope R_scope.

Section SER.
  Variable sp : special.
  Local Existing Instance Rnum.
  Let N := Rnum sp.

  (** the sum of the amplitudes of terms i .. i+n-1 *)
  Fixpoint series_bound (n i : nat) (expo : R -> R) : R :=
    match n with
    | O => 0
    | S n' => 2 / (INR i * PI) * exp (expo (INR i)) + series_bound n' (S i) expo
    end.

  Lemma series_bound_nonneg n : forall i expo, (1 <= i)%nat -> 0 <= series_bound n i expo.
  Proof.
    induction n as [|n IH]; intros i expo Hi; cbn [series_bound]; [lra|].
    assert (0 < INR i) by (apply lt_0_INR; lia). pose proof PI_RGT_0 as HP.
    assert (0 < 2 / (INR i * PI)) by (apply Rdiv_lt_0_compat; nra).
    pose proof (exp_pos (expo (INR i))). pose proof (IH (S i) expo ltac:(lia)). nra.
  Qed.

  Lemma plate_series_step n i dT depth md expo acc :
    @plate_series R N (S n) i dT depth md expo acc =
    @plate_series R N n (S i) dT depth md expo
      (acc + dT * (2 / (INR i * PI) * sin (INR i * PI * depth / md) * exp (expo (INR i)))).
  Proof.
    cbn [plate_series]. change (@fofZ R N (Z.of_nat i)) with (IZR (Z.of_nat i)). rewrite <- INR_IZR_INZ. reflexivity.
  Qed.

  (** every partial sum stays within |dT| times the amplitude sum of its starting value *)
  Theorem plate_series_deviation n : forall i dT depth md expo acc, (1 <= i)%nat ->
    Rabs (@plate_series R N n i dT depth md expo acc - acc) <= Rabs dT * series_bound n i expo.
  Proof.
    induction n as [|n IH]; intros i dT depth md expo acc Hi.
    - cbn [plate_series series_bound]. replace (acc - acc) with 0 by ring. rewrite Rabs_R0. lra.
    - rewrite plate_series_step. cbn [series_bound].
      set (term := 2 / (INR i * PI) * sin (INR i * PI * depth / md) * exp (expo (INR i))).
      set (P := @plate_series R N n (S i) dT depth md expo (acc + dT * term)).
      pose proof (IH (S i) dT depth md expo (acc + dT * term) ltac:(lia)) as H1. fold P in H1.
      assert (Hi0 : 0 < INR i) by (apply lt_0_INR; lia). pose proof PI_RGT_0 as HP.
      assert (Hc : 0 < 2 / (INR i * PI)) by (apply Rdiv_lt_0_compat; nra).
      pose proof (exp_pos (expo (INR i))) as He.
      assert (Ht : Rabs term <= 2 / (INR i * PI) * exp (expo (INR i))).
      { unfold term. rewrite (Rabs_mult (_ * _) (exp _)), (Rabs_mult (2 / (INR i * PI)) (sin _)). rewrite (Rabs_pos_eq (2 / (INR i * PI))) by lra. rewrite (Rabs_pos_eq (exp _)) by lra.
        pose proof (SIN_bound (INR i * PI * depth / md)) as [S1 S2].
        assert (Rabs (sin (INR i * PI * depth / md)) <= 1) by (apply Rabs_le; lra).
        pose proof (Rabs_pos (sin (INR i * PI * depth / md))).
        assert (0 < 2 / (INR i * PI) * exp (expo (INR i))) by (apply Rmult_lt_0_compat; lra).
        replace (2 / (INR i * PI) * Rabs (sin (INR i * PI * depth / md)) * exp (expo (INR i)))
          with (2 / (INR i * PI) * exp (expo (INR i)) * Rabs (sin (INR i * PI * depth / md))) by ring. nra. }
      replace (P - acc) with ((P - (acc + dT * term)) + dT * term) by ring.
      eapply Rle_trans; [apply Rabs_triang|]. rewrite (Rabs_mult dT term).
      pose proof (Rabs_pos dT). pose proof (Rabs_pos term). nra.
  Qed.

  (** the temperature of a plate model (either kind) leaves the envelope [top, bot] of its end members by at most
      (bot - top) times the amplitude sum *)
  Theorem plate_model_overshoot n top bot d md expo :
    top <= bot -> 0 < md -> 0 <= d <= md ->
    let T := @plate_series R N n 1 (bot - top) d md expo (top + (bot - top) * (d / md)) in
    top - (bot - top) * series_bound n 1 expo <= T <= bot + (bot - top) * series_bound n 1 expo.
  Proof.
    intros Ht Hm Hd T.
    pose proof (plate_series_deviation n 1 (bot - top) d md expo (top + (bot - top) * (d / md)) ltac:(lia)) as H. fold T in H.
    rewrite (Rabs_pos_eq (bot - top)) in H by lra.
    assert (F : 0 <= d / md <= 1).
    { split; [apply Rmult_le_pos; [lra|left; apply Rinv_0_lt_compat; lra]|].
      apply Rmult_le_reg_r with md; [lra|]. unfold Rdiv. rewrite Rmult_assoc, Rinv_l by lra. lra. }
    set (B := series_bound n 1 expo) in *. set (X := T - (top + (bot - top) * (d / md))) in *.
    assert (HX : - ((bot - top) * B) <= X <= (bot - top) * B).
    { unfold Rabs in H. destruct (Rcase_abs X); lra. }
    unfold X in HX. nra.
  Qed.

  (** when every exponent is at most [e] the amplitude sum is at most n * (2/pi) * exp e: the possible overshoot
      dies out exponentially with the (dimensionless) age *)
  Lemma series_bound_uniform n : forall i expo e, (1 <= i)%nat ->
    (forall j : nat, (1 <= j)%nat -> expo (INR j) <= e) ->
    series_bound n i expo <= INR n * (2 / PI * exp e).
  Proof.
    induction n as [|n IH]; intros i expo e Hi He.
    - cbn [series_bound]. simpl. lra.
    - cbn [series_bound]. rewrite S_INR. pose proof (IH (S i) expo e ltac:(lia) He) as H1.
      pose proof PI_RGT_0 as HP. assert (Hi1 : 1 <= INR i) by (change 1 with (INR 1); apply le_INR; exact Hi).
      assert (E1 : exp (expo (INR i)) <= exp e).
      { destruct (Rle_lt_or_eq_dec _ _ (He i Hi)) as [L|L]; [left; apply exp_increasing; exact L | rewrite L; lra]. }
      pose proof (exp_pos (expo (INR i))) as P1.
      assert (C : 2 / (INR i * PI) <= 2 / PI).
      { unfold Rdiv. apply Rmult_le_compat_l; [lra|]. apply Rinv_le_contravar; nra. }
      assert (0 < 2 / (INR i * PI)) by (apply Rdiv_lt_0_compat; nra).
      assert (2 / (INR i * PI) * exp (expo (INR i)) <= 2 / PI * exp e) by nra.
      lra.
  Qed.

  (** the constant-age plate model: exponent of term j is  -j^2 pi^2 kappa age / md^2  <=  -pi^2 kappa age / md^2 *)
  Lemma const_age_exponent kap age md (j : nat) : (1 <= j)%nat -> 0 <= kap -> 0 <= age -> md <> 0 ->
    (((((((- 1) * INR j) * INR j) * PI) * PI) * kap) * age) / (md * md) <= - (PI * PI * kap * age / (md * md)).
  Proof.
    intros Hj Hk Ha Hm. assert (J : 1 <= INR j) by (change 1 with (INR 1); apply le_INR; exact Hj).
    assert (M : 0 < md * md) by nra. pose proof PI_RGT_0.
    assert (Q : 0 <= PI * PI * kap * age / (md * md)).
    { unfold Rdiv. apply Rmult_le_pos; [|left; apply Rinv_0_lt_compat; exact M]. assert (0 <= PI * PI) by nra. assert (0 <= PI * PI * kap) by nra. nra. }
    replace (((((((- 1) * INR j) * INR j) * PI) * PI) * kap) * age / (md * md))
      with (- ((INR j * INR j) * (PI * PI * kap * age / (md * md)))) by (unfold Rdiv; ring).
    assert (1 <= INR j * INR j) by nra. nra.
  Qed.
  (** the constant-age plate model of Features.v: at every age the temperature stays within
      (bot - top) * n * (2/pi) * exp(- pi^2 kappa age / md^2) of the envelope of its end members *)
  Theorem const_age_plate_envelope n top bot d md kap age :
    top <= bot -> 0 < md -> 0 <= d <= md -> 0 <= kap -> 0 <= age ->
    let expo := fun fi : R => (((((((- 1) * fi) * fi) * PI) * PI) * kap) * age) / (md * md) in
    let T := @plate_series R N n 1 (bot - top) d md expo (top + (bot - top) * (d / md)) in
    let B := INR n * (2 / PI * exp (- (PI * PI * kap * age / (md * md)))) in
    top - (bot - top) * B <= T <= bot + (bot - top) * B.
  Proof.
    intros Ht Hm Hd Hk Ha expo T B.
    pose proof (plate_model_overshoot n top bot d md expo Ht Hm Hd) as H. cbv zeta in H. fold T in H.
    assert (HB : series_bound n 1 expo <= B).
    { apply series_bound_uniform; [lia|]. intros j Hj. unfold expo. apply const_age_exponent; [exact Hj|exact Hk|exact Ha|lra]. }
    nra.
  Qed.
  (** the ridge-age plate model: exponent of term j is (A - sqrt(A^2 + j^2 pi^2)) * (v*age/md) with A = v*md/(2 kappa);
      it is at most the exponent of the first term *)
  Lemma ridge_age_exponent v md kap age (j : nat) : (1 <= j)%nat -> 0 <= (v * age) / md ->
    (((v * md) / (2 * kap)) - sqrt (((((v * v) * md) * md) / ((4 * kap) * kap)) + (((INR j * INR j) * PI) * PI))) * ((v * age) / md)
    <= (((v * md) / (2 * kap)) - sqrt (((((v * v) * md) * md) / ((4 * kap) * kap)) + PI * PI)) * ((v * age) / md).
  Proof.
    intros Hj Hs. assert (J : 1 <= INR j) by (change 1 with (INR 1); apply le_INR; exact Hj).
    apply Rmult_le_compat_r; [exact Hs|].
    set (Q := (((v * v) * md) * md) / ((4 * kap) * kap)).
    assert (sqrt (Q + PI * PI) <= sqrt (Q + INR j * INR j * PI * PI)).
    { apply sqrt_le_1_alt. pose proof PI_RGT_0. assert (1 <= INR j * INR j) by nra. assert (0 < PI * PI) by nra. nra. }
    lra.
  Qed.

  Theorem ridge_age_plate_envelope n top bot d md kap v age :
    top <= bot -> 0 < md -> 0 <= d <= md -> 0 <= (v * age) / md ->
    let expo := fun fi : R => (((v * md) / (2 * kap)) - sqrt (((((v * v) * md) * md) / ((4 * kap) * kap)) + (((fi * fi) * PI) * PI)))
                              * ((v * age) / md) in
    let T := @plate_series R N n 1 (bot - top) d md expo (top + (bot - top) * (d / md)) in
    let B := INR n * (2 / PI * exp ((((v * md) / (2 * kap)) - sqrt (((((v * v) * md) * md) / ((4 * kap) * kap)) + PI * PI)) * ((v * age) / md))) in
    top - (bot - top) * B <= T <= bot + (bot - top) * B.
  Proof.
    intros Ht Hm Hd Hs expo T B.
    pose proof (plate_model_overshoot n top bot d md expo Ht Hm Hd) as H. cbv zeta in H. fold T in H.
    assert (HB : series_bound n 1 expo <= B).
    { apply series_bound_uniform; [lia|]. intros j Hj. unfold expo. apply ridge_age_exponent; assumption. }
    assert ((bot - top) * series_bound n 1 expo <= (bot - top) * B) by (apply Rmult_le_compat_l; [lra|exact HB]).
    destruct H as [H1 H2]. split; [eapply Rle_trans; [|exact H1] | eapply Rle_trans; [exact H2|]]; lra.
  Qed.
End SER.
