(** * RandomProofs: the random models - draws consumed, Arvo rotation, size normalisation, bounds. *)
From Coq Require Import Reals Lra Lia List ZArith Bool Psatz.
From WB Require Import Num Base RNum Props World Kernels Features FeaturesProofs.
Import ListNotations.

(** ** [S] draws consumed (every Num instance) *)
Section Draws.
  Context {F : Type} {NF : Num F}.

  Lemma random_sizes_draws tape k sz : forall t,
    snd (random_sizes tape k t sz) = if flt sz f0 then t + k else t.
  Proof.
    destruct (flt sz f0) eqn:E.
    - induction k as [|k IH]; intros t; cbn [random_sizes]; [cbn; lia|]. rewrite E.
      specialize (IH (S t)). destruct (random_sizes tape k (S t) sz) as [rest t']. cbn [snd] in *. lia.
    - induction k as [|k IH]; intros t; cbn [random_sizes]; [reflexivity|]. rewrite E.
      specialize (IH t). destruct (random_sizes tape k t sz) as [rest t']. cbn [snd] in *. exact IH.
  Qed.

  (** a random grains block consumes exactly 3k draws for the orientations plus k when the sizes are random *)
  Theorem random_grains_draws tape sph (q : @query F) mn mx comps sizes normalize defl c k old t i :
    in_range (ds_min mn) (ds_max mx) (q_depth q) = true ->
    in_range (dsl sph q mn) (dsl sph q mx) (q_depth q) = true ->
    find_idx comps c 0 = Some i ->
    snd (grains_eval tape sph q (GRandom mn mx comps sizes normalize defl) c k (old, t)) =
    t + 3 * N.to_nat k + (if flt (nth i sizes f0) f0 then N.to_nat k else 0).
  Proof.
    intros H1 H2 H3. cbn [grains_eval]. rewrite H1, H2, H3.
    destruct (match defl with Some (ds, bs) => _ | None => _ end) as [dfl basis].
    pose proof (random_rotations_spec tape (N.to_nat k) t dfl basis) as R. cbn zeta in R.
    destruct (random_rotations tape (N.to_nat k) t dfl basis) as [mats t1]. cbn [fst snd] in R. destruct R as [_ ->].
    pose proof (random_sizes_draws tape (N.to_nat k) (nth i sizes f0) (t + 3 * N.to_nat k)) as S.
    destruct (random_sizes tape (N.to_nat k) (t + 3 * N.to_nat k) (nth i sizes f0)) as [szs t2]. cbn [snd] in *.
    rewrite S. destruct (flt (nth i sizes f0) f0); lia.
  Qed.

  (** a random composition consumes exactly one draw *)
  Theorem random_composition_draws tape sph (q : @query F) wt mn mx o comps mins maxs c old t i :
    in_range (ds_min mn) (ds_max mx) (q_depth q) = true ->
    in_range (dsl sph q mn) (dsl sph q mx) (q_depth q) = true ->
    find_idx comps c 0 = Some i ->
    snd (comp_eval tape sph q wt (CRandom mn mx o comps mins maxs) c (old, t)) = S t.
  Proof. intros H1 H2 H3. cbn [comp_eval]. now rewrite H1, H2, H3. Qed.
End Draws.

From Coq Require Import Nsatz.
Local Open Scope R_scope.

(** ** [R] the Arvo matrix is a proper rotation *)
Section Arvo.
  Variable sp : special.
  Local Existing Instance Rnum.
  Let N := Rnum sp.

  Definition m9 (m : list R) (i j : nat) : R := List.nth (i * 3 + j)%nat m R0.

  Lemma arvo_entries u1 u2 u3 d :
    let theta := 2 * PI * u1 * d in let phi := 2 * PI * u2 in let z := 2 * u3 * d in
    let r := sqrt z in let Vx := sin phi * r in let Vy := cos phi * r in let Vz := sqrt (2 - z) in
    let st := sin theta in let ct := cos theta in
    let Sx := Vx * ct - Vy * st in let Sy := Vx * st + Vy * ct in
    @arvo R N u1 u2 u3 d =
    [ Vx * Sx - ct; Vx * Sy - st; Vx * Vz; Vy * Sx + st; Vy * Sy - ct; Vy * Vz; Vz * Sx; Vz * Sy; 1 - z ].
  Proof. reflexivity. Qed.

  (** the algebra behind Arvo's construction, over abstract quantities *)
  Lemma arvo_algebra (r Vz s c st ct z : R) :
    r * r = z -> Vz * Vz = 2 - z -> s * s + c * c = 1 -> st * st + ct * ct = 1 ->
    let Vx := s * r in let Vy := c * r in let Sx := Vx * ct - Vy * st in let Sy := Vx * st + Vy * ct in
    let a00 := Vx * Sx - ct in let a01 := Vx * Sy - st in let a02 := Vx * Vz in
    let a10 := Vy * Sx + st in let a11 := Vy * Sy - ct in let a12 := Vy * Vz in
    let a20 := Vz * Sx in let a21 := Vz * Sy in let a22 := 1 - z in
    (a00 * a00 + a01 * a01 + a02 * a02 = 1 /\ a10 * a10 + a11 * a11 + a12 * a12 = 1 /\ a20 * a20 + a21 * a21 + a22 * a22 = 1) /\
    (a00 * a10 + a01 * a11 + a02 * a12 = 0 /\ a00 * a20 + a01 * a21 + a02 * a22 = 0 /\ a10 * a20 + a11 * a21 + a12 * a22 = 0) /\
    a00 * (a11 * a22 - a12 * a21) - a01 * (a10 * a22 - a12 * a20) + a02 * (a10 * a21 - a11 * a20) = 1.
  Proof.
    intros H1 H2 H3 H4. cbn zeta. repeat split; nsatz.
  Qed.

  (** M * M^T = I and det M = 1, for every draw (u1,u2,u3) with 0 <= 2 u3 d <= 2 *)
  Theorem arvo_proper_rotation u1 u2 u3 d :
    0 <= 2 * u3 * d <= 2 ->
    let M := @arvo R N u1 u2 u3 d in
    (forall i j, (i < 3)%nat -> (j < 3)%nat ->
       m9 M i 0 * m9 M j 0 + m9 M i 1 * m9 M j 1 + m9 M i 2 * m9 M j 2 = if Nat.eqb i j then 1 else 0) /\
    m9 M 0 0 * (m9 M 1 1 * m9 M 2 2 - m9 M 1 2 * m9 M 2 1)
    - m9 M 0 1 * (m9 M 1 0 * m9 M 2 2 - m9 M 1 2 * m9 M 2 0)
    + m9 M 0 2 * (m9 M 1 0 * m9 M 2 1 - m9 M 1 1 * m9 M 2 0) = 1.
  Proof.
    intros Hz. cbn zeta. rewrite arvo_entries. cbn zeta.
    set (z := 2 * u3 * d) in *.
    assert (Hr : sqrt z * sqrt z = z) by (apply sqrt_sqrt; lra).
    assert (Hv : sqrt (2 - z) * sqrt (2 - z) = 2 - z) by (apply sqrt_sqrt; lra).
    pose proof (sin2_cos2 (2 * PI * u2)) as Hp. pose proof (sin2_cos2 (2 * PI * u1 * d)) as Ht. unfold Rsqr in Hp, Ht.
    pose proof (arvo_algebra (sqrt z) (sqrt (2 - z)) (sin (2 * PI * u2)) (cos (2 * PI * u2))
                  (sin (2 * PI * u1 * d)) (cos (2 * PI * u1 * d)) z Hr Hv Hp Ht) as A.
    cbn zeta in A. destruct A as ((D0 & D1 & D2) & (O01 & O02 & O12) & Det).
    split.
    - intros i j Hi Hj.
      destruct i as [|[|[|i]]]; try lia; destruct j as [|[|[|j]]]; try lia; unfold m9; cbn [Nat.mul Nat.add List.nth Nat.eqb];
        first [exact D0 | exact D1 | exact D2 | exact O01 | exact O02 | exact O12
              | (rewrite <- O01; ring) | (rewrite <- O02; ring) | (rewrite <- O12; ring)].
    - unfold m9; cbn [Nat.mul Nat.add List.nth]. exact Det.
  Qed.

  (** ** sizes requested as normalised sum to one *)
  Lemma fold_sum_acc (l : list R) a : fold_left (fun x s => x + s) l a = a + fold_left (fun x s => x + s) l 0.
  Proof.
    revert a. induction l as [|x l IH]; intros a; cbn [fold_left]; [lra|]. rewrite IH, (IH (0 + x)). lra.
  Qed.

  Theorem normalised_sizes_sum_to_one (szs : list R) :
    let total := fold_left (fun a s => a + s) szs 0 in
    total <> 0 ->
    fold_left (fun a s => a + s) (map (fun s => s * (1 / total)) szs) 0 = 1.
  Proof.
    intros total Ht.
    assert (G : forall l k, fold_left (fun a s => a + s) (map (fun s => s * k) l) 0 = fold_left (fun a s => a + s) l 0 * k).
    { induction l as [|x l IH]; intros k; cbn [map fold_left]; [lra|].
      rewrite fold_sum_acc, IH, (fold_sum_acc l (0 + x)). lra. }
    rewrite G. fold total. field. exact Ht.
  Qed.

  (** ** a random composition lies within its configured bounds *)
  Theorem random_composition_in_bounds (a b u : R) : a <= b -> 0 <= u < 1 -> a <= u * (b - a) + a <= b.
  Proof. intros Hab Hu. split; nra. Qed.
End Arvo.
