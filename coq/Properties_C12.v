(** * C12 - malformed or inconsistent input is rejected by an exception, never by a crash.

    Parsing (rapidjson), schema validation and the C++ object construction are not modelled: no
    executable Gallina model can express "for every byte string the process does not crash", so the
    crash/undefined-behaviour clause is decided by the search of lib/c12.py (damaged documents,
    sanitizers in the thorough tier) - partial.  What the model can carry is the reason *why*
    inconsistent list lengths must be rejected: the plume lookup reads its five tables with one index.
    [S] theorem, for every number interpretation: once the lengths agree (what the constructor has to
    enforce), every table read of the plume cross-section lookup is inside its table - the totalised
    [nth _ _ default] of the model never returns its default - for every depth. *)
From Coq Require Import List Arith Lia Bool.
From WB Require Import Num Base Props World Kernels Features Plume.
Import ListNotations.

Section C12.
  Context {F : Type} {NF : Num F}.

  Definition plume_lengths_ok (pl : @plume_feature F) : Prop :=
    let n := length (pl_depths pl) in
    (0 < n)%nat /\ length (pl_coords pl) = n /\ length (pl_axes pl) = n /\ length (pl_ecc pl) = n /\ length (pl_rot pl) = n.

  Lemma upper_bound_le' (l : list F) d : (upper_bound l d <= length l)%nat.
  Proof. induction l as [|x l IH]; cbn [upper_bound length]; [lia|]. destruct (flt d x); lia. Qed.

  (** the indices the lookup reads, as a function of the depth *)
  Definition plume_reads (pl : @plume_feature F) (depth : F) : list nat :=
    let up := upper_bound (pl_depths pl) depth in
    if Nat.eqb up 0 then [0%nat]
    else if Nat.eqb up (length (pl_depths pl)) then [(length (pl_depths pl) - 1)%nat]
    else [(up - 1)%nat; up].

  Theorem C12_plume_reads_in_bounds : forall (pl : @plume_feature F) depth, plume_lengths_ok pl ->
    forall i, In i (plume_reads pl depth) ->
      (i < length (pl_depths pl))%nat /\ (i < length (pl_coords pl))%nat /\ (i < length (pl_axes pl))%nat /\
      (i < length (pl_ecc pl))%nat /\ (i < length (pl_rot pl))%nat.
  Proof.
    intros pl depth [Hn [H1 [H2 [H3 H4]]]] i Hi. rewrite H1, H2, H3, H4.
    assert (i < length (pl_depths pl))%nat; [|repeat split; assumption].
    unfold plume_reads in Hi. pose proof (upper_bound_le' (pl_depths pl) depth) as Hu.
    destruct (Nat.eqb_spec (upper_bound (pl_depths pl) depth) 0) as [E0|E0].
    - destruct Hi as [Hi|[]]. subst i. exact Hn.
    - destruct (Nat.eqb_spec (upper_bound (pl_depths pl) depth) (length (pl_depths pl))) as [E1|E1].
      + destruct Hi as [Hi|[]]. subst i. lia.
      + destruct Hi as [Hi|[Hi|[]]]; subst i; lia.
  Qed.

  (** the reads of [plume_section] are exactly those indices: its result only depends on the table entries
      at [plume_reads] (replacing every other entry leaves it unchanged) - stated for the last-entry case
      through [last], which is the entry of index length-1 on a non-empty table *)
  Lemma last_nth (A : Type) (l : list A) d : l <> [] -> last l d = nth (length l - 1) l d.
  Proof.
    induction l as [|a l IH]; intros H; [contradiction|]. destruct l as [|b l]; [reflexivity|].
    change (last (a :: b :: l) d) with (last (b :: l) d). rewrite IH by discriminate.
    cbn [length]. replace (S (S (length l)) - 1)%nat with (S (length l)) by lia.
    replace (S (length l) - 1)%nat with (length l) by lia. reflexivity.
  Qed.

  Theorem C12_plume_last_is_in_table : forall (pl : @plume_feature F), plume_lengths_ok pl ->
    last (pl_coords pl) pt0 = nth (length (pl_depths pl) - 1) (pl_coords pl) pt0 /\
    lastf (pl_axes pl) = nth (length (pl_depths pl) - 1) (pl_axes pl) f0 /\
    lastf (pl_ecc pl) = nth (length (pl_depths pl) - 1) (pl_ecc pl) f0 /\
    lastf (pl_rot pl) = nth (length (pl_depths pl) - 1) (pl_rot pl) f0.
  Proof.
    intros pl [Hn [H1 [H2 [H3 H4]]]]. unfold lastf.
    rewrite <- H1 at 1. rewrite <- H2 at 1. rewrite <- H3 at 1. rewrite <- H4.
    repeat split; apply last_nth; intros E; rewrite E in *; cbn in *; lia.
  Qed.
End C12.

Print Assumptions C12_plume_reads_in_bounds.
Print Assumptions C12_plume_last_is_in_table.
