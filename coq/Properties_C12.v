(** * C12 - malformed or inconsistent input is rejected by an exception, never by a crash.

    Parsing (rapidjson), schema validation and the C++ object construction are not modelled: no
    executable Gallina model can express "for every byte string the process does not crash", so the
    crash/undefined-behaviour clause is decided by the search of lib/c12.py (damaged documents,
    sanitizers in the thorough tier) - partial.  What the model can carry is the reason *why*
    inconsistent list lengths must be rejected: the plume lookup reads its five tables with one index.
    [S] theorem, for every number interpretation: once the lengths agree (what the constructor has to
    enforce), every table read of the plume cross-section lookup is inside its table - the totalised
    [nth _ _ default] of the model never returns its default - for every depth.

    Validate.v models the length checks of all constructors as one boolean verdict [doc_ok] over the length
    signature of a document (tied to the implementation by lib/c12.py: model verdict vs constructor verdict on
    every generated and damaged document).  The theorems below say what the verdict buys, on the evaluator of
    Features.v itself: accepted lengths => the grains, fraction and spreading-velocity reads are inside their
    tables, and the segment table of a slab or fault is rectangular. *)
From Coq Require Import List Arith Lia Bool NArith.
From WB Require Import Num Base Props World Kernels Features Plume Validate ValidateProofs SlabLayout.
Import ListNotations.

Section C12.
  Context {F : Type} {NF : Num F}.

  Definition plume_lengths_ok (pl : @plume_feature F) : Prop :=
    let n := length (pl_depths pl) in
    (0 < n)%nat /\ length (pl_coords pl) = n /\ length (pl_axes pl) = n /\ length (pl_ecc pl) = n /\ length (pl_rot pl) = n.

  Lemma upper_bound_le' (l : list F) d : (upper_bound l d <= length l)%nat.
  Proof. induction l as [|x l IH]; cbn [upper_bound length]; [lia|]. destruct (flt d x); lia. Qed.

  (** the indices the lookup reads, as a function of the depth *)
  Definition plume_reads (pl : @plume_feature F) (depth : F) : list nat :=
    let up := upper_bound (pl_depths pl) depth in
    if Nat.eqb up 0 then [0%nat]
    else if Nat.eqb up (length (pl_depths pl)) then [(length (pl_depths pl) - 1)%nat]
    else [(up - 1)%nat; up].

  Theorem C12_plume_reads_in_bounds : forall (pl : @plume_feature F) depth, plume_lengths_ok pl ->
    forall i, In i (plume_reads pl depth) ->
      (i < length (pl_depths pl))%nat /\ (i < length (pl_coords pl))%nat /\ (i < length (pl_axes pl))%nat /\
      (i < length (pl_ecc pl))%nat /\ (i < length (pl_rot pl))%nat.
  Proof.
    intros pl depth [Hn [H1 [H2 [H3 H4]]]] i Hi. rewrite H1, H2, H3, H4.
    assert (i < length (pl_depths pl))%nat; [|repeat split; assumption].
    unfold plume_reads in Hi. pose proof (upper_bound_le' (pl_depths pl) depth) as Hu.
    destruct (Nat.eqb_spec (upper_bound (pl_depths pl) depth) 0) as [E0|E0].
    - destruct Hi as [Hi|[]]. subst i. exact Hn.
    - destruct (Nat.eqb_spec (upper_bound (pl_depths pl) depth) (length (pl_depths pl))) as [E1|E1].
      + destruct Hi as [Hi|[]]. subst i. lia.
      + destruct Hi as [Hi|[Hi|[]]]; subst i; lia.
  Qed.

  (** the reads of [plume_section] are exactly those indices: its result only depends on the table entries
      at [plume_reads] (replacing every other entry leaves it unchanged) - stated for the last-entry case
      through [last], which is the entry of index length-1 on a non-empty table *)
  Lemma last_nth (A : Type) (l : list A) d : l <> [] -> last l d = nth (length l - 1) l d.
  Proof.
    induction l as [|a l IH]; intros H; [contradiction|]. destruct l as [|b l]; [reflexivity|].
    change (last (a :: b :: l) d) with (last (b :: l) d). rewrite IH by discriminate.
    cbn [length]. replace (S (S (length l)) - 1)%nat with (S (length l)) by lia.
    replace (S (length l) - 1)%nat with (length l) by lia. reflexivity.
  Qed.

  Theorem C12_plume_last_is_in_table : forall (pl : @plume_feature F), plume_lengths_ok pl ->
    last (pl_coords pl) pt0 = nth (length (pl_depths pl) - 1) (pl_coords pl) pt0 /\
    lastf (pl_axes pl) = nth (length (pl_depths pl) - 1) (pl_axes pl) f0 /\
    lastf (pl_ecc pl) = nth (length (pl_depths pl) - 1) (pl_ecc pl) f0 /\
    lastf (pl_rot pl) = nth (length (pl_depths pl) - 1) (pl_rot pl) f0.
  Proof.
    intros pl [Hn [H1 [H2 [H3 H4]]]]. unfold lastf.
    rewrite <- H1 at 1. rewrite <- H2 at 1. rewrite <- H3 at 1. rewrite <- H4.
    repeat split; apply last_nth; intros E; rewrite E in *; cbn in *; lia.
  Qed.

  (** the plume signature is the hypothesis of the two theorems above *)
  Theorem C12_plume_signature : forall (pl : @plume_feature F), (0 < length (pl_coords pl))%nat ->
    sig_ok (SigPlume (length (pl_coords pl)) (length (pl_depths pl)) (length (pl_axes pl)) (length (pl_ecc pl)) (length (pl_rot pl))) = true ->
    plume_lengths_ok pl.
  Proof.
    intros pl Hn H. cbn [sig_ok] in H. repeat (apply andb_prop in H; destruct H as [H ?]).
    repeat match goal with E : (_ =? _)%nat = true |- _ => apply Nat.eqb_eq in E end.
    unfold plume_lengths_ok. lia.
  Qed.

  (** uniform and random grains (all feature types): the composition found at position i reads entry i of every table *)
  Theorem C12_grains_uniform_reads : forall (comps : list N) (mats : list (list F)) (sizes : list F) c i,
    sig_ok (SigGrainsUniform (length comps) (length mats) (length sizes)) = true ->
    find_idx comps c 0 = Some i -> (i < length sizes)%nat /\ (i < length mats)%nat.
  Proof. exact grains_uniform_reads_in_bounds. Qed.

  Theorem C12_grains_random_reads : forall (comps : list N) (sizes : list F) (normalize : list bool) c i,
    sig_ok (SigGrainsRandom (length comps) (length sizes) (length normalize)) = true ->
    find_idx comps c 0 = Some i -> (i < length sizes)%nat /\ (i < length normalize)%nat.
  Proof. exact grains_random_reads_in_bounds. Qed.

  Theorem C12_grains_deflected_reads : forall (comps : list N) (sizes : list F) (normalize : list bool) (defl : list F) (basis : list (list F)) c i,
    sig_ok (SigGrainsDeflected (length comps) (length sizes) (length normalize) (length defl) (length basis)) = true ->
    find_idx comps c 0 = Some i ->
    (i < length sizes)%nat /\ (i < length normalize)%nat /\ (i < length defl)%nat /\ (i < length basis)%nat.
  Proof. exact grains_deflected_reads_in_bounds. Qed.

  (** smooth composition of slabs and faults (the missing check was defect D36) *)
  Theorem C12_smooth_reads : forall (comps : list N) (first second : list F) c i,
    sig_ok (SigSmooth (length comps) (length first) (length second)) = true ->
    find_idx comps c 0 = Some i -> (i < length first)%nat /\ (i < length second)%nat.
  Proof. exact smooth_reads_in_bounds. Qed.

  (** uniform composition: walking compositions and fractions together is the lookup by position *)
  Theorem C12_fractions_lookup : forall (comps : list N) (fracs : list F) c,
    sig_ok (SigFractions (length comps) (length fracs)) = true ->
    find_comp comps fracs c = match find_idx comps c 0 with Some i => nth_error fracs i | None => None end /\
    (forall i, find_idx comps c 0 = Some i -> (i < length fracs)%nat).
  Proof. exact fractions_lookup. Qed.
End C12.

(** spreading velocities (half space, plate model, mass conserving): the constructor's loop reads inside the list
    (the defect D30 was this read without the check), and builds one velocity per ridge point *)
Theorem C12_spreading_reads : forall ridges nvel i,
  sig_ok (SigSpreading ridges nvel) = true -> In i (group_reads ridges (nvel =? 1) 0) -> (i < nvel)%nat.
Proof. exact spreading_reads_in_bounds. Qed.

Theorem C12_spreading_shape : forall (A : Type) ridges single (vels : list A) d idx,
  map (@length A) (group_velocities ridges single vels idx d) = ridges /\
  concat (group_velocities ridges single vels idx d) = map (fun i => nth i vels d) (group_reads ridges single idx).
Proof. intros. split; [apply group_velocities_shape | apply group_velocities_reads]. Qed.

(** subducting velocity table of the mass conserving model: an accepted table that the evaluator indexes by [ridge][point]
    has the shape of the ridge coordinates *)
Theorem C12_subducting_table_shape : forall ridges rows,
  sig_ok (SigSubducting ridges rows) = true -> (1 < hd 0 rows)%nat -> ridges <> [] ->
  rows = ridges /\ forall r i, (r < length ridges)%nat -> (i < nth r ridges 0)%nat -> (i < nth r rows 0)%nat.
Proof. exact subducting_table_shape. Qed.

(** wrong version: accepted iff the entry equals the library's MAJOR.MINOR as a whole (no prefix, no trailing characters) *)
Theorem C12_version : forall file program, sig_ok (SigVersion file program) = true <-> file = program.
Proof. exact version_accepted_iff. Qed.

(** sections of slabs and faults: the segment table is rectangular *)
Theorem C12_section_table_rectangular : forall (K M G : Type) (L : layout K M G),
  (forall e, In e (ly_sections L) ->
     sig_ok (SigSection (ly_n L) (se_coord e) (length (ly_default L)) (length (se_segments e))) = true) ->
  length (table L) = ly_n L /\ Forall (fun row => length row = length (ly_default L)) (table L).
Proof. exact (@table_rectangular). Qed.

(** non-vacuity: a consistent and an inconsistent document *)
Example C12_doc_ok_example :
  doc_ok [SigPlume 3 3 3 3 3; SigGrainsUniform 2 2 2; SigSpreading [2; 3] 5; SigSpreading [2; 3] 1; SigSection 3 2 2 2] = true /\
  doc_ok [SigPlume 3 3 3 2 3] = false /\ doc_ok [SigSpreading [2; 3] 4] = false /\ doc_ok [SigSection 3 3 2 2] = false /\
  doc_ok [SigSubducting [3] [2]] = false /\ doc_ok [SigSubducting [2; 2] [2]] = false /\ doc_ok [SigSubducting [2; 3] [2; 3]] = true /\ doc_ok [SigSubducting [2; 3] [1]] = true.
Proof. repeat split. Qed.

Print Assumptions C12_plume_reads_in_bounds.
Print Assumptions C12_plume_last_is_in_table.
Print Assumptions C12_plume_signature.
Print Assumptions C12_grains_uniform_reads.
Print Assumptions C12_grains_random_reads.
Print Assumptions C12_grains_deflected_reads.
Print Assumptions C12_fractions_lookup.
Print Assumptions C12_smooth_reads.
Print Assumptions C12_spreading_reads.
Print Assumptions C12_spreading_shape.
Print Assumptions C12_section_table_rectangular.
Print Assumptions C12_subducting_table_shape.
Print Assumptions C12_version.
