(** * SlabLayout: how the segment table of a slab / fault is assembled from the three places of the
    parameter file (feature, section entry, segment), and the interpolation between two sections.

    parameters.cc:1221-1366 / 1460-1606 (a segment without models of a kind takes those of its section
    entry, or else of the feature) and subducting_plate.cc:197-331 (a section entry replaces the segment
    list of its coordinate; later entries win).  [K] is the kind of model (temperature, composition,
    grains, velocity), [M] a model list of one kind, [G] the geometry of a segment. *)
From Coq Require Import List Arith Bool Lia.
Import ListNotations.

Section Layout.
  Variables K M G : Type.

  Record segment := { sg_geom : G; sg_models : K -> option M }.
  Record section_entry := { se_coord : nat; se_segments : list segment; se_models : K -> option M }.
  Record layout := {
    ly_n : nat;                          (* number of trench coordinates *)
    ly_models : K -> option M;           (* models written at feature level *)
    ly_default : list segment;           (* the feature's "segments" *)
    ly_sections : list section_entry     (* the feature's "sections", in file order *)
  }.

  Definition inherit (inner outer : K -> option M) : K -> option M :=
    fun k => match inner k with Some m => Some m | None => outer k end.

  (** a resolved segment: geometry and, per kind, the model list that is evaluated *)
  Definition resolve (outer : K -> option M) (s : segment) : G * (K -> option M) :=
    (sg_geom s, inherit (sg_models s) outer).

  (** the last entry naming coordinate [i], if any *)
  Fixpoint find_entry (es : list section_entry) (i : nat) (acc : option section_entry) : option section_entry :=
    match es with
    | [] => acc
    | e :: r => find_entry r i (if Nat.eqb (se_coord e) i then Some e else acc)
    end.

  Definition section_of (L : layout) (i : nat) : list (G * (K -> option M)) :=
    match find_entry (ly_sections L) i None with
    | Some e => map (resolve (inherit (se_models e) (ly_models L))) (se_segments e)
    | None => map (resolve (ly_models L)) (ly_default L)
    end.

  Definition table (L : layout) : list (list (G * (K -> option M))) := map (section_of L) (seq 0 (ly_n L)).

  (** ** the re-layouts of property C10 *)
  Definition explicit_segment (outer : K -> option M) (s : segment) : segment :=
    {| sg_geom := sg_geom s; sg_models := inherit (sg_models s) outer |}.

  Definition explicit_entry (L : layout) (e : section_entry) : section_entry :=
    {| se_coord := se_coord e; se_models := se_models e;
       se_segments := map (explicit_segment (inherit (se_models e) (ly_models L))) (se_segments e) |}.

  (** inherited models written explicitly into every segment *)
  Definition explicit_models (L : layout) : layout :=
    {| ly_n := ly_n L; ly_models := ly_models L;
       ly_default := map (explicit_segment (ly_models L)) (ly_default L);
       ly_sections := map (explicit_entry L) (ly_sections L) |}.

  Definition has_entry (L : layout) (i : nat) : bool :=
    match find_entry (ly_sections L) i None with Some _ => true | None => false end.

  (** the default segment list repeated as a section entry for every coordinate that has none *)
  Definition added_entries (L : layout) : list section_entry :=
    map (fun i => {| se_coord := i; se_segments := ly_default L; se_models := fun _ => None |})
        (filter (fun i => negb (has_entry L i)) (seq 0 (ly_n L))).

  Definition explicit_sections (L : layout) : layout :=
    {| ly_n := ly_n L; ly_models := ly_models L; ly_default := ly_default L;
       ly_sections := ly_sections L ++ added_entries L |}.

  (** the section of coordinate [i] replaced by [e] *)
  Definition override (L : layout) (e : section_entry) : layout :=
    {| ly_n := ly_n L; ly_models := ly_models L; ly_default := ly_default L; ly_sections := ly_sections L ++ [e] |}.
End Layout.

Arguments sg_geom {K M G}. Arguments sg_models {K M G}.
Arguments se_coord {K M G}. Arguments se_segments {K M G}. Arguments se_models {K M G}.
Arguments ly_n {K M G}. Arguments ly_models {K M G}. Arguments ly_default {K M G}. Arguments ly_sections {K M G}.
Arguments inherit {K M}. Arguments resolve {K M G}. Arguments find_entry {K M G}. Arguments section_of {K M G}.
Arguments table {K M G}. Arguments explicit_models {K M G}. Arguments explicit_sections {K M G}. Arguments override {K M G}.
Arguments explicit_segment {K M G}. Arguments explicit_entry {K M G}. Arguments has_entry {K M G}. Arguments added_entries {K M G}.

(** ** interpolation between the sections of two consecutive coordinates
    (subducting_plate.cc:556-594, 644, 689, 727-739: thickness, top truncation, length, angles,
    temperature, composition all use this expression with the fraction along the trench interval) *)
From WB Require Import Num.
Section Interp.
  Context {F : Type} {NF : Num F}.
  Local Open Scope num_scope.
  Definition section_interp (current next fraction : F) : F := current + fraction * (next - current).
End Interp.
