(** * SlabFeatureProofs: subducting plates and faults satisfy the hypotheses of the world-level theorems
    (every painted block keeps its width; without random grains models no draws are consumed), so that the
    theorems of C01 / C02 / C09 / C13 cover worlds with slabs and faults; and the dispatch of their
    temperature models (C05). *)
From Coq Require Import List Arith NArith ZArith Bool Lia.
From WB Require Import Num Base Props World WorldProofs WorldProofs2 Kernels Features FeaturesProofs Bezier SlabLayout SlabModel Quat SlabMass SlabFeature.
Import ListNotations.

Section SFP.
  Context {F : Type} {NF : Num F}.

  Lemma mat3_cast_length (q : @quat F) : length (mat3_cast q) = 9.
  Proof. destruct q as [[[w x] y] z]. reflexivity. Qed.

  Lemma concat_const_length {A} (ls : list (list A)) n : Forall (fun l => length l = n) ls -> length (concat ls) = length ls * n.
  Proof. induction 1 as [|l ls H _ IH]; cbn; [reflexivity|]. rewrite app_length, H, IH. reflexivity. Qed.

  Lemma line_paint_len g tape (lf : @line_feature F) : paint_len (line_to_feature g tape lf).
  Proof.
    intros q wt p t blk L. cbn [line_to_feature ft_paint]. unfold lf_paint.
    destruct (lf_local lf (lf_distances lf q)) as [[[[th tr] tot] cur] nxt].
    destruct p; cbn [width] in *; try reflexivity.
    - (* grains *)
      destruct (fold_left _ (ls_grains cur) (blk, t)) as [bc t1].
      destruct (fold_left _ (ls_grains nxt) (blk, t1)) as [bn t2]. cbn [fst].
      rewrite app_length, map_length, seq_length.
      rewrite (concat_const_length _ 9).
      + rewrite map_length, seq_length. lia.
      + apply Forall_forall. intros l Hl. apply in_map_iff in Hl. destruct Hl as [i [Hi _]]. subst l.
        unfold average_rotation. apply mat3_cast_length.
    - (* velocity *)
      destruct (fold_left _ (ls_vel cur) _) as [[a0 a1] a2]. destruct (fold_left _ (ls_vel nxt) _) as [[b0 b1] b2]. reflexivity.
  Qed.

  (** no random grains models anywhere in the table *)
  Definition sgrains_nonrandom (m : @sgrains F) : Prop := match m with SGUniform _ _ _ _ _ => True | SGRandom _ _ _ _ _ _ => False end.
  Definition line_nonrandom (lf : @line_feature F) : Prop :=
    Forall (Forall (fun s => Forall sgrains_nonrandom (ls_grains s))) (lf_table lf).

  Lemma sgrains_fold_nonrandom tape fault sph q pd c k ms : Forall sgrains_nonrandom ms -> forall b t,
    fold_left (fun st m => sgrains_eval tape fault sph q pd m c k st) ms (b, t) =
    (fst (fold_left (fun st m => sgrains_eval tape fault sph q pd m c k st) ms (b, 0)), t).
  Proof.
    intros H. induction H as [|m ms Hm Hms IH]; intros b t; [reflexivity|]. cbn [fold_left].
    destruct m as [mn mx comps mats sizes|]; [|destruct Hm]. cbn [sgrains_eval].
    match goal with |- context [if ?b then _ else _] => destruct b end; [|apply IH].
    cbn [grains_eval].
    repeat (match goal with |- context [if ?b then _ else _] => destruct b end; [|apply IH]).
    destruct (find_idx comps c 0); apply IH.
  Qed.

  Lemma nth_table_nonrandom (lf : @line_feature F) i j : line_nonrandom lf ->
    Forall sgrains_nonrandom (ls_grains (nth j (nth i (lf_table lf) []) lseg_default)).
  Proof.
    intros H. unfold line_nonrandom in H.
    destruct (Nat.lt_ge_cases i (length (lf_table lf))) as [Hi|Hi].
    - pose proof (proj1 (Forall_forall _ _) H _ (nth_In _ [] Hi)) as Hr.
      destruct (Nat.lt_ge_cases j (length (nth i (lf_table lf) []))) as [Hj|Hj].
      + exact (proj1 (Forall_forall _ _) Hr _ (nth_In _ lseg_default Hj)).
      + rewrite (nth_overflow _ lseg_default Hj). constructor.
    - rewrite (nth_overflow _ [] Hi). destruct j; constructor.
  Qed.

  Lemma line_no_random g tape (lf : @line_feature F) : line_nonrandom lf -> no_random (line_to_feature g tape lf).
  Proof.
    intros H q wt p t blk. cbn [line_to_feature ft_paint]. unfold lf_paint.
    remember (lf_distances lf q) as pd. unfold lf_local.
    set (cur := nth (pd_segment pd) (nth (pd_section pd) (lf_table lf) []) lseg_default).
    set (nxt := nth (pd_segment pd) (nth (S (pd_section pd)) (lf_table lf) []) lseg_default).
    destruct p; try reflexivity.
    - (* grains *)
      pose proof (nth_table_nonrandom lf (pd_section pd) (pd_segment pd) H) as Hc. fold cur in Hc.
      pose proof (nth_table_nonrandom lf (S (pd_section pd)) (pd_segment pd) H) as Hn. fold nxt in Hn.
      rewrite (sgrains_fold_nonrandom tape (lf_fault lf) (lf_sph lf) q pd c k (ls_grains cur) Hc blk t).
      rewrite (sgrains_fold_nonrandom tape (lf_fault lf) (lf_sph lf) q pd c k (ls_grains cur) Hc blk 0).
      destruct (fold_left _ (ls_grains cur) (blk, 0)) as [bc t1] eqn:E1. cbn [fst].
      rewrite (sgrains_fold_nonrandom tape (lf_fault lf) (lf_sph lf) q pd c k (ls_grains nxt) Hn blk t).
      rewrite (sgrains_fold_nonrandom tape (lf_fault lf) (lf_sph lf) q pd c k (ls_grains nxt) Hn blk 0).
      destruct (fold_left _ (ls_grains nxt) (blk, 0)) as [bn t2]. reflexivity.
    - (* velocity *)
      destruct (fold_left _ (ls_vel cur) _) as [[a0 a1] a2]. destruct (fold_left _ (ls_vel nxt) _) as [[b0 b1] b2]. reflexivity.
  Qed.

  Lemma line_paints_tag g tape (lf : @line_feature F) : paints_tag (line_to_feature g tape lf).
  Proof.
    intros q wt t blk. cbn [line_to_feature ft_paint ft_tag]. unfold lf_paint.
    destruct (lf_local lf (lf_distances lf q)) as [[[[th tr] tot] cur] nxt]. reflexivity.
  Qed.

  (** ** dispatch of the slab / fault temperature models (C05): outside its own distance range a model returns the value it
      was given; inside it applies its operation to the documented expression *)
  Theorem stemp_dispatch g fault sph q pd th tot old :
    (forall mn mx o T, stemp_eval g fault sph q pd th tot (STUniform mn mx o T) old =
       if in_dist mn mx (if fault then fabs (pd_distance pd) else pd_distance pd) then apply_op o old T else old) /\
    (forall mn mx o t0 t1, flt t0 f0 = false -> flt t1 f0 = false ->
       stemp_eval g fault sph q pd th tot (STLinear mn mx o t0 t1) old =
       let dd := if fault then fabs (pd_distance pd) else pd_distance pd in
       if in_dist mn mx dd then apply_op o old (t0 + ((dd - mn) * ((t1 - t0) / (mx - mn))))%F else old) /\
    (forall mn mx o Tp alpha cp,
       stemp_eval g fault sph q pd th tot (STAdiabatic mn mx o Tp alpha cp) old =
       if in_dist mn mx (if fault then q_depth q else pd_distance pd)
       then apply_op o old (Tp * fexp (((alpha * q_g q) / cp) * q_depth q))%F else old).
  Proof.
    split; [|split].
    - intros. reflexivity.
    - intros mn mx o t0 t1 H0 H1. cbn [stemp_eval]. rewrite H0, H1. reflexivity.
    - intros. reflexivity.
  Qed.
End SFP.

(** ** membership (C06): the model's covering test is the membership definition of the property text (SlabSpec.slab_member /
    fault_member), evaluated on the reported distances and the locally interpolated thickness, top truncation and total
    length, for points that have a foot on the trench (finite distances) and a non-degenerate local thickness *)
From WB Require Import SlabSpec.
Section Membership.
  Context {F : Type} {NF : Num F}.

  Theorem covers_is_membership (lf : @line_feature F) (q : @query F) :
    lf_covers lf q =
    (let pd := lf_distances lf q in
     let '(th, tr, tot, _, _) := lf_local lf pd in
     (flt (fabs (pd_distance pd)) finf || flt (pd_along pd) finf)
     && negb (flt (fabs th) (fmul f2 feps)) && negb (flt th tr)
     && (if lf_fault lf
         then fault_member (pd_distance pd) (pd_along pd) th tot (q_depth q) (lf_min lf) (lf_max lf) true
         else slab_member (pd_distance pd) (pd_along pd) tr th tot (q_depth q) (lf_min lf) (lf_max lf) true)).
  Proof.
    unfold lf_covers. cbn zeta.
    destruct (lf_local lf (lf_distances lf q)) as [[[[th tr] tot] cur] nxt].
    unfold slab_member, fault_member.
    destruct (fle (q_depth q) (lf_max lf)); destruct (fle (lf_min lf) (q_depth q));
      destruct (flt (fabs (pd_distance (lf_distances lf q))) finf || flt (pd_along (lf_distances lf q)) finf);
      destruct (flt (fabs th) (fmul f2 feps)); destruct (flt th tr); destruct (lf_fault lf); cbn [andb negb];
      rewrite ?andb_true_r, ?andb_false_r; try reflexivity.
  Qed.
End Membership.
