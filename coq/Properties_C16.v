(** * C16 - the C and C++ wrappers are transparent (structural theorems about Apps.v). *)
From Coq Require Import List NArith String.
From WB Require Import Num Base Props World Apps.
Import ListNotations.

Section C16.
  Context {F : Type} {NF : Num F}.

  (** every argument of create_world reaches the world unchanged: file name, output-directory flag
      and the FULL output directory path, seed; null pointers mean "false" and "" *)
  Theorem C16_create : forall file has_dir dir seed,
    create_world_args file (Some has_dir) (Some dir) seed =
      {| wa_file := file; wa_has_dir := has_dir; wa_dir := dir; wa_seed := seed |} /\
    create_world_args file None None seed =
      {| wa_file := file; wa_has_dir := false; wa_dir := EmptyString; wa_seed := seed |} /\
    wrapper_cpp_args file has_dir dir seed =
      {| wa_file := file; wa_has_dir := has_dir; wa_dir := dir; wa_seed := seed |}.
  Proof. intros. repeat split. Qed.

  (** properties_3d / properties_2d of the C interface return what the native call returns for the
      same point, depth and property list (n = number of rows handed over) *)
  Theorem C16_properties : forall (w : @world F) x y z depth rows t,
    c_properties_3d w x y z depth rows (List.length rows) t = native_properties3d w x y z depth rows t /\
    c_properties_2d w x z depth rows (List.length rows) t = native_properties2d w x z depth rows t.
  Proof. intros. unfold c_properties_3d, c_properties_2d. rewrite copy_rows_id. split; reflexivity. Qed.

  (** the single-property functions forward to the native single-property entry points *)
  Theorem C16_single : forall (w : @world F) x y z depth c t,
    c_temperature_3d w x y z depth t = temperature3d w (x, y, z) depth t /\
    c_temperature_2d w x z depth t = temperature2d w (x, z) depth t /\
    c_composition_3d w x y z depth c t = composition3d w (x, y, z) depth c t /\
    c_composition_2d w x z depth c t = composition2d w (x, z) depth c t.
  Proof. intros. repeat split. Qed.
End C16.

Print Assumptions C16_create.
Print Assumptions C16_properties.
Print Assumptions C16_single.
