(** * ModelProofs: closed forms and envelopes of the temperature models over exact reals. *)
From Coq Require Import Reals Lra Lia List ZArith Bool Psatz.
From WB Require Import Num Base RNum Props World Kernels Features.
Import ListNotations.
Local Open Scope R_scope.

Section MP.
  Variable sp : special.
  Local Existing Instance Rnum.
  Let N := Rnum sp.

  Lemma ten_eps_pos : 0 < @fmul R N (@fofZ R N 10) (@feps R N).
  Proof. change (0 < 10 * powerRZ 2 (-52)). assert (0 < powerRZ 2 (-52)) by (apply powerRZ_lt; lra). lra. Qed.

  (** ** linear *)
  Theorem linear_closed_form top bot a b d :
    10 * powerRZ 2 (-52) <= b - a ->
    @linear_T R N top bot a b d = top + (d - a) * (bot - top) / (b - a).
  Proof.
    intros H. unfold linear_T. change (@flt R N) with Rltb. change (@fsub R N) with Rminus.
    change (@fmul R N (@fofZ R N 10) (@feps R N)) with (10 * powerRZ 2 (-52)).
    destruct (Rltb_spec (b - a) (10 * powerRZ 2 (-52))); [lra|].
    change (@fadd R N) with Rplus. change (@fmul R N) with Rmult. change (@fdiv R N) with Rdiv. unfold Rdiv. ring.
  Qed.

  (** at the local top the top temperature is attained, at the local bottom the bottom temperature,
      and in between the value lies between the two *)
  Theorem linear_boundaries_and_envelope top bot a b d :
    10 * powerRZ 2 (-52) <= b - a ->
    @linear_T R N top bot a b a = top /\ @linear_T R N top bot a b b = bot /\
    (a <= d <= b -> top <= bot -> top <= @linear_T R N top bot a b d <= bot).
  Proof.
    intros H. pose proof ten_eps_pos as E. change (@fmul R N (@fofZ R N 10) (@feps R N)) with (10 * powerRZ 2 (-52)) in E.
    rewrite !linear_closed_form by exact H. split; [|split].
    - field. lra.
    - field. lra.
    - intros [D1 D2] Ht.
      assert (P : 0 <= (d - a) * / (b - a) <= 1).
      { split; [apply Rmult_le_pos; [lra|left; apply Rinv_0_lt_compat; lra]|].
        apply Rmult_le_reg_r with (b - a); [lra|]. rewrite Rmult_assoc, Rinv_l by lra. lra. }
      replace ((d - a) * (bot - top) / (b - a)) with ((d - a) * / (b - a) * (bot - top)) by (unfold Rdiv; ring).
      split; nra.
  Qed.

  (** ** Chapman geotherm and adiabat are the documented expressions *)
  Theorem chapman_closed_form top q k A dz :
    @chapman_T R N top q k A dz = top + (q / k) * dz - (A / (2 * k)) * dz * dz.
  Proof. unfold chapman_T. change (@f2 R N) with (IZR 2). reflexivity. Qed.

  Theorem adiabatic_closed_form Tp alpha cp g d :
    @adiabatic_T R N Tp alpha cp g d = Tp * exp (alpha * g / cp * d).
  Proof. reflexivity. Qed.

  (** ** half-space cooling: closed form and physical envelope *)
  Theorem half_space_closed_form kappa top bot age d : 0 < age ->
    @half_space_T R N kappa top bot age d = bot + (top - bot) * sp_erfc sp (d / (2 * sqrt (kappa * age))).
  Proof.
    intros H. unfold half_space_T. change (@flt R N) with Rltb. change (@f0 R N) with 0.
    destruct (Rltb_spec 0 age); [|lra]. reflexivity.
  Qed.

  Lemma hs_arg_nonneg kappa age d : 0 < kappa -> 0 < age -> 0 <= d -> 0 <= d / (2 * sqrt (kappa * age)).
  Proof.
    intros Hk Ha Hd. unfold Rdiv. apply Rmult_le_pos; [exact Hd|]. left. apply Rinv_0_lt_compat.
    assert (0 < sqrt (kappa * age)) by (apply sqrt_lt_R0; nra). lra.
  Qed.

  (** between top and bottom temperature, equal to the top temperature at depth zero,
      non-decreasing with depth and non-increasing with age *)
  Theorem half_space_envelope kappa top bot age d :
    special_laws sp -> 0 < kappa -> 0 < age -> 0 <= d -> top <= bot ->
    top <= @half_space_T R N kappa top bot age d <= bot /\
    @half_space_T R N kappa top bot age 0 = top.
  Proof.
    intros L Hk Ha Hd Ht. rewrite !half_space_closed_form by exact Ha.
    pose proof (erfc_range sp L _ (hs_arg_nonneg kappa age d Hk Ha Hd)) as [E0 E1].
    split; [split; nra|].
    replace (0 / (2 * sqrt (kappa * age))) with 0 by (unfold Rdiv; ring). rewrite (erfc_0 sp L). ring.
  Qed.

  Theorem half_space_monotone_depth kappa top bot age d1 d2 :
    special_laws sp -> 0 < kappa -> 0 < age -> 0 <= d1 <= d2 -> top <= bot ->
    @half_space_T R N kappa top bot age d1 <= @half_space_T R N kappa top bot age d2.
  Proof.
    intros L Hk Ha Hd Ht. rewrite !half_space_closed_form by exact Ha.
    assert (Hs : 0 < 2 * sqrt (kappa * age)) by (assert (0 < sqrt (kappa * age)) by (apply sqrt_lt_R0; nra); lra).
    assert (M : sp_erfc sp (d2 / (2 * sqrt (kappa * age))) <= sp_erfc sp (d1 / (2 * sqrt (kappa * age)))).
    { apply (erfc_decreasing sp L). split; [apply hs_arg_nonneg; lra|].
      unfold Rdiv. apply Rmult_le_compat_r; [left; apply Rinv_0_lt_compat; exact Hs | lra]. }
    nra.
  Qed.

  Theorem half_space_monotone_age kappa top bot age1 age2 d :
    special_laws sp -> 0 < kappa -> 0 < age1 <= age2 -> 0 <= d -> top <= bot ->
    @half_space_T R N kappa top bot age2 d <= @half_space_T R N kappa top bot age1 d.
  Proof.
    intros L Hk Ha Hd Ht. rewrite !half_space_closed_form by lra.
    assert (S1 : 0 < sqrt (kappa * age1)) by (apply sqrt_lt_R0; nra).
    assert (S12 : sqrt (kappa * age1) <= sqrt (kappa * age2)) by (apply sqrt_le_1_alt; nra).
    assert (M : sp_erfc sp (d / (2 * sqrt (kappa * age1))) <= sp_erfc sp (d / (2 * sqrt (kappa * age2)))).
    { apply (erfc_decreasing sp L). split; [apply hs_arg_nonneg; lra|].
      unfold Rdiv. apply Rmult_le_compat_l; [exact Hd|]. apply Rinv_le_contravar; lra. }
    nra.
  Qed.

  (** ** plate models: every term of the series vanishes at depth 0 and at the bottom, so the
      prescribed boundary temperatures are attained there *)
  Lemma plate_series_zero_terms n : forall i dT depth md expo acc,
    (forall j : nat, sin (INR j * PI * depth / md) = 0) ->
    @plate_series R N n i dT depth md expo acc = acc.
  Proof.
    induction n as [|n IH]; intros i dT depth md expo acc H; cbn [plate_series]; [reflexivity|].
    rewrite IH by exact H.
    change (@fsin R N) with sin. change (@fmul R N) with Rmult. change (@fdiv R N) with Rdiv. change (@fadd R N) with Rplus.
    change (@fofZ R N (Z.of_nat i)) with (IZR (Z.of_nat i)). rewrite <- INR_IZR_INZ.
    change (@fpi R N) with PI. rewrite (H i). ring.
  Qed.

  Theorem plate_model_boundaries n dT md expo base : md <> 0 ->
    @plate_series R N n 1 dT 0 md expo base = base /\
    @plate_series R N n 1 dT md md expo base = base.
  Proof.
    intros Hm. split; apply plate_series_zero_terms; intros j.
    - replace (INR j * PI * 0 / md) with 0 by (unfold Rdiv; ring). apply sin_0.
    - replace (INR j * PI * md / md) with (INR j * PI) by (field; exact Hm).
      rewrite Rmult_comm. induction j as [|j IHj]; [rewrite Rmult_0_r; apply sin_0|].
      rewrite S_INR, Rmult_plus_distr_l, Rmult_1_r, neg_sin, IHj. ring.
  Qed.

  (** ** the clamped projection of the ridge distance is the nearest point of the segment *)
  Theorem ridge_projection_nearest (px py ax ay bx by_ t : R) :
    0 <= t <= 1 -> (ax, ay) <> (bx, by_) ->
    let vx := bx - ax in let vy := by_ - ay in
    let c := vx * vx + vy * vy in
    let c1 := (px - ax) * vx + (py - ay) * vy in
    let s := if Rle_dec c1 0 then 0 else if Rle_dec c c1 then 1 else c1 / c in
    (px - (ax + s * vx)) * (px - (ax + s * vx)) + (py - (ay + s * vy)) * (py - (ay + s * vy)) <=
    (px - (ax + t * vx)) * (px - (ax + t * vx)) + (py - (ay + t * vy)) * (py - (ay + t * vy)).
  Proof.
    intros Ht Hne. cbn zeta.
    set (vx := bx - ax). set (vy := by_ - ay). set (c := vx * vx + vy * vy). set (c1 := (px - ax) * vx + (py - ay) * vy).
    assert (Hc : 0 < c).
    { unfold c. pose proof (Rle_0_sqr vx) as Sx. pose proof (Rle_0_sqr vy) as Sy. unfold Rsqr in Sx, Sy.
      destruct (Req_dec vx 0) as [X|X].
      - destruct (Req_dec vy 0) as [Y|Y].
        + exfalso. apply Hne. unfold vx, vy in X, Y. f_equal; lra.
        + pose proof (Rsqr_pos_lt vy Y) as P. unfold Rsqr in P. lra.
      - pose proof (Rsqr_pos_lt vx X) as P. unfold Rsqr in P. lra. }
    (* squared distance as a function of the parameter: q(u) = |p-a|^2 - 2 u c1 + u^2 c *)
    assert (Q : forall u, (px - (ax + u * vx)) * (px - (ax + u * vx)) + (py - (ay + u * vy)) * (py - (ay + u * vy))
                         = ((px - ax) * (px - ax) + (py - ay) * (py - ay)) - 2 * u * c1 + u * u * c).
    { intros u. unfold c, c1. ring. }
    rewrite !Q.
    destruct (Rle_dec c1 0) as [H0|H0].
    - assert (A1 : 0 <= t * (- c1)) by (apply Rmult_le_pos; lra).
      assert (A2 : 0 <= t * t * c) by (apply Rmult_le_pos; [apply Rle_0_sqr|lra]).
      nra.
    - destruct (Rle_dec c c1) as [H1|H1].
      + assert (A1 : 0 <= (1 - t) * (c1 - c)) by (apply Rmult_le_pos; lra).
        assert (A2 : 0 <= (1 - t) * (1 - t) * c) by (apply Rmult_le_pos; [apply Rle_0_sqr|lra]).
        nra.
      + assert (Hs : c1 / c * c = c1) by (field; lra).
        remember (c1 / c) as u eqn:Eu. rewrite <- Hs.
        assert (D : 0 <= (t - u) * (t - u) * c) by (apply Rmult_le_pos; [apply Rle_0_sqr|lra]).
        nra.
  Qed.
End MP.
