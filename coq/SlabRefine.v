(** * SlabRefine: over the reals, the straight-piece computation of the model of
    distance_point_from_curved_planes (SlabModel.straight_piece, in the local frame whose second axis
    points up) is the planar specification (SlabSpec.straight_eval, second axis = depth). *)
From Coq Require Import Reals Lra Lia List ZArith Bool Psatz.
From WB Require Import Num Base RNum Props World Kernels Bezier SlabSpec SlabSpecProofs SlabModel.
Import ListNotations.
Local Open Scope R_scope.

Section Refine.
  Variable sp : special.
  Local Existing Instance Rnum.
  Let N := Rnum sp.

  Lemma half_pi : @fmul R N (@fhalf R N) (@fpi R N) = PI / 2.
  Proof.
    unfold fhalf. change (@fmul R N) with Rmult. change (@fpi R N) with PI.
    change (@fdec R N 5 (-1)) with (5 * powerRZ 10 (-1)). change (powerRZ 10 (-1)) with (/ (10 * 1)). field.
  Qed.

  Lemma sc3 th : sin th * sin th + cos th * cos th = 1.
  Proof. pose proof (sin2_cos2 th) as H. unfold Rsqr in H. exact H. Qed.

  Section Piece.
    (** the piece starts at [(bx, by)] of the local frame ([by] = height above the model bottom), has length [L]
        and dip [th]; the check point has arclength [a] along the piece and offset [d] along the downward normal *)
    Variables sr bx by_ L th a d : R.
    Hypothesis HL : 0 < L.
    Let cp : R * R := (bx + a * cos th - d * sin th, by_ - (a * sin th + d * cos th)).

    Lemma straight_piece_value :
      @straight_piece R N sr (bx, by_) L th cp =
      ((bx + L * cos th, by_ - L * sin th),
       if Rle_dec 0 a then if Rle_dec a L then Some (d, a, sr - (by_ - a * sin th)) else None else None).
    Proof.
      unfold straight_piece. rewrite half_pi.
      change (@fsin R N) with sin. change (@fcos R N) with cos. change (@fmul R N) with Rmult.
      change (@fadd R N) with Rplus. change (@fsub R N) with Rminus. change (@fdiv R N) with Rdiv.
      change (@fopp R N) with Ropp. change (@flt R N) with Rltb. change (@f0 R N) with 0. change (@f1 R N) with 1.
      rewrite sin_shift, cos_shift.
      unfold p2sub, p2dot, p2add, p2scale, p2norm, p2nsq, cp. cbn [fst snd].
      change (@fmul R N) with Rmult. change (@fadd R N) with Rplus. change (@fsub R N) with Rminus.
      change (@fsqrt R N) with sqrt. change (@f0 R N) with 0.
      pose proof (sc3 th) as SC.
      assert (C1 : 0 + (bx + L * cos th - bx) * (bx + a * cos th - d * sin th - bx) +
                   (by_ - L * sin th - by_) * (by_ - (a * sin th + d * cos th) - by_) = L * a).
      { transitivity (L * a * (sin th * sin th + cos th * cos th)); [ring | rewrite SC; ring]. }
      assert (C2 : 0 + (bx + L * cos th - bx) * (bx + L * cos th - bx) + (by_ - L * sin th - by_) * (by_ - L * sin th - by_) = L * L).
      { transitivity (L * L * (sin th * sin th + cos th * cos th)); [ring | rewrite SC; ring]. }
      rewrite C1, C2.
      destruct (Rltb_spec (L * a) 0) as [H1|H1].
      - cbn [orb]. destruct (Rle_dec 0 a); [nra | reflexivity].
      - cbn [orb]. destruct (Rltb_spec (L * L) (L * a)) as [H2|H2].
        + destruct (Rle_dec 0 a); [|reflexivity]. destruct (Rle_dec a L); [nra | reflexivity].
        + destruct (Rle_dec 0 a) as [Ha|Ha]; [|nra]. destruct (Rle_dec a L) as [Hb|Hb]; [|nra].
          assert (Q : L * a / (L * L) = a / L) by (field; lra).
          rewrite Q.
          assert (Px : bx + (bx + L * cos th - bx) * (a / L) = bx + a * cos th) by (field; lra).
          assert (Py : by_ + (by_ - L * sin th - by_) * (a / L) = by_ - a * sin th) by (field; lra).
          rewrite Px, Py.
          assert (S : (bx - (bx + L * cos th)) * (by_ - (a * sin th + d * cos th) - by_) -
                      (by_ - (by_ - L * sin th)) * (bx + a * cos th - d * sin th - bx) = L * d).
          { transitivity (L * d * (sin th * sin th + cos th * cos th)); [ring | rewrite SC; ring]. }
          rewrite S.
          assert (N1 : (bx + a * cos th - d * sin th - (bx + a * cos th)) * (bx + a * cos th - d * sin th - (bx + a * cos th)) +
                       (by_ - (a * sin th + d * cos th) - (by_ - a * sin th)) * (by_ - (a * sin th + d * cos th) - (by_ - a * sin th)) = d * d).
          { transitivity (d * d * (sin th * sin th + cos th * cos th)); [ring | rewrite SC; ring]. }
          assert (N2 : (bx - (bx + a * cos th)) * (bx - (bx + a * cos th)) + (by_ - (by_ - a * sin th)) * (by_ - (by_ - a * sin th)) = a * a).
          { transitivity (a * a * (sin th * sin th + cos th * cos th)); [ring | rewrite SC; ring]. }
          rewrite N1, N2.
          assert (Sa : sqrt (a * a) = a) by (apply sqrt_square; exact Ha).
          rewrite Sa.
          assert (Sd : (if Rltb (L * d) 0 then - (1) else 1) * sqrt (d * d) = d).
          { destruct (Rltb_spec (L * d) 0) as [Hd|Hd].
            - assert (d < 0) by nra. replace (d * d) with ((- d) * (- d)) by ring. rewrite sqrt_square by lra. ring.
            - assert (0 <= d) by nra. rewrite sqrt_square by lra. ring. }
          rewrite Sd. reflexivity.
    Qed.

    (** the specification evaluated in depth coordinates: the piece starts at horizontal position [bx] and depth
        [sr - by], the point at depth [sr - (second local coordinate)] *)
    Theorem straight_piece_refines_spec :
      let p := {| pc_len := L; pc_top := th; pc_bot := th |} in
      let e := @straight_eval R N bx (sr - by_) p (fst cp) (sr - snd cp) in
      fst (@straight_piece R N sr (bx, by_) L th cp) = (pe_ex e, sr - pe_ey e) /\
      match snd (@straight_piece R N sr (bx, by_) L th cp) with
      | Some (dist, along, depth_of_foot) => pe_ok e = true /\ dist = pe_dist e /\ along = pe_along e
      | None => pe_ok e = false
      end.
    Proof.
      intros p e. rewrite straight_piece_value. cbn [fst snd].
      assert (U : fst cp = bx + a * cos th - d * sin th) by reflexivity.
      assert (V : sr - snd cp = (sr - by_) + a * sin th + d * cos th) by (unfold cp; cbn [snd]; ring).
      pose proof (straight_coordinates sp bx (sr - by_) L th a d) as [Hd [Ha Hok]].
      pose proof (straight_end sp bx (sr - by_) L th a d) as [Hex Hey].
      unfold e, p, N. rewrite U, V. rewrite Hex, Hey, Hd, Ha.
      split; [f_equal; ring|].
      destruct (Rle_dec 0 a) as [A0|A0].
      - destruct (Rle_dec a L) as [A1|A1].
        + split; [apply Hok; lra | split; reflexivity].
        + destruct (pe_ok _) eqn:E; [pose proof (proj1 Hok eq_refl); lra | reflexivity].
      - destruct (pe_ok _) eqn:E; [pose proof (proj1 Hok eq_refl); lra | reflexivity].
    Qed.
  End Piece.
End Refine.
