(** * SlabRefine: over the reals, the straight-piece computation of the model of
    distance_point_from_curved_planes (SlabModel.straight_piece, in the local frame whose second axis
    points up) is the planar specification (SlabSpec.straight_eval, second axis = depth). *)
From Coq Require Import Reals Lra Lia List ZArith Bool Psatz.
From WB Require Import Num Base RNum Props World Kernels Bezier SlabSpec SlabSpecProofs SlabModel.
Import ListNotations.
Local Open Scope R_scope.

Section Refine.
  Variable sp : special.
  Local Existing Instance Rnum.
  Let N := Rnum sp.

  Lemma half_pi : @fmul R N (@fhalf R N) (@fpi R N) = PI / 2.
  Proof.
    unfold fhalf. change (@fmul R N) with Rmult. change (@fpi R N) with PI.
    change (@fdec R N 5 (-1)) with (5 * powerRZ 10 (-1)). change (powerRZ 10 (-1)) with (/ (10 * 1)). field.
  Qed.

  Lemma sc3 th : sin th * sin th + cos th * cos th = 1.
  Proof. pose proof (sin2_cos2 th) as H. unfold Rsqr in H. exact H. Qed.

  Section Piece.
    (** the piece starts at [(bx, by)] of the local frame ([by] = height above the model bottom), has length [L]
        and dip [th]; the check point has arclength [a] along the piece and offset [d] along the downward normal *)
    Variables sr bx by_ L th a d : R.
    Hypothesis HL : 0 < L.
    Let cp : R * R := (bx + a * cos th - d * sin th, by_ - (a * sin th + d * cos th)).

    Lemma straight_piece_value :
      @straight_piece R N sr (bx, by_) L th cp =
      ((bx + L * cos th, by_ - L * sin th),
       if Rle_dec 0 a then if Rle_dec a L then Some (d, a, sr - (by_ - a * sin th)) else None else None).
    Proof.
      unfold straight_piece. rewrite half_pi.
      change (@fsin R N) with sin. change (@fcos R N) with cos. change (@fmul R N) with Rmult.
      change (@fadd R N) with Rplus. change (@fsub R N) with Rminus. change (@fdiv R N) with Rdiv.
      change (@fopp R N) with Ropp. change (@flt R N) with Rltb. change (@f0 R N) with 0. change (@f1 R N) with 1.
      rewrite sin_shift, cos_shift.
      unfold p2sub, p2dot, p2add, p2scale, p2norm, p2nsq, cp. cbn [fst snd].
      change (@fmul R N) with Rmult. change (@fadd R N) with Rplus. change (@fsub R N) with Rminus.
      change (@fsqrt R N) with sqrt. change (@f0 R N) with 0.
      pose proof (sc3 th) as SC.
      assert (C1 : 0 + (bx + L * cos th - bx) * (bx + a * cos th - d * sin th - bx) +
                   (by_ - L * sin th - by_) * (by_ - (a * sin th + d * cos th) - by_) = L * a).
      { transitivity (L * a * (sin th * sin th + cos th * cos th)); [ring | rewrite SC; ring]. }
      assert (C2 : 0 + (bx + L * cos th - bx) * (bx + L * cos th - bx) + (by_ - L * sin th - by_) * (by_ - L * sin th - by_) = L * L).
      { transitivity (L * L * (sin th * sin th + cos th * cos th)); [ring | rewrite SC; ring]. }
      rewrite C1, C2.
      destruct (Rltb_spec (L * a) 0) as [H1|H1].
      - cbn [orb]. destruct (Rle_dec 0 a); [nra | reflexivity].
      - cbn [orb]. destruct (Rltb_spec (L * L) (L * a)) as [H2|H2].
        + destruct (Rle_dec 0 a); [|reflexivity]. destruct (Rle_dec a L); [nra | reflexivity].
        + destruct (Rle_dec 0 a) as [Ha|Ha]; [|nra]. destruct (Rle_dec a L) as [Hb|Hb]; [|nra].
          assert (Q : L * a / (L * L) = a / L) by (field; lra).
          rewrite Q.
          assert (Px : bx + (bx + L * cos th - bx) * (a / L) = bx + a * cos th) by (field; lra).
          assert (Py : by_ + (by_ - L * sin th - by_) * (a / L) = by_ - a * sin th) by (field; lra).
          rewrite Px, Py.
          assert (S : (bx - (bx + L * cos th)) * (by_ - (a * sin th + d * cos th) - by_) -
                      (by_ - (by_ - L * sin th)) * (bx + a * cos th - d * sin th - bx) = L * d).
          { transitivity (L * d * (sin th * sin th + cos th * cos th)); [ring | rewrite SC; ring]. }
          rewrite S.
          assert (N1 : (bx + a * cos th - d * sin th - (bx + a * cos th)) * (bx + a * cos th - d * sin th - (bx + a * cos th)) +
                       (by_ - (a * sin th + d * cos th) - (by_ - a * sin th)) * (by_ - (a * sin th + d * cos th) - (by_ - a * sin th)) = d * d).
          { transitivity (d * d * (sin th * sin th + cos th * cos th)); [ring | rewrite SC; ring]. }
          assert (N2 : (bx - (bx + a * cos th)) * (bx - (bx + a * cos th)) + (by_ - (by_ - a * sin th)) * (by_ - (by_ - a * sin th)) = a * a).
          { transitivity (a * a * (sin th * sin th + cos th * cos th)); [ring | rewrite SC; ring]. }
          rewrite N1, N2.
          assert (Sa : sqrt (a * a) = a) by (apply sqrt_square; exact Ha).
          rewrite Sa.
          assert (Sd : (if Rltb (L * d) 0 then - (1) else 1) * sqrt (d * d) = d).
          { destruct (Rltb_spec (L * d) 0) as [Hd|Hd].
            - assert (d < 0) by nra. replace (d * d) with ((- d) * (- d)) by ring. rewrite sqrt_square by lra. ring.
            - assert (0 <= d) by nra. rewrite sqrt_square by lra. ring. }
          rewrite Sd. reflexivity.
    Qed.

    (** the specification evaluated in depth coordinates: the piece starts at horizontal position [bx] and depth
        [sr - by], the point at depth [sr - (second local coordinate)] *)
    Theorem straight_piece_refines_spec :
      let p := {| pc_len := L; pc_top := th; pc_bot := th |} in
      let e := @straight_eval R N bx (sr - by_) p (fst cp) (sr - snd cp) in
      fst (@straight_piece R N sr (bx, by_) L th cp) = (pe_ex e, sr - pe_ey e) /\
      match snd (@straight_piece R N sr (bx, by_) L th cp) with
      | Some (dist, along, depth_of_foot) => pe_ok e = true /\ dist = pe_dist e /\ along = pe_along e
      | None => pe_ok e = false
      end.
    Proof.
      intros p e. rewrite straight_piece_value. cbn [fst snd].
      assert (U : fst cp = bx + a * cos th - d * sin th) by reflexivity.
      assert (V : sr - snd cp = (sr - by_) + a * sin th + d * cos th) by (unfold cp; cbn [snd]; ring).
      pose proof (straight_coordinates sp bx (sr - by_) L th a d) as [Hd [Ha Hok]].
      pose proof (straight_end sp bx (sr - by_) L th a d) as [Hex Hey].
      unfold e, p, N. rewrite U, V. rewrite Hex, Hey, Hd, Ha.
      split; [f_equal; ring|].
      destruct (Rle_dec 0 a) as [A0|A0].
      - destruct (Rle_dec a L) as [A1|A1].
        + split; [apply Hok; lra | split; reflexivity].
        + destruct (pe_ok _) eqn:E; [pose proof (proj1 Hok eq_refl); lra | reflexivity].
      - destruct (pe_ok _) eqn:E; [pose proof (proj1 Hok eq_refl); lra | reflexivity].
    Qed.
  End Piece.
End Refine.

Lemma pow10_neg_small (n : positive) : 0 < powerRZ 10 (Zneg n) < 1.
Proof.
  unfold powerRZ. assert (H : 1 < 10 ^ Pos.to_nat n) by (apply Rlt_pow_R1; [lra | apply Pos2Nat.is_pos]).
  split; [apply Rinv_0_lt_compat; lra|].
  rewrite <- Rinv_1. apply Rinv_lt_contravar; [lra | exact H].
Qed.

(** ** arcs: the model's arc computation (acos-based angle in the frame with the second axis up) equals the
    specification's (atan2-based angle, second axis = depth), for the generic centre construction
    (top dip at least 1e-8 away from the vertical, where the implementation switches to a special case). *)
Section RefineArc.
  Variable sp : special.
  Local Existing Instance Rnum.
  Let N := Rnum sp.

  Variables sr bx by_ L t1 t2 phi d : R.
  Hypothesis HL : 0 < L.
  Hypothesis Ht1 : 0 < t1 < PI.
  Hypothesis Ht2 : 0 < t2 < PI.
  Hypothesis Hne : t1 <> t2.
  Hypothesis Hgen : 1 * powerRZ 10 (-8) <= Rabs (t1 - PI / 2).
  Hypothesis Hphi : (t1 <= phi <= t2) \/ (t2 <= phi <= t1).

  Let sg : R := if Rlt_dec t1 t2 then 1 else -1.
  Let Rr : R := L / Rabs (t2 - t1).
  Let rho : R := Rr - sg * d.
  Hypothesis Hrho : powerRZ 2 (-52) <= rho.

  (** the check point: foot at the arc point of dip phi, offset d along the downward normal; frame with y up,
      centre of the circle at begin + sg * Rr * (- sin t1, - cos t1) *)
  Let cx : R := bx - sg * Rr * sin t1.
  Let cy : R := by_ - sg * Rr * cos t1.
  Let cp : R * R := (cx + sg * rho * sin phi, cy + sg * rho * cos phi).

  Lemma sg_sq' : sg * sg = 1.
  Proof. unfold sg. destruct (Rlt_dec t1 t2); ring. Qed.
  Lemma Rr_pos' : 0 < Rr.
  Proof. unfold Rr. apply Rdiv_lt_0_compat; [exact HL | apply Rabs_pos_lt; lra]. Qed.
  Lemma rho_pos : 0 < rho.
  Proof. assert (0 < powerRZ 2 (-52)) by (apply powerRZ_lt; lra). lra. Qed.
  Lemma cos_t1_ne : cos t1 <> 0.
  Proof.
    intros C. destruct Ht1 as [A B].
    assert (E : t1 = PI / 2).
    { destruct (Rtotal_order t1 (PI / 2)) as [Hl|[He|Hg]]; [|exact He|].
      - assert (0 < cos t1) by (apply cos_gt_0; lra). lra.
      - assert (cos t1 < 0) by (apply cos_lt_0; lra). lra. }
    rewrite E in Hgen. replace (PI / 2 - PI / 2) with 0 in Hgen by ring. rewrite Rabs_R0 in Hgen.
    assert (0 < powerRZ 10 (-8)) by (apply powerRZ_lt; lra). lra.
  Qed.

  Lemma half_pi' : @fmul R N (@fhalf R N) (@fpi R N) = PI / 2.
  Proof. apply (half_pi sp). Qed.

  Theorem arc_piece_value :
    @arc_piece R N sr (bx, by_) L t1 t2 (t1 - t2) cp =
    ((cx + sg * Rr * sin t2, cy + sg * Rr * cos t2),
     Some (d, Rr * Rabs (phi - t1), sr - (sin (phi + t1) * (bx - cx) + cos (phi + t1) * (by_ - cy) + cy))).
  Proof.
    pose proof sg_sq' as SS. pose proof Rr_pos' as RP. pose proof rho_pos as RhoP. pose proof cos_t1_ne as CN.
    unfold arc_piece. rewrite !half_pi'.
    change (@fabs R N) with Rabs. change (@fdiv R N) with Rdiv. change (@fcos R N) with cos. change (@fsin R N) with sin.
    change (@ftan R N) with tan. change (@facos R N) with acos.
    change (@fsub R N) with Rminus. change (@fadd R N) with Rplus. change (@fmul R N) with Rmult. change (@fopp R N) with Ropp.
    change (@flt R N) with Rltb. change (@fle R N) with Rleb. change (@f0 R N) with 0. change (@f1 R N) with 1.
    change (@fpi R N) with PI. change (@feps R N) with (powerRZ 2 (-52)).
    unfold e8, e14, twopi, f2. change (@fmul R N) with Rmult. change (@fofZ R N 2) with 2. change (@fpi R N) with PI.
    change (@fdec R N 1 (-8)) with (1 * powerRZ 10 (-8)). change (@fdec R N 1 (-14)) with (1 * powerRZ 10 (-14)).
    change (@fdec R N 1 (-12)) with (1 * powerRZ 10 (-12)). change (@fdec R N 15 (-1)) with (15 * powerRZ 10 (-1)).
    (* the radius *)
    assert (ER : Rabs (L / (t1 - t2)) = Rr).
    { unfold Rr, Rdiv. rewrite Rabs_mult, (Rabs_right L) by lra. rewrite Rabs_inv.
      replace (Rabs (t1 - t2)) with (Rabs (t2 - t1)) by (rewrite <- Rabs_Ropp; f_equal; ring). reflexivity. }
    rewrite ER.
    (* generic centre *)
    destruct (Rltb_spec (Rabs (t1 - PI / 2)) (1 * powerRZ 10 (-8))) as [Hc|_]; [lra|].
    assert (H15 : 15 * powerRZ 10 (-1) * PI = 3 * (PI / 2)) by (change (powerRZ 10 (-1)) with (/ (10 * 1)); field).
    rewrite H15.
    destruct (Rltb_spec (Rabs (t1 - 3 * (PI / 2))) (1 * powerRZ 10 (-8))) as [Hc|_].
    { exfalso. pose proof (pow10_neg_small 8) as P8.
      assert (P3 : 3 < PI) by (pose proof PI2_3_2 as Q; unfold PI2 in Q; lra).
      rewrite Rabs_left in Hc by lra. lra. }
    cbn [fst snd].
    (* sign bookkeeping: diff = t1 - t2 *)
    assert (CX : bx + tan t1 * ((if Rltb (t1 - t2) 0 then by_ - Rr * cos t1 else by_ + Rr * cos t1) - by_) = cx /\
                 (if Rltb (t1 - t2) 0 then by_ - Rr * cos t1 else by_ + Rr * cos t1) = cy).
    { unfold cx, cy, sg, tan. destruct (Rltb_spec (t1 - t2) 0); destruct (Rlt_dec t1 t2); try lra; split; try ring; field; exact CN. }
    destruct CX as [CX CY]. rewrite CX, CY.
    unfold p2sub, p2norm, p2nsq. cbn [fst snd].
    change (@fsub R N) with Rminus. change (@fadd R N) with Rplus. change (@fmul R N) with Rmult. change (@fsqrt R N) with sqrt.
    unfold cp. cbn [fst snd].
    assert (W0 : cx + sg * rho * sin phi - cx = sg * rho * sin phi) by ring.
    assert (W1 : cy + sg * rho * cos phi - cy = sg * rho * cos phi) by ring.
    rewrite W0, W1.
    assert (NN : sqrt (sg * rho * sin phi * (sg * rho * sin phi) + sg * rho * cos phi * (sg * rho * cos phi)) = rho).
    { replace (sg * rho * sin phi * (sg * rho * sin phi) + sg * rho * cos phi * (sg * rho * cos phi))
        with ((sg * sg) * (rho * rho) * (sin phi * sin phi + cos phi * cos phi)) by ring.
      rewrite SS, (sc3 phi). replace (1 * (rho * rho) * 1) with (rho * rho) by ring. apply sqrt_square. lra. }
    rewrite NN.
    assert (EX : cos (t1 - t2) * (bx - cx) - sin (t1 - t2) * (by_ - cy) + cx = cx + sg * Rr * sin t2).
    { replace (bx - cx) with (sg * Rr * sin t1) by (unfold cx; ring). replace (by_ - cy) with (sg * Rr * cos t1) by (unfold cy; ring).
      replace t2 with (t1 - (t1 - t2)) at 3 by ring. rewrite (sin_minus t1 (t1 - t2)). ring. }
    assert (EY : sin (t1 - t2) * (bx - cx) + cos (t1 - t2) * (by_ - cy) + cy = cy + sg * Rr * cos t2).
    { replace (bx - cx) with (sg * Rr * sin t1) by (unfold cx; ring). replace (by_ - cy) with (sg * Rr * cos t1) by (unfold cy; ring).
      replace t2 with (t1 - (t1 - t2)) at 3 by ring. rewrite (cos_minus t1 (t1 - t2)). ring. }
    rewrite EX, EY.
    destruct (Rltb_spec (Rabs rho) (powerRZ 2 (-52))) as [Hs|_]; [rewrite Rabs_right in Hs by lra; lra|].
    assert (ARG : (0 + sg * rho * sin phi * 0 + sg * rho * cos phi * Rr) / (rho * Rr) = sg * cos phi) by (field; lra).
    rewrite ARG.
    assert (Hp : 0 < phi < PI) by (destruct Hphi; lra).
    assert (SinP : 0 < sin phi) by (apply sin_gt_0; lra).
    (* the two orientations *)
    unfold sg in *. destruct (Rlt_dec t1 t2) as [Hlt|Hge].
    - (* dip increasing: sg = 1, diff < 0 *)
      assert (Hphi' : t1 <= phi <= t2) by (destruct Hphi; lra).
      destruct (Rleb_spec (cx + 1 * rho * sin phi) cx) as [Hx|Hx]; [nra|].
      replace (1 * cos phi) with (cos phi) by ring. rewrite acos_cos by lra.
      destruct (Rleb_spec 0 (t1 - t2)) as [Hz|_]; [lra|].
      replace (2 * PI - (2 * PI - phi)) with phi by ring.
      destruct (Rltb_spec (Rabs (phi - 2 * PI)) (1 * powerRZ 10 (-14))) as [Hq|_].
      { exfalso. pose proof (pow10_neg_small 14) as [_ P14].
        assert (P3 : 3 < PI) by (pose proof PI2_3_2 as Q; unfold PI2 in Q; lra).
        rewrite Rabs_left in Hq by lra. lra. }
      destruct (Rltb_spec 0 (t1 - t2)) as [Hz|_]; [lra|]. cbn [andb orb].
      destruct (Rltb_spec (t1 - t2) 0) as [_|Hz]; [|lra].
      destruct (Rleb_spec t1 phi) as [_|Hz]; [|lra]. destruct (Rleb_spec phi t2) as [_|Hz]; [|lra]. cbn [andb orb].
      assert (E1 : (Rr - rho) * 1 = d) by (unfold rho; ring).
      assert (E2 : (Rr * phi - Rr * t1) * 1 = Rr * Rabs (phi - t1)) by (rewrite Rabs_right by lra; ring).
      rewrite E1, E2. reflexivity.
    - (* dip decreasing: sg = -1, diff > 0 *)
      assert (Hgt : t2 < t1) by lra. assert (Hphi' : t2 <= phi <= t1) by (destruct Hphi; lra).
      destruct (Rleb_spec (cx + -1 * rho * sin phi) cx) as [_|Hx]; [|nra].
      replace (-1 * cos phi) with (cos (PI - phi)) by (rewrite cos_minus, cos_PI, sin_PI; ring).
      rewrite acos_cos by lra.
      destruct (Rleb_spec 0 (t1 - t2)) as [_|Hz]; [|lra].
      replace (PI - (PI - phi)) with phi by ring.
      destruct (Rltb_spec (Rabs (phi - 2 * PI)) (1 * powerRZ 10 (-14))) as [Hq|_].
      { exfalso. pose proof (pow10_neg_small 14) as [_ P14].
        assert (P3 : 3 < PI) by (pose proof PI2_3_2 as Q; unfold PI2 in Q; lra).
        rewrite Rabs_left in Hq by lra. lra. }
      destruct (Rltb_spec 0 (t1 - t2)) as [_|Hz]; [|lra].
      destruct (Rleb_spec phi t1) as [_|Hz]; [|lra]. destruct (Rleb_spec t2 phi) as [_|Hz]; [|lra]. cbn [andb orb].
      destruct (Rltb_spec (t1 - t2) 0) as [Hz|_]; [lra|].
      assert (E1 : (Rr - rho) * - (1) = d) by (unfold rho; ring).
      assert (E2 : (Rr * phi - Rr * t1) * - (1) = Rr * Rabs (phi - t1)) by (rewrite Rabs_left1 by lra; ring).
      rewrite E1, E2. reflexivity.
  Qed.

  Lemma sg_is_arc_sgn : @arc_sgn R N {| pc_len := L; pc_top := t1; pc_bot := t2 |} = sg.
  Proof.
    unfold arc_sgn, sg. cbn [pc_top pc_bot]. change (@flt R N) with Rltb. change (@f1 R N) with 1. change (@fopp R N) with Ropp.
    destruct (Rltb_spec t1 t2); destruct (Rlt_dec t1 t2); try lra; reflexivity.
  Qed.

  Let p : @piece R := {| pc_len := L; pc_top := t1; pc_bot := t2 |}.

  (** the specification's arc point of dip [th], in the local frame *)
  Lemma arc_point_frame th :
    @arc_px R N bx p th = cx + sg * Rr * sin th /\ sr - @arc_py R N (sr - by_) p th = cy + sg * Rr * cos th.
  Proof.
    pose proof sg_is_arc_sgn as SG. fold p in SG.
    unfold arc_px, arc_py, arc_cx, arc_cy, nrm_x, nrm_y. rewrite SG.
    change (@arc_radius R N p) with Rr. cbn [pc_top p].
    change (@fsub R N) with Rminus. change (@fadd R N) with Rplus. change (@fmul R N) with Rmult. change (@fopp R N) with Ropp.
    change (@fsin R N) with sin. change (@fcos R N) with cos. unfold cx, cy. split; ring.
  Qed.

  Theorem arc_piece_refines_spec : special_laws sp ->
    let e := @arc_eval R N bx (sr - by_) p (fst cp) (sr - snd cp) in
    fst (@arc_piece R N sr (bx, by_) L t1 t2 (t1 - t2) cp) = (pe_ex e, sr - pe_ey e) /\
    match snd (@arc_piece R N sr (bx, by_) L t1 t2 (t1 - t2) cp) with
    | Some (dist, along, _) => pe_ok e = true /\ dist = pe_dist e /\ along = pe_along e
    | None => False
    end.
  Proof.
    intros Law e. rewrite arc_piece_value. cbn [fst snd].
    pose proof sg_is_arc_sgn as SG. fold p in SG.
    destruct (arc_point_frame phi) as [Px Py]. destruct (arc_point_frame t2) as [Ex Ey].
    assert (U : fst cp = @arc_px R N bx p phi + d * - sin phi).
    { rewrite Px. unfold cp, rho. cbn [fst].
      transitivity (cx + sg * Rr * sin phi - (sg * sg) * d * sin phi); [ring | rewrite sg_sq'; ring]. }
    assert (V : sr - snd cp = @arc_py R N (sr - by_) p phi + d * cos phi).
    { assert (Py' : @arc_py R N (sr - by_) p phi = sr - (cy + sg * Rr * cos phi)) by lra. rewrite Py'. unfold cp, rho. cbn [snd].
      transitivity (sr - (cy + sg * Rr * cos phi) + (sg * sg) * d * cos phi); [ring | rewrite sg_sq'; ring]. }
    assert (Hd' : 0 < @arc_radius R N p - @arc_sgn R N p * d) by (rewrite SG; exact rho_pos).
    pose proof (arc_coordinates sp bx (sr - by_) L t1 t2 HL Ht1 Ht2 Hne phi d Hphi Hd' Law) as [Hdist [Hal Hok]].
    pose proof (arc_end sp bx (sr - by_) L t1 t2 Hne (fst cp) (sr - snd cp)) as [Hex [Hey _]].
    fold p in Hdist, Hal, Hok, Hex, Hey. fold N in Hdist, Hal, Hok, Hex, Hey.
    rewrite <- U, <- V in Hdist, Hal, Hok. fold e in Hdist, Hal, Hok, Hex, Hey.
    rewrite Hex, Hey, Hdist, Hal, Hok, Ex, Ey.
    split; [reflexivity|]. split; [reflexivity|]. split; reflexivity.
  Qed.
End RefineArc.
