(** * World: the query evaluator of world.cc over abstract features.

    A feature is a record of functions (extent test, "throws here", block painter).
    [properties3d] / [properties2d] mirror World::properties (3-D and 2-D), including the slot
    bookkeeping ([entry_in_output]), the forced-surface-temperature branch, the 2-D -> 3-D map
    and the velocity projection done with the 2-D wrapper's own counter. *)
From Coq Require Import List Arith NArith ZArith Lia Bool.
From WB Require Import Num Base Props.
Import ListNotations.

Section World.
  Context {F : Type} {NF : Num F}.
  Local Open Scope num_scope.

  Definition vec3 : Type := F * F * F.
  Definition vec2 : Type := F * F.

  Inductive coord_sys := Cartesian | Spherical.

  Record query := {
    q_pos : vec3;        (* Cartesian position handed in by the caller *)
    q_nat : vec3;        (* natural coordinates: (x,y,z) or (radius, longitude, latitude) *)
    q_depth : F;
    q_g : F              (* gravity norm *)
  }.

  (** An abstract feature.  [ft_paint q p t blk] receives the current block of request [p]
      (length [width p]) and the tape position, and returns the new block and tape position. *)
  (** the temperature of the whole world at the query point, for the models that call back
      world->properties(position, depth, {temperature}); delayed, so that only they pay for it *)
  Definition wtemp := unit -> res F.
  Definition no_wtemp : wtemp := fun _ => Err Throw.

  Record feature := {
    ft_covers : query -> bool;
    ft_cov_err : query -> bool;                          (* the extent test throws here *)
    ft_paint_err : query -> wtemp -> prop_req -> bool;   (* painting request p throws here *)
    ft_paint : query -> wtemp -> prop_req -> nat -> list F -> list F * nat;
    ft_tag : F
  }.

  Record world := {
    w_cs : coord_sys;
    w_Tp : F; w_Ts : F; w_alpha : F; w_cp : F;
    w_force : bool;
    w_gravity : F;
    w_cross : option (vec2 * vec2);     (* already in radians for spherical worlds *)
    w_features : list feature
  }.

  (** ** coordinate conversions (utilities.cc:254-282) *)
  Definition norm3 (p : vec3) : F :=
    let '(x, y, z) := p in fsqrt ((x * x) + (y * y) + (z * z)).

  Definition cartesian_to_spherical (p : vec3) : vec3 :=
    let '(x, y, z) := p in
    let r := norm3 p in
    (r, fatan2 y x,
     if fdmin <? r then (fhalf * fpi) - facos (z / r) else f0).

  Definition spherical_to_cartesian (s : vec3) : vec3 :=
    let '(r, lon, lat) := s in
    let cos_lat := r * fsin ((fhalf * fpi) - lat) in
    (cos_lat * fcos lon, cos_lat * fsin lon, r * fcos ((fhalf * fpi) - lat)).

  Definition cartesian_to_natural (cs : coord_sys) (p : vec3) : vec3 :=
    match cs with Cartesian => p | Spherical => cartesian_to_spherical p end.
  Definition natural_to_cartesian (cs : coord_sys) (p : vec3) : vec3 :=
    match cs with Cartesian => p | Spherical => spherical_to_cartesian p end.

  (** great-circle distance of two points at the same radius (coordinate_systems/spherical.cc:109-131) *)
  Definition dot3 (a b : vec3) : F :=
    let '(ax, ay, az) := a in let '(bx, by_, bz) := b in
    ((f0 + (ax * bx)) + (ay * by_)) + (az * bz).

  Definition great_circle_distance (s1 s2 : vec3) : F :=
    let '(r, _, _) := s1 in
    let c1 := spherical_to_cartesian s1 in
    let c2 := spherical_to_cartesian s2 in
    r * facos (fmin f1 (fmax (- f1) (dot3 c1 c2 / (r * r)))).

  (** ** slot allocation (world.cc:421-480) *)
  Definition adiabat (w : world) (g depth : F) : F :=
    w_Tp w * fexp (((w_alpha w * g) / w_cp w) * depth).

  Definition forced (w : world) (depth : F) : bool :=
    (fabs depth <? (f2 * feps)) && w_force w.

  Definition init_block (w : world) (g depth : F) (p : prop_req) : list F :=
    match p with
    | PTemp => [if forced w depth then w_Ts w else adiabat w g depth]
    | PComp _ => [f0]
    | PGrains _ k => repeat f0 (N.to_nat k * 10)
    | PTag => [- f1]
    | PVel => [f0; f0; f0]
    end.

  (** A request is handed to the features (registered in [entry_in_output] / [properties_local])
      unless it is a temperature whose surface value is forced. *)
  Definition registered (w : world) (depth : F) (p : prop_req) : bool :=
    match p with PTemp => negb (forced w depth) | _ => true end.

  (** Returns the initial output vector and the list of (request, entry_in_output). *)
  Fixpoint init_from (w : world) (g depth : F) (ps : list prop_req) (out : list F)
    : list F * list (prop_req * nat) :=
    match ps with
    | [] => (out, [])
    | p :: r =>
        let '(o, regs) := init_from w g depth r (out ++ init_block w g depth p) in
        (o, if registered w depth p then (p, length out) :: regs else regs)
    end.

  (** ** one feature (the common shape of every Feature::properties) *)
  Definition paint_slot (f : feature) (q : query) (wt : wtemp) (st : list F * nat) (pe : prop_req * nat)
    : list F * nat :=
    let '(out, t) := st in
    let '(p, off) := pe in
    let '(b, t') := ft_paint f q wt p t (slice off (width p) out) in
    (blit off b out, t').

  Definition feature_apply (q : query) (wt : wtemp) (regs : list (prop_req * nat))
             (st : list F * nat) (f : feature) : list F * nat :=
    if ft_covers f q then fold_left (paint_slot f q wt) regs st else st.

  Definition mk_query (w : world) (pos : vec3) (depth : F) : query :=
    {| q_pos := pos; q_nat := cartesian_to_natural (w_cs w) pos; q_depth := depth; q_g := w_gravity w |}.

  (** ** World::properties, 3-D (world.cc:402-487).  [t] is the position on the random tape. *)
  (** the answer to the requests [ps] at query [q], the features reading the world temperature [wt] *)
  Definition properties_at (w : world) (q : query) (wt : wtemp) (ps : list prop_req) (t : nat) : res (list F * nat) :=
    let '(out0, regs) := init_from w (q_g q) (q_depth q) ps [] in
    if existsb (fun f => ft_cov_err f q
                         || (ft_covers f q && existsb (fun pe => ft_paint_err f q wt (fst pe)) regs))
               (w_features w) then Err Throw
    else Ok (fold_left (feature_apply q wt regs) (w_features w) (out0, t)).

  (** World::properties(position, depth, {temperature}) as the features call it back: no temperature model reads the
      world temperature itself *)
  Definition world_temperature (w : world) (q : query) : res F :=
    rmap (fun r => nth 0 (fst r) f0) (properties_at w q no_wtemp [PTemp] 0).

  Definition properties3d (w : world) (pos : vec3) (depth : F) (ps : list prop_req) (t : nat)
    : res (list F * nat) :=
    let q := mk_query w pos depth in
    properties_at w q (fun _ => world_temperature w q) ps t.

  (** ** cross section (world.cc:203-222) *)
  Definition cross_dir (cs : vec2 * vec2) : vec2 :=
    let '((x0, y0), (x1, y1)) := cs in
    let dx := x0 - x1 in let dy := y0 - y1 in
    let s := (- f1) / fsqrt ((dx * dx) + (dy * dy)) in
    (dx * s, dy * s).

  (** 2-D point -> 3-D Cartesian point (world.cc:324-348) *)
  Definition map2d (w : world) (cs : vec2 * vec2) (p : vec2) : vec3 :=
    let '(px, pz) := p in
    let '(c0x, c0y) := fst cs in
    let '(dx, dy) := cross_dir cs in
    match w_cs w with
    | Cartesian => (c0x + (px * dx), c0y + (px * dy), pz)
    | Spherical =>
        let r := fsqrt ((px * px) + (pz * pz)) in
        let a := fatan2 pz px in
        spherical_to_cartesian (r, c0x + (a * dx), c0y + (a * dy))
    end.

  (** velocity projection with the wrapper's own counter (world.cc:350-398) *)
  Fixpoint project2d (d : vec2) (ps : list prop_req) (counter : nat) (res : list F) : list F :=
    match ps with
    | [] => res
    | p :: r =>
        match p with
        | PVel =>
            let vx := nth counter res f0 in
            let vy := nth (counter + 1) res f0 in
            let vz := nth (counter + 2) res f0 in
            let h := (fst d * vx) + (snd d * vy) in
            project2d d r (counter + 3) (blit counter [h; vz; f0] res)
        | _ => project2d d r (counter + width p) res
        end
    end.

  Definition properties2d (w : world) (p : vec2) (depth : F) (ps : list prop_req) (t : nat)
    : res (list F * nat) :=
    match w_cross w with
    | None => Err Throw
    | Some cs =>
        match properties3d w (map2d w cs p) depth ps t with
        | Err e => Err e
        | Ok (r, t') => Ok (project2d (cross_dir cs) ps 0 r, t')
        end
    end.

  (** single-property entry points (world.cc:489-553) *)
  Definition temperature3d w pos depth t := rmap (fun r => (nth 0 (fst r) f0, snd r)) (properties3d w pos depth [PTemp] t).
  Definition composition3d w pos depth c t := rmap (fun r => (nth 0 (fst r) f0, snd r)) (properties3d w pos depth [PComp c] t).
  Definition grains3d w pos depth c k t := properties3d w pos depth [PGrains c k] t.
  Definition temperature2d w p depth t := rmap (fun r => (nth 0 (fst r) f0, snd r)) (properties2d w p depth [PTemp] t).
  Definition composition2d w p depth c t := rmap (fun r => (nth 0 (fst r) f0, snd r)) (properties2d w p depth [PComp c] t).
  Definition grains2d w p depth c k t := properties2d w p depth [PGrains c k] t.
End World.
