(** * KdSpec: the pruned kd-tree search over R with the invariant that std::nth_element establishes,
    and the theorem that it returns a true nearest node (design-phase proof); linked to Kernels.v in KdProofs.v. *)
From Coq Require Import Reals Lra Lia List Arith Bool PeanoNat.
Import ListNotations.
Open Scope R_scope.

Definition pt := (R*R)%type.
Definition ltb (x y:R) : bool := if Rlt_dec x y then true else false.
Lemma ltb_spec x y : reflect (x < y) (ltb x y). Proof. unfold ltb; destruct (Rlt_dec x y); constructor; auto. Qed.

Definition key (yaxis : bool) (p : pt) : R := if yaxis then snd p else fst p.
Definition dist (a b : pt) : R := sqrt ((fst a - fst b)*(fst a - fst b) + (snd a - snd b)*(snd a - snd b)).
Definition node (nodes : list pt) (i : nat) : pt := nth i nodes (0,0).

(* kd_tree.cc:65-126, IndexDistance = (index, distance) *)
Fixpoint search (fuel : nat) (nodes : list pt) (cp : pt) (l r : nat) (yaxis : bool) (best : nat * R) : nat * R :=
  match fuel with
  | O => best
  | S f =>
    let mid := ((l + r) / 2)%nat in
    let nd := node nodes mid in
    let d := dist nd cp in
    if ltb (key yaxis cp) (key yaxis nd) then
      let b1 := if (l <? mid)%nat then search f nodes cp l (mid-1) (negb yaxis) best else best in
      let b2 := if ltb d (snd b1) then (mid, d) else b1 in
      if (mid <? r)%nat then
        (if ltb (key yaxis nd - key yaxis cp) (snd b2) then search f nodes cp (mid+1) r (negb yaxis) b2 else b2)
      else b2
    else
      let b1 := if (mid <? r)%nat then search f nodes cp (mid+1) r (negb yaxis) best else best in
      let b2 := if ltb d (snd b1) then (mid, d) else b1 in
      if (l <? mid)%nat then
        (if ltb (key yaxis nd - key yaxis cp) (snd b2) then search f nodes cp l (mid-1) (negb yaxis) b2 else b2)
      else b2
  end.

(* what nth_element guarantees, recursively *)
Fixpoint kd_inv (fuel : nat) (nodes : list pt) (l r : nat) (yaxis : bool) : Prop :=
  match fuel with
  | O => True
  | S f =>
    let mid := ((l + r) / 2)%nat in
    (forall i, (l <= i < mid)%nat -> key yaxis (node nodes i) <= key yaxis (node nodes mid)) /\
    (forall i, (mid < i <= r)%nat -> key yaxis (node nodes mid) <= key yaxis (node nodes i)) /\
    ((l < mid)%nat -> kd_inv f nodes l (mid-1) (negb yaxis)) /\
    ((mid < r)%nat -> kd_inv f nodes (mid+1) r (negb yaxis))
  end.

Lemma dist_ge_key yaxis a b : Rabs (key yaxis a - key yaxis b) <= dist a b.
Proof.
  unfold dist, key. set (dx := fst a - fst b). set (dy := snd a - snd b).
  assert (Hx : 0 <= dx*dx) by apply Rle_0_sqr. assert (Hy : 0 <= dy*dy) by apply Rle_0_sqr.
  destruct yaxis.
  - fold dy. rewrite <- sqrt_Rsqr_abs. apply sqrt_le_1_alt. unfold Rsqr. lra.
  - fold dx. rewrite <- sqrt_Rsqr_abs. apply sqrt_le_1_alt. unfold Rsqr. lra.
Qed.
Lemma dist_nonneg a b : 0 <= dist a b. Proof. apply sqrt_pos. Qed.

(* result: never worse than best, a lower bound for every node in [l,r], and either best or attained in [l,r] *)
Definition post nodes cp (l r : nat) (best res : nat * R) : Prop :=
  snd res <= snd best /\
  (forall i, (l <= i <= r)%nat -> snd res <= dist (node nodes i) cp) /\
  (res = best \/ ((l <= fst res <= r)%nat /\ snd res = dist (node nodes (fst res)) cp)).

Lemma upd_post (mid : nat) (d : R) (b1 : nat * R) :
  let b2 := if ltb d (snd b1) then (mid, d) else b1 in
  snd b2 <= snd b1 /\ snd b2 <= d /\ (b2 = b1 \/ b2 = (mid,d)).
Proof. cbn. destruct (ltb_spec d (snd b1)); cbn; repeat split; try lra; auto. Qed.

Lemma search_post : forall fuel nodes cp l r yaxis best,
  (l <= r)%nat -> (r - l < fuel)%nat -> kd_inv fuel nodes l r yaxis ->
  post nodes cp l r best (search fuel nodes cp l r yaxis best).
Proof.
  induction fuel as [|f IH]; intros nodes cp l r yaxis best Hlr Hfuel Hinv; [lia|].
  cbn [search]. cbn [kd_inv] in Hinv. destruct Hinv as (HL & HR & HinvL & HinvR).
  set (mid := ((l + r) / 2)%nat) in *.
  assert (Hmid : (l <= mid <= r)%nat).
  { unfold mid. split; [apply Nat.div_le_lower_bound; lia | apply Nat.div_le_upper_bound; lia]. }
  set (nd := node nodes mid) in *. set (d := dist nd cp).
  destruct (ltb_spec (key yaxis cp) (key yaxis nd)) as [Hlt|Hge].
  - (* left first *)
    set (b1 := if (l <? mid)%nat then search f nodes cp l (mid-1) (negb yaxis) best else best).
    assert (P1 : snd b1 <= snd best /\ (forall i, (l <= i < mid)%nat -> snd b1 <= dist (node nodes i) cp) /\
                 (b1 = best \/ ((l <= fst b1 < mid)%nat /\ snd b1 = dist (node nodes (fst b1)) cp))).
    { unfold b1. destruct (Nat.ltb_spec l mid) as [Hl|Hl].
      - destruct (IH nodes cp l (mid-1)%nat (negb yaxis) best ltac:(lia) ltac:(lia) (HinvL Hl)) as (A & B & C).
        split; [exact A|]. split; [intros i Hi; apply B; lia|]. destruct C as [C|[C1 C2]]; [left; exact C|right; split; [lia|exact C2]].
      - split; [lra|]. split; [intros i Hi; lia|left; reflexivity]. }
    destruct P1 as (A1 & B1 & C1).
    pose proof (upd_post mid d b1) as U. cbn zeta in U.
    set (b2 := if ltb d (snd b1) then (mid, d) else b1) in *. destruct U as (U1 & U2 & U3).
    assert (P2 : snd b2 <= snd best /\ (forall i, (l <= i <= mid)%nat -> snd b2 <= dist (node nodes i) cp) /\
                 (b2 = best \/ ((l <= fst b2 <= mid)%nat /\ snd b2 = dist (node nodes (fst b2)) cp))).
    { split; [lra|]. split.
      - intros i Hi. destruct (Nat.eq_dec i mid) as [->|Hne]; [exact U2|]. specialize (B1 i ltac:(lia)). lra.
      - destruct U3 as [->| ->]; [destruct C1 as [C|[C C']]; [left; exact C|right; split; [lia|exact C']]|].
        right. cbn [fst snd]. split; [lia|reflexivity]. }
    destruct P2 as (A2 & B2 & C2).
    destruct (Nat.ltb_spec mid r) as [Hr|Hr].
    + destruct (ltb_spec (key yaxis nd - key yaxis cp) (snd b2)) as [Hgo|Hprune].
      * destruct (IH nodes cp (mid+1)%nat r (negb yaxis) b2 ltac:(lia) ltac:(lia) (HinvR Hr)) as (A & B & C).
        split; [lra|]. split.
        -- intros i Hi. destruct (Nat.le_gt_cases i mid); [specialize (B2 i ltac:(lia)); lra|apply B; lia].
        -- destruct C as [->|[C C']]; [destruct C2 as [C2|[C2 C2']]; [left; exact C2|right; split; [lia|exact C2']]|right; split; [lia|exact C']].
      * (* pruned: every node on the right is at least key distance away *)
        split; [exact A2|]. split.
        -- intros i Hi. destruct (Nat.le_gt_cases i mid); [apply B2; lia|].
           pose proof (HR i ltac:(lia)) as Hk. pose proof (dist_ge_key yaxis (node nodes i) cp) as Hd.
           fold nd in Hk. assert (0 <= key yaxis (node nodes i) - key yaxis cp) by lra.
           rewrite Rabs_right in Hd by lra. lra.
        -- destruct C2 as [C2|[C2 C2']]; [left; exact C2|right; split; [lia|exact C2']].
    + split; [exact A2|]. split; [intros i Hi; apply B2; lia|].
      destruct C2 as [C2|[C2 C2']]; [left; exact C2|right; split; [lia|exact C2']].
  - (* right first *)
    apply Rnot_lt_le in Hge.
    set (b1 := if (mid <? r)%nat then search f nodes cp (mid+1) r (negb yaxis) best else best).
    assert (P1 : snd b1 <= snd best /\ (forall i, (mid < i <= r)%nat -> snd b1 <= dist (node nodes i) cp) /\
                 (b1 = best \/ ((mid < fst b1 <= r)%nat /\ snd b1 = dist (node nodes (fst b1)) cp))).
    { unfold b1. destruct (Nat.ltb_spec mid r) as [Hr|Hr].
      - destruct (IH nodes cp (mid+1)%nat r (negb yaxis) best ltac:(lia) ltac:(lia) (HinvR Hr)) as (A & B & C).
        split; [exact A|]. split; [intros i Hi; apply B; lia|]. destruct C as [C|[C1 C2]]; [left; exact C|right; split; [lia|exact C2]].
      - split; [lra|]. split; [intros i Hi; lia|left; reflexivity]. }
    destruct P1 as (A1 & B1 & C1).
    pose proof (upd_post mid d b1) as U. cbn zeta in U.
    set (b2 := if ltb d (snd b1) then (mid, d) else b1) in *. destruct U as (U1 & U2 & U3).
    assert (P2 : snd b2 <= snd best /\ (forall i, (mid <= i <= r)%nat -> snd b2 <= dist (node nodes i) cp) /\
                 (b2 = best \/ ((mid <= fst b2 <= r)%nat /\ snd b2 = dist (node nodes (fst b2)) cp))).
    { split; [lra|]. split.
      - intros i Hi. destruct (Nat.eq_dec i mid) as [->|Hne]; [exact U2|]. specialize (B1 i ltac:(lia)). lra.
      - destruct U3 as [->| ->]; [destruct C1 as [C|[C C']]; [left; exact C|right; split; [lia|exact C']]|].
        right. cbn [fst snd]. split; [lia|reflexivity]. }
    destruct P2 as (A2 & B2 & C2).
    destruct (Nat.ltb_spec l mid) as [Hl|Hl].
    + destruct (ltb_spec (key yaxis nd - key yaxis cp) (snd b2)) as [Hgo|Hprune].
      * destruct (IH nodes cp l (mid-1)%nat (negb yaxis) b2 ltac:(lia) ltac:(lia) (HinvL Hl)) as (A & B & C).
        split; [lra|]. split.
        -- intros i Hi. destruct (Nat.le_gt_cases mid i); [specialize (B2 i ltac:(lia)); lra|apply B; lia].
        -- destruct C as [->|[C C']]; [destruct C2 as [C2|[C2 C2']]; [left; exact C2|right; split; [lia|exact C2']]|right; split; [lia|exact C']].
      * (* pruned: snd b2 <= key nd - key cp <= 0 <= any distance *)
        split; [exact A2|]. split.
        -- intros i Hi. destruct (Nat.le_gt_cases mid i); [apply B2; lia|].
           pose proof (dist_nonneg (node nodes i) cp). lra.
        -- destruct C2 as [C2|[C2 C2']]; [left; exact C2|right; split; [lia|exact C2']].
    + split; [exact A2|]. split; [intros i Hi; apply B2; lia|].
      destruct C2 as [C2|[C2 C2']]; [left; exact C2|right; split; [lia|exact C2']].
Qed.

(* find_closest_point: best starts at (0, +max) *)
Theorem kd_search_is_brute_force nodes cp (big : R) :
  nodes <> [] -> (forall i, (i < length nodes)%nat -> dist (node nodes i) cp < big) ->
  kd_inv (length nodes) nodes 0 (length nodes - 1) false ->
  let res := search (length nodes) nodes cp 0 (length nodes - 1) false (0%nat, big) in
  (fst res < length nodes)%nat /\ snd res = dist (node nodes (fst res)) cp /\
  forall i, (i < length nodes)%nat -> snd res <= dist (node nodes i) cp.
Proof.
  intros Hne Hbig Hinv res.
  assert (Hlen : (0 < length nodes)%nat) by (destruct nodes; [congruence|cbn; lia]).
  destruct (search_post (length nodes) nodes cp 0 (length nodes - 1) false (0%nat,big) ltac:(lia) ltac:(lia) Hinv) as (A & B & C).
  fold res in A, B, C.
  destruct C as [C|[C C']].
  - exfalso. specialize (B 0%nat ltac:(lia)). rewrite C in B. cbn in B. specialize (Hbig 0%nat Hlen). lra.
  - split; [lia|]. split; [exact C'|]. intros i Hi. apply B. lia.
Qed.
