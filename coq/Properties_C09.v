(** * C09 - the 2-D cross-section interface equals the 3-D interface along the section. *)
From Coq Require Import List Arith NArith Lia.
From WB Require Import Num Base Props World WorldProofs WorldProofs2.
Import ListNotations.

Section C09.
  Context {F : Type} {NF : Num F}.
  Notation world := (@world F).
  Local Open Scope num_scope.

  (** the point of the 3-D interface reached from the 2-D point, as the property describes it *)
  Definition section_point (w : world) (cs : vec2 * vec2) (p : vec2) : vec3 :=
    let dir := cross_dir cs in
    match w_cs w with
    | Cartesian => (fst (fst cs) + (fst p * fst dir), snd (fst cs) + (fst p * snd dir), snd p)
    | Spherical =>
        let ang := fatan2 (snd p) (fst p) in
        spherical_to_cartesian (fsqrt ((fst p * fst p) + (snd p * snd p)),
                                fst (fst cs) + (ang * fst dir), snd (fst cs) + (ang * snd dir))
    end.

  Theorem C09_map : forall (w : world) cs p, map2d w cs p = section_point w cs p.
  Proof. intros w [[c0x c0y] c1] [px pz]. unfold map2d, section_point. cbn [fst snd].
         destruct (cross_dir _) as [dx dy]. destruct (w_cs w); reflexivity. Qed.

  (** every block of a 2-D answer is the block of the 3-D answer at the section point; a velocity
      block is (in-section horizontal component, vertical component, 0) *)
  Theorem C09_eq : forall (w : world) cs p depth ps t r t' r3 t3 i q,
    world_ok w ->
    w_cross w = Some cs ->
    properties2d w p depth ps t = Ok (r, t') ->
    properties3d w (section_point w cs p) depth ps t = Ok (r3, t3) ->
    nth_error ps i = Some q ->
    t' = t3 /\
    slice (nth i (offsets ps) 0) (width q) r =
      proj_block (cross_dir cs) q (slice (nth i (offsets ps) 0) (width q) r3).
  Proof.
    intros w cs p depth ps t r t' r3 t3 i q WO Hc E2 E3 Hq.
    unfold properties2d in E2. rewrite Hc, C09_map, E3 in E2. inversion E2; subst. split; [reflexivity|].
    pose proof (properties3d_length w _ depth ps t r3 t' WO E3) as L3.
    assert (Hi : i < length ps) by (apply nth_error_Some; congruence).
    unfold offsets. rewrite (offsets_from_nth ps 0 i Hi). cbn [Nat.add].
    destruct (project2d_spec (cross_dir cs) ps 0 r3) as (_ & _ & P3); [cbn; lia|].
    exact (P3 i q Hq).
  Qed.

  (** without a cross section every 2-D entry point refuses *)
  Theorem C09_refuse : forall (w : world) p depth ps t c k,
    w_cross w = None ->
    properties2d w p depth ps t = Err Throw /\
    temperature2d w p depth t = Err Throw /\
    composition2d w p depth c t = Err Throw /\
    grains2d w p depth c k t = Err Throw.
  Proof.
    intros w p depth ps t c k H.
    unfold temperature2d, composition2d, grains2d, properties2d. rewrite H. repeat split.
  Qed.

  (** the cross-section direction is the normalised vector from the first to the second point *)
  Theorem C09_dir_components : forall (cs : vec2 * vec2),
    let d := (fst (fst cs) - fst (snd cs), snd (fst cs) - snd (snd cs)) in
    let s := (- f1) / fsqrt ((fst d * fst d) + (snd d * snd d)) in
    cross_dir cs = (fst d * s, snd d * s).
  Proof. intros [[x0 y0] [x1 y1]]. reflexivity. Qed.
End C09.

Print Assumptions C09_map.
Print Assumptions C09_eq.
Print Assumptions C09_refuse.
Print Assumptions C09_dir_components.
