(** * BezierSph: the spherical branch of BezierCurve::closest_point_on_curve_segment
    (bezier_curve.cc:369-565): Newton iteration with a line search on the haversine-like distance
    sin^2(dlat/2) + sin^2(dlon/2) cos(lat_cp) cos(dlat).  Coordinates are (longitude, latitude) in radians. *)
From Coq Require Import ZArith List Bool.
From WB Require Import Num Base Kernels Bezier.
Import ListNotations.

Section BezierSph.
  Context {F : Type} {NF : Num F}.
  Local Open Scope num_scope.
  Local Notation pt2 := (@pt2 F).

  (** a*est*est*est + b*est*est + c*est + d on points: the form used throughout this branch *)
  Definition sph_point (q : @cubic F) (est : F) : pt2 :=
    (poly_plain (ca0 q) (cb0 q) (cc0 q) (cd0 q) est, poly_plain (ca1 q) (cb1 q) (cc1 q) (cd1 q) est).

  Definition sph_sq (ccl : F) (cp : pt2) (ep : pt2) : F :=
    let sdl := fsin ((fst ep - fst cp) * fhalf) in
    let sdt := fsin ((snd ep - snd cp) * fhalf) in
    (sdt * sdt) + (((sdl * sdl) * ccl) * fcos (snd ep - snd cp)).

  (** the line search: state (line_search, previous value, step); [broke] stops the loop *)
  Fixpoint sph_line_search (k : nat) (i : nat) (q : @cubic F) (ccl : F) (cp : pt2) (est update sq : F)
           (ls prev step : F) : F :=
    match k with
    | O => ls
    | S k' =>
        let et := est - (update * ls) in
        let test := sph_sq ccl cp (sph_point q et) in
        if Nat.ltb 0 i && (prev <? test) then
          if (prev - sq) <? f0 then ls * (f1 / step)
          else if Nat.ltb 1 i then
            let ls' := ls * ((f1 / step) * (f1 / step)) in
            let et' := est - (update * ls') in
            let prev' := sph_sq ccl cp (sph_point q et') in
            let step' := fmin (step * (fofZ 11 / fofZ 10)) (fdec 95 (-2)) in
            sph_line_search k' (S i) q ccl cp est update sq ls' prev' step'
          else sph_line_search k' (S i) q ccl cp est update sq (ls * step) test step
        else sph_line_search k' (S i) q ccl cp est update sq (ls * step) test step
    end.

  (** Newton iterations; (estimate, found) *)
  Fixpoint sph_newton (fuel : nat) (q : @cubic F) (ccl : F) (cp : pt2) (est : F) : F * bool :=
    match fuel with
    | O => (est, false)
    | S fuel' =>
        let ep := sph_point q est in
        let dl := fst ep - fst cp in
        let dt := snd ep - snd cp in
        let sdl := fsin (dl * fhalf) in
        let sdt := fsin (dt * fhalf) in
        let cdl := fcos dt in
        let sq := (sdt * sdt) + (((sdl * sdl) * ccl) * cdl) in
        let sin_dlat := fsin dt in
        let cdlh := fcos (fhalf * dl) in
        let cdth := fcos (fhalf * dt) in
        let six := fofZ 6 in
        let dlong := ((((f3 * ca0 q) * est) * est) + ((f2 * cb0 q) * est)) + cc0 q in
        let dlat := ((((f3 * ca1 q) * est) * est) + ((f2 * cb1 q) * est)) + cc1 q in
        let der := (((((ccl * (- dlat)) * sdl) * sdl) * sin_dlat) + ((((ccl * dlong) * sdl) * cdlh) * cdl)) + ((dlat * sdt) * cdth) in
        if fdec 1 (-15) <? fabs der then
          let k0 := ((six * ca0 q) * est) + (f2 * cb0 q) in
          let k1 := ((six * ca1 q) * est) + (f2 * cb1 q) in
          let T1 := (ccl * cdl) * ((((((- fhalf) * dlong) * dlong) * sdl) * sdl + ((((fhalf * dlong) * dlong) * cdlh) * cdlh)) + ((k0 * sdl) * cdlh)) in
          let T2 := ((ccl * sdl) * sdl) * (((dlat * dlat) * (- cdl)) - (k1 * sin_dlat)) in
          let T3 := (((((f2 * ccl) * dlong) * dlat) * sdl) * cdlh) * sin_dlat in
          let T4 := (((fhalf * dlat) * dlat) * sdt) * sdt in
          let T5 := (((fhalf * dlat) * dlat) * cdth) * cdth in
          let T6 := (k1 * sdt) * cdth in
          let second := ((((T1 + T2) - T3) - T4) + T5) + T6 in
          let update := fmin fhalf (fmax (- fhalf) (der / fabs second)) in
          let ls := sph_line_search 10 0 q ccl cp est update sq f1 sq (f2 / f3) in
          let est' := est - (update * ls) in
          if (fabs update <? fdec 1 (-4)) || (est' <? fdec (-1) (-1)) || (fdec 11 (-1) <? est')
          then (est', true)
          else sph_newton fuel' q ccl cp est'
        else (est, true)
    end.

  (** one curve segment; [st] = (min distance value so far, result so far) *)
  Definition sph_closest_segment (b : @bezier F) (cp : pt2) (st : F * @closest F) (i : nat) : F * @closest F :=
    let '(minsq, res) := st in
    let ccl := fcos (snd cp) in
    let P1 := pnth (bz_points b) i in
    let P2 := pnth (bz_points b) (i + 1) in
    let P1P2 := psub P2 P1 in
    let P1Pc := psub cp P1 in
    let dd := pdot P1P2 P1P2 in
    let est0 := if f0 <? dd then fmin f1 (fmax f0 (pdot P1Pc P1P2 / dd)) else f1 in
    let q := cubic_of b i in
    let '(est, found) := sph_newton 150 q ccl cp est0 in
    if negb found then (minsq, {| cl_distance := cl_distance res; cl_fraction := cl_fraction res; cl_index := cl_index res;
                                 cl_point := cl_point res; cl_normal := cl_normal res; cl_found := false |})
    else
      let ep := sph_point q est in
      let msq := sph_sq ccl cp ep in
      let fi := fofZ (Z.of_nat i) in
      if (msq <? minsq) && (fdec (-1) (-8) <=? est) && (f0 <? (fi + est))
         && ((est - f1) <=? fdec 1 (-8)) && ((est - f1) <? fi) then
        let poc := ep in
        let '(C0, C1) := nth i (bz_ctrl b) (p0, p0) in
        let six := fofZ 6 in
        let nine := fofZ 9 in
        let dp := padd (padd (padd (pscaler P1 (((six - (f3 * est)) * est) - f3))
                                   (pscaler C0 ((est * ((nine * est) - fofZ 12)) + f3)))
                             (pscaler (pscaler C1 (six - (nine * est))) est))
                       (pscaler (pscaler (pscaler P2 f3) est) est) in
        let tangent := psub dp poc in
        let dotp := pdot tangent (psub cp poc) in
        let sign := if dotp <? f0 then - f1 else f1 in
        let der := ((((ca0 q * est) * est) + (cb0 q * est)) + cc0 q, (((ca1 q * est) * est) + (cb1 q * est)) + cc1 q) in
        let ns := pnorm der in
        let normal := if f0 <? ns then (snd der / ns, (- fst der) / ns) else der in
        (msq, {| cl_distance := sign * fsqrt msq; cl_fraction := est; cl_index := i; cl_point := poc;
                 cl_normal := normal; cl_found := cl_found res |})
      else (minsq, res).

  Definition closest_point_spherical (b : @bezier F) (cp : pt2) : @closest F :=
    snd (fold_left (sph_closest_segment b cp) (seq 0 (length (bz_ctrl b))) (f1 / f0, closest_default)).
End BezierSph.
