(** * SurfaceLookup: the triangle search of [Surface::local_value] (nearest centroid, its longitude alias, the other
      candidates of the kd search, finally every node) for every number interpretation:
      whatever route finds the answer, it is the value [in_triangle] computes for ONE triangle of the surface at the
      point or at its alias (containment and interpolation belong to the same triangle), and the search fails only
      if no triangle of the kd array accepts the point. *)
From Coq Require Import List Bool.
From WB Require Import Num Base Kernels.
Import ListNotations.

Section SL.
  Context {F : Type} {N : Num F}.

  Lemma first_some_sound {A B} (f : A -> option B) l b :
    first_some f l = Some b -> exists a, In a l /\ f a = Some b.
  Proof.
    induction l as [|a r IH]; cbn [first_some]; [discriminate|].
    destruct (f a) as [b'|] eqn:E; intros H.
    - injection H as <-. exists a. split; [left; reflexivity|exact E].
    - destruct (IH H) as [a' [I Ha]]. exists a'. split; [right; exact I|exact Ha].
  Qed.

  Lemma first_some_complete {A B} (f : A -> option B) l a :
    In a l -> f a <> None -> first_some f l <> None.
  Proof.
    induction l as [|x r IH]; cbn [first_some]; [intros []|].
    intros I H. destruct (f x) as [b|] eqn:E; [discriminate|].
    destruct I as [->|I]; [exfalso; apply H; exact E|]. apply IH; assumption.
  Qed.

  (** the answer is "the" value of one triangle at the point or at its alias *)
  Definition from_one_triangle (s : @dsurf F) (sph : bool) (p : pt2) (v : F) : Prop :=
    exists k p0, (p0 = p \/ (sph = true /\ p0 = alias_point p)) /\
                 in_triangle (nth k (ds_tris s) tri_default) p0 = Some v.

  Lemma try_node_one s sph p pos v : try_node s p pos = Some v -> from_one_triangle s sph p v.
  Proof. intros H. exists (kd_index (nth pos (ds_nodes s) kd_default)), p. split; [left; reflexivity|exact H]. Qed.

  Lemma try_node_alias s p pos v : try_node s (alias_point p) pos = Some v -> from_one_triangle s true p v.
  Proof. intros H. exists (kd_index (nth pos (ds_nodes s) kd_default)), (alias_point p). split; [right; split; reflexivity|exact H]. Qed.

  Theorem surface_lookup_sound (s : @dsurf F) sph p v :
    ds_const s = false -> surface_local_value s sph p = Some v -> from_one_triangle s sph p v.
  Proof.
    intros Hc. unfold surface_local_value. rewrite Hc. unfold orelse.
    destruct (try_node s p _) as [v1|] eqn:E1; [intros H; injection H as <-; eapply try_node_one; exact E1|].
    destruct sph.
    - destruct (try_node s (alias_point p) _) as [v2|] eqn:E2; [intros H; injection H as <-; eapply try_node_alias; exact E2|].
      destruct (first_some (fun v0 => try_node s p (fst v0)) _) as [v3|] eqn:E3.
      { intros H; injection H as <-. destruct (first_some_sound _ _ _ E3) as [a [_ Ha]]. eapply try_node_one; exact Ha. }
      destruct (first_some (fun v0 => try_node s (alias_point p) (fst v0)) _) as [v4|] eqn:E4.
      { intros H; injection H as <-. destruct (first_some_sound _ _ _ E4) as [a [_ Ha]]. eapply try_node_alias; exact Ha. }
      intros H. destruct (first_some_sound _ _ _ H) as [nd [_ Hn]]. cbv beta in Hn.
      destruct (in_triangle _ p) as [v5|] eqn:E5.
      + injection Hn as <-. exists (kd_index nd), p. split; [left; reflexivity|exact E5].
      + exists (kd_index nd), (alias_point p). split; [right; split; reflexivity|exact Hn].
    - destruct (first_some (fun v0 => try_node s p (fst v0)) _) as [v3|] eqn:E3.
      { intros H; injection H as <-. destruct (first_some_sound _ _ _ E3) as [a [_ Ha]]. eapply try_node_one; exact Ha. }
      intros H. destruct (first_some_sound _ _ _ H) as [nd [_ Hn]]. cbv beta in Hn.
      destruct (in_triangle _ p) as [v5|] eqn:E5; [|discriminate].
      injection Hn as <-. exists (kd_index nd), p. split; [left; reflexivity|exact E5].
  Qed.

  (** the search gives up ("not in any triangle", an exception) only when no node's triangle accepts the point
      (nor, in spherical worlds, its alias): the kd shortcuts never lose a triangle *)
  Theorem surface_lookup_complete (s : @dsurf F) sph p nd :
    ds_const s = false -> In nd (ds_nodes s) ->
    (in_triangle (nth (kd_index nd) (ds_tris s) tri_default) p <> None \/
     (sph = true /\ in_triangle (nth (kd_index nd) (ds_tris s) tri_default) (alias_point p) <> None)) ->
    surface_local_value s sph p <> None.
  Proof.
    intros Hc I H. unfold surface_local_value. rewrite Hc. unfold orelse.
    destruct (try_node s p _); [discriminate|].
    destruct (if sph then try_node s (alias_point p) _ else None); [discriminate|].
    destruct (first_some (fun v0 => try_node s p (fst v0)) _); [discriminate|].
    destruct (if sph then first_some (fun v0 => try_node s (alias_point p) (fst v0)) _ else None); [discriminate|].
    apply (first_some_complete _ _ nd I). cbv beta.
    destruct H as [H|[-> H]].
    - destruct (in_triangle _ p); [discriminate|exfalso; apply H; reflexivity].
    - destruct (in_triangle _ p); [discriminate|]. exact H.
  Qed.

  (** constant surfaces: the single value *)
  Theorem surface_lookup_constant (s : @dsurf F) sph p : ds_const s = true -> surface_local_value s sph p = Some (ds_min s).
  Proof. intros Hc. unfold surface_local_value. rewrite Hc. reflexivity. Qed.
End SL.
