(** * Grid: gwb-grid's Cartesian mesh (node numbering, connectivity) and the tag filter
    (source/gwb-grid/main.cc:632-800, 70-146). *)
From Coq Require Import List Arith Lia PeanoNat Bool ZArith.
Import ListNotations.
Local Open Scope nat_scope.

(** ** 3-D Cartesian grid, compressed node numbering: i (x) outermost, k (z) innermost *)
Definition np3 (nx ny nz : nat) : nat := (nx + 1) * (nz + 1) * (ny + 1).
Definition ncell3 (nx ny nz : nat) : nat := nx * nz * ny.
Definition node3 (ny nz i j k : nat) : nat := (ny + 1) * (nz + 1) * i + (nz + 1) * j + k.

(** the lattice coordinates of every node, in storage order *)
Definition nodes3 (nx ny nz : nat) : list (nat * nat * nat) :=
  flat_map (fun i => flat_map (fun j => map (fun k => (i, j, k)) (seq 0 (nz + 1))) (seq 0 (ny + 1))) (seq 0 (nx + 1)).

(** connectivity of cell (i,j,k), i,j,k >= 1, exactly as written in the code (natural subtraction) *)
Definition conn3 (ny nz i j k : nat) : list nat :=
  let a := (ny + 1) * (nz + 1) in let b := nz + 1 in
  [ a * (i - 1) + b * (j - 1) + k - 1;  a * i + b * (j - 1) + k - 1;  a * i + b * j + k - 1;  a * (i - 1) + b * j + k - 1;
    a * (i - 1) + b * (j - 1) + k;      a * i + b * (j - 1) + k;      a * i + b * j + k;      a * (i - 1) + b * j + k ].

Definition cells3 (nx ny nz : nat) : list (list nat) :=
  flat_map (fun i => flat_map (fun j => map (fun k => conn3 ny nz i j k) (seq 1 nz)) (seq 1 ny)) (seq 1 nx).

(** ** 2-D Cartesian grid: j (z) outer, i (x) inner *)
Definition np2 (nx nz : nat) : nat := (nx + 1) * (nz + 1).
Definition node2 (nx i j : nat) : nat := j * (nx + 1) + i.
Definition nodes2 (nx nz : nat) : list (nat * nat) :=
  flat_map (fun j => map (fun i => (i, j)) (seq 0 (nx + 1))) (seq 0 (nz + 1)).
Definition conn2 (nx i j : nat) : list nat :=
  [ i + (j - 1) * (nx + 1) - 1;  i + 1 + (j - 1) * (nx + 1) - 1;  i + 1 + j * (nx + 1) - 1;  i + j * (nx + 1) - 1 ].
Definition cells2 (nx nz : nat) : list (list nat) :=
  flat_map (fun j => map (fun i => conn2 nx i j) (seq 1 nx)) (seq 1 nz).

(** ** 2-D chunk grid (main.cc:937-947, 1061-1068): i (longitude) outer, j (radius) inner, both 1-based in the code *)
Definition cnode2 (nz i j : nat) : nat := (nz + 1) * i + j.          (* lattice node (i,j), 0-based *)
Definition conn_chunk2 (nz i j : nat) : list nat :=
  [ (nz + 1) * (i - 1) + j - 1;  (nz + 1) * (i - 1) + j;  (nz + 1) * i + j;  (nz + 1) * i + j - 1 ].
Definition cells_chunk2 (nx nz : nat) : list (list nat) :=
  flat_map (fun i => map (fun j => conn_chunk2 nz i j) (seq 1 nz)) (seq 1 nx).
Definition nodes_chunk2 (nx nz : nat) : list (nat * nat) :=
  flat_map (fun i => map (fun j => (i, j)) (seq 0 (nz + 1))) (seq 0 (nx + 1)).

(** ** annulus (main.cc:817-897): [nt] cells around, the ring closes on itself: the last cell of a ring references the
    first node of the ring again (the "- n_cell_t" branch).  Node (i,j), i = 1..nt around, j = 0..nz outwards, is stored at
    j*nt + (i-1); cell (i,j), j = 1..nz, is cell number (j-1)*nt + (i-1), which is the value of the running counter. *)
Definition anode (nt i j : nat) : nat := j * nt + (i - 1).
Definition awrap (nt i : nat) : nat := if i =? nt then 1 else i + 1.
Definition conn_annulus (nt i j : nat) : list nat :=
  let counter := (j - 1) * nt + (i - 1) in
  let c0 := counter + 1 in
  let c1 := counter + 1 + 1 in
  let c2 := i + j * nt + 1 in
  let c3 := i + j * nt in
  let c1' := if i =? nt then c1 - nt else c1 in
  let c2' := if i =? nt then c2 - nt else c2 in
  [ c1' - 1; c0 - 1; c3 - 1; c2' - 1 ].
Definition cells_annulus (nt nz : nat) : list (list nat) :=
  flat_map (fun j => map (fun i => conn_annulus nt i j) (seq 1 nt)) (seq 1 nz).
Definition nodes_annulus (nt nz : nat) : list (nat * nat) :=
  flat_map (fun j => map (fun i => (i, j)) (seq 1 nt)) (seq 0 (nz + 1)).

(** ** the tag filter (filter_vtu_mesh) *)
(** state: vertex map (source vertex -> destination vertex), number of destination vertices,
    list of copied source vertices in destination order, output connectivity, output offsets *)
Record fstate := { fs_map : list (option nat); fs_src : list nat; fs_conn : list nat; fs_offsets : list nat; fs_cells : nat }.

Definition highest_tag (tags : list Z) (cell : list nat) : Z :=
  fold_left (fun m v => Z.max m (nth v tags (-1)%Z)) cell (-1)%Z.

Definition keep_cell (include : list bool) (tags : list Z) (cell : list nat) : bool :=
  let h := highest_tag tags cell in
  if (h <? 0)%Z then false else nth (Z.to_nat h) include false.

Fixpoint set_nth {A} (l : list A) (i : nat) (v : A) : list A :=
  match l, i with
  | [], _ => []
  | _ :: r, O => v :: r
  | x :: r, S j => x :: set_nth r j v
  end.

Definition visit_vertex (st : fstate) (v : nat) : fstate :=
  match nth v (fs_map st) None with
  | Some d => {| fs_map := fs_map st; fs_src := fs_src st; fs_conn := fs_conn st ++ [d]; fs_offsets := fs_offsets st; fs_cells := fs_cells st |}
  | None =>
      let d := length (fs_src st) in
      {| fs_map := set_nth (fs_map st) v (Some d); fs_src := fs_src st ++ [v]; fs_conn := fs_conn st ++ [d];
         fs_offsets := fs_offsets st; fs_cells := fs_cells st |}
  end.

Definition filter_cell (nvert : nat) (include : list bool) (tags : list Z) (st : fstate) (cell : list nat) : fstate :=
  if keep_cell include tags cell then
    let st1 := fold_left visit_vertex cell st in
    {| fs_map := fs_map st1; fs_src := fs_src st1; fs_conn := fs_conn st1;
       fs_offsets := fs_offsets st1 ++ [(fs_cells st1 + 1) * nvert]; fs_cells := fs_cells st1 + 1 |}
  else st.

Definition filter_mesh (nvert npoints : nat) (include : list bool) (tags : list Z) (cells : list (list nat)) : fstate :=
  fold_left (filter_cell nvert include tags) cells
            {| fs_map := repeat None npoints; fs_src := []; fs_conn := []; fs_offsets := []; fs_cells := 0 |}.
