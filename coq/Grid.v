(** * Grid: gwb-grid's Cartesian mesh (node numbering, connectivity) and the tag filter
    (source/gwb-grid/main.cc:632-800, 70-146). *)
From Coq Require Import List Arith Lia PeanoNat Bool ZArith.
Import ListNotations.
Local Open Scope nat_scope.

(** ** 3-D Cartesian grid, compressed node numbering: i (x) outermost, k (z) innermost *)
Definition np3 (nx ny nz : nat) : nat := (nx + 1) * (nz + 1) * (ny + 1).
Definition ncell3 (nx ny nz : nat) : nat := nx * nz * ny.
Definition node3 (ny nz i j k : nat) : nat := (ny + 1) * (nz + 1) * i + (nz + 1) * j + k.

(** the lattice coordinates of every node, in storage order *)
Definition nodes3 (nx ny nz : nat) : list (nat * nat * nat) :=
  flat_map (fun i => flat_map (fun j => map (fun k => (i, j, k)) (seq 0 (nz + 1))) (seq 0 (ny + 1))) (seq 0 (nx + 1)).

(** connectivity of cell (i,j,k), i,j,k >= 1, exactly as written in the code (natural subtraction) *)
Definition conn3 (ny nz i j k : nat) : list nat :=
  let a := (ny + 1) * (nz + 1) in let b := nz + 1 in
  [ a * (i - 1) + b * (j - 1) + k - 1;  a * i + b * (j - 1) + k - 1;  a * i + b * j + k - 1;  a * (i - 1) + b * j + k - 1;
    a * (i - 1) + b * (j - 1) + k;      a * i + b * (j - 1) + k;      a * i + b * j + k;      a * (i - 1) + b * j + k ].

Definition cells3 (nx ny nz : nat) : list (list nat) :=
  flat_map (fun i => flat_map (fun j => map (fun k => conn3 ny nz i j k) (seq 1 nz)) (seq 1 ny)) (seq 1 nx).

(** ** 2-D Cartesian grid: j (z) outer, i (x) inner *)
Definition np2 (nx nz : nat) : nat := (nx + 1) * (nz + 1).
Definition node2 (nx i j : nat) : nat := j * (nx + 1) + i.
Definition nodes2 (nx nz : nat) : list (nat * nat) :=
  flat_map (fun j => map (fun i => (i, j)) (seq 0 (nx + 1))) (seq 0 (nz + 1)).
Definition conn2 (nx i j : nat) : list nat :=
  [ i + (j - 1) * (nx + 1) - 1;  i + 1 + (j - 1) * (nx + 1) - 1;  i + 1 + j * (nx + 1) - 1;  i + j * (nx + 1) - 1 ].
Definition cells2 (nx nz : nat) : list (list nat) :=
  flat_map (fun j => map (fun i => conn2 nx i j) (seq 1 nx)) (seq 1 nz).

(** ** the tag filter (filter_vtu_mesh) *)
(** state: vertex map (source vertex -> destination vertex), number of destination vertices,
    list of copied source vertices in destination order, output connectivity, output offsets *)
Record fstate := { fs_map : list (option nat); fs_src : list nat; fs_conn : list nat; fs_offsets : list nat; fs_cells : nat }.

Definition highest_tag (tags : list Z) (cell : list nat) : Z :=
  fold_left (fun m v => Z.max m (nth v tags (-1)%Z)) cell (-1)%Z.

Definition keep_cell (include : list bool) (tags : list Z) (cell : list nat) : bool :=
  let h := highest_tag tags cell in
  if (h <? 0)%Z then false else nth (Z.to_nat h) include false.

Fixpoint set_nth {A} (l : list A) (i : nat) (v : A) : list A :=
  match l, i with
  | [], _ => []
  | _ :: r, O => v :: r
  | x :: r, S j => x :: set_nth r j v
  end.

Definition visit_vertex (st : fstate) (v : nat) : fstate :=
  match nth v (fs_map st) None with
  | Some d => {| fs_map := fs_map st; fs_src := fs_src st; fs_conn := fs_conn st ++ [d]; fs_offsets := fs_offsets st; fs_cells := fs_cells st |}
  | None =>
      let d := length (fs_src st) in
      {| fs_map := set_nth (fs_map st) v (Some d); fs_src := fs_src st ++ [v]; fs_conn := fs_conn st ++ [d];
         fs_offsets := fs_offsets st; fs_cells := fs_cells st |}
  end.

Definition filter_cell (nvert : nat) (include : list bool) (tags : list Z) (st : fstate) (cell : list nat) : fstate :=
  if keep_cell include tags cell then
    let st1 := fold_left visit_vertex cell st in
    {| fs_map := fs_map st1; fs_src := fs_src st1; fs_conn := fs_conn st1;
       fs_offsets := fs_offsets st1 ++ [(fs_cells st1 + 1) * nvert]; fs_cells := fs_cells st1 + 1 |}
  else st.

Definition filter_mesh (nvert npoints : nat) (include : list bool) (tags : list Z) (cells : list (list nat)) : fstate :=
  fold_left (filter_cell nvert include tags) cells
            {| fs_map := repeat None npoints; fs_src := []; fs_conn := []; fs_offsets := []; fs_cells := 0 |}.
