(** * FeaturesProofs: the concrete area features satisfy the feature contracts. *)
From Coq Require Import List Arith NArith Lia Bool.
From WB Require Import Num Base Props World WorldProofs WorldProofs2 Kernels Features.
Import ListNotations.

Section FP.
  Context {F : Type} {NF : Num F}.

  Lemma concat_repeat_length {A} (l : list A) k : length (concat (repeat l k)) = k * length l.
  Proof. induction k as [|k IH]; [reflexivity|]. cbn [repeat concat]. rewrite app_length, IH. lia. Qed.

  Lemma grains_eval_length sph q m c k old :
    length old = N.to_nat k * 10 -> length (grains_eval sph q m c k old) = N.to_nat k * 10.
  Proof.
    intros L. destruct m as [mn mx comps mats sizes]. cbn [grains_eval].
    destruct (in_range _ _ _); [|exact L]. destruct (in_range _ _ _); [|exact L].
    destruct (find_idx comps c 0); [|exact L].
    rewrite app_length, repeat_length, concat_repeat_length.
    rewrite firstn_length, app_length, repeat_length. lia.
  Qed.

  Lemma area_paint_len g sph a : paint_len (area_to_feature g sph a).
  Proof.
    intros q p t blk L. cbn [area_to_feature ft_paint]. unfold area_paint.
    destruct p; cbn [fst length width] in *; try reflexivity.
    - (* grains *)
      revert blk L. induction (af_grains a) as [|m ms IH]; intros blk L; [exact L|].
      cbn [fold_left]. apply IH, grains_eval_length, L.
    - destruct (fold_left _ (af_vel a) _) as [[vx vy] vz]. reflexivity.
  Qed.

  Lemma area_no_random g sph a : no_random (area_to_feature g sph a).
  Proof.
    intros q p t blk. cbn [area_to_feature ft_paint]. unfold area_paint.
    destruct p; try reflexivity.
    destruct (fold_left _ (af_vel a) _) as [[vx vy] vz]. reflexivity.
  Qed.

  Lemma area_paints_tag g sph a : paints_tag (area_to_feature g sph a).
  Proof. intros q t blk. reflexivity. Qed.
End FP.

From WB Require Import Plume.
Section PlumeP.
  Context {F : Type} {NF : Num F}.

  Lemma plume_paint_len g sph pl : paint_len (plume_to_feature g sph pl).
  Proof.
    intros q p t blk L. cbn [plume_to_feature ft_paint]. unfold plume_paint.
    destruct p; cbn [fst length width] in *; try reflexivity.
    - revert blk L. induction (pl_grains pl) as [|m ms IH]; intros blk L; [exact L|].
      cbn [fold_left]. apply IH, grains_eval_length, L.
    - destruct (fold_left _ (pl_vel pl) _) as [[vx vy] vz]. reflexivity.
  Qed.

  Lemma plume_no_random g sph pl : no_random (plume_to_feature g sph pl).
  Proof.
    intros q p t blk. cbn [plume_to_feature ft_paint]. unfold plume_paint.
    destruct p; try reflexivity.
    destruct (fold_left _ (pl_vel pl) _) as [[vx vy] vz]. reflexivity.
  Qed.

  Lemma plume_paints_tag g sph pl : paints_tag (plume_to_feature g sph pl).
  Proof. intros q t blk. reflexivity. Qed.
End PlumeP.
