(** * FeaturesProofs: the concrete features satisfy the feature contracts. *)
From Coq Require Import List Arith NArith Lia Bool.
From WB Require Import Num Base Props World WorldProofs WorldProofs2 Kernels Features Plume.
Import ListNotations.

Section FP.
  Context {F : Type} {NF : Num F}.

  Lemma concat_repeat_length {A} (l : list A) k : length (concat (repeat l k)) = k * length l.
  Proof. induction k as [|k IH]; [reflexivity|]. cbn [repeat concat]. rewrite app_length, IH. lia. Qed.

  Lemma random_rotations_spec tape k : forall t defl basis,
    let r := random_rotations tape k t defl basis in
    length (concat (fst r)) = k * 9 /\ snd r = t + 3 * k.
  Proof.
    induction k as [|k IH]; intros t defl basis; cbn [random_rotations]; [cbn; lia|].
    specialize (IH (t + 3) defl basis). cbn zeta in IH.
    destruct (random_rotations tape k (t + 3) defl basis) as [rest t']. cbn [fst snd] in *.
    destruct IH as [L T]. cbn [concat]. rewrite app_length, L. split; [|lia].
    destruct basis; cbn; lia.
  Qed.

  Lemma random_sizes_spec tape k sz : forall t,
    let r := random_sizes tape k t sz in
    length (fst r) = k /\ t <= snd r <= t + k.
  Proof.
    induction k as [|k IH]; intros t; cbn [random_sizes]; [cbn; lia|].
    destruct (flt sz f0).
    - specialize (IH (S t)). cbn zeta in IH. destruct (random_sizes tape k (S t) sz) as [rest t']. cbn [fst snd length] in *. lia.
    - specialize (IH t). cbn zeta in IH. destruct (random_sizes tape k t sz) as [rest t']. cbn [fst snd length] in *. lia.
  Qed.

  Lemma grains_eval_length tape sph q m c k st :
    length (fst st) = N.to_nat k * 10 -> length (fst (grains_eval tape sph q m c k st)) = N.to_nat k * 10.
  Proof.
    destruct st as [old t]. cbn [fst]. intros L. destruct m as [mn mx comps mats sizes|mn mx comps sizes normalize defl]; cbn [grains_eval].
    - destruct (in_range _ _ _); [|exact L]. destruct (in_range _ _ _); [|exact L].
      destruct (find_idx comps c 0); [|exact L]. cbn [fst].
      rewrite app_length, repeat_length, concat_repeat_length.
      rewrite firstn_length, app_length, repeat_length. lia.
    - destruct (in_range _ _ _); [|exact L]. destruct (in_range _ _ _); [|exact L].
      destruct (find_idx comps c 0) as [i|]; [|exact L].
      destruct (match defl with Some (ds, bs) => _ | None => _ end) as [dfl basis].
      pose proof (random_rotations_spec tape (N.to_nat k) t dfl basis) as R. cbn zeta in R.
      destruct (random_rotations tape (N.to_nat k) t dfl basis) as [mats t1]. cbn [fst snd] in R.
      pose proof (random_sizes_spec tape (N.to_nat k) (nth i sizes f0) t1) as S. cbn zeta in S.
      destruct (random_sizes tape (N.to_nat k) t1 (nth i sizes f0)) as [szs t2]. cbn [fst snd] in S.
      cbn [fst]. rewrite app_length. destruct R as [R _]. destruct S as [S _]. rewrite R.
      destruct (nth i normalize false); [rewrite map_length|]; lia.
  Qed.

  (** models that use no random draws *)
  Definition comp_nonrandom (m : @comp_model F) : Prop := match m with CRandom _ _ _ _ _ _ => False | _ => True end.
  Definition grains_nonrandom (m : @grains_model F) : Prop := match m with GRandom _ _ _ _ _ _ => False | _ => True end.

  Lemma comp_fold_nonrandom tape sph q wt c ms : Forall comp_nonrandom ms -> forall v t,
    fold_left (fun st m => comp_eval tape sph q wt m c st) ms (v, t) =
    (fst (fold_left (fun st m => comp_eval tape sph q wt m c st) ms (v, 0)), t).
  Proof.
    intros H. induction H as [|m ms Hm Hms IH]; intros v t; [reflexivity|]. cbn [fold_left].
    destruct m as [mn mx o comps fracs| |mn mx o comps lith density maxw cutoff]; [|destruct Hm|]; cbn [comp_eval].
    - destruct (in_range _ _ _); [|apply IH]. destruct (in_range _ _ _); [|apply IH].
      destruct (find_comp comps fracs c); apply IH.
    - destruct (in_range _ _ _); [|apply IH]. destruct (in_range _ _ _); [|apply IH].
      destruct (wt tt); [|apply IH]. destruct (existsb _ comps); apply IH.
  Qed.

  Lemma grains_fold_nonrandom tape sph q c k ms : Forall grains_nonrandom ms -> forall b t,
    fold_left (fun st m => grains_eval tape sph q m c k st) ms (b, t) =
    (fst (fold_left (fun st m => grains_eval tape sph q m c k st) ms (b, 0)), t).
  Proof.
    intros H. induction H as [|m ms Hm Hms IH]; intros b t; [reflexivity|]. cbn [fold_left].
    destruct m as [mn mx comps mats sizes|]; [|destruct Hm]. cbn [grains_eval].
    destruct (in_range _ _ _); [|apply IH]. destruct (in_range _ _ _); [|apply IH].
    destruct (find_idx comps c 0); apply IH.
  Qed.

  Lemma grains_fold_length tape sph q c k ms : forall st,
    length (fst st) = N.to_nat k * 10 ->
    length (fst (fold_left (fun st m => grains_eval tape sph q m c k st) ms st)) = N.to_nat k * 10.
  Proof.
    induction ms as [|m ms IH]; intros st L; [exact L|]. cbn [fold_left]. apply IH, grains_eval_length, L.
  Qed.

  Lemma area_paint_len g tape sph a : paint_len (area_to_feature g tape sph a).
  Proof.
    intros q wt p t blk L. cbn [area_to_feature ft_paint]. unfold area_paint.
    destruct p; cbn [fst length width] in *; try reflexivity.
    - destruct (fold_left _ (af_comp a) _) as [v t']. reflexivity.
    - apply grains_fold_length. exact L.
    - destruct (fold_left _ (af_vel a) _) as [[vx vy] vz]. reflexivity.
  Qed.

  Definition area_nonrandom (a : @area_feature F) : Prop :=
    Forall comp_nonrandom (af_comp a) /\ Forall grains_nonrandom (af_grains a).

  Lemma area_no_random g tape sph a : area_nonrandom a -> no_random (area_to_feature g tape sph a).
  Proof.
    intros [HC HG] q wt p t blk. cbn [area_to_feature ft_paint]. unfold area_paint.
    destruct p; try reflexivity.
    - rewrite (comp_fold_nonrandom tape sph q wt c (af_comp a) HC _ t).
      destruct (fold_left _ (af_comp a) (nth 0 blk f0, 0)) as [v t']. reflexivity.
    - rewrite (grains_fold_nonrandom tape sph q c k (af_grains a) HG blk t). reflexivity.
    - destruct (fold_left _ (af_vel a) _) as [[vx vy] vz]. reflexivity.
  Qed.

  Lemma area_paints_tag g tape sph a : paints_tag (area_to_feature g tape sph a).
  Proof. intros q wt t blk. reflexivity. Qed.

  Lemma plume_paint_len g tape sph pl : paint_len (plume_to_feature g tape sph pl).
  Proof.
    intros q wt p t blk L. cbn [plume_to_feature ft_paint]. unfold plume_paint.
    destruct p; cbn [fst length width] in *; try reflexivity.
    - destruct (fold_left _ (pl_comp pl) _) as [v t']. reflexivity.
    - apply grains_fold_length. exact L.
    - destruct (fold_left _ (pl_vel pl) _) as [[vx vy] vz]. reflexivity.
  Qed.

  Definition plume_nonrandom (pl : @plume_feature F) : Prop :=
    Forall comp_nonrandom (pl_comp pl) /\ Forall grains_nonrandom (pl_grains pl).

  Lemma plume_no_random g tape sph pl : plume_nonrandom pl -> no_random (plume_to_feature g tape sph pl).
  Proof.
    intros [HC HG] q wt p t blk. cbn [plume_to_feature ft_paint]. unfold plume_paint.
    destruct p; try reflexivity.
    - rewrite (comp_fold_nonrandom tape sph q wt c (pl_comp pl) HC _ t).
      destruct (fold_left _ (pl_comp pl) (nth 0 blk f0, 0)) as [v t']. reflexivity.
    - rewrite (grains_fold_nonrandom tape sph q c k (pl_grains pl) HG blk t). reflexivity.
    - destruct (fold_left _ (pl_vel pl) _) as [[vx vy] vz]. reflexivity.
  Qed.

  Lemma plume_paints_tag g tape sph pl : paints_tag (plume_to_feature g tape sph pl).
  Proof. intros q wt t blk. reflexivity. Qed.
End FP.
