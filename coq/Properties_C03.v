(** * C03 - outside every feature the background state is returned; forced surface temperature. *)
From Coq Require Import List Arith NArith Bool.
From WB Require Import Num Base Props World WorldProofs WorldProofs2.
Import ListNotations.

Section C03.
  Context {F : Type} {NF : Num F}.
  Notation world := (@world F).
  Local Open Scope num_scope.

  (** what the property calls the background state, written independently of the evaluator *)
  Definition background_block (w : world) (depth : F) (p : prop_req) : list F :=
    match p with
    | PTemp => [if (fabs depth <? (f2 * feps)) && w_force w then w_Ts w
                else w_Tp w * fexp (((w_alpha w * w_gravity w) / w_cp w) * depth)]
    | PComp _ => [f0]
    | PGrains _ k => repeat f0 (N.to_nat k * 10)
    | PTag => [- f1]
    | PVel => [f0; f0; f0]
    end.

  Lemma init_block_background (w : world) depth p :
    init_block w (w_gravity w) depth p = background_block w depth p.
  Proof. destruct p; reflexivity. Qed.

  (** at a point that no feature contains the answer is the concatenation of the background blocks
      (any depth, including 0 and negative; any request list; empty feature list included) *)
  Theorem C03_background : forall (w : world) pos depth ps t r t',
    Forall (fun f => ft_covers f (mk_query w pos depth) = false) (w_features w) ->
    properties3d w pos depth ps t = Ok (r, t') ->
    r = concat (map (background_block w depth) ps) /\ t' = t.
  Proof.
    intros w pos depth ps t r t' H E.
    destruct (outside_all_features w pos depth ps t r t' H E) as [-> ->]. split; [|reflexivity].
    unfold init_out. apply f_equal. apply map_ext. intros p. apply init_block_background.
  Qed.

  (** forced surface temperature: whatever the features and however the request is batched *)
  Theorem C03_forced : forall (w : world) pos depth ps t r t' i,
    world_ok w -> world_no_random w ->
    w_force w = true -> (fabs depth <? (f2 * feps)) = true ->
    properties3d w pos depth ps t = Ok (r, t') ->
    nth_error ps i = Some PTemp ->
    slice (nth i (offsets ps) 0) 1 r = [w_Ts w].
  Proof.
    intros w pos depth ps t r t' i WO WN Hf Hd E Hp.
    destruct (properties3d_blocks w pos depth ps t r t' WO WN E) as (_ & _ & B).
    assert (Hi : i < length ps) by (apply nth_error_Some; congruence).
    unfold offsets. rewrite (offsets_from_nth ps 0 i Hi). cbn [Nat.add].
    change 1 with (width PTemp). rewrite (B i PTemp Hp).
    unfold block_value, registered, forced. rewrite Hd, Hf. cbn [andb negb init_block].
    unfold forced. rewrite Hd, Hf. reflexivity.
  Qed.
End C03.

Print Assumptions C03_background.
Print Assumptions C03_forced.
