(** * RNum: the exact-real interpretation of the number interface.
    [R] theorems are proved about the generic model instantiated here.  Functions that the
    standard library does not define (erfc, atan2) are fields of a record [special] that the
    theorems quantify over; the laws they need are explicit premises ([SpecialLaws]), never axioms. *)
From Coq Require Import Reals ZArith Bool Lra.
From WB Require Import Num.
Local Open Scope R_scope.

Record special := { sp_erfc : R -> R; sp_atan2 : R -> R -> R }.

(** what the theorems assume about the functions the standard library does not provide; these are
    true facts of erfc and atan2 and appear only as premises *)
Record special_laws (sp : special) : Prop := {
  atan2_polar : forall rho th, 0 < rho -> - PI < th <= PI -> sp_atan2 sp (rho * sin th) (rho * cos th) = th;
  erfc_0 : sp_erfc sp 0 = 1;
  erfc_range : forall x, 0 <= x -> 0 <= sp_erfc sp x <= 1;
  erfc_decreasing : forall x y, 0 <= x <= y -> sp_erfc sp y <= sp_erfc sp x
}.

Definition Rltb (x y : R) : bool := if Rlt_dec x y then true else false.
Definition Rleb (x y : R) : bool := if Rle_dec x y then true else false.
Definition Reqb (x y : R) : bool := if Req_EM_T x y then true else false.

Lemma Rltb_spec x y : reflect (x < y) (Rltb x y).
Proof. unfold Rltb. destruct (Rlt_dec x y); constructor; auto. Qed.
Lemma Rleb_spec x y : reflect (x <= y) (Rleb x y).
Proof. unfold Rleb. destruct (Rle_dec x y); constructor; auto. Qed.
Lemma Reqb_spec x y : reflect (x = y) (Reqb x y).
Proof. unfold Reqb. destruct (Req_EM_T x y); constructor; auto. Qed.

Definition Rfloor (x : R) : R := IZR (Int_part x).

Definition Rnum (sp : special) : Num R := {|
  f0 := 0; f1 := 1;
  fadd := Rplus; fsub := Rminus; fmul := Rmult; fdiv := Rdiv;
  fopp := Ropp; fabs := Rabs; fsqrt := sqrt;
  fexp := exp; fsin := sin; fcos := cos; ftan := tan;
  facos := acos; fasin := asin; ftanh := tanh; ferfc := sp_erfc sp;
  ffloor := Rfloor; flog := ln; flog10 := fun x => (ln x / ln 10)%R;
  fatan2 := sp_atan2 sp; fpow := Rpower;
  ffmod := fun x y => x - y * Rfloor (x / y);
  flt := Rltb; fle := Rleb; feqb := Reqb;
  fofZ := IZR;
  fdec := fun m e => IZR m * powerRZ 10 e;
  feps := powerRZ 2 (-52);
  fdmin := powerRZ 2 (-1022);
  fdmax := (2 - powerRZ 2 (-52)) * powerRZ 2 1023;
  fpi := PI;
  fnan := 0;                       (* there is no NaN in R; theorems never rely on its value *)
  fisfinite := fun _ => true
|}.

Lemma feps_pos sp : 0 < @feps R (Rnum sp).
Proof. change (0 < powerRZ 2 (-52)). apply powerRZ_lt. lra. Qed.
