(** * C07 - acceleration shortcuts never change an answer.
    Proved: the surface pre-test, the kd shortcut, and the sufficiency of the slab/fault depth cut-off and horizontal
    reach for chains of straight pieces and circular arcs (the planar construction of C06).  The 3-D frame around curved
    trenches and spherical worlds: decided by the hook on/off oracle. *)
From Coq Require Import Reals Lra List.
From WB Require Import Num Base RNum Kernels KdSpec KdProofs SurfaceProofs Bezier SlabSpec SlabSpecProofs HullProofs.
Import ListNotations.
Local Open Scope R_scope.

Section C07.
  Variable sp : special.
  Local Existing Instance Rnum.
  Let N := Rnum sp.

  (** min/max pre-test of area features: inside a triangle the interpolated depth lies between the
      smallest and largest nodal value, so the global pre-test (depth against the minimum of the min
      surface / maximum of the max surface) never rejects a point the local test accepts *)
  Theorem C07_pretest : forall v0 v1 v2 s t lo hi,
    0 <= s -> 0 <= t -> s + t <= 1 -> lo <= v0 <= hi -> lo <= v1 <= hi -> lo <= v2 <= hi ->
    lo <= v0 * (1 - s - t) + v1 * s + v2 * t <= hi.
  Proof. exact interpolation_bounded. Qed.

  (** nearest-triangle search: the kd shortcut returns a true nearest centroid; the value returned by
      local_value is that of a triangle containing the point whichever search order found it, and on
      a shared edge/any containing non-degenerate triangle affine data give the same value *)
  Theorem C07_kd_is_exact : forall (nodes : list (@kdnode R)) cp,
    nodes <> [] ->
    (forall i, (i < length nodes)%nat -> KdSpec.dist (KdSpec.node (pts nodes) i) cp < @fdmax R N) ->
    KdSpec.kd_inv (length nodes) (pts nodes) 0 (length nodes - 1) false ->
    let res := fst (@find_closest_points R N nodes cp) in
    forall i, (i < length nodes)%nat -> snd res <= @kd_dist R N (nth i nodes (@kd_default R N)) cp.
  Proof. intros nodes cp H1 H2 H3 res i Hi. apply (find_closest_points_correct sp nodes cp H1 H2 H3). exact Hi. Qed.

  (** depth cut-off of slabs and faults, chains of straight pieces: a point whose foot has arclength a on a
      piece (0 <= a <= L) after the pieces [prefix], offset 0 <= d along the downward normal, lies no deeper
      below the start of the surface than (length of the prefix + L) + d; so every member of the feature
      (along <= total length, distance <= thickness) passes depth <= min depth + total length + thickness *)
  Theorem C07_depth_cutoff_straight : forall prefix sy L th a d,
    (forall L' th', In (L', th') prefix -> 0 <= L') -> 0 <= a <= L -> 0 <= d ->
    chain_end_depth prefix sy + a * sin th + d * cos th <= sy + (chain_length prefix + L) + d.
  Proof. intros prefix sy L th a d H1 H2 H3. exact (cutoff_sufficient_straight prefix sy L th a d H1 H2 H3). Qed.

  (** surface bounding box of slabs and faults (Cartesian): every point of the trench curve lies in the box of its
      segment's two coordinates and two control points ... *)
  Theorem C07_trench_in_control_box : forall (b : @bezier R) i t lox hix loy hiy, 0 <= t <= 1 ->
    let P0 := @pnth R N (bz_points b) i in
    let P1 := @pnth R N (bz_points b) (i + 1) in
    let C := nth i (bz_ctrl b) (@p0 R N, @p0 R N) in
    lox <= fst P0 <= hix -> lox <= fst (fst C) <= hix -> lox <= fst (snd C) <= hix -> lox <= fst P1 <= hix ->
    loy <= snd P0 <= hiy -> loy <= snd (fst C) <= hiy -> loy <= snd (snd C) <= hiy -> loy <= snd P1 <= hiy ->
    lox <= fst (@bezier_eval R N b i t) <= hix /\ loy <= snd (@bezier_eval R N b i t) <= hiy.
  Proof. intros b i t lox hix loy hiy Ht. exact (bezier_in_control_box sp b i t lox hix loy hiy Ht). Qed.

  (** ... and a member of a chain of straight pieces lies horizontally within (total length + |distance from the
      surface|) of its foot on the trench: the buffer total length + max(thickness, -top truncation) suffices
      (the -top truncation part was missing in the implementation: defect D28, found while stating this theorem) *)
  Theorem C07_horizontal_reach_straight : forall prefix sx L th a d,
    (forall L' th', In (L', th') prefix -> 0 <= L') -> 0 <= a <= L ->
    Rabs (chain_end_x prefix sx + a * cos th - d * sin th - sx) <= (chain_length prefix + L) + Rabs d.
  Proof. intros prefix sx L th a d H1 H2. exact (reach_sufficient_straight prefix sx L th a d H1 H2). Qed.

  (** the same two bounds for every chain the planar specification of C06 can walk - straight pieces *and arcs*
      (dip varying linearly with arclength): a point whose foot lies on the piece [p] that follows the pieces
      [prefix] (at arclength [a] of a straight piece, at the dip [phi] of an arc) and that is offset by [d] along the
      normal lies horizontally within, and no deeper below the start of the surface than, the length of the chain up
      to the end of that piece + |d|.  With along <= total length and |d| <= max(thickness, -top truncation) this
      is the depth cut-off (min depth + total length + thickness) and the buffer of the surface bounding box. *)
  Theorem C07_reach_and_cutoff_chain : forall (prefix : list (@piece R)) sx sy p a phi d,
    Forall (fun q => 0 <= pc_len q) prefix -> 0 <= pc_len p -> foot_on_piece sp p a phi ->
    let s := gchain_end sp prefix sx sy in
    let q := on_piece sp (fst s) (snd s) p a phi d in
    Rabs (fst q - sx) <= (glength prefix + pc_len p) + Rabs d /\
    snd q - sy <= (glength prefix + pc_len p) + Rabs d.
  Proof. exact (reach_and_cutoff_general sp). Qed.

  (** [gchain_end] is where the specification starts the next piece: the start of piece j handed to [eval_piece]
      by [planar_chain] is the end of the chain of the first j pieces *)
  Theorem C07_chain_walk : forall (ps : list (@piece R)) sx sy p,
    gchain_end sp (ps ++ [p]) sx sy =
    (pe_ex (@eval_piece R N (fst (gchain_end sp ps sx sy)) (snd (gchain_end sp ps sx sy)) p 0 0),
     pe_ey (@eval_piece R N (fst (gchain_end sp ps sx sy)) (snd (gchain_end sp ps sx sy)) p 0 0)).
  Proof. exact (gchain_end_snoc sp). Qed.
End C07.

Print Assumptions C07_pretest.
Print Assumptions C07_kd_is_exact.
Print Assumptions C07_depth_cutoff_straight.
Print Assumptions C07_trench_in_control_box.
Print Assumptions C07_horizontal_reach_straight.
Print Assumptions C07_reach_and_cutoff_chain.
Print Assumptions C07_chain_walk.
